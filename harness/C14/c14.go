//go:build verif

package main

// C14 — identical questions reach a server once; concurrency stays bounded.
//
// Sequential correspondence (compared with the Coq models by coqc):
//   cache : queryCache.get/set/gc with an injected clock, random op sequences hitting the expiry/staleness boundaries
//   lock  : partitionLocker driven by a deterministic scheduler (each caller is a goroutine parked on channels;
//           the driver releases one action at a time, so the real object sees the action sequence the model replays)
//   job   : processJob with scripted queriers
// Concurrency oracle (property as written, on the real client + worker pool + net/http):
//   stress: K callers x small question sets x pool sizes against a fake server that records every request's
//           start and end: max overlap per identical request <= 1, total overlap <= concurrency,
//           <= 1 successful request per question, all callers of a question get equal results.

import (
	"context"
	"encoding/json"
	"fmt"
	"io"
	"log/slog"
	"math/rand"
	"net/http"
	"os"
	"sort"
	"strings"
	"sync"
	"sync/atomic"
	"time"

	"github.com/prometheus/client_golang/prometheus"

	"github.com/cloudflare/pint/internal/promapi"
)

func init() { register("C14", runC14) }

var c14Base = time.Unix(1700000000, 0)

// ---------------------------------------------------------------------------------------------
// 1. queryCache

type c14CacheOp struct {
	Op   string `json:"op"`
	Now  int64  `json:"now"`
	Key  int    `json:"key"`
	Val  int64  `json:"val,omitempty"`
	TTL  int64  `json:"ttl,omitempty"`
	Got  *int64 `json:"got"`
	Keys []int  `json:"keys"`
	Ev   int    `json:"evictions"`
	Hits int    `json:"hits"`
	Miss int    `json:"misses"`
}

func c14GenCache(r *rand.Rand, id int) (string, any, bool) {
	maxStale := []int64{int64(time.Hour), int64(10 * time.Second), int64(time.Minute)}[r.Intn(3)]
	now := int64(0)
	clock := func() time.Time { return c14Base.Add(time.Duration(now)) }
	c := promapi.C14NewCache(time.Duration(maxStale), clock)
	nops := 10 + r.Intn(30)
	var ops []c14CacheOp
	var interesting []int64 // absolute times at which something expires / goes stale
	evicted := false
	for i := 0; i < nops; i++ {
		// advance the clock: stay, small step, or jump exactly onto / just around a boundary
		switch r.Intn(6) {
		case 0:
		case 1:
			now += int64(r.Intn(3)) * int64(time.Second)
		case 2, 3:
			if len(interesting) > 0 {
				t := interesting[r.Intn(len(interesting))] + int64(r.Intn(3)-1)
				if t > now {
					now = t
				}
			}
		default:
			now += int64(r.Intn(20)) * int64(time.Second) / 4
		}
		op := c14CacheOp{Now: now, Key: r.Intn(5)}
		switch k := r.Intn(10); {
		case k < 4:
			op.Op = "get"
			v, ok := c.Get(uint64(op.Key), "/api/v1/query")
			if ok {
				x := int64(v.(int))
				op.Got = &x
				interesting = append(interesting, now+maxStale)
			}
		case k < 8:
			op.Op = "set"
			op.Val = int64(r.Intn(1000))
			op.TTL = []int64{0, -1, int64(5 * time.Second), int64(time.Minute), int64(2 * time.Second)}[r.Intn(5)]
			c.Set(uint64(op.Key), int(op.Val), time.Duration(op.TTL))
			if op.TTL > 0 {
				interesting = append(interesting, now+op.TTL)
			}
			interesting = append(interesting, now+maxStale)
		default:
			op.Op = "gc"
			c.GC()
		}
		keys, ev, hits, miss := c.Snapshot()
		for _, k := range keys {
			op.Keys = append(op.Keys, int(k))
		}
		op.Ev, op.Hits, op.Miss = ev, hits, miss
		if ev > 0 {
			evicted = true
		}
		ops = append(ops, op)
	}
	var terms []string
	for _, o := range ops {
		var opT string
		switch o.Op {
		case "get":
			opT = fmt.Sprintf("CGet %s %s", coqZ(o.Now), coqN(o.Key))
		case "set":
			opT = fmt.Sprintf("CSet %s %s %s %s", coqZ(o.Now), coqN(o.Key), coqZ(o.Val), coqZ(o.TTL))
		default:
			opT = fmt.Sprintf("CGc %s", coqZ(o.Now))
		}
		got := "None"
		if o.Got != nil {
			got = "(Some " + coqZ(*o.Got) + ")"
		}
		ks := make([]string, len(o.Keys))
		for i, k := range o.Keys {
			ks[i] = coqN(k)
		}
		terms = append(terms, fmt.Sprintf("(%s, mk_cobs %s %s %s %s %s)", opT, got, coqList(ks), coqZ(int64(o.Ev)), coqZ(int64(o.Hits)), coqZ(int64(o.Miss))))
	}
	term := fmt.Sprintf("CacheCase %s %s %s", coqN(id), coqZ(maxStale), coqList(terms))
	return term, map[string]any{"kind": "cache", "max_stale": maxStale, "ops": ops}, evicted
}

// ---------------------------------------------------------------------------------------------
// 2. partitionLocker under a deterministic scheduler

type c14LockEvent struct {
	Ev   string `json:"ev"` // acq | rel | snap
	G    int    `json:"g,omitempty"`
	Held []int  `json:"held,omitempty"`
}

const c14StressDeadline = 60 * time.Second // a stress run needs well under a second

var c14HungSeen atomic.Bool // after the first deadlocked run the remaining stress runs are skipped

const (
	c14Grant  = 20 * time.Second      // an enabled action must happen within this (generous: only a lost wakeup hits it)
	c14Settle = 3 * time.Millisecond // how long we look for an acquisition that must NOT happen
)

// c14GenLock drives K goroutines over a few lock ids.  Returns the Coq term, the replayable record, whether
// there was contention, and oracle failures (mutual exclusion / lost wakeup / lost unlock seen directly).
func c14GenLock(r *rand.Rand, id int) (string, any, bool, []string) {
	K := 3 + r.Intn(6)
	nids := 1 + r.Intn(3)
	keys := make([]int, K)
	for g := range keys {
		keys[g] = r.Intn(nids)
	}
	l := promapi.C14NewLocker()
	acquired := make(chan int, K)
	released := make(chan int, K)
	releaseCh := make([]chan struct{}, K)
	var events []c14LockEvent
	var fails []string
	holder := map[int]int{}      // key -> goroutine holding it (harness view = what the real locker granted)
	waiting := map[int][]int{}   // key -> goroutines blocked in lock()
	started := 0
	contention := false
	idStr := func(k int) string { return fmt.Sprintf("/api/v1/query/key%d", k) }
	snap := func() {
		var hs []int
		for _, s := range l.Held() {
			var k int
			fmt.Sscanf(s, "/api/v1/query/key%d", &k)
			hs = append(hs, k)
		}
		sort.Ints(hs)
		events = append(events, c14LockEvent{Ev: "snap", Held: hs})
	}
	noSpurious := func(what string) {
		select {
		case g := <-acquired:
			fails = append(fails, fmt.Sprintf("%s: goroutine %d acquired key %d while goroutine %d still holds it (mutual exclusion)", what, g, keys[g], holder[keys[g]]))
			events = append(events, c14LockEvent{Ev: "acq", G: g})
		case <-time.After(c14Settle):
		}
	}
	steps := 0
	for (started < K || len(holder) > 0) && len(fails) == 0 && steps < 200 {
		steps++
		canStart := started < K
		var holders []int
		for _, g := range holder {
			holders = append(holders, g)
		}
		sort.Ints(holders)
		if canStart && (len(holders) == 0 || r.Intn(2) == 0) {
			g := started
			started++
			k := keys[g]
			releaseCh[g] = make(chan struct{})
			go func() {
				l.Lock(idStr(k))
				acquired <- g
				<-releaseCh[g]
				l.Unlock(idStr(k))
				released <- g
			}()
			if _, busy := holder[k]; !busy {
				select {
				case got := <-acquired:
					if got != g {
						fails = append(fails, fmt.Sprintf("goroutine %d acquired instead of %d", got, g))
					}
					holder[keys[got]] = got
					events = append(events, c14LockEvent{Ev: "acq", G: got})
				case <-time.After(c14Grant):
					fails = append(fails, fmt.Sprintf("key %d is free but lock() did not return for goroutine %d", k, g))
				}
			} else {
				contention = true
				waiting[k] = append(waiting[k], g)
				noSpurious("lock of a held key")
			}
		} else if len(holders) > 0 {
			g := holders[r.Intn(len(holders))]
			k := keys[g]
			close(releaseCh[g])
			select {
			case <-released:
			case <-time.After(c14Grant):
				fails = append(fails, fmt.Sprintf("unlock by goroutine %d did not return", g))
			}
			delete(holder, k)
			events = append(events, c14LockEvent{Ev: "rel", G: g})
			if ws := waiting[k]; len(ws) > 0 {
				select {
				case got := <-acquired:
					if keys[got] != k {
						fails = append(fails, fmt.Sprintf("goroutine %d (key %d) acquired after key %d was released", got, keys[got], k))
					}
					holder[keys[got]] = got
					events = append(events, c14LockEvent{Ev: "acq", G: got})
					var rest []int
					for _, w := range ws {
						if w != got {
							rest = append(rest, w)
						}
					}
					waiting[k] = rest
					if len(rest) > 0 {
						noSpurious("second waiter after one release")
					}
				case <-time.After(c14Grant):
					fails = append(fails, fmt.Sprintf("key %d released but none of the waiters %v acquired it (lost wakeup)", k, ws))
				}
			}
		}
		snap()
	}
	// everything released: the locker must be empty
	if len(fails) == 0 {
		if h := l.Held(); len(h) != 0 {
			fails = append(fails, fmt.Sprintf("all callers returned but keys %v are still locked (lost unlock)", h))
		}
	}
	var evT []string
	for _, e := range events {
		switch e.Ev {
		case "acq":
			evT = append(evT, fmt.Sprintf("LAcq %d", e.G))
		case "rel":
			evT = append(evT, fmt.Sprintf("LRel %d", e.G))
		default:
			hs := make([]string, len(e.Held))
			for i, h := range e.Held {
				hs[i] = fmt.Sprint(h)
			}
			evT = append(evT, "LSnap "+coqList(hs))
		}
	}
	ks := make([]string, K)
	for i, k := range keys {
		ks[i] = fmt.Sprint(k)
	}
	term := fmt.Sprintf("LockCase %s %s %s", coqN(id), coqList(ks), coqList(evT))
	return term, map[string]any{"kind": "lock", "keys": keys, "events": events}, contention, fails
}

// ---------------------------------------------------------------------------------------------
// 3. processJob with scripted queriers

var c14Apis = []struct{ Coq, Path string }{
	{"ApiQuery", promapi.APIPathQuery}, {"ApiRange", promapi.APIPathQueryRange}, {"ApiConfig", promapi.APIPathConfig},
	{"ApiFlags", promapi.APIPathFlags}, {"ApiMetadata", promapi.APIPathMetadata},
}

var c14Outcomes = []struct{ Coq, Go string }{
	{"OkVal", ""}, {"OkVal", ""}, {"OkVal", ""}, {"ErrGeneric", "generic"}, {"ErrServer", "server"}, {"ErrUnsupportedApi", "unsupported"}, {"ErrCanceled", "canceled"},
}

type c14JobOp struct {
	Op      string `json:"op"`
	Now     int64  `json:"now"`
	Key     int    `json:"key"`
	API     string `json:"api,omitempty"`
	TTL     int64  `json:"ttl,omitempty"`
	Val     int    `json:"val,omitempty"`
	Outcome string `json:"outcome,omitempty"`
	Got     int    `json:"got"`
	Err     string `json:"err"`
	Ran     bool   `json:"ran"`
	Keys    []int  `json:"keys"`
}

func c14GenJobs(r *rand.Rand, id int) (string, any, bool) {
	maxStale := []int64{int64(time.Hour), int64(20 * time.Second)}[r.Intn(2)]
	now := int64(0)
	prom := promapi.C14NewProm(time.Duration(maxStale), func() time.Time { return c14Base.Add(time.Duration(now)) })
	n := 8 + r.Intn(25)
	var ops []c14JobOp
	var terms []string
	hit := false
	for i := 0; i < n; i++ {
		now += int64(r.Intn(8)) * int64(time.Second)
		if r.Intn(7) == 0 {
			prom.C14CacheGC()
			op := c14JobOp{Op: "gc", Now: now}
			for _, k := range prom.C14CacheKeys() {
				op.Keys = append(op.Keys, int(k))
			}
			ops = append(ops, op)
			terms = append(terms, fmt.Sprintf("(JGc %s, mk_jobs 0%%Z \"\" false %s)", coqZ(now), c14CoqNs(op.Keys)))
			continue
		}
		a := c14Apis[r.Intn(len(c14Apis))]
		oc := c14Outcomes[r.Intn(len(c14Outcomes))]
		op := c14JobOp{Op: "run", Now: now, Key: r.Intn(4), API: a.Coq, TTL: []int64{0, int64(5 * time.Second), int64(time.Minute)}[r.Intn(3)], Val: 1 + r.Intn(999), Outcome: oc.Go}
		op.Got, op.Err, op.Ran = promapi.C14ProcessJob(prom, uint64(op.Key), a.Path, time.Duration(op.TTL), op.Val, oc.Go)
		if !op.Ran && op.Err == "" {
			hit = true
		}
		for _, k := range prom.C14CacheKeys() {
			op.Keys = append(op.Keys, int(k))
		}
		ops = append(ops, op)
		terms = append(terms, fmt.Sprintf("(JRun %s %s %s %s %s %s, mk_jobs %s %s %s %s)", coqZ(now), coqN(op.Key), a.Coq, coqZ(op.TTL), coqZ(int64(op.Val)), oc.Coq,
			coqZ(int64(op.Got)), coqStr(op.Err), coqBool(op.Ran), c14CoqNs(op.Keys)))
	}
	term := fmt.Sprintf("JobCase %s %s %s", coqN(id), coqZ(maxStale), coqList(terms))
	return term, map[string]any{"kind": "job", "max_stale": maxStale, "ops": ops}, hit
}

func c14CoqNs(xs []int) string {
	out := make([]string, len(xs))
	for i, x := range xs {
		out[i] = coqN(x)
	}
	return coqList(out)
}

// ---------------------------------------------------------------------------------------------
// 3b. the composed pipeline, sequentially: real Prometheus.Query/Config/Flags/Metadata (lock -> queue -> worker ->
// cache -> HTTP) called one at a time against a scripted server; per call: was a request sent, what came back.

type c14PipeCall struct {
	Q       int   `json:"question"`
	Fail    bool  `json:"server_fails"` // what the server will do IF it is asked
	Asked   bool  `json:"request_sent"`
	OK      bool  `json:"ok"`
	Value   int64 `json:"value"`
}

// what the timed pipeline sequences exercised (reported in the evidence histogram)
var c14PipeHist = map[string]int{}

// oracle failures found while generating the timed pipeline sequences (reported by runC14)
type c14PipeFail struct {
	id   int
	what string
	rec  any
}

var c14PipeFails []c14PipeFail

func c14GenPipe(r *rand.Rand, id int) (string, any, bool) {
	questions := []c14Question{{Kind: "query", Arg: "up"}, {Kind: "query", Arg: "count(up)"}, {Kind: "config"}, {Kind: "flags"}, {Kind: "metadata", Arg: "foo_total"}, {Kind: "metadata", Arg: "bar"}}
	var failNext atomic.Bool
	var asked atomic.Int64
	var serial atomic.Int64
	up := newHTTPUpstream(func(w http.ResponseWriter, req *http.Request) {
		_ = req.ParseForm()
		asked.Add(1)
		if failNext.Load() {
			w.WriteHeader(400)
			_, _ = io.WriteString(w, `{"status":"error","errorType":"bad_data","error":"scripted failure"}`)
			return
		}
		n := serial.Add(1)
		w.Header().Set("Content-Type", "application/json")
		switch req.URL.Path {
		case promapi.APIPathQuery:
			fmt.Fprintf(w, `{"status":"success","data":{"resultType":"vector","result":[{"metric":{"req":"%d"},"value":[1700000000,"1"]}]}}`, n)
		case promapi.APIPathConfig:
			fmt.Fprintf(w, `{"status":"success","data":{"yaml":"global:\n  external_labels:\n    req: \"%d\"\n"}}`, n)
		case promapi.APIPathFlags:
			fmt.Fprintf(w, `{"status":"success","data":{"req":"%d"}}`, n)
		case promapi.APIPathMetadata:
			fmt.Fprintf(w, `{"status":"success","data":{%q:[{"type":"gauge","help":"%d","unit":""}]}}`, req.Form.Get("metric"), n)
		}
	})
	defer up.Close()
	pool := 1 + r.Intn(3)
	// injected clock: it advances between calls; gc runs between calls.  TTLs are those of the real query types.
	var clock atomic.Int64
	maxStale := []time.Duration{30 * time.Second, 3 * time.Minute, time.Hour}[r.Intn(3)]
	prom := promapi.C14StartPipeline(up.URL, pool, maxStale, func() time.Time { return c14Base.Add(time.Duration(clock.Load())) })
	defer prom.Close()
	tInstant, tConfig, tFlags, tMeta := promapi.C14TTLs()
	ttls := []time.Duration{tInstant, tInstant, tConfig, tFlags, tMeta, tMeta} // per question of `questions`
	n := 6 + r.Intn(14)
	calls := make([]c14PipeCall, n)
	var ops []string
	var opsJSON []any
	lastSet := map[int]int64{} // question -> clock value of its last successful request
	hit := false
	ctx := context.Background()
	// oracle "answered once per cache lifetime": a question answered successfully at clock t must not reach the server again while no
	// gc has run since and the clock is still within t + TTL (nothing but gc may remove an answer, and gc only after its TTL or maxStale)
	gcSince := map[int]bool{}
	var oracleFail string
	burst, burstQ := 0, 0
	for i := range calls {
		// refresh burst: the clock jumps past the TTL of an answered question WITHOUT a gc, then the question is asked three times in a
		// row (the first may refresh the answer; the others must be served from it)
		if burst == 0 && len(lastSet) > 0 && i+3 <= len(calls) && r.Intn(4) == 0 {
			qs := make([]int, 0, len(lastSet))
			for q := range lastSet {
				qs = append(qs, q)
			}
			sort.Ints(qs)
			burstQ = qs[r.Intn(len(qs))]
			d := lastSet[burstQ] + int64(ttls[burstQ]) + 1 + int64(r.Intn(3))*int64(time.Second) - clock.Load()
			if d > 0 {
				clock.Add(d)
				ops = append(ops, fmt.Sprintf("PTick %s", coqZ(d)))
				opsJSON = append(opsJSON, map[string]any{"tick_ns": d})
			}
			burst = 3
			c14PipeHist["pipeline:refresh-burst-after-ttl"]++
		}
		// time passes: small steps, and jumps exactly onto / 1 ns before / 1 ns after an entry's expiry or staleness instant
		if burst == 0 && r.Intn(5) < 2 {
			var d int64
			switch r.Intn(6) {
			case 0:
				d = int64(time.Duration(1+r.Intn(50)) * time.Second)
			case 1:
				d = int64(maxStale) + int64(r.Intn(3)) - 1
			case 2, 3:
				if len(lastSet) > 0 {
					qs := make([]int, 0, len(lastSet))
					for q := range lastSet {
						qs = append(qs, q)
					}
					sort.Ints(qs)
					q := qs[r.Intn(len(qs))]
					d = lastSet[q] + int64(ttls[q]) + int64(r.Intn(3)) - 1 - clock.Load()
				}
			case 4:
				d = int64(time.Duration(1+r.Intn(12)) * time.Minute)
			default:
				d = int64(r.Intn(3))
			}
			if d < 0 {
				d = 0
			}
			clock.Add(d)
			ops = append(ops, fmt.Sprintf("PTick %s", coqZ(d)))
			opsJSON = append(opsJSON, map[string]any{"tick_ns": d})
		}
		if burst == 0 && r.Intn(3) == 0 {
			left := prom.C14Gc()
			ops = append(ops, fmt.Sprintf("PGc %d", left))
			opsJSON = append(opsJSON, map[string]any{"gc_entries_left": left})
			for q := range lastSet {
				gcSince[q] = true
			}
		}
		c := &calls[i]
		c.Q = r.Intn(len(questions))
		c.Fail = r.Intn(4) == 0
		if burst > 0 {
			c.Q, c.Fail = burstQ, false
			burst--
		}
		failNext.Store(c.Fail)
		before := asked.Load()
		q := questions[c.Q]
		var res string
		var err error
		switch q.Kind {
		case "query":
			var qr *promapi.QueryResult
			qr, err = prom.Query(ctx, q.Arg)
			if err == nil {
				for _, x := range qr.Series {
					res = x.Labels.Get("req")
				}
			}
		case "config":
			var cr *promapi.ConfigResult
			cr, err = prom.Config(ctx, 0)
			if err == nil {
				res = cr.Config.Global.ExternalLabels["req"]
			}
		case "flags":
			var fr *promapi.FlagsResult
			fr, err = prom.Flags(ctx)
			if err == nil {
				res = fr.Flags["req"]
			}
		case "metadata":
			var mr *promapi.MetadataResult
			mr, err = prom.Metadata(ctx, q.Arg)
			if err == nil {
				for _, m := range mr.Metadata {
					res = m.Help
				}
			}
		}
		c.Asked = asked.Load() > before
		c.OK = err == nil
		if c.OK {
			fmt.Sscanf(res, "%d", &c.Value)
			if !c.Asked {
				hit = true
				if clock.Load() > lastSet[c.Q] {
					c14PipeHist["pipeline:hit-after-time-passed"]++
				}
			} else {
				if t0, again := lastSet[c.Q]; again {
					c14PipeHist["pipeline:asked-again-after-eviction"]++
					if !gcSince[c.Q] && clock.Load()-t0 <= int64(ttls[c.Q]) && oracleFail == "" {
						oracleFail = fmt.Sprintf("pipeline call %d: question %d (%s) was answered successfully at clock +%s, no gc has run since and its TTL (%s) has not run out at +%s, yet the identical question reached the server again: the answer is not reused for its cache lifetime",
							i+1, c.Q, questions[c.Q].String(), time.Duration(t0), ttls[c.Q], time.Duration(clock.Load()))
					}
				}
				lastSet[c.Q] = clock.Load()
				gcSince[c.Q] = false
			}
		}
		ops = append(ops, fmt.Sprintf("PCall (mk_pcall %d %s %s %s %d)", c.Q, coqBool(c.Fail), coqBool(c.Asked), coqBool(c.OK), c.Value))
		opsJSON = append(opsJSON, *c)
	}
	tt := make([]string, len(ttls))
	for i, t := range ttls {
		tt[i] = coqZ(int64(t))
	}
	if oracleFail != "" {
		c14PipeFails = append(c14PipeFails, c14PipeFail{id: id, what: oracleFail, rec: map[string]any{"kind": "pipeline", "pool": pool, "max_stale_ns": int64(maxStale), "ttl_ns": ttls, "ops": opsJSON}})
	}
	term := fmt.Sprintf("PipeCase %s %d %s %s %s", coqN(id), pool, coqZ(int64(maxStale)), coqList(tt), coqList(ops))
	return term, map[string]any{"kind": "pipeline", "pool": pool, "max_stale_ns": int64(maxStale), "ttl_ns": ttls, "ops": opsJSON}, hit
}

// ---------------------------------------------------------------------------------------------
// 4. stress: the real client + worker pool against a recording fake server

type c14Recorder struct {
	mu        sync.Mutex
	cur       map[string]int
	total     int
	maxTotal  int
	maxPerKey map[string]int
	success   map[string]int
	requests  map[string]int
	seq       atomic.Int64
}

func newC14Recorder() *c14Recorder {
	return &c14Recorder{cur: map[string]int{}, maxPerKey: map[string]int{}, success: map[string]int{}, requests: map[string]int{}}
}

func (rec *c14Recorder) begin(key string) {
	rec.mu.Lock()
	rec.cur[key]++
	rec.total++
	rec.requests[key]++
	if rec.cur[key] > rec.maxPerKey[key] {
		rec.maxPerKey[key] = rec.cur[key]
	}
	if rec.total > rec.maxTotal {
		rec.maxTotal = rec.total
	}
	rec.mu.Unlock()
}

func (rec *c14Recorder) end(key string, ok bool) {
	rec.mu.Lock()
	rec.cur[key]--
	rec.total--
	if ok {
		rec.success[key]++
	}
	rec.mu.Unlock()
}

// c14RecTransport records, on the CLIENT side, when a request starts and when its response has been consumed
// (body closed) or the round trip failed.  This is what "in flight" means for the client's concurrency limit;
// the server may still be busy with a request the client has already abandoned (context cancelled).
type c14RecTransport struct {
	inner http.RoundTripper
	rec   *c14Recorder
}

type c14Body struct {
	io.ReadCloser
	once sync.Once
	done func()
}

func (b *c14Body) Close() error {
	err := b.ReadCloser.Close()
	b.once.Do(b.done)
	return err
}

func (t *c14RecTransport) RoundTrip(req *http.Request) (*http.Response, error) {
	key := req.URL.Path + "?" + req.URL.RawQuery
	if req.GetBody != nil {
		if b, err := req.GetBody(); err == nil {
			data, _ := io.ReadAll(b)
			key += "&" + string(data)
		}
	}
	t.rec.begin(key)
	resp, err := t.inner.RoundTrip(req)
	if err != nil {
		t.rec.end(key, false)
		return resp, err
	}
	ok := resp.StatusCode == 200
	resp.Body = &c14Body{ReadCloser: resp.Body, done: func() { t.rec.end(key, ok) }}
	return resp, nil
}

// wire key of a request: path + every form value (identical requests = identical wire keys)
func c14WireKey(r *http.Request) string {
	_ = r.ParseForm()
	var parts []string
	for k, vs := range r.Form {
		parts = append(parts, k+"="+strings.Join(vs, ","))
	}
	sort.Strings(parts)
	return r.URL.Path + "?" + strings.Join(parts, "&")
}

func c14Server(rec *c14Recorder, delay time.Duration, jitter *rand.Rand, jmu *sync.Mutex) http.HandlerFunc {
	return func(w http.ResponseWriter, r *http.Request) {
		key := c14WireKey(r)
		rec.begin(key)
		n := rec.seq.Add(1)
		d := delay
		if delay > 0 {
			jmu.Lock()
			d = delay/2 + time.Duration(jitter.Int63n(int64(delay)))
			jmu.Unlock()
		}
		time.Sleep(d)
		q := r.Form.Get("query") + r.Form.Get("metric")
		status, body := 200, ""
		switch {
		case strings.HasPrefix(q, "bad"):
			status, body = 400, `{"status":"error","errorType":"bad_data","error":"bad query"}`
		case strings.HasPrefix(q, "down"):
			status, body = 503, "Service Unavailable\n"
		default:
			switch r.URL.Path {
			case promapi.APIPathQuery:
				body = fmt.Sprintf(`{"status":"success","data":{"resultType":"vector","result":[{"metric":{"req":"%d","q":%q},"value":[1700000000,"1"]}]}}`, n, q)
			case promapi.APIPathQueryRange:
				body = fmt.Sprintf(`{"status":"success","data":{"resultType":"matrix","result":[{"metric":{"req":"%d","q":%q},"values":[[%s,"1"]]}]}}`, n, q, r.Form.Get("start"))
			case promapi.APIPathConfig:
				body = fmt.Sprintf(`{"status":"success","data":{"yaml":"global:\n  external_labels:\n    req: \"%d\"\n"}}`, n)
			case promapi.APIPathFlags:
				body = fmt.Sprintf(`{"status":"success","data":{"req":"%d"}}`, n)
			case promapi.APIPathMetadata:
				body = fmt.Sprintf(`{"status":"success","data":{%q:[{"type":"gauge","help":"%d","unit":%q}]}}`, r.Form.Get("metric"), n, q)
			default:
				status, body = 404, "not found\n"
			}
		}
		w.Header().Set("Content-Type", "application/json")
		w.WriteHeader(status)
		_, _ = io.WriteString(w, body)
		rec.end(key, status == 200)
	}
}

type c14Question struct {
	Kind     string `json:"kind"` // query | range | config | flags | metadata
	Arg      string `json:"arg,omitempty"`
	Lookback string `json:"lookback,omitempty"`
	Step     string `json:"step,omitempty"`
}

func (q c14Question) String() string {
	return strings.TrimSpace(fmt.Sprintf("%s %s %s %s", q.Kind, q.Arg, q.Lookback, q.Step))
}

type c14Stress struct {
	ID        int           `json:"id"`
	Pool      int           `json:"pool"`
	Callers   []int         `json:"callers"` // question index per caller
	Questions []c14Question `json:"questions"`
	DelayMs   int           `json:"delay_ms"`
	Rounds    int           `json:"rounds"`
	Cleaner   bool          `json:"cache_cleaner_running"` // maintenance interleaved with the calls: a goroutine loops FailoverGroup.CleanCache()
	Sweep     bool          `json:"sweep"`                 // every caller asks EVERY question (starting at its own offset), Rounds times
	CleanerRuns int         `json:"cleaner_runs,omitempty"`
	SharedSlices bool       `json:"shared_slices"` // two range questions, same expr+step, different lookback (regression scenario of fix fb76e32)
	// observed
	ServerMaxTotal int            `json:"server_side_max_total_inflight"`
	MaxTotal    int               `json:"max_total_inflight"`
	MaxPerKey   int               `json:"max_identical_inflight"`
	WorstKey    string            `json:"worst_key,omitempty"`
	MaxSuccess  int               `json:"max_successful_requests_per_identical_request"`
	SuccessKey  string            `json:"success_key,omitempty"`
	Requests    int               `json:"requests"`
	Results     map[string][]string `json:"results"` // question -> distinct results seen by its callers
	HeldAtEnd   []string          `json:"held_at_end"`
	Hung        bool              `json:"hung,omitempty"`
	Skipped     bool              `json:"skipped,omitempty"`
}

func c14AskOnce(ctx context.Context, fg *promapi.FailoverGroup, q c14Question) string {
	switch q.Kind {
	case "query":
		qr, err := fg.Query(ctx, q.Arg)
		if err != nil {
			return "err"
		}
		var s []string
		for _, x := range qr.Series {
			s = append(s, x.Labels.Get("req"))
			if e := x.Labels.Get("q"); e != q.Arg {
				return "WRONG-ANSWER(asked " + q.Arg + ", got the answer to " + e + ")"
			}
		}
		return strings.Join(s, ",")
	case "range":
		lb, _ := time.ParseDuration(q.Lookback)
		st, _ := time.ParseDuration(q.Step)
		rr, err := fg.RangeQuery(ctx, q.Arg, promapi.NewRelativeRange(lb, st))
		if err != nil {
			return "err"
		}
		for _, x := range rr.Series.Ranges {
			if e := x.Labels.Get("q"); e != q.Arg {
				return "WRONG-ANSWER(asked " + q.Arg + ", got the answer to " + e + ")"
			}
		}
		return fmt.Sprintf("ranges:%d", len(rr.Series.Ranges))
	case "config":
		cr, err := fg.Config(ctx, 0)
		if err != nil {
			return "err"
		}
		return cr.Config.Global.ExternalLabels["req"]
	case "flags":
		fr, err := fg.Flags(ctx)
		if err != nil {
			return "err"
		}
		return fr.Flags["req"]
	case "metadata":
		mr, err := fg.Metadata(ctx, q.Arg)
		if err != nil {
			return "err"
		}
		var s []string
		for _, m := range mr.Metadata {
			s = append(s, m.Help)
			if m.Unit != q.Arg {
				return "WRONG-ANSWER(asked " + q.Arg + ", got the answer to " + m.Unit + ")"
			}
		}
		return strings.Join(s, ",")
	}
	panic(q.Kind)
}

func c14RunStress(st *c14Stress, seed int64) {
	rec := newC14Recorder()     // client side: judged
	recSrv := newC14Recorder()  // server side: informational (includes requests the client already abandoned)
	var jmu sync.Mutex
	up := newHTTPUpstream(c14Server(recSrv, time.Duration(st.DelayMs)*time.Millisecond, rand.New(rand.NewSource(seed)), &jmu))
	leak := false
	defer func() {
		if !leak {
			up.Close()
		}
	}()
	prom := promapi.NewPrometheus("prom", up.URL, "", nil, 30*time.Second, st.Pool, 100000, nil)
	prom.C14WrapTransport(func(inner http.RoundTripper) http.RoundTripper { return &c14RecTransport{inner: inner, rec: rec} })
	fg := promapi.NewFailoverGroup("prom", up.URL, []*promapi.Prometheus{prom}, true, "up", nil, nil, nil)
	reg := prometheus.NewRegistry()
	fg.StartWorkers(reg)
	defer func() {
		if !leak {
			fg.Close(reg)
		}
	}()
	results := make([][]string, len(st.Callers))
	start := make(chan struct{})
	var wg sync.WaitGroup
	for ci, qi := range st.Callers {
		wg.Add(1)
		go func(ci, qi int) {
			defer wg.Done()
			<-start
			for k := 0; k < st.Rounds; k++ {
				if st.Sweep {
					for j := range st.Questions {
						c14AskOnce(context.Background(), fg, st.Questions[(j+ci*7)%len(st.Questions)])
					}
					continue
				}
				results[ci] = append(results[ci], c14AskOnce(context.Background(), fg, st.Questions[qi]))
			}
		}(ci, qi)
	}
	// maintenance interleaved with the calls: the cache cleaner (cacheCleaner's ticker / CleanCache) runs while callers ask.
	// Nothing expires during a run (TTLs are minutes, maxStale an hour), so gc must not lose or evict anything.
	stopCleaner := make(chan struct{})
	cleanerDone := make(chan int, 1)
	if st.Cleaner {
		go func() {
			n := 0
			for {
				select {
				case <-stopCleaner:
					cleanerDone <- n
					return
				default:
					fg.CleanCache()
					n++
				}
			}
		}()
	}
	defer func() {
		if st.Cleaner {
			close(stopCleaner)
			st.CleanerRuns = <-cleanerDone
		}
	}()
	close(start)
	finished := make(chan struct{})
	go func() { wg.Wait(); close(finished) }()
	select {
	case <-finished:
	case <-time.After(c14StressDeadline):
		// deadlock / lost wakeup / lost unlock: leave everything running, report
		st.Hung = true
		c14HungSeen.Store(true)
		st.HeldAtEnd = prom.C14HeldKeys()
		leak = true
		return
	}
	st.HeldAtEnd = prom.C14HeldKeys()
	recSrv.mu.Lock()
	st.ServerMaxTotal = recSrv.maxTotal
	recSrv.mu.Unlock()
	rec.mu.Lock()
	defer rec.mu.Unlock()
	st.MaxTotal = rec.maxTotal
	for k, v := range rec.maxPerKey {
		if v > st.MaxPerKey {
			st.MaxPerKey, st.WorstKey = v, k
		}
	}
	for k, v := range rec.success {
		if v > st.MaxSuccess {
			st.MaxSuccess, st.SuccessKey = v, k
		}
	}
	for _, v := range rec.requests {
		st.Requests += v
	}
	st.Results = map[string][]string{}
	for ci, qi := range st.Callers {
		q := st.Questions[qi]
		key := q.String()
		for _, res := range results[ci] {
			found := false
			for _, x := range st.Results[key] {
				if x == res {
					found = true
				}
			}
			if !found {
				st.Results[key] = append(st.Results[key], res)
			}
		}
	}
}

func c14StressOracle(st *c14Stress) []string {
	var bad []string
	if st.Hung {
		return []string{fmt.Sprintf("callers did not return within %s (deadlock: lost wakeup or lost unlock); lock keys still held: %v", c14StressDeadline, st.HeldAtEnd)}
	}
	if st.MaxPerKey > 1 {
		bad = append(bad, fmt.Sprintf("%d identical requests in flight at the same time: %s", st.MaxPerKey, st.WorstKey))
	}
	if st.MaxTotal > st.Pool {
		bad = append(bad, fmt.Sprintf("%d requests in flight with concurrency=%d", st.MaxTotal, st.Pool))
	}
	if st.MaxSuccess > 1 {
		bad = append(bad, fmt.Sprintf("the server answered the identical request %s successfully %d times within its cache lifetime", st.SuccessKey, st.MaxSuccess))
	}
	for q, rs := range st.Results {
		ok := 0
		for _, r := range rs {
			if r != "err" {
				ok++
			}
			if strings.HasPrefix(r, "WRONG-ANSWER") {
				bad = append(bad, fmt.Sprintf("a caller of %q received %s", q, r))
			}
		}
		// range results are not compared: the edge slices depend on each caller's own time.Now() (different questions)
		if ok > 1 && !strings.HasPrefix(q, "range ") {
			bad = append(bad, fmt.Sprintf("callers of %q received different results %v", q, rs))
		}
	}
	if len(st.HeldAtEnd) > 0 {
		bad = append(bad, fmt.Sprintf("all callers returned but lock keys %v are still held", st.HeldAtEnd))
	}
	return bad
}

func c14GenStress(r *rand.Rand, id int, directed int) *c14Stress {
	st := &c14Stress{ID: id, Pool: []int{1, 2, 3, 4, 8, 16}[r.Intn(6)], DelayMs: []int{0, 1, 2, 5, 10}[r.Intn(5)], Rounds: 1 + r.Intn(2)}
	pool := []c14Question{
		{Kind: "query", Arg: "up"}, {Kind: "query", Arg: "count(up)"}, {Kind: "query", Arg: "bad_query"}, {Kind: "query", Arg: "down_server"},
		{Kind: "config"}, {Kind: "flags"}, {Kind: "metadata", Arg: "foo_total"}, {Kind: "metadata", Arg: "bar"},
		{Kind: "range", Arg: "up", Lookback: "5h", Step: "1m"}, {Kind: "range", Arg: "count(foo)", Lookback: "9h", Step: "5m"},
		{Kind: "range", Arg: "bad_range", Lookback: "5h", Step: "1m"}, {Kind: "range", Arg: "short", Lookback: "30m", Step: "1m"},
		// overlapping windows over one expression and step (their 2h-aligned interior slices are the same requests)
		{Kind: "range", Arg: "up", Lookback: "9h", Step: "1m"}, {Kind: "range", Arg: "up", Lookback: "13h", Step: "1m"},
		{Kind: "range", Arg: "count(foo)", Lookback: "5h", Step: "5m"},
		// questions that fit into ONE request: lookback below the 2h slice size, or a step that rounds the slice size to zero
		{Kind: "range", Arg: "short2", Lookback: "1h", Step: "5m"}, {Kind: "range", Arg: "short3", Lookback: "1h30m", Step: "1m"},
		{Kind: "range", Arg: "short4", Lookback: "10m", Step: "1m"}, {Kind: "range", Arg: "big_step", Lookback: "6h", Step: "5h"},
		{Kind: "query", Arg: "sum(up)"}, {Kind: "query", Arg: "bad_query2"},
	}
	if directed == 1 {
		// regression scenario of fix fb76e32: same expr and step, different lookback => the windows share slices, so they
		// must be serialised by ONE lock key
		st.SharedSlices = true
		st.Pool = 16
		st.DelayMs = 40
		st.Rounds = 1
		st.Questions = []c14Question{{Kind: "range", Arg: "up", Lookback: "7h", Step: "1m"}, {Kind: "range", Arg: "up", Lookback: "11h", Step: "1m"}}
		st.Callers = []int{0, 1, 0, 1}
		return st
	}
	if directed == 2 {
		// many more callers than workers, each with its own single-request range question
		st.Pool = 1 + r.Intn(3)
		st.DelayMs = 20
		st.Rounds = 1
		for i := 0; i < 8; i++ {
			st.Questions = append(st.Questions, c14Question{Kind: "range", Arg: fmt.Sprintf("single_%d", i), Lookback: []string{"10m", "30m", "1h", "1h59m"}[i%4], Step: "1m"})
			st.Callers = append(st.Callers, i)
		}
		return st
	}
	if directed == 4 {
		// many callers released together ask ONE question whose request depends on each caller's own time.Now() (a single-request
		// range question): requests the server cannot tell apart must share one cache entry (regression scenario of fix c5439fe)
		st.Pool = []int{2, 4}[r.Intn(2)]
		st.DelayMs = []int{0, 2, 10}[r.Intn(3)]
		st.Rounds = 3
		st.Questions = []c14Question{{Kind: "range", Arg: "now_relative", Lookback: []string{"30m", "1h", "6h"}[r.Intn(3)], Step: []string{"1m", "5m", "5h"}[r.Intn(3)]}}
		for i := 0; i < 96; i++ {
			st.Callers = append(st.Callers, 0)
		}
		return st
	}
	if directed == 3 {
		// the cache cleaner runs while many callers sweep over many distinct questions several times: within the run every
		// identical request may be answered successfully at most once (nothing expires: TTLs are minutes)
		st.Pool = []int{2, 4, 8}[r.Intn(3)]
		st.DelayMs = 0
		st.Rounds = 3
		st.Cleaner, st.Sweep = true, true
		for i := 0; i < 150; i++ {
			st.Questions = append(st.Questions, c14Question{Kind: "query", Arg: fmt.Sprintf("sweep_metric_%d", i)})
		}
		for i := 0; i < 12; i++ {
			st.Questions = append(st.Questions, c14Question{Kind: "metadata", Arg: fmt.Sprintf("sweep_meta_%d", i)})
		}
		st.Questions = append(st.Questions, c14Question{Kind: "config"}, c14Question{Kind: "flags"}, c14Question{Kind: "range", Arg: "sweep_range", Lookback: "5h", Step: "1m"})
		for i := 0; i < 6; i++ {
			st.Callers = append(st.Callers, 0)
		}
		return st
	}
	st.Cleaner = r.Intn(3) == 0
	nq := 1 + r.Intn(4)
	if r.Intn(4) == 0 {
		nq = 5 + r.Intn(6) // many distinct questions at once: the pool, not the key lock, is what bounds the requests
	}
	perm := r.Perm(len(pool))
	for i := 0; i < nq; i++ {
		st.Questions = append(st.Questions, pool[perm[i]])
	}
	K := 2 + r.Intn(22)
	for i := 0; i < K; i++ {
		st.Callers = append(st.Callers, r.Intn(nq))
	}
	return st
}

// ---------------------------------------------------------------------------------------------
// 5. key table: which lock key guards which wire requests (the side condition of the theorems, observed)

type c14KeyRow struct {
	Question c14Question `json:"question"`
	LockKeys []string    `json:"lock_keys"` // keys held while the question's requests were being served
	Wire     []string    `json:"wire_requests"`
}

// c14KeyTable asks every question alone on a fresh client and records, from inside the fake server's handler,
// the lock keys the client holds at that moment, together with the wire requests it sent.
func c14KeyTable(questions []c14Question) []c14KeyRow {
	rows := make([]c14KeyRow, len(questions))
	for i, q := range questions {
		var mu sync.Mutex
		var prom *promapi.Prometheus
		held := map[string]bool{}
		wire := map[string]bool{}
		rec := newC14Recorder()
		var jmu sync.Mutex
		inner := c14Server(rec, 0, rand.New(rand.NewSource(1)), &jmu)
		up := newHTTPUpstream(func(w http.ResponseWriter, r *http.Request) {
			k := c14WireKey(r)
			mu.Lock()
			wire[k] = true
			for _, h := range prom.C14HeldKeys() {
				held[h] = true
			}
			mu.Unlock()
			inner(w, r)
		})
		prom = promapi.NewPrometheus("prom", up.URL, "", nil, 30*time.Second, 4, 100000, nil)
		fg := promapi.NewFailoverGroup("prom", up.URL, []*promapi.Prometheus{prom}, true, "up", nil, nil, nil)
		reg := prometheus.NewRegistry()
		fg.StartWorkers(reg)
		c14AskOnce(context.Background(), fg, q)
		fg.Close(reg)
		up.Close()
		rows[i].Question = q
		for h := range held {
			rows[i].LockKeys = append(rows[i].LockKeys, h)
		}
		for k := range wire {
			rows[i].Wire = append(rows[i].Wire, k)
		}
		sort.Strings(rows[i].LockKeys)
		sort.Strings(rows[i].Wire)
	}
	return rows
}

// c14KeyTableOracle: identical wire requests must be guarded by the same lock key.  Returns (failures, failures in the known class).
func c14KeyTableOracle(rows []c14KeyRow) (bad []string, known []string) {
	for i := range rows {
		if len(rows[i].LockKeys) != 1 {
			bad = append(bad, fmt.Sprintf("%s: expected exactly one lock key held during its requests, saw %v", rows[i].Question, rows[i].LockKeys))
		}
		for j := i + 1; j < len(rows); j++ {
			if strings.Join(rows[i].LockKeys, ",") == strings.Join(rows[j].LockKeys, ",") {
				continue
			}
			for _, a := range rows[i].Wire {
				for _, b := range rows[j].Wire {
					if a != b {
						continue
					}
					msg := fmt.Sprintf("%q and %q send the identical request %s under different lock keys %v / %v", rows[i].Question.String(), rows[j].Question.String(), a, rows[i].LockKeys, rows[j].LockKeys)
					bad = append(bad, msg)
				}
			}
		}
	}
	return bad, known
}

// ---------------------------------------------------------------------------------------------

func runC14(args []string) int {
	slog.SetDefault(slog.New(slog.NewTextHandler(io.Discard, nil)))
	if rp := argStr(args, "--replay", ""); rp != "" {
		return c14Replay(rp)
	}
	n := argInt(args, "--n", 300)
	nStress := argInt(args, "--stress", 40)
	seed := seedFromEnv()
	r := rand.New(rand.NewSource(seed))
	rep := newReport("C14", seed)
	rep.Rule = "sequential cases: cache = random get/set/gc sequence with injected clock (non-trivial: at least one eviction); lock = partitionLocker schedule " +
		"of 3-8 goroutines over 1-3 keys (non-trivial: a lock request met a held key); job = processJob script (non-trivial: at least one cache hit); pipeline = sequence of real Query/Config/Flags/Metadata calls through lock, queue, workers, cache and HTTP against a scripted server (non-trivial: a call answered without a request); " +
		"stress = K real callers x questions x pool size x server delay against a recording fake server (non-trivial: two callers share a question); distinct = hash of the case"
	cwd, _ := os.Getwd()
	cw := newCaseWriter(cwd, "Run.C14", 100)
	id := 0
	t0 := time.Now()
	nLock := n / 5
	for i := 0; i < n; i++ {
		var term string
		var rec any
		var nontrivial bool
		switch {
		case i < nLock:
			var fails []string
			term, rec, nontrivial, fails = c14GenLock(r, id)
			rep.hist("lock_schedules")
			for _, f := range fails {
				rep.fail(fmt.Sprint(id), "partitionLocker: "+f, rec)
			}
		case i < nLock+n/6:
			term, rec, nontrivial = c14GenPipe(r, id)
			rep.hist("pipeline_call_sequences")
		case i%2 == 0:
			term, rec, nontrivial = c14GenCache(r, id)
			rep.hist("cache_traces")
		default:
			term, rec, nontrivial = c14GenJobs(r, id)
			rep.hist("job_scripts")
		}
		cw.add(term)
		rep.count(term, nontrivial)
		if n <= 600 {
			rep.Cases[fmt.Sprint(id)] = rec
		}
		if i%131 == 0 {
			rep.sample(rec)
		}
		id++
	}
	cw.flush()
	seqTime := time.Since(t0)
	for _, pf := range c14PipeFails {
		rep.fail(fmt.Sprint(pf.id), pf.what, pf.rec)
	}
	for k, v := range c14PipeHist {
		for i := 0; i < v; i++ {
			rep.hist(k)
		}
	}

	// stress runs (several at a time: they mostly sleep in the fake server)
	t1 := time.Now()
	stress := make([]*c14Stress, 0, nStress+2)
	stress = append(stress, c14GenStress(r, id, 1))
	id++
	stress = append(stress, c14GenStress(r, id, 2))
	id++
	for i := 0; i < 2; i++ {
		stress = append(stress, c14GenStress(r, id, 3))
		id++
	}
	for i := 0; i < 8; i++ {
		stress = append(stress, c14GenStress(r, id, 4))
		id++
	}
	for i := 0; i < nStress; i++ {
		stress = append(stress, c14GenStress(r, id, 0))
		id++
	}
	parallel(len(stress), 4, func(i int) {
		if c14HungSeen.Load() {
			stress[i].Skipped = true
			return
		}
		c14RunStress(stress[i], seed+int64(i))
	})
	sharedHit := 0
	for _, st := range stress {
		if st.Skipped {
			rep.hist("stress_skipped_after_deadlock")
			continue
		}
		shares := false
		seen := map[int]bool{}
		for _, q := range st.Callers {
			if seen[q] {
				shares = true
			}
			seen[q] = true
		}
		rep.count(fmt.Sprintf("stress/%d/%v/%v/%d", st.Pool, st.Callers, st.Questions, st.DelayMs), shares)
		rep.hist("stress_runs")
		if st.Cleaner {
			rep.hist("stress_with_cache_cleaner_running")
		}
		rep.hist(fmt.Sprintf("stress_pool:%d", st.Pool))
		rep.hist(fmt.Sprintf("stress_max_inflight_reached_pool:%v", st.MaxTotal == st.Pool))
		rep.hist(fmt.Sprintf("stress_some_ask_served_without_request:%v", st.Requests < len(st.Callers)*st.Rounds))
		if bad := c14StressOracle(st); len(bad) > 0 {
			qs := fmt.Sprint(st.Questions)
			if len(st.Questions) > 8 {
				qs = fmt.Sprintf("[%d distinct questions: %v ...]", len(st.Questions), st.Questions[:3])
			}
			what := fmt.Sprintf("stress pool=%d callers=%d cleaner=%v sweep=%v questions=%s: %s", st.Pool, len(st.Callers), st.Cleaner, st.Sweep, qs, strings.Join(bad, "; "))
			if st.SharedSlices {
				sharedHit++
			}
			rep.fail(fmt.Sprint(st.ID), what, st)
		}
		if len(rep.Samples) < 5 && st.ID%7 == 0 {
			rep.sample(st)
		}
	}
	// key table
	kt := c14KeyTable([]c14Question{
		{Kind: "query", Arg: "up"}, {Kind: "query", Arg: "count(up)"}, {Kind: "query", Arg: "up "}, {Kind: "config"}, {Kind: "flags"},
		{Kind: "metadata", Arg: "foo_total"}, {Kind: "metadata", Arg: "bar"}, {Kind: "metadata", Arg: ""},
		{Kind: "range", Arg: "up", Lookback: "5h", Step: "1m"}, {Kind: "range", Arg: "up", Lookback: "5h", Step: "5m"},
		{Kind: "range", Arg: "count(up)", Lookback: "5h", Step: "1m"}, {Kind: "range", Arg: "up", Lookback: "9h", Step: "1m"},
	})
	var ktRows []string
	for _, row := range kt {
		if len(row.LockKeys) != 1 {
			continue // reported by the oracle below
		}
		q := row.Question
		var qt string
		switch q.Kind {
		case "query":
			qt = "QInstant " + coqStr(q.Arg)
		case "config":
			qt = "QConfig"
		case "flags":
			qt = "QFlags"
		case "metadata":
			qt = "QMetadata " + coqStr(q.Arg)
		case "range":
			qt = fmt.Sprintf("QRange %s %s %s", coqStr(q.Arg), coqStr(q.Lookback), coqStr(q.Step))
		}
		ktRows = append(ktRows, fmt.Sprintf("(%s, %s)", qt, coqStr(row.LockKeys[0])))
	}
	cw.add(fmt.Sprintf("KeyCase %s %s", coqN(id), coqList(ktRows)))
	id++
	cw.flush()
	ktBad, ktKnown := c14KeyTableOracle(kt)
	rep.count("keytable", true)
	rep.hist("key_table_rows:" + fmt.Sprint(len(kt)))
	for _, b := range ktBad {
		rep.fail("keytable", "key table: "+b, kt)
	}
	rep.Notes = append(rep.Notes, fmt.Sprintf("key table: %d questions, %d shared-request pairs outside the known class, %d inside", len(kt), len(ktBad), len(ktKnown)))
	rep.Notes = append(rep.Notes, fmt.Sprintf("sequential cases %d in %.1fs; %d stress runs in %.1fs; directed shared-slices scenario violated the oracle: %v",
		n, seqTime.Seconds(), len(stress), time.Since(t1).Seconds(), sharedHit > 0))
	rep.CaseFiles = cw.files
	rep.write("report.json")
	fmt.Printf("C14: %d sequential cases, %d stress runs, %d oracle failures (%d in known class)\n", n, len(stress), len(rep.OracleFails), sharedHit)
	return 0
}

// c14Replay re-runs a stored stress scenario (replay file of bin/check or a bare scenario object) five times.
func c14Replay(path string) int {
	b, err := os.ReadFile(path)
	must(err)
	var wrap struct {
		Case json.RawMessage `json:"case"`
	}
	raw := b
	if json.Unmarshal(b, &wrap) == nil && len(wrap.Case) > 0 {
		raw = wrap.Case
	}
	var st c14Stress
	if err := json.Unmarshal(raw, &st); err != nil || st.Pool == 0 || len(st.Questions) == 0 {
		fmt.Printf("replay: %s holds no stress scenario (sequential cases are replayed by the model: see the `cases` entry and coq/Run/C14.v); content:\n%s\n", path, string(b))
		return 0
	}
	for k := 0; k < 5; k++ {
		// inputs only: the stored case also carries what was observed when it was recorded
		run := c14Stress{ID: st.ID, Pool: st.Pool, Callers: st.Callers, Questions: st.Questions, DelayMs: st.DelayMs, Rounds: st.Rounds,
			Cleaner: st.Cleaner, Sweep: st.Sweep, SharedSlices: st.SharedSlices}
		c14RunStress(&run, int64(k))
		bad := c14StressOracle(&run)
		fmt.Printf("run %d: pool=%d callers=%d max_identical_inflight=%d max_total_inflight=%d max_success_per_request=%d results=%v\n", k, run.Pool, len(run.Callers), run.MaxPerKey, run.MaxTotal, run.MaxSuccess, run.Results)
		if len(bad) > 0 {
			fmt.Printf("  oracle: PROPERTY FAILS: %s\n", strings.Join(bad, "; "))
		} else {
			fmt.Println("  oracle: holds")
		}
		if run.Hung {
			break
		}
	}
	return 0
}
