//go:build verif

package promapi

import (
	"context"
	"errors"
	"net/http"
	"sort"
	"sync"
	"time"
)

// Verification-only accessors for C14 (compiled in through go build -overlay; /repo is not modified).

// ---- queryCache with an injected clock

type C14Cache struct{ qc *queryCache }

func C14NewCache(maxStale time.Duration, now func() time.Time) *C14Cache {
	return &C14Cache{qc: newQueryCache(maxStale, now)}
}

func (c *C14Cache) Get(key uint64, endpoint string) (any, bool) { return c.qc.get(key, endpoint) }
func (c *C14Cache) Set(key uint64, val any, ttl time.Duration)  { c.qc.set(key, val, ttl) }
func (c *C14Cache) GC()                                         { c.qc.gc() }

// Snapshot returns the sorted keys, the eviction counter and the hit/miss counters summed over endpoints.
func (c *C14Cache) Snapshot() (keys []uint64, evictions, hits, misses int) {
	c.qc.mu.Lock()
	defer c.qc.mu.Unlock()
	for k := range c.qc.entries {
		keys = append(keys, k)
	}
	sort.Slice(keys, func(i, j int) bool { return keys[i] < keys[j] })
	for _, s := range c.qc.stats {
		hits += s.hits
		misses += s.misses
	}
	return keys, c.qc.evictions, hits, misses
}

// ---- partitionLocker

type C14Locker struct{ p *partitionLocker }

func C14NewLocker() *C14Locker { return &C14Locker{p: newPartitionLocker(&sync.Mutex{})} }

func (l *C14Locker) Lock(id string)   { l.p.lock(id) }
func (l *C14Locker) Unlock(id string) { l.p.unlock(id) }

// Held returns the sorted set of keys currently locked.
func (l *C14Locker) Held() []string {
	l.p.l.Lock()
	defer l.p.l.Unlock()
	out := make([]string, 0, len(l.p.s))
	for k := range l.p.s {
		out = append(out, k)
	}
	sort.Strings(out)
	return out
}

// C14HeldKeys returns the lock keys a real Prometheus client holds right now.
func (prom *Prometheus) C14HeldKeys() []string {
	return (&C14Locker{p: prom.locker}).Held()
}

// ---- processJob with a scripted querier

type c14Querier struct {
	ran      *int
	res      queryResult
	endpoint string
	key      uint64
	ttl      time.Duration
}

func (q c14Querier) Endpoint() string        { return q.endpoint }
func (q c14Querier) String() string          { return "scripted" }
func (q c14Querier) CacheKey() uint64        { return q.key }
func (q c14Querier) CacheTTL() time.Duration { return q.ttl }
func (q c14Querier) Run() queryResult        { *q.ran++; return q.res }

// C14NewProm returns a client whose cache uses the injected clock (no workers are started).
func C14NewProm(maxStale time.Duration, now func() time.Time) *Prometheus {
	prom := NewPrometheus("prom", "http://127.0.0.1:1", "", nil, time.Second, 2, 100000, nil)
	prom.cache = newQueryCache(maxStale, now)
	return prom
}

func (prom *Prometheus) C14CacheGC() { prom.cache.gc() }

func (prom *Prometheus) C14CacheKeys() []uint64 {
	keys, _, _, _ := (&C14Cache{qc: prom.cache}).Snapshot()
	return keys
}

// C14ProcessJob runs processJob on a scripted query: outcome "" = success with value val.
func C14ProcessJob(prom *Prometheus, key uint64, endpoint string, ttl time.Duration, val int, outcome string) (got int, errKind string, ran bool) {
	n := 0
	q := c14Querier{ran: &n, endpoint: endpoint, key: key, ttl: ttl}
	switch outcome {
	case "":
		q.res = queryResult{value: val}
	case "generic":
		q.res = queryResult{err: errors.New("boom")}
	case "server":
		q.res = queryResult{err: APIError{Status: "error", ErrorType: "server_error", Err: "x"}}
	case "unsupported":
		q.res = queryResult{err: APIError{ErrorType: ErrAPIUnsupported, Err: "no such api"}}
	case "canceled":
		q.res = queryResult{err: context.Canceled}
	default:
		panic("outcome " + outcome)
	}
	res := processJob(prom, queryRequest{query: q})
	ran = n > 0
	switch {
	case res.err == nil:
		if v, ok := res.value.(int); ok {
			got = v
		} else {
			got = -1
		}
	case errors.Is(res.err, ErrUnsupported):
		errKind = "sentinel"
	case errors.Is(res.err, context.Canceled):
		errKind = "canceled"
	default:
		var ae APIError
		if errors.As(res.err, &ae) {
			errKind = "api:" + string(ae.ErrorType)
		} else {
			errKind = "other"
		}
	}
	return got, errKind, ran
}

// C14Keys exposes the cache keys the client computes for its requests (key-construction table).
func (prom *Prometheus) C14InstantKey(expr string) uint64 {
	return instantQuery{prom: prom, expr: expr}.CacheKey()
}
func (prom *Prometheus) C14ConfigKey() uint64   { return configQuery{prom: prom}.CacheKey() }
func (prom *Prometheus) C14FlagsKey() uint64    { return flagsQuery{prom: prom}.CacheKey() }
func (prom *Prometheus) C14MetadataKey(m string) uint64 {
	return metadataQuery{prom: prom, metric: m}.CacheKey()
}

// C14WrapTransport lets the harness observe every HTTP request of the client (start / response consumed).
func (prom *Prometheus) C14WrapTransport(f func(http.RoundTripper) http.RoundTripper) {
	prom.client.Transport = f(prom.client.Transport)
}

// C14StartPipeline starts the real worker pool of a client whose cache uses the injected clock.
func C14StartPipeline(uri string, concurrency int, maxStale time.Duration, now func() time.Time) *Prometheus {
	prom := NewPrometheus("prom", uri, "", nil, 30*time.Second, concurrency, 100000, nil)
	prom.cache = newQueryCache(maxStale, now)
	prom.StartWorkers()
	return prom
}

// C14Gc runs the cache's gc (what FailoverGroup.CleanCache does for this server) and returns the number of entries left.
func (prom *Prometheus) C14Gc() int {
	prom.cache.gc()
	prom.cache.mu.Lock()
	defer prom.cache.mu.Unlock()
	return len(prom.cache.entries)
}

// C14TTLs: CacheTTL() of the real query types as the API methods construct them (Config with its default TTL).
func C14TTLs() (instant, config, flags, metadata time.Duration) {
	return instantQuery{}.CacheTTL(), configQuery{cacheTTL: time.Minute}.CacheTTL(), flagsQuery{}.CacheTTL(), metadataQuery{}.CacheTTL()
}
