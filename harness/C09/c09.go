//go:build verif

package main

// C09 — rule{} match/ignore blocks select rules by their documented boolean meaning.
//
//  (1) correspondence: generated configs are loaded with the real config.Load; the decoded Match blocks, entries
//      from the real finder (forced state), a command, and oracle tables (Go regexp on "^(?:p)$", model.ParseDuration)
//      are written as Coq terms with the verdict of the real isMatch (raw and after defaultRuleMatch); plus
//      Entry.Labels() with its side effect on the group, parseDurationMatch/isMatch, and matchRegex on a pattern
//      grammar with alternations/groups/classes/anchors.
//  (2) oracle on the real binary: one `label "marker_k" { required = true }` check per rule block; which rules get
//      marker k, versus a Go reference evaluator of the documented semantics (docApplies below).

import (
	"github.com/prometheus/client_golang/prometheus"
	"fmt"
	"math/rand"
	"os"
	"path/filepath"
	"regexp"
	"sort"
	"strings"
	"time"

	"github.com/prometheus/common/model"

	"github.com/cloudflare/pint/internal/config"
	"github.com/cloudflare/pint/internal/discovery"
	"github.com/cloudflare/pint/internal/parser"
)

func init() { register("C09", runC09) }

// ---------------------------------------------------------------------------------------------
// vocabulary

var (
	c09NamePats = []string{"Foo", "Foo.*", "Foo|Bar", ".*Bar", "(Foo|rec:.+)", "[A-Z].+", "bar|Foo", "^Foo$", "Fo{2}", ".+", "rec:foo|Bar", "Foo(Bar)?", "x|FooBar|y", "[^:]+", "Bar|", "Fo+|B", "^Foo|Bar$", "^Foo$|^Bar$", "^(Foo|Bar)$", "^rec:|B$", "^Fo|ar$"}
	c09Names    = []string{"Foo", "FooBar", "Bar", "rec:foo", "xBar", "Foobaz", "B"}
	c09PathPats = []string{"rules/.*", "rules/a.yml|x", ".*\\.yml", "rules/sub/.+", "rules/a.yml", "sub|rules/a\\.yml", "rules/(a|b)\\.yml", "rules", "^rules/a|b\\.yml$", "^rules/a\\.yml$|^rules/b\\.yml$", "^rules/sub|yml$"}
	c09Paths    = []string{"rules/a.yml", "rules/sub/b.yml", "rules/b.yml"}
	c09LabKeys  = []string{"team", "severity", "env"}
	c09LabVals  = []string{"x", "y", "page", "prod", "xy"}
	c09KeyPats  = []string{"team", "team|env", "sev.*", ".*", "t.+m", "env|", "team|severity", ".*e.*", "(env|severity)", "[a-z]+", "eam", "ever.*", "nv", "sev", "^te|nv$", "^team$|^env$", "^(team|env)$"}
	c09ValPats  = []string{"x", "x|y", "page", ".+", "p.*", "y|prod", "(x|page)", "ag", "ro", "pag", "^pa|od$", "^x$|^page$", "^p|y$"}
	c09AnnKeys  = []string{"summary", "link", "runbook"}
	c09AnnVals  = []string{"s", "http://x", "ok", "page"}
	c09ForPats  = []string{"5m", "> 1m", "<= 5m", "!= 0s", ">= 10m", "< 1h", "= 5m", "0", "> 0", ">= 5m", "> 5m", "< 5m", "!= 5m", ">= 1m", "<= 1m", "< 10m", "<= 10m", "> 10m", "= 1h", ">= 1h", "<= 0s", "> 0s"}
	c09KeepPats = []string{"5m", "> 1m", "<= 5m", "garbage", "~ 5m", "> x", "!= 1h", ">= 0s", ">  5m", " 5m", ">= 5m", "> 5m", "< 5m", ">= 1m", "<= 1m", "= 10m", ">= 10m", "< 1h", ">= 1h"}
	c09Durs     = []string{"5m", "0s", "1h", "1m", "10m", "30s", "1m30s", "0", "abc", "5 m"}
	c09States   = []string{"any", "added", "modified", "renamed", "removed", "unmodified"}
	c09Cmds     = []string{"ci", "lint", "watch"}
)

func c09GenBlock(r *rand.Rand, kind string, p float64) string {
	var b strings.Builder
	n := 0
	add := func(s string) { b.WriteString(s); n++ }
	if r.Float64() < p {
		add(fmt.Sprintf("    path = %s\n", hclStr(pick(r, c09PathPats))))
	}
	if r.Float64() < p {
		add(fmt.Sprintf("    name = %s\n", hclStr(pick(r, c09NamePats))))
	}
	if r.Float64() < p {
		add(fmt.Sprintf("    kind = %q\n", pick(r, []string{"alerting", "recording"})))
	}
	if r.Float64() < p*0.7 {
		add(fmt.Sprintf("    command = %q\n", pick(r, c09Cmds)))
	}
	if r.Float64() < p {
		st := c08Subset9(r, c09States, 0.3)
		if len(st) > 0 {
			add(fmt.Sprintf("    state = %s\n", hclList(st)))
		}
	}
	if r.Float64() < p {
		add(fmt.Sprintf("    label %s {\n      value = %s\n    }\n", hclStr(pick(r, c09KeyPats)), hclStr(pick(r, c09ValPats))))
	}
	if r.Float64() < p*0.7 {
		add(fmt.Sprintf("    annotation %s {\n      value = %s\n    }\n", hclStr(pick(r, []string{"summary", "sum.*|link", ".*", "link"})), hclStr(pick(r, []string{"s", "s|ok", ".+", "http.*", "page"}))))
	}
	if r.Float64() < p*0.7 {
		add(fmt.Sprintf("    for = %s\n", hclStr(pick(r, c09ForPats))))
	}
	if r.Float64() < p*0.6 {
		add(fmt.Sprintf("    keep_firing_for = %s\n", hclStr(pick(r, c09KeepPats))))
	}
	if n == 0 && kind == "ignore" {
		add(fmt.Sprintf("    name = %s\n", hclStr(pick(r, c09NamePats))))
	}
	return "  " + kind + " {\n" + b.String() + "  }\n"
}

func c08Subset9(r *rand.Rand, xs []string, p float64) []string {
	out := []string{}
	for _, x := range xs {
		if r.Float64() < p {
			out = append(out, x)
		}
	}
	return out
}

// c09GenCIStateConfig (for `pint ci` scenarios that keep an untouched file): every block has a match block whose EXPLICIT
// state covers unmodified rules (any / unmodified / unmodified+added) — optionally with one more condition — next to an
// ignore block WITHOUT state whose single condition often holds: ignore blocks get no default state, so they fire for
// untouched rules too.
func c09GenCIStateConfig(r *rand.Rand, k int) string {
	var b strings.Builder
	for i := 0; i < k; i++ {
		st := pick(r, []string{"[\"any\"]", "[\"unmodified\"]", "[\"unmodified\", \"added\"]", "[\"unmodified\", \"modified\"]", "[\"added\"]"})
		b.WriteString("rule {\n  match {\n    state = " + st + "\n")
		if r.Intn(3) == 0 {
			b.WriteString(c09OneCond(r, pick(r, []string{"kind", "name", "path", "label"})))
		}
		b.WriteString("  }\n")
		if r.Intn(4) > 0 {
			b.WriteString("  ignore {\n" + c09OneCond(r, pick(r, []string{"kind", "name", "path", "label", "annotation", "for", "command"})) + "  }\n")
		}
		b.WriteString(c09Marker(r, i))
	}
	return b.String()
}

// c09Marker: the marker check of block i.  Usually `label "marker_i"` (a String() of its own); with probability 1/4 a
// later block carries the IDENTICAL check of an earlier block (same String(), same comment): such blocks form a group and
// the marker problem must be reported iff ANY block of the group applies (GetChecksForEntry enables a check identity once).
func c09Marker(r *rand.Rand, i int) string {
	k := i
	if i > 0 && r.Intn(4) == 0 {
		k = r.Intn(i)
	}
	return fmt.Sprintf("  label \"marker_%d\" {\n    required = true\n    comment = \"k%d\"\n  }\n}\n", k, k)
}

// c09GenConfig: K rule blocks, block k carries the marker check `label "marker_k"` (or shares an earlier block's).
func c09GenConfig(r *rand.Rand, k int) string {
	var b strings.Builder
	for i := 0; i < k; i++ {
		b.WriteString("rule {\n")
		p := []float64{0.15, 0.3, 0.5}[r.Intn(3)]
		nm := r.Intn(3)
		ni := r.Intn(3)
		if r.Intn(5) == 0 {
			nm = 0
		}
		for j := 0; j < nm; j++ {
			b.WriteString(c09GenBlock(r, "match", p))
		}
		for j := 0; j < ni; j++ {
			b.WriteString(c09GenBlock(r, "ignore", p))
		}
		b.WriteString(c09Marker(r, i))
	}
	return b.String()
}

// c09CondKinds: the nine conditions of a match/ignore block, in the order of docs/configuration.md
var c09CondKinds = []string{"path", "name", "kind", "command", "state", "label", "annotation", "for", "keep_firing_for"}

func c09OneCond(r *rand.Rand, cond string) string {
	switch cond {
	case "path":
		return fmt.Sprintf("    path = %s\n", hclStr(pick(r, c09PathPats)))
	case "name":
		return fmt.Sprintf("    name = %s\n", hclStr(pick(r, c09NamePats)))
	case "kind":
		return fmt.Sprintf("    kind = %q\n", pick(r, []string{"alerting", "recording"}))
	case "command":
		return fmt.Sprintf("    command = %q\n", pick(r, c09Cmds))
	case "state":
		st := c08Subset9(r, c09States, 0.3)
		if len(st) == 0 {
			st = []string{pick(r, c09States)}
		}
		return fmt.Sprintf("    state = %s\n", hclList(st))
	case "label":
		return fmt.Sprintf("    label %s {\n      value = %s\n    }\n", hclStr(pick(r, c09KeyPats)), hclStr(pick(r, c09ValPats)))
	case "annotation":
		return fmt.Sprintf("    annotation %s {\n      value = %s\n    }\n", hclStr(pick(r, []string{"summary", "sum.*|link", ".*", "link", "link|runbook", "[a-z]+"})), hclStr(pick(r, []string{"s", "s|ok", ".+", "http.*", "page", "ok|page"})))
	case "for":
		return fmt.Sprintf("    for = %s\n", hclStr(pick(r, c09ForPats)))
	default:
		return fmt.Sprintf("    keep_firing_for = %s\n", hclStr(pick(r, c09KeepPats)))
	}
}

// c09GenFocusConfig: K rule blocks, block i has ONE match or ignore block whose only condition (sometimes a second
// one is added) is of kind c09CondKinds[(off+i) mod 9]: every condition kind is exercised on its own, in both roles.
func c09GenFocusConfig(r *rand.Rand, k int, off int) string {
	var b strings.Builder
	for i := 0; i < k; i++ {
		cond := c09CondKinds[(off+i)%len(c09CondKinds)]
		body := c09OneCond(r, cond)
		if r.Intn(5) < 2 {
			other := pick(r, c09CondKinds)
			if other != cond {
				body += c09OneCond(r, other)
			}
		}
		stateLine := ""
		if cond != "state" && !strings.Contains(body, " state = ") && r.Intn(3) == 0 {
			// an explicit state on the match block only: ignore blocks never get one by default
			stateLine = c09OneCond(r, "state")
		}
		b.WriteString("rule {\n")
		switch r.Intn(5) {
		case 0:
			b.WriteString("  ignore {\n" + body + "  }\n")
		case 4:
			// an explicit-state match block next to a state-less ignore block
			b.WriteString("  match {\n" + c09OneCond(r, "state") + "  }\n  ignore {\n" + body + "  }\n")
		case 1:
			// two alternatives: the block applies when either holds
			b.WriteString("  match {\n" + body + "  }\n  match {\n" + c09OneCond(r, cond) + "  }\n")
		default:
			b.WriteString("  match {\n" + body + stateLine + "  }\n")
		}
		b.WriteString(c09Marker(r, i))
	}
	return b.String()
}

type c09RuleSpec struct {
	Kind        string            `json:"kind"`
	Name        string            `json:"name"`
	Labels      [][2]string       `json:"labels"`
	HasLabels   bool              `json:"has_labels"`
	Annotations [][2]string       `json:"annotations"`
	HasAnn      bool              `json:"has_annotations"`
	For         *string           `json:"for"`
	Keep        *string           `json:"keep_firing_for"`
}

type c09FileSpec struct {
	Path        string        `json:"path"`
	GroupLabels [][2]string   `json:"group_labels"`
	HasGroup    bool          `json:"has_group_labels"`
	Rules       []c09RuleSpec `json:"rules"`
	Override    bool          `json:"a_rule_overrides_a_group_label"`
}

func c09PickPairs(r *rand.Rand, keys, vals []string, p float64) [][2]string {
	var out [][2]string
	for _, k := range keys {
		if r.Float64() < p {
			out = append(out, [2]string{k, pick(r, vals)})
		}
	}
	return out
}

func c09GenFile(r *rand.Rand, path string, allowOverride bool) c09FileSpec {
	f := c09FileSpec{Path: path}
	if r.Intn(2) == 0 {
		f.HasGroup = true
		f.GroupLabels = c09PickPairs(r, c09LabKeys, c09LabVals, 0.5)
		if len(f.GroupLabels) == 0 {
			f.GroupLabels = [][2]string{{"team", "x"}}
		}
	}
	n := 2 + r.Intn(4)
	used := map[string]bool{}
	for i := 0; i < n; i++ {
		var ru c09RuleSpec
		ru.Name = pick(r, c09Names)
		if used[ru.Name] {
			continue
		}
		used[ru.Name] = true
		if strings.Contains(ru.Name, ":") || r.Intn(3) == 0 {
			ru.Kind = "recording"
		} else {
			ru.Kind = "alerting"
		}
		if r.Intn(3) > 0 || (f.HasGroup && ru.Kind == "recording") {
			// NOTE: a recording rule without own labels in a group with labels crashes pint when a
			// `label ... {required=true}` check is applied (known finding C18-label-required-group-labels-recording)
			ru.HasLabels = true
			ru.Labels = c09PickPairs(r, c09LabKeys, c09LabVals, 0.45)
			if len(ru.Labels) == 0 {
				ru.Labels = [][2]string{{"other", "z"}}
			}
		}
		if ru.Kind == "alerting" {
			if r.Intn(2) == 0 {
				ru.HasAnn = true
				ru.Annotations = c09PickPairs(r, c09AnnKeys, c09AnnVals, 0.5)
				if len(ru.Annotations) == 0 {
					ru.Annotations = [][2]string{{"summary", "s"}}
				}
			}
			if r.Intn(3) > 0 {
				d := pick(r, c09Durs)
				ru.For = &d
			}
			if r.Intn(3) == 0 {
				d := pick(r, c09Durs)
				ru.Keep = &d
			}
		}
		f.Rules = append(f.Rules, ru)
	}
	// group label overrides by a rule (aliasing class): removed unless allowed
	if f.HasGroup {
		g := map[string]string{}
		for _, kv := range f.GroupLabels {
			g[kv[0]] = kv[1]
		}
		for i := range f.Rules {
			var keep [][2]string
			for _, kv := range f.Rules[i].Labels {
				if gv, ok := g[kv[0]]; ok && gv != kv[1] {
					if allowOverride {
						f.Override = true
					} else {
						continue
					}
				}
				keep = append(keep, kv)
			}
			if f.Rules[i].HasLabels && len(keep) == 0 {
				keep = [][2]string{{"other", "z"}}
			}
			f.Rules[i].Labels = keep
		}
	}
	return f
}

// c09GenFileRich: like c09GenFile but every rule sees several labels (>= 2 group labels, >= 2 own labels) and every
// alerting rule has >= 2 annotations, so that key patterns matching several names meet mixed value verdicts.
func c09GenFileRich(r *rand.Rand, path string, allowOverride bool) c09FileSpec {
	f := c09GenFile(r, path, allowOverride)
	f.HasGroup = true
	g := map[string]string{}
	for _, kv := range f.GroupLabels {
		g[kv[0]] = kv[1]
	}
	for _, k := range c09LabKeys {
		if len(f.GroupLabels) >= 2 {
			break
		}
		if _, ok := g[k]; !ok {
			v := pick(r, c09LabVals)
			f.GroupLabels = append(f.GroupLabels, [2]string{k, v})
			g[k] = v
		}
	}
	for i := range f.Rules {
		ru := &f.Rules[i]
		have := map[string]bool{}
		for _, kv := range ru.Labels {
			have[kv[0]] = true
		}
		keys := append([]string{}, c09LabKeys...)
		r.Shuffle(len(keys), func(a, b int) { keys[a], keys[b] = keys[b], keys[a] })
		for _, k := range keys {
			if len(ru.Labels) >= 2 {
				break
			}
			if have[k] {
				continue
			}
			v := pick(r, c09LabVals)
			if gv, ok := g[k]; ok && gv != v {
				if !allowOverride {
					continue
				}
				f.Override = true
			}
			ru.Labels = append(ru.Labels, [2]string{k, v})
		}
		if len(ru.Labels) == 0 {
			ru.Labels = [][2]string{{"other", "z"}}
		}
		ru.HasLabels = true
		if ru.Kind == "alerting" {
			ru.HasAnn = true
			ah := map[string]bool{}
			for _, kv := range ru.Annotations {
				ah[kv[0]] = true
			}
			for _, k := range c09AnnKeys {
				if len(ru.Annotations) >= 2 {
					break
				}
				if !ah[k] {
					ru.Annotations = append(ru.Annotations, [2]string{k, pick(r, c09AnnVals)})
				}
			}
		}
	}
	return f
}

func (f c09FileSpec) yaml() string {
	var b strings.Builder
	b.WriteString("groups:\n- name: g\n")
	if f.HasGroup {
		b.WriteString("  labels:\n")
		for _, kv := range f.GroupLabels {
			fmt.Fprintf(&b, "    %s: %q\n", kv[0], kv[1])
		}
	}
	b.WriteString("  rules:\n")
	for _, ru := range f.Rules {
		if ru.Kind == "alerting" {
			fmt.Fprintf(&b, "  - alert: %q\n    expr: up == 0\n", ru.Name)
			if ru.For != nil {
				fmt.Fprintf(&b, "    for: %s\n", *ru.For)
			}
			if ru.Keep != nil {
				fmt.Fprintf(&b, "    keep_firing_for: %s\n", *ru.Keep)
			}
		} else {
			fmt.Fprintf(&b, "  - record: %q\n    expr: sum(up)\n", ru.Name)
		}
		if ru.HasLabels {
			b.WriteString("    labels:\n")
			for _, kv := range ru.Labels {
				fmt.Fprintf(&b, "      %s: %q\n", kv[0], kv[1])
			}
		}
		if ru.HasAnn {
			b.WriteString("    annotations:\n")
			for _, kv := range ru.Annotations {
				fmt.Fprintf(&b, "      %s: %q\n", kv[0], kv[1])
			}
		}
	}
	return b.String()
}

// ---------------------------------------------------------------------------------------------
// reference evaluator of the documented semantics (docs/configuration.md), independent of pint's code

func c09Whole(p, s string) bool { return regexp.MustCompile("^(?:" + p + ")$").MatchString(s) }

type c09Subject struct {
	Path, Kind, Name, State string // State: constant name
	Labels                  [][2]string // effective: group labels not set by the rule + rule labels
	Annotations             [][2]string
	HasAnn                  bool
	For, Keep               *string
}

func c09DocLabels(group, own [][2]string) [][2]string {
	var out [][2]string
	for _, g := range group {
		over := false
		for _, o := range own {
			if o[0] == g[0] {
				over = true
			}
		}
		if !over {
			out = append(out, g)
		}
	}
	return append(out, own...)
}

func c09DurCond(expr string, kind string, field *string) bool {
	if kind != "alerting" || field == nil {
		return false
	}
	d, err := model.ParseDuration(*field)
	if err != nil {
		return true
	}
	op, want := "=", time.Duration(0)
	if i := strings.Index(expr, " "); i >= 0 {
		switch expr[:i] {
		case "<", "<=", "=", "!=", ">=", ">":
			op = expr[:i]
			if w, err := model.ParseDuration(expr[i+1:]); err == nil {
				want = time.Duration(w)
			}
		default:
			op, want = "=", 0
		}
	} else if w, err := model.ParseDuration(expr); err == nil {
		want = time.Duration(w)
	}
	got := time.Duration(d)
	switch op {
	case "<":
		return got < want
	case "<=":
		return got <= want
	case "=":
		return got == want
	case "!=":
		return got != want
	case ">=":
		return got >= want
	default:
		return got > want
	}
}

var c09StateWord = map[string]string{"added": "Added", "modified": "Modified", "renamed": "Moved", "removed": "Removed", "unmodified": "Noop"}

func c09AllConds(cmd string, m config.Match, s c09Subject) bool {
	if m.Command != nil && string(*m.Command) != cmd {
		return false
	}
	if len(m.State) > 0 {
		ok := false
		for _, st := range m.State {
			if st == "any" || c09StateWord[st] == s.State {
				ok = true
			}
		}
		if !ok {
			return false
		}
	}
	if m.Kind != "" && s.Kind != "" && m.Kind != s.Kind {
		return false
	}
	if m.Path != "" && !c09Whole(m.Path, s.Path) {
		return false
	}
	if m.Name != "" && s.Kind != "" && !c09Whole(m.Name, s.Name) {
		return false
	}
	if m.Label != nil {
		ok := false
		for _, kv := range s.Labels {
			if c09Whole(m.Label.Key, kv[0]) && c09Whole(m.Label.Value, kv[1]) {
				ok = true
			}
		}
		if !ok {
			return false
		}
	}
	if m.Annotation != nil {
		ok := false
		if s.Kind == "alerting" && s.HasAnn {
			for _, kv := range s.Annotations {
				if c09Whole(m.Annotation.Key, kv[0]) && c09Whole(m.Annotation.Value, kv[1]) {
					ok = true
				}
			}
		}
		if !ok {
			return false
		}
	}
	if m.For != "" && !c09DurCond(m.For, s.Kind, s.For) {
		return false
	}
	if m.KeepFiringFor != "" && !c09DurCond(m.KeepFiringFor, s.Kind, s.Keep) {
		return false
	}
	return true
}

func c09DocApplies(cmd string, ignore, match []config.Match, s c09Subject) bool {
	for _, i := range ignore {
		if c09AllConds(cmd, i, s) {
			return false
		}
	}
	def := []string{"any"}
	if cmd == "ci" {
		def = []string{"added", "modified", "renamed", "removed"}
	}
	if len(match) == 0 {
		return c09AllConds(cmd, config.Match{State: def}, s)
	}
	for _, m := range match {
		if len(m.State) == 0 {
			m.State = def
		}
		if c09AllConds(cmd, m, s) {
			return true
		}
	}
	return false
}

// ---------------------------------------------------------------------------------------------
// Coq printers

func c09YMap(ym *parser.YamlMap) (string, [][2]string, bool) {
	if ym == nil {
		return "None", nil, false
	}
	var items []string
	var raw [][2]string
	for _, it := range ym.Items {
		items = append(items, coqPair(coqStr(it.Key.Value), coqStr(it.Value.Value)))
		raw = append(raw, [2]string{it.Key.Value, it.Value.Value})
	}
	return "(Some " + coqList(items) + ")", raw, true
}

func c09OptStr(n *parser.YamlNode) (string, *string) {
	if n == nil {
		return "None", nil
	}
	v := n.Value
	return "(Some " + coqStr(v) + ")", &v
}

type c09EntryView struct {
	term    string
	subject c09Subject
	strs    []string // every string a regexp may be applied to
	durs    []string
}

func c09Entry(e discovery.Entry) c09EntryView {
	var v c09EntryView
	kind := "Neither"
	name := ""
	var labels, ann *parser.YamlMap
	var forN, keepN *parser.YamlNode
	if e.Rule.AlertingRule != nil {
		kind, name = "Alerting", e.Rule.AlertingRule.Alert.Value
		labels, ann = e.Rule.AlertingRule.Labels, e.Rule.AlertingRule.Annotations
		forN, keepN = e.Rule.AlertingRule.For, e.Rule.AlertingRule.KeepFiringFor
		v.subject.Kind = "alerting"
	}
	if e.Rule.RecordingRule != nil {
		kind, name = "Recording", e.Rule.RecordingRule.Record.Value
		labels = e.Rule.RecordingRule.Labels
		v.subject.Kind = "recording"
	}
	var group *parser.YamlMap
	if e.Group != nil {
		group = e.Group.Labels
	}
	lt, lraw, _ := c09YMap(labels)
	gt, graw, _ := c09YMap(group)
	at, araw, hasAnn := c09YMap(ann)
	ft, fv := c09OptStr(forN)
	kt, kv := c09OptStr(keepN)
	st := scStateNames[e.State]
	v.term = fmt.Sprintf("{| me_path := %s; me_state := %s; me_kind := %s; me_name := %s; me_labels := %s; me_group_labels := %s; me_annotations := %s; me_for := %s; me_keep := %s |}",
		coqStr(e.Path.Name), coqStr(st), kind, coqStr(name), lt, gt, at, ft, kt)
	own := lraw
	if kind == "Neither" {
		own = nil
	}
	v.subject.Path, v.subject.Name, v.subject.State = e.Path.Name, name, st
	v.subject.Labels = c09DocLabels(graw, own)
	v.subject.Annotations, v.subject.HasAnn = araw, hasAnn
	v.subject.For, v.subject.Keep = fv, kv
	v.strs = []string{e.Path.Name, name}
	for _, kvp := range append(append(append([][2]string{}, lraw...), graw...), araw...) {
		v.strs = append(v.strs, kvp[0], kvp[1])
	}
	if fv != nil {
		v.durs = append(v.durs, *fv)
	}
	if kv != nil {
		v.durs = append(v.durs, *kv)
	}
	return v
}

func c09Block(m config.Match) (string, []string, []string) {
	var pats, durs []string
	kvm := func(k, v string) string {
		pats = append(pats, k, v)
		return fmt.Sprintf("(Some {| km_key := %s; km_value := %s |})", coqStr(k), coqStr(v))
	}
	lab, ann, cmd := "None", "None", "None"
	if m.Label != nil {
		lab = kvm(m.Label.Key, m.Label.Value)
	}
	if m.Annotation != nil {
		ann = kvm(m.Annotation.Key, m.Annotation.Value)
	}
	if m.Command != nil {
		cmd = "(Some " + coqStr(string(*m.Command)) + ")"
	}
	if m.Path != "" {
		pats = append(pats, m.Path)
	}
	if m.Name != "" {
		pats = append(pats, m.Name)
	}
	for _, d := range []string{m.For, m.KeepFiringFor} {
		if d == "" {
			continue
		}
		durs = append(durs, d)
		if i := strings.Index(d, " "); i >= 0 {
			durs = append(durs, d[i+1:])
		}
	}
	t := fmt.Sprintf("{| m_label := %s; m_annotation := %s; m_command := %s; m_path := %s; m_name := %s; m_kind := %s; m_for := %s; m_keep := %s; m_state := %s |}",
		lab, ann, cmd, coqStr(m.Path), coqStr(m.Name), coqStr(m.Kind), coqStr(m.For), coqStr(m.KeepFiringFor), coqStrList(m.State))
	return t, pats, durs
}

func c09Blocks(ms []config.Match) (string, []string, []string) {
	var ts, pats, durs []string
	for _, m := range ms {
		t, p, d := c09Block(m)
		ts = append(ts, t)
		pats = append(pats, p...)
		durs = append(durs, d...)
	}
	return coqList(ts), pats, durs
}

func c09Uniq(xs []string) []string {
	seen := map[string]bool{}
	var out []string
	for _, x := range xs {
		if !seen[x] {
			seen[x] = true
			out = append(out, x)
		}
	}
	return out
}

func c09ReTable(pats, strs []string) string {
	var rows []string
	for _, p := range c09Uniq(pats) {
		re, err := regexp.Compile("^(?:" + p + ")$")
		var cols []string
		for _, s := range c09Uniq(strs) {
			cols = append(cols, coqPair(coqStr(s), coqBool(err == nil && re.MatchString(s))))
		}
		rows = append(rows, coqPair(coqStr(p), coqList(cols)))
	}
	return coqList(rows)
}

func c09DurTable(durs []string) string {
	var rows []string
	for _, d := range c09Uniq(durs) {
		v, err := model.ParseDuration(d)
		rows = append(rows, coqPair(coqStr(d), coqOpt(err == nil, coqZ(int64(v)))))
	}
	return coqList(rows)
}

// ---------------------------------------------------------------------------------------------

func runC09(args []string) int {
	n := argInt(args, "--n", 40)
	seed := seedFromEnv()
	r := rand.New(rand.NewSource(seed))
	rep := newReport("C09", seed)
	rep.Rule = "Blk case = (decoded match/ignore blocks of one rule{} block, entry from the real finder with forced state, command) through the real isMatch, raw and after defaultRuleMatch; " +
		"non-trivial = the block list has >= 1 match and >= 1 ignore block; marker case = (rule block k, rule) in a pint lint/ci run of the real binary vs the reference evaluator, non-trivial likewise"
	scQuiet()
	cwd, _ := os.Getwd()
	cw := newCaseWriter(cwd, "Run.C09", 120)
	cw.preamble = "Open Scope N_scope.\n"
	id := 0

	// ---- anchoring of matchRegex on a pattern grammar (alternations, groups, classes, anchors)
	atoms := []string{"foo", "bar", "fo+", "[a-f]+", "(foo|bar)", "ba.", "^foo", "bar$", "x*", "(?:a|b)c"}
	subjects := []string{"foo", "bar", "foobar", "foobaz", "xbar", "barx", "", "ac", "bc", "a", "c", "fooo", "baz", "xfoo", "foo|bar"}
	var pats []string
	pats = append(pats, atoms...)
	for i := 0; i < 30; i++ {
		a, b := pick(r, atoms), pick(r, atoms)
		switch r.Intn(4) {
		case 0:
			pats = append(pats, a+"|"+b)
		case 1:
			pats = append(pats, a+"|"+b+"|"+pick(r, atoms))
		case 2:
			pats = append(pats, "("+a+"|"+b+")"+pick(r, atoms))
		default:
			pats = append(pats, a+b)
		}
	}
	pats = append(pats, "foo|bar", "|foo", "foo|", "a|b|c", "^foo|bar$", "^foo$|^bar$", "^(foo|bar)$", "^fo|ar$", "^a|c$")
	for _, p := range c09Uniq(pats) {
		re, err := regexp.Compile("^(?:" + p + ")$")
		if err != nil {
			continue
		}
		for _, s := range subjects {
			if r.Intn(3) != 0 && !strings.Contains(p, "|") {
				continue
			}
			id++
			cw.add(fmt.Sprintf("Anch %s %s %s %s %s", coqN(id), coqStr(p), coqStr(s), coqBool(re.MatchString(s)), coqBool(c09NameMatches(p, s))))
			rep.count("anch|"+p+"|"+s, strings.Contains(p, "|"))
			rep.hist("case=anchoring")
		}
	}

	// ---- parseDurationMatch / durationMatch.isMatch
	exprs := append(append([]string{}, c09ForPats...), c09KeepPats...)
	exprs = append(exprs, "< 5m", "<= 1h", ">= 1m30s", "> 0s", "!= 5m", "== 5m", "=5m", "5m ", "", " ", "< ", "1h30m", "30m1h")
	for _, ex := range exprs {
		for _, dv := range []string{"0s", "5m", "1m", "1h", "4m59s", "5m1s"} {
			d, _ := model.ParseDuration(dv)
			ok, res := config.VerifDurationMatch(ex, int64(d))
			tbl := []string{ex}
			if i := strings.Index(ex, " "); i >= 0 {
				tbl = append(tbl, ex[i+1:])
			}
			id++
			cw.add(fmt.Sprintf("Dur %s %s %s %s %s %s", coqN(id), coqStr(ex), coqZ(int64(d)), c09DurTable(tbl), coqBool(ok), coqBool(res)))
			rep.count("dur|"+ex+"|"+dv, ok)
			rep.hist("case=duration")
		}
	}

	// ---- blocks x entries x command
	for i := 0; i < n; i++ {
		dir := filepath.Join(cwd, "corr", fmt.Sprintf("s%04d", i))
		k := 1 + r.Intn(4)
		hcl := c09GenConfig(r, k)
		if i%3 == 2 {
			hcl = c09GenFocusConfig(r, 2+r.Intn(3), i/3*4)
		}
		cfg, err := scLoadConfig(dir, hcl)
		if err != nil {
			rep.hist("corr:config-rejected")
			if len(rep.Notes) < 5 {
				rep.Notes = append(rep.Notes, "generated config rejected: "+err.Error())
			}
			continue
		}
		for _, p := range c09Paths[:1+r.Intn(3)] {
			if i%3 == 2 {
				writeFile(filepath.Join(dir, p), c09GenFileRich(r, p, r.Intn(2) == 0).yaml())
			} else {
				writeFile(filepath.Join(dir, p), c09GenFile(r, p, r.Intn(2) == 0).yaml())
			}
		}
		if r.Intn(6) == 0 {
			writeFile(filepath.Join(dir, "rules/broken.yml"), "groups:\n- name: g\n  rules:\n  - alert: Foo\n    bogus: 1\n    expr: up\n")
		}
		entries, err := scEntries(dir, "rules")
		if err != nil {
			rep.hist("corr:finder-error")
			continue
		}
		// parseRule/newParsedRule: what a parsed rule stores for the blocks of its rule{} (every command)
		if len(entries) > 0 {
			gen := config.NewPrometheusGenerator(cfg, prometheus.NewRegistry())
			if gen.GenerateStatic() == nil {
				for _, rule := range cfg.Rules {
					it, _, _ := c09Blocks(rule.Ignore)
					mt, _, _ := c09Blocks(rule.Match)
					for _, cmd := range []string{"ci", "lint", ""} {
						for _, pr := range config.VerifParseRule(scCtx(cmd), rule, gen, entries[0]) {
							oi, _, _ := c09Blocks(pr.Ignore)
							om, _, _ := c09Blocks(pr.Match)
							id++
							cw.add(fmt.Sprintf("PRule %s %s %s %s %s %s", coqN(id), coqStr(cmd), it, mt, oi, om))
							rep.count("prule|"+cmd+"|"+it+"|"+mt, len(rule.Match) > 0 && len(rule.Ignore) > 0)
							rep.hist("case=parsed-rule")
						}
					}
				}
			}
			gen.Stop()
		}
		for _, e0 := range entries {
			for _, rule := range cfg.Rules {
				e := e0
				cmd := pick(r, []string{"ci", "lint", "watch", "ci", ""})
				e.State = pick(r, scAllStates)
				ctx := scCtx(cmd)
				// Entry.Labels() and its side effect on the group, observed BEFORE the entry is matched
				if e.Group != nil && r.Intn(3) == 0 {
					ev := c09Entry(e)
					got := e.Labels()
					_, graw, gok := c09YMap(e.Group.Labels)
					var items []string
					for _, it := range got.Items {
						items = append(items, coqPair(coqStr(it.Key.Value), coqStr(it.Value.Value)))
					}
					after := "None"
					if gok {
						var gi []string
						for _, kv := range graw {
							gi = append(gi, coqPair(coqStr(kv[0]), coqStr(kv[1])))
						}
						after = "(Some " + coqList(gi) + ")"
					}
					id++
					cw.add(fmt.Sprintf("Lab %s %s %s %s", coqN(id), ev.term, coqList(items), after))
					rep.count("lab|"+ev.term, gok)
					rep.hist("case=labels")
				}
				ev := c09Entry(e) // group labels as they are NOW (earlier rules may have rewritten them: C09-group-label-aliasing)
				it, ip, idur := c09Blocks(rule.Ignore)
				mt, mp, mdur := c09Blocks(rule.Match)
				defaulted := r.Intn(3) > 0
				var obs bool
				if defaulted {
					obs = config.VerifIsMatch(ctx, e, rule.Ignore, config.VerifDefaultRuleMatch(rule.Match, config.VerifDefaultMatchStates(config.ContextCommandVal(cmd))))
				} else {
					obs = config.VerifIsMatch(ctx, e, rule.Ignore, rule.Match)
				}
				id++
				term := fmt.Sprintf("Blk %s %s %s %s %s %s %s %s %s", coqN(id), coqStr(cmd), ev.term, it, mt, coqBool(defaulted),
					c09ReTable(append(ip, mp...), ev.strs), c09DurTable(append(append(idur, mdur...), ev.durs...)), coqBool(obs))
				cw.add(term)
				rep.count(term[len("Blk ")+len(coqN(id)):], len(rule.Match) > 0 && len(rule.Ignore) > 0)
				rep.hist("case=block")
				rep.hist(fmt.Sprintf("block:match=%d,ignore=%d", len(rule.Match), len(rule.Ignore)))
				rep.hist("block:cmd=" + cmd)
				rep.hist("block:result=" + fmt.Sprint(obs))
				if len(rep.Cases) < 300 {
					rep.Cases[fmt.Sprint(id)] = map[string]any{"config": hcl, "rule": e.Rule.Name(), "path": e.Path.Name, "state": scStateNames[e.State], "command": cmd, "defaulted": defaulted, "observed": obs, "dir": dir}
				}
			}
		}
	}
	cw.flush()
	rep.CaseFiles = cw.files

	c09Binary(r, rep, cwd, n)
	rep.write(filepath.Join(cwd, "report.json"))
	return 0
}

// ---------------------------------------------------------------------------------------------
// end to end: marker checks on the real binary

type c09Scenario struct {
	Config string        `json:"config"`
	Files  []c09FileSpec `json:"files"`
	Cmd    string        `json:"command"`
}

func c09Binary(r *rand.Rand, rep *runReport, cwd string, n int) {
	ns := 2 * n
	var scens []c09Scenario
	// corpus: the design-session witness (alternation must stay anchored, 67ca7ad) and the aliasing witness (dac9e2b)
	scens = append(scens, c09Scenario{Cmd: "lint",
		Config: "rule {\n  match {\n    name = \"foo|bar\"\n  }\n  label \"marker_0\" {\n    required = true\n    comment = \"k0\"\n  }\n}\n",
		Files: []c09FileSpec{{Path: "rules/a.yml", Rules: []c09RuleSpec{{Kind: "recording", Name: "foobaz"}, {Kind: "recording", Name: "xbar"}, {Kind: "recording", Name: "other"}, {Kind: "recording", Name: "foo"}}}}})
	scens = append(scens, c09Scenario{Cmd: "lint",
		Config: "rule {\n  match {\n    label \"team\" {\n      value = \"x\"\n    }\n  }\n  label \"marker_0\" {\n    required = true\n    comment = \"k0\"\n  }\n}\n",
		Files: []c09FileSpec{{Path: "rules/a.yml", HasGroup: true, GroupLabels: [][2]string{{"team", "x"}}, Override: true,
			Rules: []c09RuleSpec{{Kind: "recording", Name: "a", HasLabels: true, Labels: [][2]string{{"team", "y"}}}, {Kind: "recording", Name: "b", HasLabels: true, Labels: [][2]string{{"other", "z"}}}}}}})
	for i := 0; i < ns; i++ {
		sc := c09Scenario{Cmd: pick(r, []string{"lint", "lint", "ci"}), Config: c09GenConfig(r, 1+r.Intn(4))}
		focused := i%2 == 1
		if focused {
			// one condition kind per rule block, rotating over the nine kinds; files with several labels/annotations per rule
			sc.Config = c09GenFocusConfig(r, 3+r.Intn(3), i/2*5)
		}
		nf := 1 + r.Intn(3)
		if i%4 == 3 {
			// pint ci with untouched rules (the first file is committed on the base branch) and explicit states
			sc.Cmd = "ci"
			sc.Config = c09GenCIStateConfig(r, 3+r.Intn(3))
			nf = 2 + r.Intn(2)
		}
		for _, p := range c09Paths[:nf] {
			if focused {
				sc.Files = append(sc.Files, c09GenFileRich(r, p, r.Intn(3) == 0))
			} else {
				sc.Files = append(sc.Files, c09GenFile(r, p, r.Intn(3) == 0))
			}
		}
		scens = append(scens, sc)
	}
	type result struct {
		run     scRun
		cfg     config.Config
		cfgErr  error
		entries []discovery.Entry
	}
	res := make([]result, len(scens))
	parallel(len(scens), 16, func(i int) {
		sc := scens[i]
		dir := filepath.Join(cwd, "bin", fmt.Sprintf("s%04d", i))
		if sc.Cmd == "ci" {
			writeFile(filepath.Join(dir, "README"), "x\n")
			git(dir, "init", "-q", "-b", "main", ".")
			if len(sc.Files) >= 2 {
				// the first file already exists on the base branch: its rules are unmodified (Noop) in `pint ci`
				writeFile(filepath.Join(dir, sc.Files[0].Path), sc.Files[0].yaml())
			}
			if len(sc.Files) >= 3 {
				// the second file exists on the base branch with every expression different: all its rules are Modified
				base := strings.ReplaceAll(strings.ReplaceAll(sc.Files[1].yaml(), "expr: up == 0", "expr: up == 1"), "expr: sum(up)", "expr: sum(down)")
				writeFile(filepath.Join(dir, sc.Files[1].Path), base)
			}
			git(dir, "add", ".")
			git(dir, "commit", "-q", "-m", "init")
			git(dir, "checkout", "-q", "-b", "feature")
		}
		for _, f := range sc.Files {
			writeFile(filepath.Join(dir, f.Path), f.yaml())
		}
		cfg, err := scLoadConfig(dir, sc.Config)
		res[i].cfg, res[i].cfgErr = cfg, err
		if err != nil {
			return
		}
		res[i].entries, _ = scEntries(dir, "rules")
		if sc.Cmd == "ci" {
			git(dir, "add", ".")
			git(dir, "commit", "-q", "-m", "add rules")
			res[i].run = scRunPint(dir, "out.json", []string{"-c", ".pint.hcl", "--offline"}, []string{"ci", "--base-branch", "main", "--fail-on", "fatal", "--json", "@JSON@"})
		} else {
			res[i].run = scRunPint(dir, "out.json", []string{"-c", ".pint.hcl", "--offline"}, []string{"lint", "--min-severity", "info", "--fail-on", "fatal", "--json", "@JSON@", "rules"})
		}
	})
	for i, sc := range scens {
		rr := res[i]
		if rr.cfgErr != nil {
			rep.hist("marker:config-rejected")
			continue
		}
		desc := map[string]any{"scenario": sc, "run": rr.run}
		if scCrashed(rr.run) || !rr.run.JSONOK {
			rep.fail(fmt.Sprintf("bin-%d", i), fmt.Sprintf("pint crashed or wrote no report (exit %d): %s", rr.run.Exit, rr.run.Stderr), desc)
			continue
		}
		override := map[string]bool{}
		for _, f := range sc.Files {
			if f.Override {
				override[f.Path] = true
			}
		}
		state := discovery.Noop
		if sc.Cmd == "ci" {
			state = discovery.Added
		}
		for _, e := range rr.entries {
			state := state
			if sc.Cmd == "ci" && len(sc.Files) >= 2 && e.Path.Name == sc.Files[0].Path {
				state = discovery.Noop
				rep.hist("marker:ci-unmodified-rule")
			}
			if sc.Cmd == "ci" && len(sc.Files) >= 3 && e.Path.Name == sc.Files[1].Path {
				state = discovery.Modified
				rep.hist("marker:ci-modified-rule")
			}
			if e.PathError != nil || e.Rule.Error.Err != nil {
				rep.hist("marker:broken-rule-skipped") // only the ErrorCheck is routed to a broken rule
				continue
			}
			e.State = state
			ev := c09Entry(e)
			// blocks carrying the identical marker check form a group
			groupOf := func(rule config.Rule) string {
				if len(rule.Label) > 0 {
					return strings.TrimPrefix(rule.Label[0].Key, "marker_")
				}
				return "?"
			}
			for k, rule := range rr.cfg.Rules {
				g := groupOf(rule)
				first, size := true, 0
				want := false
				for k2, r2 := range rr.cfg.Rules {
					if groupOf(r2) != g {
						continue
					}
					size++
					if k2 < k {
						first = false
					}
					if c09DocApplies(sc.Cmd, r2.Ignore, r2.Match, ev.subject) {
						want = true
					}
				}
				if !first {
					continue // evaluated with the first block of its group
				}
				if size > 1 {
					rep.hist("marker:identical-check-in-several-blocks")
					if !c09DocApplies(sc.Cmd, rule.Ignore, rule.Match, ev.subject) && want {
						rep.hist("marker:selected-by-a-later-block-of-the-group-only")
					}
				}
				got := false
				for _, p := range rr.run.Problems {
					if p.Reporter == "rule/label" && p.Path == e.Path.Name && p.Details == fmt.Sprintf("Rule comment: k%s", g) && len(p.Lines) > 0 &&
						p.Lines[0] >= e.Rule.Lines.First && p.Lines[len(p.Lines)-1] <= e.Rule.Lines.Last {
						got = true
					}
				}
				key := fmt.Sprintf("marker|%d|%d|%s|%s", i, k, e.Path.Name, e.Rule.Name())
				rep.count(key, len(rule.Match) > 0 && len(rule.Ignore) > 0)
				rep.hist("case=marker")
				rep.hist("marker:cmd=" + sc.Cmd)
				rep.hist(fmt.Sprintf("marker:applies=%v", want))
				c09CondHist(rep, sc.Cmd, rule, ev.subject)
				if want != got {
					what := fmt.Sprintf("rule block %d (marker group %s, %d block(s)) %s applied to rule %q (%s, lines %d-%d): pint=%v, documented semantics=%v",
						k, g, size, sc.Cmd, e.Rule.Name(), e.Path.Name, e.Rule.Lines.First, e.Rule.Lines.Last, got, want)
					d2 := map[string]any{"scenario": sc, "rule": e.Rule.Name(), "path": e.Path.Name, "block": k, "pint": got, "documented": want, "args": rr.run.Args}
					_ = override // (class of the repaired finding C09-group-label-aliasing: a recurrence is a VIOLATION)
					rep.fail(key, what, d2)
				}
			}
		}
	}
	sort.Strings(rep.Notes)
	rep.sample(map[string]any{"scenario": scens[len(scens)-1]})
}

// c09CondHist: measured distribution of the marker evaluations per condition kind and verdict of that single condition,
// plus the adversarial strata of the key/value conditions (key pattern matching several names with mixed value verdicts).
func c09CondHist(rep *runReport, cmd string, rule config.Rule, s c09Subject) {
	one := func(role string, m config.Match) {
		single := func(kind string, mm config.Match) {
			rep.hist(fmt.Sprintf("marker:cond=%s/%s=%v", role, kind, c09AllConds(cmd, mm, s)))
		}
		if m.Command != nil {
			single("command", config.Match{Command: m.Command})
		}
		if len(m.State) > 0 {
			single("state", config.Match{State: m.State})
		}
		if m.Kind != "" {
			single("kind", config.Match{Kind: m.Kind})
		}
		if m.Path != "" {
			single("path", config.Match{Path: m.Path})
		}
		if m.Name != "" {
			single("name", config.Match{Name: m.Name})
		}
		if m.For != "" {
			single("for", config.Match{For: m.For})
			if s.For != nil {
				if _, err := model.ParseDuration(*s.For); err != nil {
					rep.hist("marker:for-rule-value-not-a-duration")
				}
			}
		}
		if m.KeepFiringFor != "" {
			single("keep_firing_for", config.Match{KeepFiringFor: m.KeepFiringFor})
		}
		mixed := func(kp, vp string, kvs [][2]string) (n int, t int) {
			for _, kv := range kvs {
				if c09Whole(kp, kv[0]) {
					n++
					if c09Whole(vp, kv[1]) {
						t++
					}
				}
			}
			return
		}
		if m.Label != nil {
			single("label", config.Match{Label: m.Label})
			if n, t := mixed(m.Label.Key, m.Label.Value, s.Labels); n >= 2 && t >= 1 && t < n {
				rep.hist("marker:label-key-matches-several-mixed-values")
			}
		}
		if m.Annotation != nil {
			single("annotation", config.Match{Annotation: m.Annotation})
			if n, t := mixed(m.Annotation.Key, m.Annotation.Value, s.Annotations); n >= 2 && t >= 1 && t < n {
				rep.hist("marker:annotation-key-matches-several-mixed-values")
			}
		}
	}
	for _, m := range rule.Match {
		one("match", m)
	}
	for _, m := range rule.Ignore {
		one("ignore", m)
	}
}

// class predicate of known finding C09-group-label-aliasing: the rule block has a label condition and the file's
// group has a label that some rule of the group overrides with a different value.
func c09HasLabelCond(rule config.Rule) bool {
	for _, m := range append(append([]config.Match{}, rule.Match...), rule.Ignore...) {
		if m.Label != nil {
			return true
		}
	}
	return false
}

// c09NameMatches: the anchoring of match regexps observed through the exported Match.IsMatch (a name condition on
// a synthetic recording rule), so that the test does not depend on the name of pint's regexp helper.
func c09NameMatches(pattern, name string) bool {
	e := discovery.Entry{Rule: parser.Rule{RecordingRule: &parser.RecordingRule{Record: parser.YamlNode{Value: name}}}}
	return config.Match{Name: pattern}.IsMatch(scCtx("lint"), "x.yml", e)
}
