//go:build verif

package main

import (
	"sort"
	"encoding/json"
	"fmt"
	"math/rand"
	"os"
	"path/filepath"
	"strings"
)

// C05: exit status of the real binary vs the severities it reports itself (--json).

type c05Scenario struct {
	Rules  string `json:"rules"`
	Config string `json:"config"`
	// Layout "deleted": the pint ci repository has, on main, rules/dep.yml (a recording rule), rules/0.yml (Rules, using it) and
	// rules/old.yml; the feature branch DELETES rules/dep.yml (rule/dependency: a report anchored on a file that no longer
	// exists), renames rules/old.yml and adds Extra as rules/extra.yml
	Layout string `json:"layout,omitempty"`
	Extra  string `json:"extra,omitempty"`
	// Blocks: the configuration is the concatenation of these rule{} blocks; besides the normal runs pint is run once per
	// SINGLE block, and the exit status of the full configuration must be non-zero iff some single-block run reports a problem
	// >= --fail-on (a reference that does not go through the folding of pint's own report)
	Blocks []string `json:"blocks,omitempty"`
}

type c05Run struct {
	ID       int          `json:"id"`
	Scenario int          `json:"scenario"`
	CI       bool         `json:"ci"`
	FailOn   *string      `json:"fail_on"`
	MinSev   *string      `json:"min_severity"`
	ShowDups bool         `json:"show_duplicates"`
	// reporting flags that must not influence the exit status
	TeamCity     bool `json:"teamcity,omitempty"`
	CheckStyle   bool `json:"checkstyle,omitempty"`
	RequireOwner bool `json:"require_owner,omitempty"`
	Group        string `json:"flag_group,omitempty"` // runs of one group differ only in their reporting flags
	JSONKey      string `json:"json_digest,omitempty"`
	Block        int  `json:"single_block,omitempty"` // k > 0: configuration = block k-1 of the scenario alone
	Workers1     bool `json:"workers_1,omitempty"`
	Sevs     []string     `json:"severities"`
	JSONOK   bool         `json:"json_present"`
	// control-flow strata: an injected infrastructure fault (the stage of actionLint/actionCI that must return an error),
	// the git situation of pint ci, and whether the --json file exists at all afterwards
	Fault      string `json:"fault,omitempty"`
	Branch     string `json:"current_branch,omitempty"`
	Base       string `json:"base_branch,omitempty"`
	NoChange   bool   `json:"branch_without_changes,omitempty"`
	JSONExists bool   `json:"json_file_exists"`
	PanicIn    string `json:"panic_in,omitempty"` // "verifyOwners" when the (untruncated) stack trace of a panic names main.verifyOwners (diagnostics only)
	Exit     int          `json:"exit"`
	Stderr   string       `json:"stderr_tail,omitempty"`
}

var c05Sevs = []string{"info", "warning", "bug", "fatal"}

func c05GenScenario(r *rand.Rand) c05Scenario {
	var rules, cfg strings.Builder
	n := r.Intn(5)
	rules.WriteString("groups:\n- name: g\n  rules:\n")
	if n == 0 {
		rules.WriteString("  []\n")
	}
	for i := 0; i < n; i++ {
		name := fmt.Sprintf("r%d", i)
		alert := r.Intn(2) == 0
		expr := "up == 0"
		switch r.Intn(10) {
		case 0:
			expr = "sum(" // promql/syntax
		case 1:
			expr = "up{job=\"a\"} == 0"
		case 2:
			expr = "up" // alerting rule without a comparison: alerts/comparison (Warning, fixed in the check)
		}
		if alert {
			fmt.Fprintf(&rules, "  - alert: %s\n    expr: %s\n", name, expr)
			switch r.Intn(6) {
			case 0:
				rules.WriteString("    for: abc\n")
			case 1:
				rules.WriteString("    for: 0s\n") // alerts/for (Information, fixed in the check)
			}
		} else {
			fmt.Fprintf(&rules, "  - record: %s\n    expr: %s\n", name, expr)
		}
		if r.Intn(8) == 0 {
			rules.WriteString("    bogus_key: 1\n") // strict parser error => Fatal
		}
		// custom severities through config
		if r.Intn(3) > 0 {
			fmt.Fprintf(&cfg, "rule {\n  match {\n    name = %q\n  }\n  report {\n    comment = \"c%d\"\n    severity = %q\n  }\n}\n", name, i, pick(r, c05Sevs))
		}
		if r.Intn(3) == 0 {
			fmt.Fprintf(&cfg, "rule {\n  match {\n    name = %q\n  }\n  label \"team\" {\n    required = true\n    severity = %q\n  }\n}\n", name, pick(r, c05Sevs))
		}
	}
	// identical problems on several rules => duplicate folding
	if r.Intn(3) == 0 {
		fmt.Fprintf(&cfg, "rule {\n  label \"owner\" {\n    required = true\n    severity = %q\n  }\n}\n", pick(r, c05Sevs))
	}
	if r.Intn(12) == 0 {
		rules.WriteString("  - {{ broken yaml\n")
	}
	if cfg.Len() == 0 || r.Intn(4) == 0 {
		cfg.WriteString("parser { relaxed = [] }\n")
	}
	return c05Scenario{Rules: rules.String(), Config: cfg.String()}
}

// input class of the REPAIRED finding C05-require-owner-broken-rule-crash (fix ec90fa6; corpus/C05/require_owner_broken_rule.json):
// the rule file parses as a whole (no file-level YAML error) and holds a rule with a rule-level parse error; the generated files
// never carry owners.  Such scenarios always get the --require-owner runs (lint, and ci on a branch without changes).
func c05UnownedBrokenRule(sc c05Scenario) bool {
	return strings.Contains(sc.Rules, "bogus_key") && !strings.Contains(sc.Rules, "{{ broken yaml")
}

// c05WriteRules writes the rule set of a scenario below root/rules (the linted path).  Layouts "symlink-*": the rules
// are reachable through symbolic links — to a file outside the linted tree, to a file inside it (reached twice), through a
// chain of links, through a linked directory.
func c05WriteRules(root string, sc c05Scenario) {
	link := func(target, name string) {
		must(os.MkdirAll(filepath.Dir(filepath.Join(root, name)), 0o755))
		os.Remove(filepath.Join(root, name))
		must(os.Symlink(target, filepath.Join(root, name)))
	}
	switch sc.Layout {
	case "symlink-out":
		writeFile(filepath.Join(root, "shared", "1.yml"), sc.Rules)
		link("../shared/1.yml", "rules/link.yml")
	case "symlink-in":
		writeFile(filepath.Join(root, "rules", "0.yml"), sc.Rules)
		link("0.yml", "rules/link.yml")
	case "symlink-chain":
		writeFile(filepath.Join(root, "shared", "1.yml"), sc.Rules)
		link("../shared/1.yml", "rules/a.yml")
		link("a.yml", "rules/b.yml")
	case "symlink-dir":
		writeFile(filepath.Join(root, "shared", "1.yml"), sc.Rules)
		writeFile(filepath.Join(root, "rules", "0.yml"), "groups:\n- name: plain\n  rules:\n  - record: plain\n    expr: up\n")
		link("../shared", "rules/sub")
	default:
		writeFile(filepath.Join(root, "rules", "0.yml"), sc.Rules)
	}
}

// /dev/full accepts open() and fails every write with ENOSPC: the way to make a reporter's Submit fail
var c05DevFull = func() bool {
	f, err := os.OpenFile("/dev/full", os.O_WRONLY, 0)
	if err != nil {
		return false
	}
	defer f.Close()
	_, err = f.Write([]byte("x"))
	return err != nil
}()

func runC05(args []string) int {
	n := argInt(args, "--n", 30)
	seed := seedFromEnv()
	r := rand.New(rand.NewSource(seed))
	rep := newReport("C05", seed)
	rep.Rule = "scenario = generated rule file + config assigning custom severities (report/label blocks, syntax errors, strict parse errors, broken yaml); " +
		"each scenario is run through the real pint binary (lint and ci) for every --fail-on in {omitted,info,warning,bug,fatal,invalid} x a sample of --min-severity x --show-duplicates; " +
		"every third scenario additionally with one injected fault per error return of actionSetup/actionLint/actionCI (no path, missing path, bad/missing config, --workers 0, bad log level, " +
		"unwritable --json/--checkstyle, failing Prometheus discovery (checkRules error), --json /dev/full (Submit error), not a git repository, unknown base branch, github reporter without token), pint ci run from the base branch (5 spellings) and on a branch without changes; " +
		"non-trivial = the JSON report holds >= 2 distinct severities; distinct = (severity multiset, flags)"
	cwd, _ := os.Getwd()
	base := filepath.Join(cwd, "scen")
	scen := make([]c05Scenario, n)
	for i := range scen {
		scen[i] = c05GenScenario(r)
	}
	// corpus: fixed scenarios first
	scen = append([]c05Scenario{
		{Rules: "groups:\n- name: g\n  rules:\n  - record: r0\n    expr: up\n", Config: "rule {\n  report {\n    comment = \"x\"\n    severity = \"warning\"\n  }\n}\n"},
		{Rules: "groups:\n- name: g\n  rules:\n  - record: r0\n    expr: up\n  - record: r1\n    expr: up\n", Config: "rule {\n  match {\n    name = \"r0\"\n  }\n  report {\n    comment = \"x\"\n    severity = \"info\"\n  }\n}\nrule {\n  match {\n    name = \"r1\"\n  }\n  report {\n    comment = \"x\"\n    severity = \"fatal\"\n  }\n}\n"},
		{Rules: "groups:\n- name: g\n  rules: []\n", Config: "parser { relaxed = [] }\n"},
	}, scen...)
	// boundary strata: for every severity S a scenario whose ONLY problem has severity S, and one whose maximum is S with
	// a lower one next to it — every (maximum severity, --fail-on) pair of the 4x4 grid is exercised on both commands
	var grid []c05Scenario
	for k, sv := range c05Sevs {
		one := "groups:\n- name: g\n  rules:\n  - record: r0\n    expr: up\n"
		two := one + "  - record: r1\n    expr: up\n"
		grid = append(grid, c05Scenario{Rules: one, Config: fmt.Sprintf("rule {\n  report {\n    comment = \"only\"\n    severity = %q\n  }\n}\n", sv)})
		if k > 0 {
			grid = append(grid, c05Scenario{Rules: two, Config: fmt.Sprintf("rule {\n  match {\n    name = \"r0\"\n  }\n  report {\n    comment = \"hi\"\n    severity = %q\n  }\n}\nrule {\n  match {\n    name = \"r1\"\n  }\n  report {\n    comment = \"lo\"\n    severity = %q\n  }\n}\n", sv, c05Sevs[k-1])})
		}
	}
	// problems whose severity is fixed in the code of a built-in check (not read from the configuration): one scenario
	// per severity, so that the meaning of a --fail-on WORD is tested against severities that never went through ParseSeverity
	nocfg := "parser { relaxed = [] }\n"
	hdr := "groups:\n- name: g\n  rules:\n"
	grid = append(grid,
		c05Scenario{Rules: hdr + "  - alert: A\n    expr: up == 0\n    for: 0s\n", Config: nocfg},                                                            // alerts/for: Information
		c05Scenario{Rules: hdr + "  - alert: A\n    expr: up\n", Config: nocfg},                                                                                // alerts/comparison: Warning
		c05Scenario{Rules: hdr + "  - alert: A\n    expr: sum(up) > 0\n    annotations:\n      summary: \"{{ $labels.job }}\"\n", Config: nocfg},          // alerts/template: Bug
		c05Scenario{Rules: hdr + "  - alert: A\n    expr: up == 0\n    bogus_key: 1\n", Config: nocfg},                                                       // parse error: Fatal
		c05Scenario{Rules: hdr + "  - alert: A\n    expr: up\n    for: 0s\n  - alert: B\n    expr: sum(up) > 0\n    annotations:\n      summary: \"{{ $labels.job }}\"\n", Config: nocfg},
	)
	// the SAME issue (same check, same summary, same diagnostic text) reported with DIFFERENT severities on two rules: the
	// reports are duplicates of each other for everything but the severity; both orders (lower first / higher first)
	for i, lo := range c05Sevs {
		for _, hi := range c05Sevs[i+1:] {
			for _, order := range [][2]string{{lo, hi}, {hi, lo}} {
				grid = append(grid, c05Scenario{Rules: hdr + "  - record: r0\n    expr: up\n  - record: r1\n    expr: up\n",
					Config: fmt.Sprintf("rule {\n  match {\n    name = \"r0\"\n  }\n  label \"team\" {\n    required = true\n    severity = %q\n  }\n}\nrule {\n  match {\n    name = \"r1\"\n  }\n  label \"team\" {\n    required = true\n    severity = %q\n  }\n}\n", order[0], order[1])})
			}
		}
	}
	// the same, across two files (path is part of the sort order) is covered by the generated scenarios with several rules;
	// pint ci on a branch that deletes a whole file whose rule is still used, and renames another one
	uses := hdr + "  - alert: UsesDep\n    expr: dep:rec > 0\n    for: 1m\n"
	grid = append(grid,
		c05Scenario{Rules: uses, Config: nocfg, Layout: "deleted"},
		c05Scenario{Rules: uses, Config: "rule {\n  report {\n    comment = \"r\"\n    severity = \"info\"\n  }\n}\n", Layout: "deleted",
			Extra: hdr + "  - record: extra\n    expr: sum(up)\n"},
	)
	// two check INSTANCES (different String()) emitting identical text with different severities on the SAME rule and lines
	blk := func(kind, key, extra, sev string) string {
		return fmt.Sprintf("rule {\n  %s %q {\n    required = true\n%s    severity = %q\n  }\n}\n", kind, key, extra, sev)
	}
	for i, lo := range c05Sevs {
		for _, hi := range c05Sevs[i+1:] {
			for _, order := range [][2]string{{lo, hi}, {hi, lo}} {
				for _, kind := range []string{"annotation", "label"} {
					key, val := "summary", "    value = \"ok.*\"\n"
					if kind == "label" {
						key, val = "team", "    value = \"a|b\"\n"
					}
					bs := []string{blk(kind, key, "", order[0]), blk(kind, key, val, order[1])}
					grid = append(grid, c05Scenario{Rules: hdr + "  - alert: A\n    expr: up == 0\n", Config: strings.Join(bs, ""), Blocks: bs})
				}
			}
		}
	}
	// size extremes of the input: one source line far beyond 64 KiB, a very long value, very many rules — with problems of a
	// single low severity, so that every reporter has to render them
	var hosts []string
	for k := 0; k < 9000; k++ {
		hosts = append(hosts, fmt.Sprintf("host%d", k))
	}
	long := strings.Join(hosts, "|")
	var many strings.Builder
	many.WriteString(hdr)
	for k := 0; k < 400; k++ {
		fmt.Fprintf(&many, "  - record: r%d\n    expr: up\n", k)
	}
	repCfg := func(sev string) string {
		return fmt.Sprintf("rule {\n  report {\n    comment = \"size\"\n    severity = %q\n  }\n}\n", sev)
	}
	grid = append(grid,
		c05Scenario{Rules: hdr + "  - alert: Long\n    expr: up{instance=~\"" + long + "\"} == 0\n", Config: repCfg("warning")},
		c05Scenario{Rules: hdr + "  - alert: Long\n    expr: up == 0\n    annotations:\n      summary: \"" + long + "\"\n", Config: repCfg("info")},
		c05Scenario{Rules: many.String(), Config: repCfg("warning")},
	)
	// rule sets reached through symbolic links, one scenario per layout and severity (the ONLY problems come from the linked file)
	for _, lay := range []string{"symlink-out", "symlink-in", "symlink-chain", "symlink-dir"} {
		for _, sv := range []string{"info", "bug", "fatal"} {
			grid = append(grid, c05Scenario{Rules: hdr + "  - record: r0\n    expr: up\n  - record: r1\n    expr: up\n", Config: repCfg(sv), Layout: lay})
		}
		grid = append(grid, c05Scenario{Rules: hdr + "  - alert: A\n    expr: up == 0\n    bogus_key: 1\n", Config: nocfg, Layout: lay})
	}
	scen = append(grid, scen...)

	var runs []c05Run
	failOns := []*string{nil}
	for _, s := range append(append([]string{}, c05Sevs...), "critical", "") {
		s := s
		failOns = append(failOns, &s)
	}
	minSevs := []*string{nil}
	for _, s := range append(append([]string{}, c05Sevs...), "bogus") {
		s := s
		minSevs = append(minSevs, &s)
	}
	for si := range scen {
		dir := filepath.Join(base, fmt.Sprintf("s%04d", si))
		// lint layout
		c05WriteRules(filepath.Join(dir, "lint"), scen[si])
		writeFile(filepath.Join(dir, "lint", ".pint.hcl"), scen[si].Config)
		// ci layout: rules added on a feature branch
		cd := filepath.Join(dir, "ci")
		writeFile(filepath.Join(cd, "README"), "x\n")
		git(cd, "init", "-q", "-b", "main", ".")
		if scen[si].Layout == "deleted" {
			writeFile(filepath.Join(cd, "rules", "dep.yml"), "groups:\n- name: g\n  rules:\n  - record: dep:rec\n    expr: sum(foo) without(instance)\n")
			writeFile(filepath.Join(cd, "rules", "old.yml"), "groups:\n- name: g\n  rules:\n  - record: mv:rec\n    expr: sum(bar)\n")
			writeFile(filepath.Join(cd, "rules", "0.yml"), scen[si].Rules)
			writeFile(filepath.Join(cd, ".pint.hcl"), scen[si].Config)
			git(cd, "add", ".")
			git(cd, "commit", "-q", "-m", "init")
			git(cd, "checkout", "-q", "-b", "feature")
			git(cd, "rm", "-q", "rules/dep.yml")
			git(cd, "mv", "rules/old.yml", "rules/new.yml")
			if scen[si].Extra != "" {
				writeFile(filepath.Join(cd, "rules", "extra.yml"), scen[si].Extra)
			}
			git(cd, "add", ".")
			git(cd, "commit", "-q", "-m", "delete a file, rename a file")
		} else {
			git(cd, "add", "README")
			git(cd, "commit", "-q", "-m", "init")
			git(cd, "checkout", "-q", "-b", "feature")
			c05WriteRules(cd, scen[si])
			writeFile(filepath.Join(cd, ".pint.hcl"), scen[si].Config)
			git(cd, "add", ".")
			git(cd, "commit", "-q", "-m", "add rules")
		}
		if si%3 == 0 || c05UnownedBrokenRule(scen[si]) {
			// a second repository whose feature branch has no change at all
			c2 := filepath.Join(dir, "ci2")
			writeFile(filepath.Join(c2, "rules", "0.yml"), scen[si].Rules)
			writeFile(filepath.Join(c2, ".pint.hcl"), scen[si].Config)
			git(c2, "init", "-q", "-b", "main", ".")
			git(c2, "add", ".")
			git(c2, "commit", "-q", "-m", "init")
			git(c2, "checkout", "-q", "-b", "feature")
			// not a repository for git: a .git file pointing nowhere (the work directory itself lives inside a git checkout)
			writeFile(filepath.Join(dir, "nogit", ".git"), "gitdir: /nonexistent/verif-c05\n")
			writeFile(filepath.Join(dir, "nogit", "rules", "0.yml"), scen[si].Rules)
			writeFile(filepath.Join(dir, "nogit", ".pint.hcl"), scen[si].Config)
			writeFile(filepath.Join(dir, "bad.hcl"), "rule {\n  this is not hcl\n")
			writeFile(filepath.Join(dir, "gh.hcl"), scen[si].Config+"repository {\n  github {\n    owner = \"o\"\n    repo = \"r\"\n  }\n}\n")
			// checkRules fails: Prometheus discovery (GenerateDynamic) walks a directory that does not exist (only when there is at least one entry)
			writeFile(filepath.Join(dir, "disc.hcl"), scen[si].Config+"discovery {\n  filepath {\n    directory = \"/nonexistent/verif-c05\"\n    match = \"(?P<name>.+)\"\n    template {\n      name = \"p-{{ $name }}\"\n      uri = \"http://127.0.0.1:1\"\n    }\n  }\n}\n")
			fat, bug := "fatal", "info"
			for _, fo := range []*string{nil, &fat, &bug} {
				for _, f := range []string{"no-paths", "missing-path", "bad-config", "missing-config", "workers", "log-level", "json-unwritable", "checkstyle-unwritable"} {
					runs = append(runs, c05Run{Scenario: si, FailOn: fo, Fault: f})
					if f == "bad-config" || f == "workers" || f == "json-unwritable" {
						runs = append(runs, c05Run{Scenario: si, CI: true, FailOn: fo, Fault: f, Branch: "feature", Base: "main"})
					}
				}
				hasRules := strings.Contains(scen[si].Rules, "- record:") || strings.Contains(scen[si].Rules, "- alert:")
				var extra []string
				if hasRules && !strings.Contains(scen[si].Rules, "{{ broken yaml") {
					extra = append(extra, "discovery-fails")
				}
				if c05DevFull {
					extra = append(extra, "submit-fails") // --json /dev/full: the file can be created, every write fails
				}
				for _, f := range extra {
					runs = append(runs, c05Run{Scenario: si, FailOn: fo, Fault: f})
					runs = append(runs, c05Run{Scenario: si, CI: true, FailOn: fo, Fault: f, Branch: "feature", Base: "main"})
				}
				for _, f := range []string{"not-a-repo", "bad-base", "github-no-token"} {
					ru := c05Run{Scenario: si, CI: true, FailOn: fo, Fault: f, Branch: "feature", Base: "main"}
					if f == "bad-base" {
						ru.Base = "nosuchbranch"
					}
					runs = append(runs, ru)
				}
				// running from the base branch: current branch = last "/"-segment of the base branch
				for _, b := range []string{"feature", "origin/feature", "a/b/feature"} {
					runs = append(runs, c05Run{Scenario: si, CI: true, FailOn: fo, Branch: "feature", Base: b})
				}
				// near misses: not the base branch, and no such revision either
				for _, b := range []string{"feature/x", "xfeature"} {
					runs = append(runs, c05Run{Scenario: si, CI: true, FailOn: fo, Branch: "feature", Base: b, Fault: "bad-base"})
				}
				runs = append(runs, c05Run{Scenario: si, CI: true, FailOn: fo, Branch: "feature", Base: "main", NoChange: true})
			}
			bogus := "critical"
			runs = append(runs, c05Run{Scenario: si, CI: true, FailOn: &bogus, Branch: "feature", Base: "main", NoChange: true})
			// --require-owner on a branch that changes nothing (owners are verified for every rule of the repository)
			runs = append(runs, c05Run{Scenario: si, CI: true, FailOn: &fat, Branch: "feature", Base: "main", NoChange: true, RequireOwner: true})
			runs = append(runs, c05Run{Scenario: si, FailOn: &fat, RequireOwner: true})
		}
		if strings.HasPrefix(scen[si].Layout, "symlink") || si%4 == 1 {
			// reporters must not influence the result: the same run with no reporting flag, each one alone, and all together
			info, fatal := "info", "fatal"
			for fi, fo := range []*string{nil, &info, &fatal} {
				for _, ci := range []bool{false, true} {
					g := fmt.Sprintf("s%d|ci=%v|fo=%d", si, ci, fi)
					for v := 0; v < 5; v++ {
						ru := c05Run{Scenario: si, CI: ci, FailOn: fo, Group: g, TeamCity: v == 1 || v == 4, CheckStyle: v == 2 || v == 4, ShowDups: v == 3 || v == 4}
						if ci {
							ru.Branch, ru.Base = "feature", "main"
						}
						runs = append(runs, ru)
					}
				}
			}
		}
		for k, b := range scen[si].Blocks {
			writeFile(filepath.Join(dir, fmt.Sprintf("blk_%d.hcl", k+1)), b)
		}
		if len(scen[si].Blocks) > 0 {
			fatal := "fatal"
			for k := range scen[si].Blocks {
				runs = append(runs, c05Run{Scenario: si, FailOn: &fatal, Block: k + 1, Workers1: true})
			}
			for _, fo := range failOns {
				runs = append(runs, c05Run{Scenario: si, FailOn: fo, Workers1: true})
			}
		}
		for _, fo := range failOns {
			for k, ms := range minSevs {
				// full product for lint on a third of the scenarios, otherwise a rotating sample
				if !(si%3 == 0 || (k+si)%len(minSevs) == 0) {
					continue
				}
				runs = append(runs, c05Run{Scenario: si, FailOn: fo, MinSev: ms, ShowDups: r.Intn(2) == 0})
			}
			runs = append(runs, c05Run{Scenario: si, CI: true, FailOn: fo, ShowDups: r.Intn(2) == 0, Branch: "feature", Base: "main"})
		}
	}
	for i := range runs {
		runs[i].ID = i
		if runs[i].Fault == "" && !runs[i].RequireOwner && runs[i].Block == 0 && runs[i].Group == "" {
			runs[i].TeamCity = r.Intn(5) == 0
			runs[i].CheckStyle = r.Intn(5) == 0
			runs[i].RequireOwner = r.Intn(8) == 0 && !runs[i].Workers1
		}
	}
	parallel(len(runs), 16, func(i int) {
		ru := &runs[i]
		dir := filepath.Join(base, fmt.Sprintf("s%04d", ru.Scenario))
		jpath := filepath.Join(dir, fmt.Sprintf("out_%d.json", i))
		var a []string
		cfgArg := ".pint.hcl"
		jsonArg := jpath
		switch ru.Fault {
		case "bad-config":
			cfgArg = "../bad.hcl"
		case "missing-config":
			cfgArg = "../nosuch.hcl"
		case "github-no-token":
			cfgArg = "../gh.hcl"
		case "json-unwritable":
			jsonArg = "/nonexistent/verif-c05/out.json"
		case "discovery-fails":
			cfgArg = "../disc.hcl"
		case "submit-fails":
			jsonArg = "/dev/full"
		}
		if ru.Block > 0 {
			cfgArg = fmt.Sprintf("../blk_%d.hcl", ru.Block)
		}
		a = append(a, "--no-color", "-c", cfgArg)
		if ru.Workers1 {
			a = append(a, "--workers", "1")
		}
		switch ru.Fault {
		case "workers":
			a = append(a, "--workers", "0")
		case "log-level":
			a = append(a, "--log-level", "bogus")
		}
		if ru.ShowDups {
			a = append(a, "--show-duplicates")
		}
		var tail []string
		if ru.TeamCity {
			tail = append(tail, "--teamcity")
		}
		if ru.CheckStyle {
			tail = append(tail, "--checkstyle", filepath.Join(dir, fmt.Sprintf("cs_%d.xml", i)))
		}
		if ru.RequireOwner {
			tail = append(tail, "--require-owner")
		}
		wd := filepath.Join(dir, "lint")
		if ru.CI {
			wd = filepath.Join(dir, "ci")
			if ru.NoChange {
				wd = filepath.Join(dir, "ci2")
			}
			if ru.Fault == "not-a-repo" {
				wd = filepath.Join(dir, "nogit")
			}
			a = append(a, "ci", "--base-branch", ru.Base, "--json", jsonArg)
		} else {
			a = append(a, "lint", "--json", jsonArg)
			if ru.Fault == "checkstyle-unwritable" {
				a = append(a, "--checkstyle", "/nonexistent/verif-c05/out.xml")
			}
			if ru.MinSev != nil {
				a = append(a, "--min-severity", *ru.MinSev)
			}
		}
		if ru.FailOn != nil {
			a = append(a, "--fail-on", *ru.FailOn)
		}
		a = append(a, tail...)
		if !ru.CI {
			switch ru.Fault {
			case "no-paths":
			case "missing-path":
				a = append(a, "nosuchdir")
			default:
				a = append(a, "rules")
			}
		}
		rc, _, se := runPint(wd, a...)
		ru.Exit = rc
		if strings.Contains(se, "panic:") && strings.Contains(se, "main.verifyOwners(") {
			ru.PanicIn = "verifyOwners"
		}
		if len(se) > 300 {
			se = se[len(se)-300:]
		}
		ru.Stderr = se
		b, err := os.ReadFile(jpath)
		ru.JSONExists = err == nil
		if err == nil {
			var js []struct {
				Path     string `json:"path"`
				Reporter string `json:"reporter"`
				Problem  string `json:"problem"`
				Details  string `json:"details"`
				Severity string `json:"severity"`
				Lines    []int  `json:"lines"`
			}
			if json.Unmarshal(b, &js) == nil {
				ru.JSONOK = true
				var keys []string
				for _, j := range js {
					ru.Sevs = append(ru.Sevs, j.Severity)
					keys = append(keys, fmt.Sprintf("%s|%s|%s|%s|%s|%v", j.Path, j.Reporter, j.Severity, j.Problem, j.Details, j.Lines))
				}
				sort.Strings(keys)
				ru.JSONKey = strings.Join(keys, "\n")
			}
		}
	})

	cw := newCaseWriter(cwd, "Run.C05", 400)
	optS := func(p *string) string {
		if p == nil {
			return "None"
		}
		return "(Some " + coqStr(*p) + ")"
	}
	sevRank := map[string]int{"Information": 0, "Warning": 1, "Bug": 2, "Fatal": 3}
	flagRank := map[string]int{"info": 0, "warning": 1, "bug": 2, "fatal": 3}
	for _, ru := range runs {
		cw.add(fmt.Sprintf("{| c_id := %s; c_ci := %s; c_fail_on := %s; c_min_sev := %s; c_sevs := %s; c_json_present := %s; c_exit_nonzero := %s; c_fault := %s; c_branch := %s; c_base := %s; c_json_exists := %s; c_exit_code := %s |}",
			coqN(ru.ID), coqBool(ru.CI), optS(ru.FailOn), optS(ru.MinSev), coqStrList(ru.Sevs), coqBool(ru.JSONOK), coqBool(ru.Exit != 0),
			coqStr(ru.Fault), coqStr(ru.Branch), coqStr(ru.Base), coqBool(ru.JSONExists), coqZ(int64(ru.Exit))))
		distinct := map[string]bool{}
		for _, s := range ru.Sevs {
			distinct[s] = true
		}
		fo, ms := "<default>", "<default>"
		if ru.FailOn != nil {
			fo = *ru.FailOn
		}
		if ru.MinSev != nil {
			ms = *ru.MinSev
		}
		key := fmt.Sprintf("%v|%s|%s|%v|%v|%s|%s|%v|%v%v%v", ru.Sevs, fo, ms, ru.CI, ru.ShowDups, ru.Fault, ru.Base, ru.NoChange, ru.TeamCity, ru.CheckStyle, ru.RequireOwner)
		rep.count(key, len(distinct) >= 2)
		rep.hist(fmt.Sprintf("failon=%s", fo))
		rep.hist(fmt.Sprintf("distinct_sevs=%d", len(distinct)))
		if ru.CI {
			rep.hist("cmd=ci")
		} else {
			rep.hist("cmd=lint")
		}
		if ru.CI && scen[ru.Scenario].Layout != "" {
			rep.hist("ci-layout=" + scen[ru.Scenario].Layout)
		}
		if ru.TeamCity {
			rep.hist("flag=teamcity")
		}
		if ru.CheckStyle {
			rep.hist("flag=checkstyle")
		}
		if ru.RequireOwner {
			rep.hist("flag=require-owner")
		}
		if ru.Exit != 0 {
			rep.hist("exit=nonzero")
		} else {
			rep.hist("exit=0")
		}
		rep.Cases[fmt.Sprint(ru.ID)] = map[string]any{"run": ru, "scenario": scen[ru.Scenario]}
		// implementation-level oracle: the property as written
		if ru.RequireOwner && c05UnownedBrokenRule(scen[ru.Scenario]) {
			// regression stratum of the repaired finding C05-require-owner-broken-rule-crash (fix ec90fa6): a crash here is a VIOLATION
			rep.hist("regression=require-owner-with-broken-rule")
		}
		if ru.Exit < 0 || ru.Exit > 1 {
			where := ""
			if ru.PanicIn != "" {
				where = " (panic in " + ru.PanicIn + ")"
			}
			rep.fail(fmt.Sprint(ru.ID), fmt.Sprintf("pint crashed or timed out (exit %d)%s: %s", ru.Exit, where, ru.Stderr), map[string]any{"run": ru, "scenario": scen[ru.Scenario]})
			continue
		}
		if ru.Fault != "" {
			rep.hist("fault=" + ru.Fault)
			if ru.Exit == 0 {
				rep.fail(fmt.Sprint(ru.ID), fmt.Sprintf("pint exits 0 although the run could not be carried out (%s): %s", ru.Fault, ru.Stderr), map[string]any{"run": ru, "scenario": scen[ru.Scenario]})
			}
			continue
		}
		if ru.CI {
			segs := strings.Split(ru.Base, "/")
			if segs[len(segs)-1] == ru.Branch {
				// documented: running from the base branch skips all checks
				rep.hist("ci=on-base-branch")
				if ru.Exit != 0 {
					rep.fail(fmt.Sprint(ru.ID), fmt.Sprintf("pint ci run from the base branch (%s vs %s) did not skip: exit %d", ru.Branch, ru.Base, ru.Exit), map[string]any{"run": ru, "scenario": scen[ru.Scenario]})
				}
				continue
			}
			if ru.NoChange {
				rep.hist("ci=branch-without-changes")
			}
		}
		foRank, foOK := flagRank[fo]
		if ru.FailOn == nil {
			foRank, foOK = 2, true
		}
		_, msOK := flagRank[ms]
		if ru.MinSev == nil || ru.CI {
			msOK = true
		}
		if !foOK || !msOK {
			if ru.Exit == 0 {
				rep.fail(fmt.Sprint(ru.ID), "invalid severity flag accepted", map[string]any{"run": ru, "scenario": scen[ru.Scenario]})
			}
			continue
		}
		if !ru.JSONOK {
			rep.fail(fmt.Sprint(ru.ID), "linting completed but no JSON report: "+ru.Stderr, map[string]any{"run": ru, "scenario": scen[ru.Scenario]})
			continue
		}
		reach := false
		for _, s := range ru.Sevs {
			if rk, ok := sevRank[s]; ok && rk >= foRank {
				reach = true
			}
		}
		if reach != (ru.Exit != 0) {
			rep.fail(fmt.Sprint(ru.ID), fmt.Sprintf("exit status %d but problem reaching --fail-on=%s present=%v (severities %v)", ru.Exit, fo, reach, ru.Sevs),
				map[string]any{"run": ru, "scenario": scen[ru.Scenario]})
		}
	}
	// reporting flags must not change the result: within a group every run has the exit status and the JSON report of the
	// run without any reporting flag
	groupRef := map[string]*c05Run{}
	for i := range runs {
		if runs[i].Group != "" && !runs[i].TeamCity && !runs[i].CheckStyle && !runs[i].ShowDups {
			groupRef[runs[i].Group] = &runs[i]
		}
	}
	for i := range runs {
		ru := &runs[i]
		ref := groupRef[ru.Group]
		if ru.Group == "" || ref == nil || ref == ru {
			continue
		}
		rep.hist("oracle=reporting-flags-do-not-change-the-result")
		if strings.HasPrefix(scen[ru.Scenario].Layout, "symlink") {
			rep.hist("oracle=reporting-flags/" + scen[ru.Scenario].Layout)
		}
		if ru.Exit != ref.Exit || ru.JSONKey != ref.JSONKey || ru.JSONOK != ref.JSONOK {
			rep.fail(fmt.Sprintf("flags-%d", ru.ID), fmt.Sprintf("the reporting flags (teamcity=%v checkstyle=%v show-duplicates=%v) change the result: exit %d vs %d without them; JSON report identical=%v (severities %v vs %v)",
				ru.TeamCity, ru.CheckStyle, ru.ShowDups, ru.Exit, ref.Exit, ru.JSONKey == ref.JSONKey, ru.Sevs, ref.Sevs), map[string]any{"run": ru, "reference_run": ref, "scenario": scen[ru.Scenario]})
		}
	}
	// union-of-single-blocks oracle
	union := map[int][]string{}
	okBlocks := map[int]int{}
	for _, ru := range runs {
		if ru.Block > 0 && ru.JSONOK && ru.Exit >= 0 && ru.Exit <= 1 {
			union[ru.Scenario] = append(union[ru.Scenario], ru.Sevs...)
			okBlocks[ru.Scenario]++
		}
	}
	for _, ru := range runs {
		nb := len(scen[ru.Scenario].Blocks)
		if nb == 0 || ru.Block > 0 || ru.CI || ru.Fault != "" || ru.RequireOwner || okBlocks[ru.Scenario] != nb || ru.Exit < 0 || ru.Exit > 1 {
			continue
		}
		fo := 2
		if ru.FailOn != nil {
			rk, ok := flagRank[*ru.FailOn]
			if !ok {
				continue
			}
			fo = rk
		}
		if ru.MinSev != nil {
			if _, ok := flagRank[*ru.MinSev]; !ok {
				continue
			}
		}
		reach := false
		for _, sv := range union[ru.Scenario] {
			if rk, ok := sevRank[sv]; ok && rk >= fo {
				reach = true
			}
		}
		rep.hist("oracle=union-of-single-blocks")
		if reach != (ru.Exit != 0) {
			rep.fail(fmt.Sprintf("union-%d", ru.ID), fmt.Sprintf("exit status %d of the full configuration, but the rule{} blocks run one at a time report severities %v (--fail-on rank %d): a problem reaching --fail-on present=%v; pint's own report lists %v",
				ru.Exit, union[ru.Scenario], fo, reach, ru.Sevs), map[string]any{"run": ru, "scenario": scen[ru.Scenario]})
		}
	}
	cw.flush()
	rep.CaseFiles = cw.files
	for _, ru := range runs {
		if len(ru.Sevs) >= 2 {
			rep.sample(map[string]any{"scenario": scen[ru.Scenario], "run": ru})
		}
	}
	if len(rep.Cases) > 3000 {
		rep.Cases = nil
	}
	rep.write(filepath.Join(cwd, "report.json"))
	os.RemoveAll(base)
	return 0
}

func init() { register("C05", runC05) }
