//go:build verif

package main

import (
	"encoding/json"
	"fmt"
	"math/rand"
	"os"
	"path/filepath"
	"strings"
)

// C05: exit status of the real binary vs the severities it reports itself (--json).

type c05Scenario struct {
	Rules  string `json:"rules"`
	Config string `json:"config"`
}

type c05Run struct {
	ID       int          `json:"id"`
	Scenario int          `json:"scenario"`
	CI       bool         `json:"ci"`
	FailOn   *string      `json:"fail_on"`
	MinSev   *string      `json:"min_severity"`
	ShowDups bool         `json:"show_duplicates"`
	Sevs     []string     `json:"severities"`
	JSONOK   bool         `json:"json_present"`
	Exit     int          `json:"exit"`
	Stderr   string       `json:"stderr_tail,omitempty"`
}

var c05Sevs = []string{"info", "warning", "bug", "fatal"}

func c05GenScenario(r *rand.Rand) c05Scenario {
	var rules, cfg strings.Builder
	n := r.Intn(5)
	rules.WriteString("groups:\n- name: g\n  rules:\n")
	if n == 0 {
		rules.WriteString("  []\n")
	}
	for i := 0; i < n; i++ {
		name := fmt.Sprintf("r%d", i)
		alert := r.Intn(2) == 0
		expr := "up == 0"
		switch r.Intn(10) {
		case 0:
			expr = "sum(" // promql/syntax
		case 1:
			expr = "up{job=\"a\"} == 0"
		}
		if alert {
			fmt.Fprintf(&rules, "  - alert: %s\n    expr: %s\n", name, expr)
			if r.Intn(5) == 0 {
				rules.WriteString("    for: abc\n")
			}
		} else {
			fmt.Fprintf(&rules, "  - record: %s\n    expr: %s\n", name, expr)
		}
		if r.Intn(8) == 0 {
			rules.WriteString("    bogus_key: 1\n") // strict parser error => Fatal
		}
		// custom severities through config
		if r.Intn(3) > 0 {
			fmt.Fprintf(&cfg, "rule {\n  match {\n    name = %q\n  }\n  report {\n    comment = \"c%d\"\n    severity = %q\n  }\n}\n", name, i, pick(r, c05Sevs))
		}
		if r.Intn(3) == 0 {
			fmt.Fprintf(&cfg, "rule {\n  match {\n    name = %q\n  }\n  label \"team\" {\n    required = true\n    severity = %q\n  }\n}\n", name, pick(r, c05Sevs))
		}
	}
	// identical problems on several rules => duplicate folding
	if r.Intn(3) == 0 {
		fmt.Fprintf(&cfg, "rule {\n  label \"owner\" {\n    required = true\n    severity = %q\n  }\n}\n", pick(r, c05Sevs))
	}
	if r.Intn(12) == 0 {
		rules.WriteString("  - {{ broken yaml\n")
	}
	if cfg.Len() == 0 || r.Intn(4) == 0 {
		cfg.WriteString("parser { relaxed = [] }\n")
	}
	return c05Scenario{Rules: rules.String(), Config: cfg.String()}
}

func runC05(args []string) int {
	n := argInt(args, "--n", 30)
	seed := seedFromEnv()
	r := rand.New(rand.NewSource(seed))
	rep := newReport("C05", seed)
	rep.Rule = "scenario = generated rule file + config assigning custom severities (report/label blocks, syntax errors, strict parse errors, broken yaml); " +
		"each scenario is run through the real pint binary (lint and ci) for every --fail-on in {omitted,info,warning,bug,fatal,invalid} x a sample of --min-severity x --show-duplicates; " +
		"non-trivial = the JSON report holds >= 2 distinct severities; distinct = (severity multiset, flags)"
	cwd, _ := os.Getwd()
	base := filepath.Join(cwd, "scen")
	scen := make([]c05Scenario, n)
	for i := range scen {
		scen[i] = c05GenScenario(r)
	}
	// corpus: fixed scenarios first
	scen = append([]c05Scenario{
		{Rules: "groups:\n- name: g\n  rules:\n  - record: r0\n    expr: up\n", Config: "rule {\n  report {\n    comment = \"x\"\n    severity = \"warning\"\n  }\n}\n"},
		{Rules: "groups:\n- name: g\n  rules:\n  - record: r0\n    expr: up\n  - record: r1\n    expr: up\n", Config: "rule {\n  match {\n    name = \"r0\"\n  }\n  report {\n    comment = \"x\"\n    severity = \"info\"\n  }\n}\nrule {\n  match {\n    name = \"r1\"\n  }\n  report {\n    comment = \"x\"\n    severity = \"fatal\"\n  }\n}\n"},
		{Rules: "groups:\n- name: g\n  rules: []\n", Config: "parser { relaxed = [] }\n"},
	}, scen...)

	var runs []c05Run
	failOns := []*string{nil}
	for _, s := range append(append([]string{}, c05Sevs...), "critical", "") {
		s := s
		failOns = append(failOns, &s)
	}
	minSevs := []*string{nil}
	for _, s := range append(append([]string{}, c05Sevs...), "bogus") {
		s := s
		minSevs = append(minSevs, &s)
	}
	for si := range scen {
		dir := filepath.Join(base, fmt.Sprintf("s%04d", si))
		// lint layout
		writeFile(filepath.Join(dir, "lint", "rules", "0.yml"), scen[si].Rules)
		writeFile(filepath.Join(dir, "lint", ".pint.hcl"), scen[si].Config)
		// ci layout: rules added on a feature branch
		cd := filepath.Join(dir, "ci")
		writeFile(filepath.Join(cd, "README"), "x\n")
		git(cd, "init", "-q", "-b", "main", ".")
		git(cd, "add", "README")
		git(cd, "commit", "-q", "-m", "init")
		git(cd, "checkout", "-q", "-b", "feature")
		writeFile(filepath.Join(cd, "rules", "0.yml"), scen[si].Rules)
		writeFile(filepath.Join(cd, ".pint.hcl"), scen[si].Config)
		git(cd, "add", ".")
		git(cd, "commit", "-q", "-m", "add rules")
		for _, fo := range failOns {
			for k, ms := range minSevs {
				// full product for lint on a third of the scenarios, otherwise a rotating sample
				if !(si%3 == 0 || (k+si)%len(minSevs) == 0) {
					continue
				}
				runs = append(runs, c05Run{Scenario: si, FailOn: fo, MinSev: ms, ShowDups: r.Intn(2) == 0})
			}
			runs = append(runs, c05Run{Scenario: si, CI: true, FailOn: fo, ShowDups: r.Intn(2) == 0})
		}
	}
	for i := range runs {
		runs[i].ID = i
	}
	parallel(len(runs), 16, func(i int) {
		ru := &runs[i]
		dir := filepath.Join(base, fmt.Sprintf("s%04d", ru.Scenario))
		jpath := filepath.Join(dir, fmt.Sprintf("out_%d.json", i))
		var a []string
		a = append(a, "--no-color", "-c", ".pint.hcl")
		if ru.ShowDups {
			a = append(a, "--show-duplicates")
		}
		wd := filepath.Join(dir, "lint")
		if ru.CI {
			wd = filepath.Join(dir, "ci")
			a = append(a, "ci", "--base-branch", "main", "--json", jpath)
		} else {
			a = append(a, "lint", "--json", jpath)
			if ru.MinSev != nil {
				a = append(a, "--min-severity", *ru.MinSev)
			}
		}
		if ru.FailOn != nil {
			a = append(a, "--fail-on", *ru.FailOn)
		}
		if !ru.CI {
			a = append(a, "rules")
		}
		rc, _, se := runPint(wd, a...)
		ru.Exit = rc
		if len(se) > 300 {
			se = se[len(se)-300:]
		}
		ru.Stderr = se
		b, err := os.ReadFile(jpath)
		if err == nil {
			var js []struct {
				Severity string `json:"severity"`
			}
			if json.Unmarshal(b, &js) == nil {
				ru.JSONOK = true
				for _, j := range js {
					ru.Sevs = append(ru.Sevs, j.Severity)
				}
			}
		}
	})

	cw := newCaseWriter(cwd, "Run.C05", 400)
	optS := func(p *string) string {
		if p == nil {
			return "None"
		}
		return "(Some " + coqStr(*p) + ")"
	}
	sevRank := map[string]int{"Information": 0, "Warning": 1, "Bug": 2, "Fatal": 3}
	flagRank := map[string]int{"info": 0, "warning": 1, "bug": 2, "fatal": 3}
	for _, ru := range runs {
		cw.add(fmt.Sprintf("{| c_id := %s; c_ci := %s; c_fail_on := %s; c_min_sev := %s; c_sevs := %s; c_json_present := %s; c_exit_nonzero := %s |}",
			coqN(ru.ID), coqBool(ru.CI), optS(ru.FailOn), optS(ru.MinSev), coqStrList(ru.Sevs), coqBool(ru.JSONOK), coqBool(ru.Exit != 0)))
		distinct := map[string]bool{}
		for _, s := range ru.Sevs {
			distinct[s] = true
		}
		fo, ms := "<default>", "<default>"
		if ru.FailOn != nil {
			fo = *ru.FailOn
		}
		if ru.MinSev != nil {
			ms = *ru.MinSev
		}
		key := fmt.Sprintf("%v|%s|%s|%v|%v", ru.Sevs, fo, ms, ru.CI, ru.ShowDups)
		rep.count(key, len(distinct) >= 2)
		rep.hist(fmt.Sprintf("failon=%s", fo))
		rep.hist(fmt.Sprintf("distinct_sevs=%d", len(distinct)))
		if ru.CI {
			rep.hist("cmd=ci")
		} else {
			rep.hist("cmd=lint")
		}
		if ru.Exit != 0 {
			rep.hist("exit=nonzero")
		} else {
			rep.hist("exit=0")
		}
		rep.Cases[fmt.Sprint(ru.ID)] = map[string]any{"run": ru, "scenario": scen[ru.Scenario]}
		// implementation-level oracle: the property as written
		if ru.Exit < 0 || ru.Exit > 1 {
			rep.fail(fmt.Sprint(ru.ID), fmt.Sprintf("pint crashed or timed out (exit %d): %s", ru.Exit, ru.Stderr), map[string]any{"run": ru, "scenario": scen[ru.Scenario]})
			continue
		}
		foRank, foOK := flagRank[fo]
		if ru.FailOn == nil {
			foRank, foOK = 2, true
		}
		_, msOK := flagRank[ms]
		if ru.MinSev == nil || ru.CI {
			msOK = true
		}
		if !foOK || !msOK {
			if ru.Exit == 0 {
				rep.fail(fmt.Sprint(ru.ID), "invalid severity flag accepted", map[string]any{"run": ru, "scenario": scen[ru.Scenario]})
			}
			continue
		}
		if !ru.JSONOK {
			rep.fail(fmt.Sprint(ru.ID), "linting completed but no JSON report: "+ru.Stderr, map[string]any{"run": ru, "scenario": scen[ru.Scenario]})
			continue
		}
		reach := false
		for _, s := range ru.Sevs {
			if rk, ok := sevRank[s]; ok && rk >= foRank {
				reach = true
			}
		}
		if reach != (ru.Exit != 0) {
			rep.fail(fmt.Sprint(ru.ID), fmt.Sprintf("exit status %d but problem reaching --fail-on=%s present=%v (severities %v)", ru.Exit, fo, reach, ru.Sevs),
				map[string]any{"run": ru, "scenario": scen[ru.Scenario]})
		}
	}
	cw.flush()
	rep.CaseFiles = cw.files
	for _, ru := range runs {
		if len(ru.Sevs) >= 2 {
			rep.sample(map[string]any{"scenario": scen[ru.Scenario], "run": ru})
		}
	}
	if len(rep.Cases) > 3000 {
		rep.Cases = nil
	}
	rep.write(filepath.Join(cwd, "report.json"))
	os.RemoveAll(base)
	return 0
}

func init() { register("C05", runC05) }
