//go:build verif

package main

import (
	"fmt"
	"math/rand"
	"os"
	"path/filepath"
	"sort"
	"strings"

	"github.com/cloudflare/pint/internal/discovery"
)

// C03: change attribution of `pint ci`.
//   L1  correspondence of the real matchEntries with Model/GitBranch.match_entries on before/after entry lists obtained
//       by parsing generated file versions with the real parser;
//   L2  correspondence of the real git.Changes (run on scratch repositories with a recording git runner) with
//       Model/GitChanges on the captured `git log --name-status` text;
//   L4  the whole pipeline on a history (log text, git answers, parser table, glob list -> final list) vs Model/GitBranch.classify;
//   L3  end to end: `pint ci` with one marker block per state on scratch repositories built from generated histories,
//       compared with the generator's own rule-level truth (oracle) and with the whole model pipeline.

// ---------------------------------------------------------------------------------------------
// L1

type c03MatchCase struct {
	ID       int        `json:"id"`
	PathB    string     `json:"path_before"`
	PathA    string     `json:"path_after"`
	TextB    string     `json:"text_before"`
	TextA    string     `json:"text_after"`
	Before   []absEntry `json:"before"`
	After    []absEntry `json:"after"`
	Observed []string   `json:"observed"`
	Edits    []string   `json:"edits"`
	// generator-side truth for the content-equality oracle (nil when the text is not the rendering of the file)
	fb, fa     *gFile
	offB, offA int
}

const c03BadComment = "# pint file/disable\n" // invalid control comment: an Entry with PathError, parsing goes on

func c03EditFile(g *gen, f gFile) (gFile, []string) {
	r := g.r
	f = f.clone()
	var edits []string
	n := r.Intn(5)
	for k := 0; k < n; k++ {
		switch c := r.Intn(12); {
		case c <= 2 && len(f.Rules) > 0:
			i := r.Intn(len(f.Rules))
			if r.Intn(6) == 0 && !f.Rules[i].Broken {
				// same name, other kind, in place
				nr := g.rule()
				nr.Name = f.Rules[i].Name
				if f.Rules[i].Kind == "record" {
					nr.Kind = "alert"
				} else {
					nr.Kind, nr.For, nr.Annots = "record", "", nil
				}
				f.Rules[i] = nr
				edits = append(edits, "replace-by-other-kind")
				continue
			}
			edits = append(edits, "modify:"+g.mutateRule(&f.Rules[i]))
		case c <= 4 && len(f.Rules) > 0:
			i := r.Intn(len(f.Rules))
			edits = append(edits, "cosmetic:"+g.cosmeticRule(&f.Rules[i]))
		case c == 5:
			nr := g.rule()
			pos := r.Intn(len(f.Rules) + 1)
			if len(f.Rules) > 0 && r.Intn(2) == 0 {
				j := r.Intn(len(f.Rules))
				nr = f.clone().Rules[j]
				old := nr.Expr
				for nr.Expr == old {
					nr.Expr = pick(r, gExprs)
				}
				pos = j
				edits = append(edits, "add-same-name-before")
			} else {
				edits = append(edits, "add")
			}
			f.Rules = append(f.Rules[:pos], append([]gRule{nr}, f.Rules[pos:]...)...)
		case c == 6 && len(f.Rules) > 0:
			i := r.Intn(len(f.Rules))
			f.Rules = append(f.Rules[:i], f.Rules[i+1:]...)
			edits = append(edits, "delete")
		case c == 7 && len(f.Rules) > 1:
			i, j := r.Intn(len(f.Rules)), r.Intn(len(f.Rules))
			f.Rules[i], f.Rules[j] = f.Rules[j], f.Rules[i]
			edits = append(edits, "swap")
		case c == 8:
			if len(f.Disables) >= 2 {
				f.Disables[0], f.Disables[1] = f.Disables[1], f.Disables[0]
				edits = append(edits, "disable-reorder")
			} else {
				f.Disables = append(f.Disables, pick(r, gDisables))
				edits = append(edits, "disable-add")
			}
		case c == 9 && len(f.Disables) > 0:
			f.Disables = f.Disables[1:]
			edits = append(edits, "disable-remove")
		case c == 10 && len(f.Rules) > 0:
			i := r.Intn(len(f.Rules))
			f.Rules[i].Broken = !f.Rules[i].Broken
			edits = append(edits, "toggle-broken")
		case c == 11 && len(f.Rules) > 0:
			// duplicate an existing rule verbatim
			i := r.Intn(len(f.Rules))
			d := f.clone().Rules[i]
			f.Rules = append(f.Rules, d)
			edits = append(edits, "duplicate")
		}
	}
	return f, edits
}

func c03GenMatch(g *gen, id int) c03MatchCase {
	r := g.r
	fb := g.file(5)
	if r.Intn(3) == 0 {
		// more disables, so that reorderings happen
		fb.Disables = nil
		for _, d := range gDisables {
			if r.Intn(2) == 0 {
				fb.Disables = append(fb.Disables, d)
			}
		}
	}
	fa, edits := c03EditFile(g, fb)
	if r.Intn(12) == 0 {
		fa = g.file(4)
		edits = append(edits, "unrelated-after")
	}
	c := c03MatchCase{ID: id, PathB: "rules/a.yml", PathA: "rules/a.yml", Edits: edits}
	if r.Intn(5) == 0 {
		c.PathA = "rules/b.yml"
		c.Edits = append(c.Edits, "moved")
	}
	c.TextB, _ = fb.render()
	c.TextA, _ = fa.render()
	c.fb, c.fa = &fb, &fa
	if r.Intn(10) == 0 {
		c.TextA = c03BadComment + c.TextA
		c.offA = 1
		c.Edits = append(c.Edits, "after-path-error")
	}
	if r.Intn(15) == 0 {
		c.TextB = c03BadComment + c.TextB
		c.offB = 1
		c.Edits = append(c.Edits, "before-path-error")
	}
	if r.Intn(25) == 0 {
		c.TextA = ""
		c.fa = nil
		c.Edits = append(c.Edits, "after-empty")
	}
	if r.Intn(25) == 0 {
		c.TextB = ""
		c.fb = nil
		c.Edits = append(c.Edits, "before-empty")
	}
	return c
}

func c03RunMatch(c *c03MatchCase, rep *runReport) string {
	eb := parseEntries(c.PathB, c.TextB)
	ea := parseEntries(c.PathA, c.TextA)
	t := &cidTable{}
	for i := range eb {
		eb[i].Owner = fmt.Sprintf("b%d", i)
		c.Before = append(c.Before, abstractEntry(eb[i], i, t))
	}
	for i := range ea {
		ea[i].Owner = fmt.Sprintf("a%d", i)
		c.After = append(c.After, abstractEntry(ea[i], 1000+i, t))
	}
	if t.broken > 0 {
		rep.Notes = append(rep.Notes, fmt.Sprintf("match case %d: Rule.IsIdentical is not an equivalence on the rules of the case (%d inconsistencies)", c.ID, t.broken))
		rep.hist("L1:is-identical-not-equivalence")
	}
	c03ContentOracle(c, eb, ea, rep)
	ml := discovery.VerifMatchEntries(eb, ea)
	uid := func(has bool, e discovery.Entry) string {
		if !has {
			return "None"
		}
		var n int
		if strings.HasPrefix(e.Owner, "b") {
			fmt.Sscanf(e.Owner[1:], "%d", &n)
		} else {
			fmt.Sscanf(e.Owner[1:], "%d", &n)
			n += 1000
		}
		return "(Some " + coqN(n) + ")"
	}
	var obs []string
	nIdent, nBoth, nOnlyA, nOnlyB := 0, 0, 0, 0
	for _, m := range ml {
		o := fmt.Sprintf("(%s, %s, %s, %s)", uid(m.HasBefore, m.Before), uid(m.HasAfter, m.After), coqBool(m.IsIdentical), coqBool(m.WasMoved))
		obs = append(obs, o)
		switch {
		case m.HasBefore && m.HasAfter:
			nBoth++
			if m.IsIdentical {
				nIdent++
			}
		case m.HasAfter:
			nOnlyA++
		default:
			nOnlyB++
		}
	}
	c.Observed = obs
	rep.hist(fmt.Sprintf("L1:matched-pairs=%d", min(nBoth, 4)))
	if nOnlyA > 0 {
		rep.hist("L1:has-unmatched-after")
	}
	if nOnlyB > 0 {
		rep.hist("L1:has-unmatched-before")
	}
	if nBoth > nIdent {
		rep.hist("L1:has-name-matched-or-disable-diff")
	}
	for _, e := range c.Edits {
		rep.hist("L1:edit=" + strings.SplitN(e, ":", 2)[0])
	}
	key := fmt.Sprintf("L1|%v|%v|%v", c.Before, c.After, obs)
	rep.count(key, nBoth > 0 && (nOnlyA > 0 || nOnlyB > 0 || nBoth > nIdent))
	return fmt.Sprintf("MatchCase %s %s %s %s", coqN(c.ID), absEntriesCoq(c.Before), absEntriesCoq(c.After), coqList(obs))
}

// c03ContentOracle: what "content" means for the property is the generator's key (kind, name, expr, for, labels, annotations,
// control comments; order of map entries and text layout irrelevant).  For every (HEAD rule, base rule) pair of valid rules of a
// case the real Rule.IsIdentical -- the test every Noop classification rests on -- must agree with key equality.
func c03ContentOracle(c *c03MatchCase, eb, ea []discovery.Entry, rep *runReport) {
	if c.fb == nil || c.fa == nil {
		return
	}
	rulesAt := func(f *gFile, off int) map[int]gRule {
		m := map[int]gRule{}
		_, locs := f.render()
		for i, l := range locs {
			m[l.First+off] = f.Rules[i]
		}
		return m
	}
	mb, ma := rulesAt(c.fb, c.offB), rulesAt(c.fa, c.offA)
	for _, a := range ea {
		ra, ok := ma[a.Rule.Lines.First]
		if !ok || ra.Broken || a.PathError != nil || a.Rule.Error.Err != nil || a.Rule.Name() != ra.Name {
			continue
		}
		for _, b := range eb {
			rb, ok := mb[b.Rule.Lines.First]
			if !ok || rb.Broken || b.PathError != nil || b.Rule.Error.Err != nil || b.Rule.Name() != rb.Name {
				continue
			}
			got, want := a.Rule.IsIdentical(b.Rule), ra.key() == rb.key()
			if want {
				rep.hist("L1:content-pairs-equal")
			} else {
				rep.hist("L1:content-pairs-different")
			}
			if got != want {
				what := "CHANGED RULE WOULD BE SKIPPED: Rule.IsIdentical says identical for rules with different content"
				if want {
					what = "UNTOUCHED RULE WOULD BE REPORTED AS CHANGED: Rule.IsIdentical says different for rules with the same content"
				}
				rep.fail(fmt.Sprintf("content-%d", c.ID), fmt.Sprintf("%s: HEAD rule at line %d (%s) vs base rule at line %d (%s)", what,
					a.Rule.Lines.First, ra.key(), b.Rule.Lines.First, rb.key()), c)
				return
			}
		}
	}
}

func strataNote(hi *history, s string) {
	for _, x := range hi.Strata {
		if x == s {
			return
		}
	}
	hi.Strata = append(hi.Strata, s)
}

// ---------------------------------------------------------------------------------------------
// L3 oracle: the generator's rule-level truth

type c03Expect struct {
	Path    string   `json:"path"`
	First   int      `json:"first_line"`
	Last    int      `json:"last_line"`
	Key     string   `json:"content_key"`
	Allowed []string `json:"allowed_states"`
	Why     string   `json:"why"`
}

type c03E2E struct {
	ID       int         `json:"id"`
	History  *history    `json:"history"`
	GitLog   string      `json:"git_log"`
	Result   ciResult    `json:"pint_ci"`
	Expected []c03Expect `json:"expected"`
	// HEAD path -> fork path whose version is the base of the comparison, after asking git's log which renames it saw
	Origin map[string]string `json:"effective_origin"`
}

// truth computes, for every (unbroken) rule at HEAD, the set of marker states the property allows.
func c03Truth(hi *history, gitLog string) ([]c03Expect, map[string]string) {
	// rename+edit commits: git decides by similarity whether it is a rename; use its answer for those only
	confirmed := func(from, to string) bool {
		for _, l := range strings.Split(gitLog, "\n") {
			p := strings.Split(l, "\t")
			if len(p) == 3 && strings.HasPrefix(p[0], "R") && gitUnquote(p[1]) == from && gitUnquote(p[2]) == to {
				return true
			}
		}
		return false
	}
	origin := map[string]string{}
	for k, v := range hi.Origin {
		origin[k] = v
	}
	// destinations of copy entries (only printed when the repository has copy detection on), followed through later renames
	copyDst := map[string]bool{}
	for _, l := range strings.Split(gitLog, "\n") {
		p := strings.Split(l, "\t")
		if len(p) == 3 && strings.HasPrefix(p[0], "C") {
			copyDst[gitUnquote(p[2])] = true
		}
		if len(p) == 3 && strings.HasPrefix(p[0], "R") && copyDst[gitUnquote(p[1])] {
			copyDst[gitUnquote(p[2])] = true
		}
	}
	for ri, re := range hi.RenEdits {
		if !confirmed(re[0], re[1]) {
			// git saw delete + add: every later name of this file has no base version -- unless the add landed on a fork path that
			// was deleted earlier on the branch: then the path existed at the fork point and that version is the base (same as a
			// file deleted and re-added at its path)
			base := ""
			if ri < len(hi.RenOnto) && hi.RenOnto[ri] {
				if _, ok := hi.Fork[re[1]]; ok {
					base = re[1]
					strataNote(hi, "unconfirmed-rename-onto-deleted-path=readd")
				}
			}
			cur := re[1]
			for {
				if _, ok := origin[cur]; ok {
					origin[cur] = base
					break
				}
				next := ""
				for _, c := range hi.Commits {
					for _, op := range c.Ops {
						if op.Op == "rename-file" && op.Path == cur {
							next = op.To
						}
					}
				}
				if next == "" {
					break
				}
				cur = next
			}
		}
	}
	var out []c03Expect
	for _, p := range sortedKeys(hi.Head) {
		hf := hi.Head[p]
		_, locs := hf.render()
		o := origin[p]
		if o == "" {
			allowed, why := []string{"added"}, "file has no base version"
			if copyDst[p] {
				// git reported the new file as a copy: pint compares it with the source (renamed / modified); any CI state is fine
				allowed, why = []string{"added", "renamed", "modified"}, "new file reported by git as a copy of another file (changed rule: any CI state)"
			}
			for i, ru := range hf.Rules {
				if ru.Broken {
					continue
				}
				al, wh := allowed, why
				if bf, ok := hi.Fork[p]; ok && copyDst[p] {
					// the copy ended up (through later renames) at a path that existed at the fork point: pint compares it with the
					// source of the copy, which may be that very file -- a rule identical to a fork rule of this path may be unmodified
					for _, br := range bf.Rules {
						if !br.Broken && br.key() == ru.key() {
							al = append(append([]string{}, allowed...), "unmodified")
							wh = why + "; same path and content as a rule of the fork version of this path"
						}
					}
				}
				out = append(out, c03Expect{Path: p, First: locs[i].First, Last: locs[i].Last, Key: ru.key(), Allowed: al, Why: wh})
			}
			continue
		}
		bf := hi.Fork[o]
		samePath := o == p
		sameDis := sameStrings(sortedCopy(bf.Disables), sortedCopy(hf.Disables))
		nb := map[string]int{}
		nameB := map[string]int{}
		for _, ru := range bf.Rules {
			if ru.Broken {
				continue
			}
			nb[ru.key()]++
			nameB[ru.Kind+"|"+ru.Name]++
		}
		nh := map[string]int{}
		nameH := map[string]int{}
		for _, ru := range hf.Rules {
			if ru.Broken {
				continue
			}
			nh[ru.key()]++
			nameH[ru.Kind+"|"+ru.Name]++
		}
		for i, ru := range hf.Rules {
			if ru.Broken {
				continue
			}
			k := ru.key()
			e := c03Expect{Path: p, First: locs[i].First, Last: locs[i].Last, Key: k}
			kept := "unmodified"
			if !samePath {
				kept = "renamed"
			} else if !sameDis {
				kept = "modified"
			}
			nm := ru.Kind + "|" + ru.Name
			switch {
			case nb[k] >= nh[k]:
				e.Allowed, e.Why = []string{kept}, "content identical to a base rule of its file (enough base copies for every HEAD copy)"
			case nb[k] > 0:
				// more HEAD copies than base copies: each copy is either a kept one or a new one; the multiset is checked below
				e.Allowed, e.Why = []string{kept, "added", "modified", "renamed"}, "duplicated content: some copies are new"
			case nameB[nm] == 1 && nameH[nm] == 1:
				if samePath {
					e.Allowed = []string{"modified"}
				} else {
					e.Allowed = []string{"renamed"}
				}
				e.Why = "content differs from every base rule; unique rule of that kind and name in both versions"
			case nameB[nm] == 0:
				e.Allowed, e.Why = []string{"added"}, "no base rule of that kind and name"
			default:
				e.Allowed, e.Why = []string{"added", "modified", "renamed"}, "content differs from every base rule (changed rule: any CI state)"
			}
			out = append(out, e)
		}
	}
	return out, origin
}

func c03CheckE2E(c *c03E2E, rep *runReport) {
	id := fmt.Sprintf("e2e-%d", c.ID)
	// no known-finding class is left (C03-copy-entry-consumes-source-record was fixed by e81cbba): every deviation from the
	// history's truth is a violation
	failAt := func(path, what string) {
		rep.fail(id, what, c)
	}
	if c.Result.Exit != 0 && c.Result.Exit != 1 || !c.Result.JSONOK {
		rep.fail(id, fmt.Sprintf("pint ci did not complete (exit %d): %s", c.Result.Exit, c.Result.Stderr), c)
		return
	}
	obs := c.Result.markers()
	used := make([]bool, len(obs))
	for _, e := range c.Expected {
		k := fmt.Sprintf("%s:%d-%d", e.Path, e.First, e.Last)
		got := statesOf(obs, used, e.Path, e.First, e.Last)
		if len(got) != 1 {
			failAt(e.Path, fmt.Sprintf("rule at %s (%s): expected exactly one state marker, got %v", k, e.Key, got))
			return
		}
		ok := false
		for _, a := range e.Allowed {
			if a == got[0] {
				ok = true
			}
		}
		rep.hist("L3:state=" + got[0])
		if !ok {
			what := "classified " + got[0] + " but the history says " + strings.Join(e.Allowed, "/")
			if got[0] == "unmodified" {
				what = "CHANGED RULE SKIPPED: " + what
			} else if len(e.Allowed) == 1 && e.Allowed[0] == "unmodified" {
				what = "UNTOUCHED RULE REPORTED AS CHANGED: " + what
			}
			failAt(e.Path, fmt.Sprintf("rule at %s (%s): %s [%s]", k, e.Key, what, e.Why))
			return
		}
	}
	// duplicated content: at most nb copies may be reported as kept
	for _, p := range sortedKeys(c.History.Head) {
		hf := c.History.Head[p]
		o := c.Origin[p]
		if o == "" {
			continue
		}
		_, locs := hf.render()
		nb := map[string]int{}
		for _, ru := range c.History.Fork[o].Rules {
			if !ru.Broken {
				nb[ru.key()]++
			}
		}
		kept := map[string]int{}
		for i, ru := range hf.Rules {
			if ru.Broken {
				continue
			}
			got := statesOf(obs, used, p, locs[i].First, locs[i].Last)
			if len(got) == 1 && got[0] == "unmodified" {
				kept[ru.key()]++
			}
		}
		for k, n := range kept {
			if n > nb[k] {
				failAt(p, fmt.Sprintf("CHANGED RULE SKIPPED: %d rules with content %s in %s are unmodified but the base file has only %d", n, k, p, nb[k]))
				return
			}
		}
	}
	for i, m := range obs {
		if !used[i] {
			// a marker on something that is not an (unbroken) HEAD rule of the generator
			rep.fail(id, fmt.Sprintf("state marker %s on %s:%d which is not a rule of the HEAD tree", m.State, m.Path, m.Line), c)
			return
		}
	}
}

func c03BuildE2E(c *c03E2E, base string) {
	dir := filepath.Join(base, fmt.Sprintf("r%05d", c.ID))
	buildRepo(dir, c.History, markerConfig())
	c.GitLog = git(dir, "log", "--reverse", "--no-merges", "--first-parent", "--format=%H", "--name-status", "main..HEAD")
	c.Result = runCI(dir)
	c.Expected, c.Origin = c03Truth(c.History, c.GitLog)
}

// ---------------------------------------------------------------------------------------------

func runC03(args []string) int {
	n := argInt(args, "--n", 300)
	nh := argInt(args, "--histories", 40)
	seed := seedFromEnv()
	r := rand.New(rand.NewSource(seed))
	rep := newReport("C03", seed)
	rep.Rule = "L1: one case = (before file, after file) of a generated edit, parsed by the real parser, real matchEntries vs model; " +
		"non-trivial = at least one matched pair and (an unmatched rule or a pair that is not identical). " +
		"L3: one case = one generated history materialised as a git repository, `pint ci` marker states of every HEAD rule vs the generator's truth; " +
		"non-trivial = the branch touches at least one file that exists at the fork point and HEAD has at least 2 distinct states. distinct = hash of the whole case"
	cwd, _ := os.Getwd()
	cw := newCaseWriter(cwd, "Run.C03", 60)
	cw.preamble = "Open Scope N_scope.\n"
	g := &gen{r: r}

	// ---- L1
	for i := 0; i < n; i++ {
		c := c03GenMatch(g, i)
		term := c03RunMatch(&c, rep)
		cw.add(term)
		if i < 400 {
			rep.Cases[fmt.Sprint(c.ID)] = c
		}
		if i < 2 {
			rep.sample(c)
		}
	}

	// ---- L3
	base := filepath.Join(cwd, "repos")
	os.RemoveAll(base)
	var cases []*c03E2E
	for _, hi := range loadCorpusHistories("C03") {
		cases = append(cases, &c03E2E{ID: 100000 + len(cases), History: hi})
	}
	rep.hist(fmt.Sprintf("L3:corpus-histories=%d", len(cases)))
	ncorpus := len(cases)
	for i := 0; i < nh; i++ {
		hg := &hgen{g: g, opts: hOpts{NoBroken: r.Intn(4) > 0, MaxFiles: 3, MaxRules: 4, MaxCommits: 4, OddPaths: true, OntoDeleted: i%5 == 0, CopyDetect: i%12 == 7}}
		cases = append(cases, &c03E2E{ID: 100000 + ncorpus + i, History: hg.generate()})
	}
	parallel(len(cases), 16, func(i int) { c03BuildE2E(cases[i], base) })
	// L2 + L3-model: the real git.Changes / Find in-process with a recording git runner, serialised for the model
	nin := argInt(args, "--inproc", 400)
	for i, c := range cases {
		if i >= nin {
			break
		}
		res := runInproc(filepath.Join(base, fmt.Sprintf("r%05d", c.ID)))
		// the named hypothesis log_faithful, tested on git's real output (+ stratum: a rename landed on a path that has a record)
		viol, fresh := checkLogFaithful(filepath.Join(base, fmt.Sprintf("r%05d", c.ID)), c.GitLog)
		if len(viol) > 0 && strings.HasPrefix(viol[0], "copy entry") {
			rep.hist("hyp:log_faithful-not-applicable(copy entries)")
		} else if len(viol) > 0 {
			rep.hist("hyp:log_faithful-violated")
			rep.Notes = append(rep.Notes, fmt.Sprintf("history %d: log_faithful does not hold for git's own output: %v", c.ID, viol))
		} else {
			rep.hist("hyp:log_faithful-holds")
		}
		if fresh {
			rep.hist("L2:no-rename-onto-a-path-with-a-record")
		} else {
			rep.hist("L2:rename-onto-a-path-with-a-record(shadowed deletion)")
		}
		if term, ok := changesCaseCoq(res); ok {
			cw.add(fmt.Sprintf("ChangesCase %s %s", coqN(200000+i), term))
			rep.hist("L2:changes-cases")
			rep.hist(fmt.Sprintf("L2:changes=%d", min(len(res.Changes), 4)))
			multi := false
			for _, ch := range res.Changes {
				if len(ch.Commits) > 1 {
					multi = true
				}
			}
			rep.count("L2|"+term, multi)
		} else {
			rep.Notes = append(rep.Notes, fmt.Sprintf("history %d: git.Changes failed in-process: %s", c.ID, res.ChangeErr))
		}
		if term, ok, broken := findCaseCoq(res); ok {
			cw.add(fmt.Sprintf("FindCase %s %s", coqN(300000+i), term))
			rep.hist("L3:find-cases")
			if res.GlobDup == 0 {
				rep.hist("hyp:glob-positions-unique-holds")
			} else {
				rep.hist("hyp:glob-positions-unique-fails")
				rep.Notes = append(rep.Notes, fmt.Sprintf("history %d: %d valid glob entries share path and rule position with an earlier one", c.ID, res.GlobDup))
			}
			if res.Uncovered == 0 {
				rep.hist("hyp:glob-covers-head-entries-holds")
			} else {
				rep.hist("hyp:glob-covers-head-entries-fails")
				rep.Notes = append(rep.Notes, fmt.Sprintf("history %d: %d HEAD entries of changed files have no glob entry at the same path and rule position", c.ID, res.Uncovered))
			}
			if broken > 0 {
				rep.hist("L3:is-identical-not-equivalence")
			}
			rep.count("L3m|"+term, len(res.Changes) > 0)
		} else {
			rep.Notes = append(rep.Notes, fmt.Sprintf("history %d: Find failed in-process: %s %s %s", c.ID, res.ChangeErr, res.GlobErr, res.FindErr))
		}
		if term, ok := historyCaseCoq(res); ok {
			cw.add(fmt.Sprintf("HistoryCase %s %s", coqN(400000+i), term))
			rep.hist("L4:history-cases")
			rep.count("L4|"+term, len(res.Changes) > 0)
		}
		rep.Cases[fmt.Sprint(200000+i)] = c
		rep.Cases[fmt.Sprint(300000+i)] = c
		rep.Cases[fmt.Sprint(400000+i)] = c
	}
	for _, c := range cases {
		for _, s := range c.History.Strata {
			rep.hist("L3:stratum=" + s)
		}
		states := map[string]bool{}
		for _, m := range c.Result.markers() {
			states[m.State] = true
		}
		touched := false
		for _, cm := range c.History.Commits {
			if cm.Branch == "feature" {
				for _, op := range cm.Ops {
					if _, ok := c.History.Fork[op.Path]; ok {
						touched = true
					}
				}
			}
		}
		rep.count(fmt.Sprintf("L3|%v|%v", c.GitLog, c.Result.Reports), touched && len(states) >= 2)
		rep.hist(fmt.Sprintf("L3:distinct-states=%d", len(states)))
		c03CheckE2E(c, rep)
		if len(rep.Samples) < 4 && len(states) >= 3 {
			rep.sample(c)
		}
	}
	cw.flush()
	rep.CaseFiles = cw.files
	keys := make([]string, 0, len(rep.Histogram))
	for k := range rep.Histogram {
		keys = append(keys, k)
	}
	sort.Strings(keys)
	rep.write(filepath.Join(cwd, "report.json"))
	os.RemoveAll(base)
	return 0
}

func init() { register("C03", runC03) }
