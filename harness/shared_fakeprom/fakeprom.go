//go:build verif

package main

// Shared pieces of the in-process fake Prometheus used by C13 (presence model) and C16 (PromQL engine):
// request parsing with the server's millisecond semantics and response writers.  No behaviour of pint is
// assumed here; this is the "Prometheus-compatible server" side of the experiment.

import (
	"encoding/json"
	"fmt"
	"math"
	"net/http"
	"strconv"
	"strings"
	"time"
)

// fpParseTimeMs parses a Prometheus API timestamp (float seconds or RFC3339) into milliseconds, rounding the
// fraction to the nearest millisecond as Prometheus' parseTime does.
func fpParseTimeMs(s string) (int64, error) {
	if t, err := strconv.ParseFloat(s, 64); err == nil {
		sec, frac := math.Modf(t)
		return int64(sec)*1000 + int64(math.Round(frac*1000)), nil
	}
	if t, err := time.Parse(time.RFC3339Nano, s); err == nil {
		return t.UnixMilli(), nil
	}
	return 0, fmt.Errorf("cannot parse %q to a valid timestamp", s)
}

// fpParseDurationMs parses a step/timeout (float seconds or Go-like duration) into milliseconds.
func fpParseDurationMs(s string) (int64, error) {
	if d, err := strconv.ParseFloat(s, 64); err == nil {
		return int64(math.Round(d * 1000)), nil
	}
	if d, err := time.ParseDuration(s); err == nil {
		return d.Milliseconds(), nil
	}
	return 0, fmt.Errorf("cannot parse %q to a valid duration", s)
}

type fpSeries struct {
	Metric map[string]string
	TsMs   []int64
	Vals   []float64 // nil => all "1"
}

func fpTs(ms int64) string {
	if ms%1000 == 0 {
		return strconv.FormatInt(ms/1000, 10)
	}
	return fmt.Sprintf("%d.%03d", ms/1000, ms%1000)
}

func fpVal(vals []float64, i int) string {
	if vals == nil {
		return "1"
	}
	return strconv.FormatFloat(vals[i], 'f', -1, 64)
}

func fpMetricJSON(m map[string]string) string {
	b, _ := json.Marshal(m)
	return string(b)
}

const fpStats = `,"stats":{"timings":{"evalTotalTime":0.001,"resultSortTime":0,"queryPreparationTime":0.0001,"innerEvalTime":0.0005,"execQueueTime":0.0001,"execTotalTime":0.001},"samples":{"totalQueryableSamples":10,"peakSamples":5}}`

func fpWriteMatrix(w http.ResponseWriter, series []fpSeries) {
	var b strings.Builder
	b.WriteString(`{"status":"success","data":{"resultType":"matrix","result":[`)
	for i, s := range series {
		if i > 0 {
			b.WriteByte(',')
		}
		b.WriteString(`{"metric":` + fpMetricJSON(s.Metric) + `,"values":[`)
		for j, ts := range s.TsMs {
			if j > 0 {
				b.WriteByte(',')
			}
			b.WriteString("[" + fpTs(ts) + `,"` + fpVal(s.Vals, j) + `"]`)
		}
		b.WriteString("]}")
	}
	b.WriteString("]" + fpStats + "}}")
	w.Header().Set("Content-Type", "application/json")
	w.WriteHeader(http.StatusOK)
	_, _ = w.Write([]byte(b.String()))
}

func fpWriteVector(w http.ResponseWriter, tsMs int64, series []fpSeries) {
	var b strings.Builder
	b.WriteString(`{"status":"success","data":{"resultType":"vector","result":[`)
	for i, s := range series {
		if i > 0 {
			b.WriteByte(',')
		}
		b.WriteString(`{"metric":` + fpMetricJSON(s.Metric) + `,"value":[` + fpTs(tsMs) + `,"` + fpVal(s.Vals, 0) + `"]}`)
	}
	b.WriteString("]" + fpStats + "}}")
	w.Header().Set("Content-Type", "application/json")
	w.WriteHeader(http.StatusOK)
	_, _ = w.Write([]byte(b.String()))
}

func fpWriteError(w http.ResponseWriter, code int, errType, msg string) {
	w.Header().Set("Content-Type", "application/json")
	w.WriteHeader(code)
	b, _ := json.Marshal(map[string]string{"status": "error", "errorType": errType, "error": msg})
	_, _ = w.Write(b)
}

func fpWriteJSON(w http.ResponseWriter, body string) {
	w.Header().Set("Content-Type", "application/json")
	w.WriteHeader(http.StatusOK)
	_, _ = w.Write([]byte(body))
}
