//go:build verif

package main

// Shared pieces of the in-process fake Prometheus used by C13 (presence model) and C16 (PromQL engine):
// request parsing with the server's millisecond semantics and response writers.  No behaviour of pint is
// assumed here; this is the "Prometheus-compatible server" side of the experiment.

import (
	"encoding/json"
	"fmt"
	"math"
	"net/http"
	"strconv"
	"strings"
	"time"
)

// fpParseTimeMs parses a Prometheus API timestamp (float seconds or RFC3339) into milliseconds, rounding the
// fraction to the nearest millisecond as Prometheus' parseTime does.
func fpParseTimeMs(s string) (int64, error) {
	if t, err := strconv.ParseFloat(s, 64); err == nil {
		sec, frac := math.Modf(t)
		return int64(sec)*1000 + int64(math.Round(frac*1000)), nil
	}
	if t, err := time.Parse(time.RFC3339Nano, s); err == nil {
		return t.UnixMilli(), nil
	}
	return 0, fmt.Errorf("cannot parse %q to a valid timestamp", s)
}

// fpParseDurationMs parses a step/timeout (float seconds or Go-like duration) into milliseconds.
func fpParseDurationMs(s string) (int64, error) {
	if d, err := strconv.ParseFloat(s, 64); err == nil {
		return int64(math.Round(d * 1000)), nil
	}
	if d, err := time.ParseDuration(s); err == nil {
		return d.Milliseconds(), nil
	}
	return 0, fmt.Errorf("cannot parse %q to a valid duration", s)
}

type fpSeries struct {
	Metric map[string]string
	TsMs   []int64
	Vals   []float64 // nil => all "1"
}

func fpTs(ms int64) string {
	if ms%1000 == 0 {
		return strconv.FormatInt(ms/1000, 10)
	}
	return fmt.Sprintf("%d.%03d", ms/1000, ms%1000)
}

func fpVal(vals []float64, i int) string {
	if vals == nil {
		return "1"
	}
	return strconv.FormatFloat(vals[i], 'f', -1, 64)
}

func fpMetricJSON(m map[string]string) string {
	b, _ := json.Marshal(m)
	return string(b)
}

const fpStats = `,"stats":{"timings":{"evalTotalTime":0.001,"resultSortTime":0,"queryPreparationTime":0.0001,"innerEvalTime":0.0005,"execQueueTime":0.0001,"execTotalTime":0.001},"samples":{"totalQueryableSamples":10,"peakSamples":5}}`

func fpWriteMatrix(w http.ResponseWriter, series []fpSeries) {
	var b strings.Builder
	b.WriteString(`{"status":"success","data":{"resultType":"matrix","result":[`)
	for i, s := range series {
		if i > 0 {
			b.WriteByte(',')
		}
		b.WriteString(`{"metric":` + fpMetricJSON(s.Metric) + `,"values":[`)
		for j, ts := range s.TsMs {
			if j > 0 {
				b.WriteByte(',')
			}
			b.WriteString("[" + fpTs(ts) + `,"` + fpVal(s.Vals, j) + `"]`)
		}
		b.WriteString("]}")
	}
	b.WriteString("]" + fpStats + "}}")
	w.Header().Set("Content-Type", "application/json")
	w.WriteHeader(http.StatusOK)
	_, _ = w.Write([]byte(b.String()))
}

func fpWriteVector(w http.ResponseWriter, tsMs int64, series []fpSeries) {
	var b strings.Builder
	b.WriteString(`{"status":"success","data":{"resultType":"vector","result":[`)
	for i, s := range series {
		if i > 0 {
			b.WriteByte(',')
		}
		b.WriteString(`{"metric":` + fpMetricJSON(s.Metric) + `,"value":[` + fpTs(tsMs) + `,"` + fpVal(s.Vals, 0) + `"]}`)
	}
	b.WriteString("]" + fpStats + "}}")
	w.Header().Set("Content-Type", "application/json")
	w.WriteHeader(http.StatusOK)
	_, _ = w.Write([]byte(b.String()))
}

func fpWriteError(w http.ResponseWriter, code int, errType, msg string) {
	w.Header().Set("Content-Type", "application/json")
	w.WriteHeader(code)
	b, _ := json.Marshal(map[string]string{"status": "error", "errorType": errType, "error": msg})
	_, _ = w.Write(b)
}

func fpWriteJSON(w http.ResponseWriter, body string) {
	w.Header().Set("Content-Type", "application/json")
	w.WriteHeader(http.StatusOK)
	_, _ = w.Write([]byte(body))
}

// ---------------------------------------------------------------------------------------------------------------
// Response variants: everything a Prometheus-compatible server may legally vary in a successful query / query_range
// response - the order of the keys of the top-level object, of "data" and of every sample object, insignificant
// whitespace, optional members (stats, warnings, infos), and the formatting of numbers (sample values are JSON
// strings holding a float, timestamps are JSON numbers with up to millisecond precision).

type fpVariant struct {
	TopOrder    int  // 0: status,data  1: data,status
	DataOrder   int  // permutation index of (resultType, result, stats)
	SampleOrder int  // 0: metric first  1: value(s) first
	Space       int  // 0: compact  1: spaces after separators  2: newlines + indentation
	Stats       bool // include "stats"
	Warnings    int  // 0: none  1: "warnings"  2: "warnings" and "infos" (before data when TopOrder == 1)
	ValueFmt    int  // 0: shortest ("1")  1: "1.0"-like fixed  2: exponent ("1e+00")
	TsFmt       int  // 0: shortest  1: always three decimals
}

func fpVariantFrom(h uint64) fpVariant {
	pick := func(n uint64) int { v := int(h % n); h /= n; return v }
	return fpVariant{TopOrder: pick(2), DataOrder: pick(6), SampleOrder: pick(2), Space: pick(3), Stats: pick(3) != 0,
		Warnings: pick(3), ValueFmt: pick(3), TsFmt: pick(2)}
}

func (v fpVariant) String() string {
	return fmt.Sprintf("top=%d data=%d sample=%d space=%d stats=%v warnings=%d value=%d ts=%d", v.TopOrder, v.DataOrder,
		v.SampleOrder, v.Space, v.Stats, v.Warnings, v.ValueFmt, v.TsFmt)
}

func (v fpVariant) ts(ms int64) string {
	if v.TsFmt == 1 {
		return fmt.Sprintf("%d.%03d", ms/1000, ms%1000)
	}
	return fpTs(ms)
}

func (v fpVariant) val(vals []float64, i int) string {
	f := 1.0
	if vals != nil {
		f = vals[i]
	}
	switch v.ValueFmt {
	case 1:
		s := strconv.FormatFloat(f, 'f', -1, 64)
		if !strings.Contains(s, ".") {
			s += ".0"
		}
		return s
	case 2:
		return strconv.FormatFloat(f, 'e', -1, 64)
	}
	return strconv.FormatFloat(f, 'f', -1, 64)
}

func (v fpVariant) sep() (comma, colon string) {
	switch v.Space {
	case 1:
		return ", ", ": "
	case 2:
		return ",\n  ", " : "
	}
	return ",", ":"
}

// obj joins already rendered `"key":value` members in the given order
func (v fpVariant) obj(members []string) string {
	comma, _ := v.sep()
	if v.Space == 2 {
		return "{\n  " + strings.Join(members, comma) + "\n}"
	}
	return "{" + strings.Join(members, comma) + "}"
}

func (v fpVariant) member(key, value string) string {
	_, colon := v.sep()
	return `"` + key + `"` + colon + value
}

var fpDataPerms = [6][3]int{{0, 1, 2}, {0, 2, 1}, {1, 0, 2}, {1, 2, 0}, {2, 0, 1}, {2, 1, 0}}

func (v fpVariant) envelope(resultType, result string) string {
	comma, _ := v.sep()
	_ = comma
	parts := [3]string{v.member("resultType", `"`+resultType+`"`), v.member("result", result), ""}
	if v.Stats {
		parts[2] = strings.TrimPrefix(fpStats, ",")
	}
	var data []string
	for _, i := range fpDataPerms[v.DataOrder] {
		if parts[i] != "" {
			data = append(data, parts[i])
		}
	}
	top := []string{v.member("status", `"success"`), v.member("data", v.obj(data))}
	if v.TopOrder == 1 {
		top[0], top[1] = top[1], top[0]
	}
	var extra []string
	if v.Warnings >= 1 {
		extra = append(extra, v.member("warnings", `["fake server: this is only a warning"]`))
	}
	if v.Warnings >= 2 {
		extra = append(extra, v.member("infos", `["fake server: an info annotation"]`))
	}
	if v.TopOrder == 1 {
		top = append(extra, top...)
	} else {
		top = append(top, extra...)
	}
	return v.obj(top)
}

func (v fpVariant) array(items []string) string {
	comma, _ := v.sep()
	return "[" + strings.Join(items, comma) + "]"
}

func fpWriteMatrixV(w http.ResponseWriter, series []fpSeries, v fpVariant) {
	items := make([]string, len(series))
	for i, s := range series {
		pts := make([]string, len(s.TsMs))
		for j, ts := range s.TsMs {
			pts[j] = v.array([]string{v.ts(ts), `"` + v.val(s.Vals, j) + `"`})
		}
		m := []string{v.member("metric", fpMetricJSON(s.Metric)), v.member("values", v.array(pts))}
		if v.SampleOrder == 1 {
			m[0], m[1] = m[1], m[0]
		}
		items[i] = v.obj(m)
	}
	fpWriteJSON(w, v.envelope("matrix", v.array(items)))
}

func fpWriteVectorV(w http.ResponseWriter, tsMs int64, series []fpSeries, v fpVariant) {
	items := make([]string, len(series))
	for i, s := range series {
		m := []string{v.member("metric", fpMetricJSON(s.Metric)), v.member("value", v.array([]string{v.ts(tsMs), `"` + v.val(s.Vals, 0) + `"`}))}
		if v.SampleOrder == 1 {
			m[0], m[1] = m[1], m[0]
		}
		items[i] = v.obj(m)
	}
	fpWriteJSON(w, v.envelope("vector", v.array(items)))
}
