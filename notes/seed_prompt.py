#!/usr/bin/env python3
"""prints the prompt for a seeding sub-agent for property <id> (only the property text + scratch worktree path)"""
import json, sys
pid = sys.argv[1]
rnd = sys.argv[2] if len(sys.argv) > 2 else ""      # e.g. "r3": separate worktree/output directory per round
import glob, os
avoid = []
for mf in sorted(glob.glob('/verif/seeded/%s-*/meta.json' % pid)):
    try: avoid.append(json.load(open(mf)).get("files", ""))
    except Exception: pass
for l in open('/verif/properties.jsonl'):
    p = json.loads(l)
    if p['id'] == pid:
        break
wt = "/tmp/seed%s-%s" % (rnd, pid)
out = "/tmp/seedout%s-%s" % (rnd, pid)
print(f"""You are testing how well a semantic property of the Go project cloudflare/pint (a Prometheus rule linter) can be broken by a realistic code change without anyone noticing.

You have your own scratch git worktree of the project at {wt} (detached HEAD of the current tree). Work ONLY inside {wt} and write your deliverables to {out}/ (create it). Do not read or write anything under /verif or /repo, and do not look at other /tmp/seed* directories.

THE PROPERTY (id {pid}):
{json.dumps(p, indent=1)}

Earlier testers already changed these places (pick DIFFERENT functions/mechanisms): {"; ".join(a for a in avoid if a) or "none"}.

TASK: produce TWO independent changes to the project's Go source (different mechanisms / different functions if at all possible), each of which
 (a) still compiles (`go build ./...`),
 (b) still passes the project's existing test suite, unedited (`go test -vet=off -count=1 ./...` — run at least the packages you touched plus ./cmd/pint; ideally everything, ~1 min),
 (c) BREAKS the property above — i.e. there is a concrete input / configuration / history / schedule / fault sequence for which the property as written no longer holds on the changed code while it does hold on the unchanged code.
Prefer changes that look like plausible maintenance edits or refactors (a boundary flip, a dropped or reordered branch, a wrong field, an "optimisation", a cache/lock moved, two cooperating sites that each look fine alone) and that need SOMETHING SPECIFIC to manifest: a particular interleaving, a fault at a particular point, a multi-step sequence of operations, an unusual but legal input. Do NOT produce changes that ordinary use would expose at once (e.g. every run fails), and do not touch test files, docs or go.mod.

For each change deliver, under {out}/1/ and {out}/2/:
 * patch.diff  — `git diff` of the change against the worktree HEAD (source files only, applies with `git apply`);
 * a demonstration: a Go test file or small program (+ any input files) and the exact commands to run it, which FAILS (or prints a visible wrong result) with the change applied and PASSES without it. A Go test placed inside a package directory of the worktree is fine (name it zz_seed_test.go, keep it OUT of patch.diff), or a shell script driving the built `pint` binary;
 * README.md — what the change is, why it breaks the property, what exactly is needed for it to manifest, the commands you ran and their results (build, existing tests with the change, demonstration with and without the change).
Verify everything yourself: run the existing tests with the change applied, run the demonstration with and without it. Leave the worktree clean (git checkout -- . ; remove untracked files) when you are done.

Environment: no network. Use `GOFLAGS=-mod=mod GOPROXY=off go build/test …` inside {wt}; do NOT set GOTOOLCHAIN or GOSUMDB. Wrap long commands in `timeout`. Never `pkill -f` with a pattern that could match your own shell. NEVER use `git stash` (the stash is shared between worktrees and other people use sibling worktrees): to test without your change use `git diff > /tmp/x.diff; git checkout -- .; …; git apply /tmp/x.diff`. The project's cmd/pint script tests bind fixed TCP ports and other people run the same suite on this machine, so run test suites inside a private network namespace: `unshare -rn bash -c 'ip link set lo up; GOFLAGS=-mod=mod GOPROXY=off go test -vet=off -count=1 ./...'`. The vendored Prometheus packages in the module cache (promql engine, rulefmt) compile offline; promqltest/tsdb do not.

Be careful that EVERY git command you run has your scratch worktree (or a temporary demo repository you created under /tmp) as its working directory: never /verif or /repo. Deliver each demonstration either as a Go test file named zz_seed_test.go directly in the change's output directory (with the package clause of the package it has to be copied into) or as a shell script `demo.sh <worktree>` that builds pint from the given worktree and exits non-zero exactly when the property is broken. The timing-based tests `TestSeriesCheck/series_present_on_other_servers_/_timeout_2` (internal/checks) and `TestScripts/0054_watch_metrics_prometheus` (cmd/pint) flake when the machine is loaded: re-run them alone before concluding anything from them.

Your final message: for each of the two changes, a 5-line summary (files touched, mechanism, what it needs to manifest, test-suite result, demonstration result). If you could only produce one valid change, say so.""")
