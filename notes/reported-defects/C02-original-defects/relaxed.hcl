parser {
  relaxed = [".*"]
}
