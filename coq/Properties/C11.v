(** C11 — Results do not depend on worker count or scheduling.

    The arrival stream of reports at [Summary.Report] is an interleaving of the per-job problem lists; every
    interleaving is a permutation of the workers=1 stream, so the theorems quantify over ALL permutations.
    [process] = Summary.Report (fold with hasReport) ; SortReports ; Dedup — the list the reporters render.
    Only property theorems here; proofs are in Proofs/C11_*.v. *)
From Coq Require Import List String ZArith NArith Bool Lia Permutation Sorted.
From PintV Require Import Common.Bytes Common.Sorting Gen.Tables Model.Severity Model.SummarySort.
From PintV Require Import Proofs.C11_order Proofs.C11_perm Proofs.C11_monitor.
From PintV Require Proofs.C11_stable_sort.
From PintV Require Import Model.ScanLTS Model.JobEnum Proofs.C11_lts Proofs.C11_lts_order Proofs.C11_lts_example Proofs.C11_jobs.
From PintV Require Gen.C11.
From PintV Require Import Model.ScanSkeleton.
Import ListNotations.
Local Open Scope Z_scope.

(** Headline theorem.  Under
      H1: on the stream's elements, isEqual is symmetric and implies equality of every rendered field,
      H2: the sort key (7 scalar keys + all diagnostics, sorted, + for reports with diagnostics Rule.Lines, Owner, SymlinkTarget) is injective on the isEqual-classes of the stream,
    every permutation of the stream gives the same reported problems in the same order with the same duplicate
    folding, hence the same JSON and console output — for streams of any length (the model of Go's stable sort,
    insertion-sorted blocks of 20 merged by symMerge, is proved to return the unique sorted permutation:
    Proofs/C11_stable_sort.v). *)
Theorem C11_perm_invariant : forall s s' min_sev show_dups,
  H1 s -> H2 s -> Permutation s s' ->
  process s' = process s /\
  render_json (process s') = render_json (process s) /\
  render_console min_sev show_dups (process s') = render_console min_sev show_dups (process s) /\
  map entry_diag_order (process s') = map entry_diag_order (process s).
Proof.
  intros s s' m d Hh1 Hh2 P. rewrite (process_perm_invariant s s' Hh1 Hh2 P). auto.
Qed.
Print Assumptions C11_perm_invariant.

(** The arrival stream really is a permutation of the per-job report lists.  [Model/ScanLTS.v] is the channel
    protocol of cmd/pint/scan.go as a transition system (producer goroutine -> jobs channel -> n scanWorker
    goroutines -> results channel -> the main goroutine's `for result := range results`, the WaitGroup closing
    results, both channels buffered with capacity cap); a path = one schedule.  For every job list, every number of
    workers n >= 1, every capacity and EVERY path: once the main loop has ended, the arguments of summary.Report
    are a permutation of the concatenated per-job lists (each report of each job delivered exactly once) ... *)
Theorem C11_protocol_delivers_exactly_once : forall (J A : Type) (run : J -> list A) cap n js s,
  (1 <= n)%nat -> reachable J A run cap (init J A n js) s -> done J A s = true ->
  Permutation (summary J A s) (sequential J A run js).
Proof. intros. now apply (delivered_exactly_once J A run cap n). Qed.
Print Assumptions C11_protocol_delivers_exactly_once.

(** ... no reachable state with the main loop still running is stuck (cap >= 1: workers*5 with --workers >= 1) ... *)
Theorem C11_protocol_no_deadlock : forall (J A : Type) (run : J -> list A) cap n js s,
  (1 <= cap)%nat -> reachable J A run cap (init J A n js) s -> done J A s = false -> exists s', step J A run cap s s'.
Proof. intros. now apply (no_deadlock J A run cap n js). Qed.
Print Assumptions C11_protocol_no_deadlock.

(** ... and every path is finite (each transition lowers [measure] by one), so every maximal path ends with the
    main loop finished and everything delivered. *)
Theorem C11_protocol_terminates : forall (J A : Type) (run : J -> list A) cap n js k s,
  (1 <= n)%nat -> (1 <= cap)%nat ->
  steps J A run cap (init J A n js) k s -> (forall s', ~ step J A run cap s s') ->
  done J A s = true /\ Permutation (summary J A s) (sequential J A run js) /\ (k <= measure J A run (init J A n js))%nat.
Proof. intros J A run cap n js k s N C R M. exact (maximal_runs_deliver J A run cap n js k s N C R M). Qed.
Print Assumptions C11_protocol_terminates.

(** ... and the arrival stream is an INTERLEAVING of the per-job lists: the reports of one job arrive in the order its
    check produced them (workers send in order, channels are FIFO).  [interleaving ls l] (Proofs/C11_lts_order.v): l is
    built by repeatedly appending the next element of one of the lists ls. *)
Theorem C11_protocol_preserves_job_order : forall (J A : Type) (run : J -> list A) cap n js s,
  (1 <= n)%nat -> reachable J A run cap (init J A n js) s -> done J A s = true ->
  interleaving (map run js) (summary J A s).
Proof. intros. now apply (arrival_is_interleaving J A run cap n). Qed.
Print Assumptions C11_protocol_preserves_job_order.

(** Non-vacuity of the protocol theorems, and the reason the permutation theorem is needed: with two workers and two
    one-report jobs there is a complete (maximal) run delivering [1; 2] and a complete run delivering [2; 1]. *)
Example C11_protocol_nonvacuous :
  (exists k s, steps nat nat ex_run 2 (init nat nat 2 [1; 2]%nat) k s /\ done nat nat s = true /\
               summary nat nat s = [1; 2]%nat /\ (forall s', ~ step nat nat ex_run 2 s s')) /\
  (exists k s, steps nat nat ex_run 2 (init nat nat 2 [1; 2]%nat) k s /\ done nat nat s = true /\
               summary nat nat s = [2; 1]%nat).
Proof. split; [exact run_in_order|exact run_swapped]. Qed.
Print Assumptions C11_protocol_nonvacuous.

(** The transition system is the protocol of the CURRENT source: the concurrency skeleton of checkRules and
    scanWorker extracted from the Go AST this run (Gen/C11.v, translator/ext_C11.go) is the one Model/ScanLTS.v was
    written from (a dropped close, a non-blocking send, an extra receive, a second consumer ... change it). *)
Theorem C11_protocol_matches_source :
  Gen.C11.check_rules_skeleton = expected_check_rules_skeleton /\
  Gen.C11.scan_worker_skeleton = expected_scan_worker_skeleton /\
  Gen.C11.scan_worker_channels = expected_scan_worker_channels /\
  Gen.C11.channel_capacities_positive = true.
Proof. repeat split; reflexivity. Qed.
Print Assumptions C11_protocol_matches_source.

(** Results do not depend on worker count or scheduling, stated over runs of the protocol: two complete runs of
    checkRules over the same jobs (entries x checks, a job's reports built by scanWorker's Report literal) with ANY
    worker counts, capacities and schedules give the same [process]ed summary, hence the same JSON/console output,
    provided the job-by-job stream satisfies H1 and H2. *)
Theorem C11_runs_agree : forall (jobs : list job) n1 n2 cap1 cap2 k1 k2 s1 s2 min_sev show_dups,
  (1 <= n1)%nat -> (1 <= n2)%nat -> (1 <= cap1)%nat -> (1 <= cap2)%nat ->
  H1 (sequential job report run_job jobs) -> H2 (sequential job report run_job jobs) ->
  steps job report run_job cap1 (init job report n1 jobs) k1 s1 -> (forall s', ~ step job report run_job cap1 s1 s') ->
  steps job report run_job cap2 (init job report n2 jobs) k2 s2 -> (forall s', ~ step job report run_job cap2 s2 s') ->
  process (summary job report s1) = process (summary job report s2) /\
  render_json (process (summary job report s1)) = render_json (process (summary job report s2)) /\
  render_console min_sev show_dups (process (summary job report s1)) =
  render_console min_sev show_dups (process (summary job report s2)).
Proof.
  intros jobs n1 n2 c1 c2 k1 k2 s1 s2 m d N1 N2 C1 C2 Hh1 Hh2 R1 M1 R2 M2.
  rewrite (runs_agree jobs n1 n2 c1 c2 k1 k2 s1 s2 N1 N2 C1 C2 Hh1 Hh2 R1 M1 R2 M2). auto.
Qed.
Print Assumptions C11_runs_agree.

(** The exit status agrees between any two complete runs with NO hypothesis. *)
Theorem C11_runs_agree_exit : forall (jobs : list job) n1 n2 cap1 cap2 k1 k2 s1 s2 failOn minSev,
  (1 <= n1)%nat -> (1 <= n2)%nat -> (1 <= cap1)%nat -> (1 <= cap2)%nat ->
  steps job report run_job cap1 (init job report n1 jobs) k1 s1 -> (forall s', ~ step job report run_job cap1 s1 s') ->
  steps job report run_job cap2 (init job report n2 jobs) k2 s2 -> (forall s', ~ step job report run_job cap2 s2 s') ->
  exit_status_lint failOn minSev (summary job report s1) = exit_status_lint failOn minSev (summary job report s2) /\
  exit_status_ci failOn (summary job report s1) = exit_status_ci failOn (summary job report s2).
Proof.
  intros jobs n1 n2 c1 c2 k1 k2 s1 s2 f m N1 N2 C1 C2 R1 M1 R2 M2.
  destruct (maximal_runs_deliver job report run_job c1 n1 jobs k1 s1 N1 C1 R1 M1) as (_ & P1 & _).
  destruct (maximal_runs_deliver job report run_job c2 n2 jobs k2 s2 N2 C2 R2 M2) as (_ & P2 & _).
  assert (P : Permutation (summary job report s2) (summary job report s1))
    by (eapply Permutation_trans; [exact P2|apply Permutation_sym; exact P1]).
  split; [now apply exit_lint_perm|now apply exit_ci_perm].
Qed.
Print Assumptions C11_runs_agree_exit.

(** H2 from what is left over.  Since fix 346020d the comparator reads all diagnostics, since bc86063 also Rule.Lines,
    Owner and Path.SymlinkTarget (found as real failures: promql/aggregate with several labels; rule/reject on a
    group-level label, corpus/C11/aggregate-keep-two and corpus/C11/group-label-reject, replayed every run).  Key-equal
    reports have the same diagnostics ([C11_key_covers_diagnostics]), and H2 holds for EVERY stream that satisfies the two
    residues of Proofs/C11_jobs.v:
      R-kind:   Rule.IsSame (read by isEqual) compares the kind flags, the parse Error and Lines of the rule; only Lines
                are sort keys, so two reports of one file whose rules have the same Lines must have rules of the same
                kind and Error;
      R-nodiag: the trailing keys are never read for reports without diagnostics (cmpDiagnostics answers -1/1 on an
                empty slice and cmp.Or stops there), so two diagnostic-less reports for the same file, lines and
                reporter must come from entries agreeing on target, owner and rule.
    Both are monitored (through H2) on every recorded real stream. *)
Theorem C11_key_covers_diagnostics : forall a b : report,
  sort_key (norm a) = sort_key (norm b) -> is_same_diags (r_diags b) (r_diags a) = true.
Proof. exact key_eq_same_diags. Qed.
Print Assumptions C11_key_covers_diagnostics.

Theorem C11_H2_from_residue : forall s : list report, R_kind s -> R_nodiag s -> H2 s.
Proof. exact H2_from_residue. Qed.
Print Assumptions C11_H2_from_residue.

(** The sort itself: on pairwise distinct elements on which the comparator is transitive and total, the modelled
    slices.SortStableFunc returns a strictly sorted permutation (any length, any element type). *)
Theorem C11_stable_sort_correct : forall (A : Type) (lt : A -> A -> bool) (l : list A),
  NoDup l ->
  (forall a b c, In a l -> In b l -> In c l -> R lt a b -> R lt b c -> R lt a c) ->
  (forall a b, In a l -> In b l -> a <> b -> R lt a b \/ R lt b a) ->
  Permutation (go_stable_sort lt l) l /\ StronglySorted (R lt) (go_stable_sort lt l).
Proof.
  intros A lt l ND Htr Htot. apply (C11_stable_sort.go_stable_sort_spec lt l Htr Htot); [apply incl_refl|exact ND].
Qed.
Print Assumptions C11_stable_sort_correct.

(** The exit status of pint lint / pint ci is permutation invariant with no hypothesis at all: it is
    non-zero iff some arrived problem reaches --fail-on. *)
Theorem C11_exit_perm_invariant : forall failOn minSev s s',
  Permutation s s' ->
  exit_status_lint failOn minSev s' = exit_status_lint failOn minSev s /\
  exit_status_ci failOn s' = exit_status_ci failOn s.
Proof. intros f m s s' P. split; [now apply exit_lint_perm|now apply exit_ci_perm]. Qed.
Print Assumptions C11_exit_perm_invariant.

Theorem C11_exit_iff_reaches : forall failOn minSev s,
  exit_status_lint failOn minSev s = true <-> exists r, In r s /\ failOn <= r_sev r.
Proof. exact exit_lint_stream_iff. Qed.
Print Assumptions C11_exit_iff_reaches.

(** The monitors evaluated on every recorded stream are sound for H1 and H2. *)
Theorem C11_monitors_sound : forall s, (h1b s = true -> H1 s) /\ (h2b s = true -> H2 s).
Proof. intros s. split; [apply h1b_sound|apply h2b_sound]. Qed.
Print Assumptions C11_monitors_sound.

(** H1's symmetry part, for the code as it is after fixes 980af37 and 1588b37: isEqual is symmetric whenever the
    diagnostics of the right-hand report carry no repeated (columns, message, position) tuple ... *)
Theorem C11_is_equal_symmetric_partial : forall a b,
  NoDup (map triple (r_diags b)) -> is_equal a b = true -> is_equal b a = true.
Proof. exact is_equal_sym_nodup. Qed.
Print Assumptions C11_is_equal_symmetric_partial.

Definition ex_report (owner details : string) (ds : list diag) : report :=
  {| r_path := "a.yml"; r_target := "a.yml"; r_owner := owner; r_rule := 0%N; r_name := "foo"; r_reporter := "r/a";
     r_summary := "s1"; r_details := details; r_diags := ds; r_lfirst := 1; r_llast := 3; r_sev := 1;
     r_anchor_before := true; r_rfirst := 1; r_rlast := 3 |}.
Definition dx := {| dg_msg := "m1"; dg_first := 1; dg_last := 2; dg_extra := 0%N |}.
Definition dy := {| dg_msg := "m2"; dg_first := 1; dg_last := 2; dg_extra := 0%N |}.

(** ... and not in general: isSameDiagnostics checks equal length and one-way inclusion. *)
Theorem C11_is_equal_symmetric_refuted :
  exists a b, is_equal a b = true /\ is_equal b a = false.
Proof. exists (ex_report "" "" [dx; dy]), (ex_report "" "" [dx; dx]). vm_compute. auto. Qed.
Print Assumptions C11_is_equal_symmetric_refuted.

(** The unconditional statement is false at Summary level (corpus cases replay both on the real Summary):
    (a) two reports differing only in Owner tie on the whole sort key: JSON lists them in arrival order (H2 fails);
    (b) with the asymmetric pair above one or two entries survive depending on arrival (H1 fails). *)
Theorem C11_perm_invariant_unconditional_refuted :
  (exists s s', Permutation s s' /\ render_json (process s) <> render_json (process s')) /\
  (exists s s', Permutation s s' /\ List.length (process s) <> List.length (process s')).
Proof.
  split.
  - exists [ex_report "o1" "" []; ex_report "o2" "" []], [ex_report "o2" "" []; ex_report "o1" "" []].
    split; [apply perm_swap|]. vm_compute. discriminate.
  - exists [ex_report "" "" [dx; dy]; ex_report "" "" [dx; dx]], [ex_report "" "" [dx; dx]; ex_report "" "" [dx; dy]].
    split; [apply perm_swap|]. vm_compute. discriminate.
Qed.
Print Assumptions C11_perm_invariant_unconditional_refuted.

(** Since fix 1588b37 equality reads the position of every diagnostic: reports that isEqual equates carry the same
    set of (columns, message, Pos) tuples, so folding can no longer merge problems that point at different places
    (before the fix the pair below was folded into one report and the surviving caret depended on the schedule:
    corpus/C11/pos-tie, replayed as a real scenario on every run). *)
Theorem C11_is_equal_reads_position : forall a b,
  is_equal a b = true ->
  incl (map triple (r_diags b)) (map triple (r_diags a)) /\ List.length (r_diags b) = List.length (r_diags a).
Proof.
  intros a b E. unfold is_equal in E. rewrite !andb_true_iff in E.
  destruct E as [[_ E] _]. apply is_same_diags_incl in E. tauto.
Qed.
Print Assumptions C11_is_equal_reads_position.

Definition dpos (k : N) := {| dg_msg := "`k.*` label value must match `^good$`."; dg_first := 1; dg_last := 3; dg_extra := k |}.
Example C11_position_regression :
  let a := ex_report "" "" [dpos 0] in let b := ex_report "" "" [dpos 1] in
  is_equal a b = false /\ h1b [a; b] = true /\ h2b [a; b] = true /\
  process [a; b] = process [b; a] /\ List.length (process [a; b]) = 2%nat /\
  map entry_diag_order (process [b; a; b; a]) = [[0%N]; [1%N]].
Proof. vm_compute. repeat split; reflexivity. Qed.
Print Assumptions C11_position_regression.

(** Regression for fix bc86063: two reports located on group-level data (same lines, same diagnostics) that belong to
    different rules are both kept and come out ordered by the rule's lines, whatever the arrival order. *)
Definition on_rule (r : report) (f l : Z) : report :=
  {| r_path := r_path r; r_target := r_target r; r_owner := r_owner r; r_rule := Z.to_N f; r_name := r_name r;
     r_reporter := r_reporter r; r_summary := r_summary r; r_details := r_details r; r_diags := r_diags r;
     r_lfirst := r_lfirst r; r_llast := r_llast r; r_sev := r_sev r; r_anchor_before := r_anchor_before r;
     r_rfirst := f; r_rlast := l |}.
Example C11_rule_identity_regression :
  let a := on_rule (ex_report "" "" [dx]) 6 7 in let b := on_rule (ex_report "" "" [dx]) 8 9 in
  is_equal a b = false /\ h1b [a; b] = true /\ h2b [a; b] = true /\ process [a; b] = process [b; a] /\
  map (fun e : entry => r_rfirst (fst (fst e))) (process [b; a; b]) = [6; 8].
Proof. vm_compute. repeat split; reflexivity. Qed.
Print Assumptions C11_rule_identity_regression.

(** Regression for fix 346020d: two reports of one rule that share their first diagnostic and differ in the second
    (promql/aggregate, keep = ["job", "instance"]) satisfy H1 and H2 and come out in one order. *)
Definition dagg (m : string) (col : Z) (k : N) := {| dg_msg := m; dg_first := col; dg_last := col + 3; dg_extra := k |}.
Example C11_later_diagnostics_regression :
  let a := ex_report "" "" [dagg "Query is using aggregation" 5 0; dagg "`job` label is required" 1 1] in
  let b := ex_report "" "" [dagg "Query is using aggregation" 5 0; dagg "`instance` label is required" 1 1] in
  is_equal a b = false /\ h1b [a; b] = true /\ h2b [a; b] = true /\ process [a; b] = process [b; a] /\
  List.length (process [b; a; a; b]) = 2%nat.
Proof. vm_compute. repeat split; reflexivity. Qed.
Print Assumptions C11_later_diagnostics_regression.

(** Non-vacuity: the design-session tie (two label blocks differing only in comment => reports differing only
    in Details, each arriving once per rule, here twice) satisfies H1 and H2; both texts are kept, in one order. *)
Example C11_nonvacuous :
  let a := ex_report "" "Rule comment: first" [dx] in
  let b := ex_report "" "Rule comment: second" [dx] in
  let s := [a; b; b; a] in
  h1b s = true /\ h2b s = true /\ H1 s /\ H2 s /\
  map (fun e : entry => r_details (fst (fst e))) (process s) = ["Rule comment: first"; "Rule comment: second"]%string /\
  process [b; a; a; b] = process s.
Proof.
  cbv zeta. assert (h1b [ex_report "" "Rule comment: first" [dx]; ex_report "" "Rule comment: second" [dx];
                         ex_report "" "Rule comment: second" [dx]; ex_report "" "Rule comment: first" [dx]] = true) as A by (vm_compute; reflexivity).
  assert (h2b [ex_report "" "Rule comment: first" [dx]; ex_report "" "Rule comment: second" [dx];
               ex_report "" "Rule comment: second" [dx]; ex_report "" "Rule comment: first" [dx]] = true) as B by (vm_compute; reflexivity).
  split; [exact A|]. split; [exact B|]. split; [now apply h1b_sound|]. split; [now apply h2b_sound|].
  split; vm_compute; reflexivity.
Qed.
Print Assumptions C11_nonvacuous.
