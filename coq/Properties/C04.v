(** C04 — a "non-existent label" template report is never a false positive.

    Model: [walk_node] = pint's label-flow analyser (Model/Source.v), [Sem] = label/presence semantics of PromQL
    validated node by node against the vendored engine (Model/PromSem.v), [wf] = the syntactic fragment
    (Model/PromFrag.v).  Theorems hold for every expression of the fragment, every database, every result the
    semantics admits, and every behaviour of math.Mod/math.Pow ([fmod], [fpow] are universally quantified). *)
From Coq Require Import List String Bool Floats NArith.
From PintV Require Import Common.Bytes Gen.C04 Model.PromQL Model.Source Model.PromSem Model.PromFrag
  Proofs.C04_lists Proofs.C04_transfer Proofs.C04_walk Proofs.C04_sound Proofs.C04_calls Proofs.C04_binops Proofs.C04_main.
Import ListNotations.
Open Scope string_scope.
Open Scope list_scope.

(** General clause: every series Prometheus returns for a query is consistent with at least one result branch
    pint derived for it: it carries no label that pint determined this branch cannot have. *)
Theorem C04_sound : forall fmod fpow db e R ls,
  wf e = true -> Sem db e (RVec R) -> In ls R ->
  exists s, In s (walk_node fmod fpow e) /\
            forall l, can_have_label s l = false -> has ls l = false.
Proof.
  intros fmod fpow db e R ls Hwf HS Hin.
  destruct (walk_sound fmod fpow db e Hwf _ HS) as [_ H]. destruct (H ls Hin) as [s [Hs HC]].
  exists s. split; auto. intros l Hl. destruct (has ls l) eqn:E; auto. rewrite (HC l E) in Hl. discriminate.
Qed.
Print Assumptions C04_sound.

(** Single-branch clause = the reported Bug is true: when the query has one result branch and the model of
    alerts/template's checkQueryLabels reports label [l] of the template as non-existent, no series of any
    result carries [l], whatever data is stored. *)
Theorem C04_single_branch : forall fmod fpow db e R s group_labels vars l,
  wf e = true -> walk_node fmod fpow e = [s] ->
  In l (template_missing [s] group_labels vars) ->
  Sem db e (RVec R) -> forall ls, In ls R -> has ls l = false.
Proof.
  intros fmod fpow db e R s gl vars l Hwf Hw Hrep HS ls Hin.
  unfold template_missing in Hrep. apply filter_In in Hrep. destruct Hrep as [_ Hrep].
  apply andb_true_iff in Hrep. destruct Hrep as [_ Hrep]. simpl in Hrep. rewrite orb_false_r in Hrep.
  apply andb_true_iff in Hrep. destruct Hrep as [_ Hc]. apply negb_true_iff in Hc.
  destruct (C04_sound fmod fpow db e R ls Hwf HS Hin) as [s' [Hs' H]]. rewrite Hw in Hs'.
  destruct Hs' as [<-|[]]. auto.
Qed.
Print Assumptions C04_single_branch.

(** The report never fires for a label some live branch... is not claimed: the "live" refinement of the general
    clause inherits the dead-code classes of C12 and is REFUTED on the faithful model by [vector(1) or foo]:
    the engine (and [Sem]) returns the foo series, whose only consistent branch is marked dead (K2). *)
Definition ex_foo : expr := ESel [{| m_type := MEq; m_name := "__name__"; m_value := "foo" |}].
Definition ex_vec1 : expr := ECall "vector" [VScalar] [ENum 1%float].
Definition ex_or : expr :=
  EBin OOr false (Some {| vm_card := ManyToMany; vm_on := false; vm_labels := []; vm_include := [] |}) ex_vec1 ex_foo.
Definition ex_db : list labelset := [[("__name__", "foo"); ("job", "j")]].

Lemma sem_ex_foo : Sem ex_db ex_foo (RVec ex_db).
Proof. apply (SemNode ex_db ex_foo [] (RVec ex_db)); [constructor | vm_compute; reflexivity]. Qed.

Lemma sem_ex_vec1 : Sem ex_db ex_vec1 (RVec [[]]).
Proof.
  apply (SemNode ex_db ex_vec1 [RScalar] (RVec [[]])); [|vm_compute; reflexivity].
  constructor; [|constructor]. apply (SemNode ex_db (ENum 1%float) [] RScalar); [constructor | reflexivity].
Qed.

Lemma sem_ex_or : Sem ex_db ex_or (RVec ([] :: ex_db)).
Proof.
  apply (SemNode ex_db ex_or [RVec [[]]; RVec ex_db] (RVec ([] :: ex_db))); [|vm_compute; reflexivity].
  constructor; [apply sem_ex_vec1|]. constructor; [apply sem_ex_foo | constructor].
Qed.

Theorem C04_live_refuted : exists fmod fpow db e R ls,
  wf e = true /\ Sem db e (RVec R) /\ In ls R /\
  forall s, In s (walk_node fmod fpow e) -> s_dead s = false ->
            exists l, has ls l = true /\ can_have_label s l = false.
Proof.
  exists (fun _ _ => nan), (fun _ _ => nan), ex_db, ex_or, ([] :: ex_db), [("__name__", "foo"); ("job", "j")].
  split; [reflexivity|]. split; [apply sem_ex_or|]. split; [right; left; reflexivity|].
  intros s Hin Hd. vm_compute in Hin. destruct Hin as [<-|[<-|[]]].
  - exists "job". split; reflexivity.
  - vm_compute in Hd. discriminate.
Qed.
Print Assumptions C04_live_refuted.

(** Outside [wf]: [count_values("__name__", foo) by (job)] re-creates the metric name the analyser excluded
    (known finding C04-count-values-name): the general clause fails. *)
Definition ex_cvn : expr := EAgg ACountValues false ["job"] (Some (EStr "__name__")) ex_foo.

Theorem C04_count_values_name_refuted : exists fmod fpow db e R ls,
  Sem db e (RVec R) /\ In ls R /\
  forall s, In s (walk_node fmod fpow e) -> exists l, has ls l = true /\ can_have_label s l = false.
Proof.
  exists (fun _ _ => nan), (fun _ _ => nan), ex_db, ex_cvn, [[("__name__", "1"); ("job", "j")]], [("__name__", "1"); ("job", "j")].
  split.
  - apply (SemNode ex_db ex_cvn [RStr; RVec ex_db] (RVec [[("__name__", "1"); ("job", "j")]])); [|vm_compute; reflexivity].
    constructor; [|constructor; [apply sem_ex_foo | constructor]].
    apply (SemNode ex_db (EStr "__name__") [] RStr); [constructor | reflexivity].
  - split; [left; reflexivity|]. intros s Hin. vm_compute in Hin. destruct Hin as [<-|[]].
    exists "__name__". split; reflexivity.
Qed.
Print Assumptions C04_count_values_name_refuted.

(** Non-vacuity: the premises are satisfiable with a non-empty result, and the analyser really excludes a label:
    [sum by (job) (foo)] on a database holding one foo series returns {job="j"}; label "instance" is reported. *)
Definition ex_sum : expr := EAgg ASum false ["job"] None ex_foo.

Example C04_nonvacuous :
  wf ex_sum = true /\ Sem ex_db ex_sum (RVec [[("job", "j")]]) /\
  (exists s, walk_node (fun _ _ => nan) (fun _ _ => nan) ex_sum = [s] /\
             template_missing [s] [] ["job"; "instance"] = ["instance"]).
Proof.
  split; [reflexivity|]. split.
  - apply (SemNode ex_db ex_sum [RVec ex_db] (RVec [[("job", "j")]])); [|vm_compute; reflexivity].
    constructor; [apply sem_ex_foo | constructor].
  - eexists. split; [vm_compute; reflexivity | vm_compute; reflexivity].
Qed.
