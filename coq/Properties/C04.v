(** C04 — a "non-existent label" template report is never a false positive.

    Model: [walk_node] = pint's label-flow analyser (Model/Source.v), [Sem] = label/presence semantics of PromQL
    validated node by node against the vendored engine (Model/PromSem.v), [wf] = the syntactic fragment
    (Model/PromFrag.v).  Theorems hold for every expression of the fragment, every database, every result the
    semantics admits, and every behaviour of math.Mod/math.Pow ([fmod], [fpow] are universally quantified). *)
From Coq Require Import List String Bool Floats NArith.
From PintV Require Import Common.Bytes Gen.C04 Model.PromQL Model.Source Model.PromSem Model.PromFrag Model.PromLive
  Proofs.C04_lists Proofs.C04_transfer Proofs.C04_walk Proofs.C04_sound Proofs.C04_calls Proofs.C04_binops Proofs.C04_main
  Proofs.C04_live.
Import ListNotations.
Open Scope string_scope.
Open Scope list_scope.

(** General clause: every series Prometheus returns for a query is consistent with at least one result branch
    pint derived for it: it carries no label that pint determined this branch cannot have. *)
Theorem C04_sound : forall fmod fpow db e R ls,
  wf e = true -> Sem db e (RVec R) -> In ls R ->
  exists s, In s (walk_node fmod fpow e) /\
            forall l, can_have_label s l = false -> has ls l = false.
Proof.
  intros fmod fpow db e R ls Hwf HS Hin.
  destruct (walk_sound fmod fpow db e Hwf _ HS) as [_ H]. destruct (H ls Hin) as [s [Hs HC]].
  exists s. split; auto. intros l Hl. destruct (has ls l) eqn:E; auto. rewrite (HC l E) in Hl. discriminate.
Qed.
Print Assumptions C04_sound.

(** Single-branch clause = the reported Bug is true: when the query has one result branch and the model of
    alerts/template's checkQueryLabels reports label [l] of the template as non-existent, no series of any
    result carries [l], whatever data is stored. *)
Theorem C04_single_branch : forall fmod fpow db e R s group_labels vars l,
  wf e = true -> walk_node fmod fpow e = [s] ->
  In l (template_missing [s] group_labels vars) ->
  Sem db e (RVec R) -> forall ls, In ls R -> has ls l = false.
Proof.
  intros fmod fpow db e R s gl vars l Hwf Hw Hrep HS ls Hin.
  unfold template_missing in Hrep. apply filter_In in Hrep. destruct Hrep as [_ Hrep].
  apply andb_true_iff in Hrep. destruct Hrep as [_ Hrep]. simpl in Hrep. rewrite orb_false_r in Hrep.
  apply andb_true_iff in Hrep. destruct Hrep as [_ Hc]. apply negb_true_iff in Hc.
  destruct (C04_sound fmod fpow db e R ls Hwf HS Hin) as [s' [Hs' H]]. rewrite Hw in Hs'.
  destruct Hs' as [<-|[]]. auto.
Qed.
Print Assumptions C04_single_branch.

(** The "live branch" refinement (the general clause as DESIGN.md states it) on expressions without constant vectors
    ([novc]: no [vector(...)], no time function without argument, at most one vector argument per call): every series
    is consistent with a result branch that is NOT marked dead.  Every dead-marking mechanism of source.go (static
    comparison folding, [unless on()], right hand side of [or]) needs an always-returning vector operand, and on
    this fragment no vector-typed branch has AlwaysReturns ([C04_live_branches]).  All witnesses of the liveness
    classes K1 K2 K6 K7 contain [vector(...)]; the refinement is refuted outside the fragment ([C04_live_refuted]). *)
Theorem C04_live_branches : forall fmod fpow db e R s,
  wf e = true -> novc e = true -> Sem db e R -> In s (walk_node fmod fpow e) ->
  is_vec_or_matrix (s_returns s) = true -> s_always s = false /\ s_dead s = false.
Proof. intros fmod fpow db e R s Hwf Hn HS Hin Hv. exact (live_branches fmod fpow db e Hwf Hn R HS s Hin Hv). Qed.
Print Assumptions C04_live_branches.

Theorem C04_sound_live : forall fmod fpow db e R ls,
  wf e = true -> novc e = true -> Sem db e (RVec R) -> In ls R ->
  exists s, In s (walk_node fmod fpow e) /\ s_dead s = false /\
            forall l, can_have_label s l = false -> has ls l = false.
Proof.
  intros fmod fpow db e R ls Hwf Hn HS Hin.
  destruct (walk_sound fmod fpow db e Hwf _ HS) as [I1 I2]. destruct (I2 ls Hin) as [s [Hs HC]].
  exists s. split; [exact Hs|]. split.
  - exact (proj2 (live_branches fmod fpow db e Hwf Hn _ HS s Hs (I1 s Hs))).
  - intros l Hl. destruct (has ls l) eqn:E; auto. rewrite (HC l E) in Hl. discriminate.
Qed.
Print Assumptions C04_sound_live.

(** The report never fires for a label some live branch... is not claimed in general: the "live" refinement of the general
    clause inherits the dead-code classes of C12 and is REFUTED on the faithful model by [vector(1) or foo]:
    the engine (and [Sem]) returns the foo series, whose only consistent branch is marked dead (K2). *)
Definition ex_foo : expr := ESel [{| m_type := MEq; m_name := "__name__"; m_value := "foo" |}].
Definition ex_vec1 : expr := ECall "vector" [VScalar] [ENum 1%float].
Definition ex_or : expr :=
  EBin OOr false (Some {| vm_card := ManyToMany; vm_on := false; vm_labels := []; vm_include := [] |}) ex_vec1 ex_foo.
Definition ex_db : list labelset := [[("__name__", "foo"); ("job", "j")]].

Lemma sem_ex_foo : Sem ex_db ex_foo (RVec ex_db).
Proof. apply (SemNode ex_db ex_foo [] (RVec ex_db)); [constructor | vm_compute; reflexivity]. Qed.

Lemma sem_ex_vec1 : Sem ex_db ex_vec1 (RVec [[]]).
Proof.
  apply (SemNode ex_db ex_vec1 [RScalar] (RVec [[]])); [|vm_compute; reflexivity].
  constructor; [|constructor]. apply (SemNode ex_db (ENum 1%float) [] RScalar); [constructor | reflexivity].
Qed.

Lemma sem_ex_or : Sem ex_db ex_or (RVec ([] :: ex_db)).
Proof.
  apply (SemNode ex_db ex_or [RVec [[]]; RVec ex_db] (RVec ([] :: ex_db))); [|vm_compute; reflexivity].
  constructor; [apply sem_ex_vec1|]. constructor; [apply sem_ex_foo | constructor].
Qed.

Theorem C04_live_refuted : exists fmod fpow db e R ls,
  wf e = true /\ Sem db e (RVec R) /\ In ls R /\
  forall s, In s (walk_node fmod fpow e) -> s_dead s = false ->
            exists l, has ls l = true /\ can_have_label s l = false.
Proof.
  exists (fun _ _ => nan), (fun _ _ => nan), ex_db, ex_or, ([] :: ex_db), [("__name__", "foo"); ("job", "j")].
  split; [reflexivity|]. split; [apply sem_ex_or|]. split; [right; left; reflexivity|].
  intros s Hin Hd. vm_compute in Hin. destruct Hin as [<-|[<-|[]]].
  - exists "job". split; reflexivity.
  - vm_compute in Hd. discriminate.
Qed.
Print Assumptions C04_live_refuted.

(** [count_values("__name__", foo) by (job)] re-creates the metric name.  Before fix 392e95a the analyser excluded
    it (false "non-existent label" report, the former known finding C04-count-values-name, then stated here as a
    refutation); now the expression is inside [wf], so [C04_sound] covers it, and the former counterexample is
    consistent with the analyser's branch. *)
Definition ex_cvn : expr := EAgg ACountValues false ["job"] (Some (EStr "__name__")) ex_foo.

Theorem C04_count_values_name : forall fmod fpow,
  wf ex_cvn = true /\
  Sem ex_db ex_cvn (RVec [[("__name__", "1"); ("job", "j")]]) /\
  (forall db R ls, Sem db ex_cvn (RVec R) -> In ls R ->
     exists s, In s (walk_node fmod fpow ex_cvn) /\ forall l, can_have_label s l = false -> has ls l = false) /\
  (forall s, In s (walk_node fmod fpow ex_cvn) -> can_have_label s "__name__" = true).
Proof.
  intros fmod fpow. split; [reflexivity|]. split.
  - apply (SemNode ex_db ex_cvn [RStr; RVec ex_db] (RVec [[("__name__", "1"); ("job", "j")]])); [|vm_compute; reflexivity].
    constructor; [|constructor; [apply sem_ex_foo | constructor]].
    apply (SemNode ex_db (EStr "__name__") [] RStr); [constructor | reflexivity].
  - split.
    + intros db R ls HS Hin. exact (C04_sound fmod fpow db ex_cvn R ls eq_refl HS Hin).
    + intros s Hin. vm_compute in Hin. destruct Hin as [<-|[]]. reflexivity.
Qed.
Print Assumptions C04_count_values_name.

(** fix f3c0f95: whatever the analyser concluded about the operand, no result branch of absent()/absent_over_time()
    is dead or "always returning" (the call returns a series exactly when its operand returns nothing).  The
    former known finding C04-live-absent-of-dead-K8 ([absent(foo unless on() vector(1))] returned [{}] while its
    only branch was dead) is thereby closed for every operand. *)
Theorem C04_absent_not_dead : forall fmod fpow f ats args s,
  sem_class f = SCAbsent -> In s (walk_node fmod fpow (ECall f ats args)) ->
  s_dead s = false /\ s_always s = false /\ s_dead_label s = None.
Proof.
  intros fmod fpow f ats args s Hc Hin.
  assert (Hne : sem_class f <> SCNone) by (rewrite Hc; discriminate).
  pose proof (compat_of f Hne) as Hk. unfold compat in Hk. rewrite Hc in Hk. apply String.eqb_eq in Hk.
  apply walk_call_In in Hin. destruct Hin as [es [-> _]]. rewrite call_src_unfold.
  apply ppf_absent_flags. exact Hk.
Qed.
Print Assumptions C04_absent_not_dead.

Definition ex_absent_dead : expr :=
  ECall "absent" [VVector]
    [EBin OUnless false (Some {| vm_card := ManyToMany; vm_on := true; vm_labels := []; vm_include := [] |}) ex_foo ex_vec1].

Example C04_absent_of_dead_live :
  wf ex_absent_dead = true /\
  Sem ex_db ex_absent_dead (RVec [[]]) /\
  map s_dead (walk_node (fun _ _ => nan) (fun _ _ => nan) ex_absent_dead) = [false] /\
  forallb s_dead (walk_node (fun _ _ => nan) (fun _ _ => nan)
                    (match ex_absent_dead with ECall _ _ [a] => a | _ => ex_foo end)) = true.
Proof.
  split; [reflexivity|]. split.
  - apply (SemNode ex_db ex_absent_dead [RVec []] (RVec [[]])); [|vm_compute; reflexivity].
    constructor; [|constructor].
    eapply (SemNode ex_db _ [RVec ex_db; RVec [[]]] (RVec [])); [|vm_compute; reflexivity].
    constructor; [apply sem_ex_foo|]. constructor; [apply sem_ex_vec1 | constructor].
  - split; vm_compute; reflexivity.
Qed.

(** Former known finding C04-absent-duplicate-matcher (fixed by 06b3093): [absent(foo{a!="x", a="1"})] and
    [absent((foo{a="1"}))] return [{a="1"}] (the engine walks the matchers in order and unwraps parentheses) while the
    analyser said the result cannot have "a".  absentLabels now does the engine's walk: both expressions are inside
    [wf] (no restriction on the selector handed to absent() is left), so [C04_sound] covers them, and the branch can
    have "a". *)
Definition m_eq (n v : string) : matcher := {| m_type := MEq; m_name := n; m_value := v |}.
Definition ex_abs_dup : expr :=
  ECall "absent" [VVector] [ESel [{| m_type := MNe; m_name := "a"; m_value := "x" |}; m_eq "a" "1"; m_eq "__name__" "foo"]].
Definition ex_abs_paren : expr := ECall "absent" [VVector] [EParen (ESel [m_eq "a" "1"; m_eq "__name__" "foo"])].

Example C04_absent_labels_follow_engine :
  wf ex_abs_dup = true /\ wf ex_abs_paren = true /\
  Sem [] ex_abs_dup (RVec [[("a", "1")]]) /\ Sem [] ex_abs_paren (RVec [[("a", "1")]]) /\
  (forall s, In s (walk_node (fun _ _ => nan) (fun _ _ => nan) ex_abs_dup) -> can_have_label s "a" = true) /\
  (forall s, In s (walk_node (fun _ _ => nan) (fun _ _ => nan) ex_abs_paren) -> can_have_label s "a" = true).
Proof.
  split; [reflexivity|]. split; [reflexivity|]. split; [|split; [|split]].
  - apply (SemNode [] ex_abs_dup [RVec []] (RVec [[("a", "1")]])); [|vm_compute; reflexivity].
    constructor; [|constructor]. apply (SemNode [] _ [] (RVec [])); [constructor | vm_compute; reflexivity].
  - apply (SemNode [] ex_abs_paren [RVec []] (RVec [[("a", "1")]])); [|vm_compute; reflexivity].
    constructor; [|constructor]. apply (SemNode [] _ [RVec []] (RVec [])); [|vm_compute; reflexivity].
    constructor; [|constructor]. apply (SemNode [] _ [] (RVec [])); [constructor | vm_compute; reflexivity].
  - intros s Hin. vm_compute in Hin. destruct Hin as [<-|[]]. reflexivity.
  - intros s Hin. vm_compute in Hin. destruct Hin as [<-|[]]. reflexivity.
Qed.

(** Non-vacuity: the premises are satisfiable with a non-empty result, and the analyser really excludes a label:
    [sum by (job) (foo)] on a database holding one foo series returns {job="j"}; label "instance" is reported. *)
Definition ex_sum : expr := EAgg ASum false ["job"] None ex_foo.

Example C04_nonvacuous :
  wf ex_sum = true /\ novc ex_sum = true /\ Sem ex_db ex_sum (RVec [[("job", "j")]]) /\
  (exists s, walk_node (fun _ _ => nan) (fun _ _ => nan) ex_sum = [s] /\
             template_missing [s] [] ["job"; "instance"] = ["instance"]).
Proof.
  split; [reflexivity|]. split; [reflexivity|]. split.
  - apply (SemNode ex_db ex_sum [RVec ex_db] (RVec [[("job", "j")]])); [|vm_compute; reflexivity].
    constructor; [apply sem_ex_foo | constructor].
  - eexists. split; [vm_compute; reflexivity | vm_compute; reflexivity].
Qed.

(** fix 53ade46: the parser accepts a parenthesised string literal where a string is expected; the analyser now looks the
    literal up through the parentheses ([lit_val]) as the engine does.  [count_values(("cv"), foo)] and
    [label_replace(foo, ("d"), "x", "b", "(.*)")] are inside [wf]; their branches can have the label. *)
Definition ex_cv_paren : expr := EAgg ACountValues false [] (Some (EParen (EStr "cv"))) ex_foo.
Definition ex_lr_paren : expr :=
  ECall "label_replace" [VVector; VString; VString; VString; VString]
        [ex_foo; EParen (EStr "d"); EStr "x"; EStr "b"; EStr "(.*)"].

Example C04_paren_string_args :
  wf ex_cv_paren = true /\ wf ex_lr_paren = true /\
  (forall s, In s (walk_node (fun _ _ => nan) (fun _ _ => nan) ex_cv_paren) -> can_have_label s "cv" = true) /\
  (forall s, In s (walk_node (fun _ _ => nan) (fun _ _ => nan) ex_lr_paren) -> can_have_label s "d" = true).
Proof.
  split; [reflexivity|]. split; [reflexivity|]. split; intros s Hin; vm_compute in Hin; destruct Hin as [<-|[]]; reflexivity.
Qed.

(** * The property as ONE theorem, clause by clause

    "A 'template uses non-existent label' report is never a false positive":
    (1) every series Prometheus returns for a query is consistent with at least one of the result branches pint derived
        for it (it carries no label that branch cannot have);
    (2) hence for a single-branch query every label the check reports as impossible is carried by NO series of any
        result, on every database -- the reported Bug is true;
    (3) on expressions without constant vectors ([novc]) the consistent branch of (1) is moreover LIVE (not marked dead),
        so a multi-branch query is only reported for a label that a live branch cannot have, and every returned series
        belongs to some live branch the check looked at (outside [novc] the refinement fails: [C04_live_refuted], the
        liveness classes K1 K2 K6 K7 of C12). *)
Theorem C04_property : forall fmod fpow db e R,
  wf e = true -> Sem db e (RVec R) ->
  (* (1) *)
  (forall ls, In ls R -> exists s, In s (walk_node fmod fpow e) /\ forall l, can_have_label s l = false -> has ls l = false) /\
  (* (2) *)
  (forall s group_labels vars l, walk_node fmod fpow e = [s] -> In l (template_missing [s] group_labels vars) ->
                                 forall ls, In ls R -> has ls l = false) /\
  (* (3) *)
  (novc e = true ->
   forall ls, In ls R -> exists s, In s (walk_node fmod fpow e) /\ s_dead s = false /\
                                   forall l, can_have_label s l = false -> has ls l = false).
Proof.
  intros fmod fpow db e R Hwf HS. split; [|split].
  - intros ls Hin. exact (C04_sound fmod fpow db e R ls Hwf HS Hin).
  - intros s gl vars l Hw Hrep ls Hin. exact (C04_single_branch fmod fpow db e R s gl vars l Hwf Hw Hrep HS ls Hin).
  - intros Hn ls Hin. exact (C04_sound_live fmod fpow db e R ls Hwf Hn HS Hin).
Qed.
Print Assumptions C04_property.
