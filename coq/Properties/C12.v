(** C12 — a "dead code" report is never a false positive.

    pint marks a source dead in four ways (source.go): (1) [canJoin] says a join can never match, (2) static
    folding of a comparison of two known values, (3) [l unless on() r] with [r] always returning, (4) the right
    hand side of [or] when the left hand side always returns.  For each the theorem "the flagged part
    contributes nothing" is proved under the exact guard that excludes the known failure classes
    (K3: may-have used as must-have -> guard [must_have]; K6: ReturnedNumber is not the value -> guard [const_val];
     K7: AlwaysReturns is not "never empty" -> guard [always_ne]; K1: [bool]; K2: [or] without [on()]),
    the guards are verified analyses ([C12_must_have_sound], [C12_always_ne_sound], [C12_const_val_known]), and the
    unguarded statements are refuted by witnesses whose results are the REAL engine's on a db_total database. *)
From Coq Require Import List String Bool Floats NArith.
From PintV Require Import Common.Bytes Gen.C04 Model.PromQL Model.Source Model.PromSem Model.PromFrag Model.PromAlways Model.PromClass
  Proofs.C04_lists Proofs.C04_transfer Proofs.C04_walk Proofs.C04_sound Proofs.C04_calls Proofs.C04_binops Proofs.C04_main
  Proofs.C12_musthave Proofs.C12_join Proofs.C12_always Proofs.C12_static Proofs.C12_witness Proofs.C12_flag Proofs.C12_k3 Proofs.C12_top Proofs.C04_live Proofs.C12_complete.
Import ListNotations.
Open Scope string_scope.
Open Scope list_scope.

(** The K3 guard is a verified analysis: on a database in which every series carries every label of U,
    [must_have U e l] implies every series of every admitted result of [e] carries [l]. *)
Theorem C12_must_have_sound : forall U db e l R,
  db_total U db -> must_have U e l = true -> Sem db e R ->
  is_series_result R = true /\ forall ls, In ls (series_of R) -> has ls l = true.
Proof. intros U db e l R Ht Hm HS. exact (must_have_sound U db Ht e l Hm R HS). Qed.
Print Assumptions C12_must_have_sound.

(** (1) Join verdicts.  If every (branch of the "many" side, branch of the other side) pair is flagged by
    [can_join] on a label that takes part in the matching and that the many side must have, then the flagged
    operand contributes nothing: the rule of the operation admits the same result with that operand replaced
    by the empty vector; for everything but [unless] the operation returns no series. *)
Theorem C12_join_partial : forall fmod fpow U db op rb vm l r Cl Cr R,
  db_total U db ->
  wf (EBin op rb (Some vm) l r) = true -> op <> OOr ->
  Sem db l (RVec Cl) -> Sem db r (RVec Cr) ->
  (match vm_card vm with
   | OneToMany => all_flagged fmod fpow U vm r l
   | _ => all_flagged fmod fpow U vm l r end) ->
  local db (EBin op rb (Some vm) l r) [RVec Cl; RVec Cr] (RVec R) = Some true ->
  local db (EBin op rb (Some vm) l r)
        [RVec (match vm_card vm with OneToMany => [] | _ => Cl end);
         RVec (match vm_card vm with OneToMany => Cr | _ => [] end)] (RVec R) = Some true
  /\ (op <> OUnless -> R = []).
Proof.
  intros fmod fpow U db op rb vm l r Cl Cr R Ht Hwf Hor HSl HSr Hfl Hloc.
  cbn [local] in *. apply and_opt_true in Hloc. destruct Hloc as [Hb Hs]. split.
  - rewrite (join_contributes_nothing fmod fpow U db Ht op rb vm l r Cl Cr R Hwf Hor HSl HSr Hfl Hb).
    rewrite Hs. reflexivity.
  - intros Hun. exact (join_returns_nothing fmod fpow U db Ht op rb vm l r Cl Cr R Hwf Hor Hun HSl HSr Hfl Hb).
Qed.
Print Assumptions C12_join_partial.

(** (1') The same clause with the analyser's OWN verdict instead of the verified guard.  On the syntactic complement
    of known finding K3 ([k3_free]: selectors, matrix/subquery/paren/unary, by/without aggregations, topk/bottomk,
    vector/scalar operations -- no call, no vector/vector operation, no count_values) a label the analyser
    believes a result branch can have is a label every series of every result carries ([C12_can_have_must_have]).
    So for joins without on() and without group labels whose driving side is [k3_free], it suffices that canJoin flags
    every pair on a stored label: the guard [must_have] is discharged ([C12_join_analyser]).  The known-finding class
    K3 of the harness is "not must_have AND one of the four K3 mechanisms present"; this theorem covers the
    mechanism-free side of it by proof. *)
Theorem C12_can_have_must_have : forall fmod fpow U e s l,
  k3_free e = true -> In s (walk_node fmod fpow e) -> In l U -> l <> metric_name ->
  can_have_label s l = true -> must_have U e l = true.
Proof.
  intros fmod fpow U e s l Hk Hin HU Hn Hc.
  destruct (analyser_can_have_must fmod fpow U e Hk) as [_ H]. exact (H s l Hin HU Hn Hc).
Qed.
Print Assumptions C12_can_have_must_have.

Theorem C12_join_analyser : forall fmod fpow U db op rb vm l r Cl Cr R,
  db_total U db ->
  wf (EBin op rb (Some vm) l r) = true -> op <> OOr ->
  vm_on vm = false -> vm_include vm = [] ->
  k3_free (match vm_card vm with OneToMany => r | _ => l end) = true ->
  Sem db l (RVec Cl) -> Sem db r (RVec Cr) ->
  (forall s0 rs,
     In s0 (walk_node fmod fpow (match vm_card vm with OneToMany => r | _ => l end)) ->
     In rs (walk_node fmod fpow (match vm_card vm with OneToMany => l | _ => r end)) ->
     exists n, can_join (join_view vm s0) rs vm = Some n /\ In n U /\ n <> metric_name) ->
  local db (EBin op rb (Some vm) l r) [RVec Cl; RVec Cr] (RVec R) = Some true ->
  local db (EBin op rb (Some vm) l r)
        [RVec (match vm_card vm with OneToMany => [] | _ => Cl end);
         RVec (match vm_card vm with OneToMany => Cr | _ => [] end)] (RVec R) = Some true
  /\ (op <> OUnless -> R = []).
Proof.
  intros fmod fpow U db op rb vm l r Cl Cr R Ht Hwf Hor Hon Hinc Hk HSl HSr Hfl Hloc.
  apply (C12_join_partial fmod fpow U db op rb vm l r Cl Cr R Ht Hwf Hor HSl HSr); [|exact Hloc].
  assert (Hall : forall many other,
            k3_free many = true ->
            (forall s0 rs, In s0 (walk_node fmod fpow many) -> In rs (walk_node fmod fpow other) ->
               exists n, can_join (join_view vm s0) rs vm = Some n /\ In n U /\ n <> metric_name) ->
            all_flagged fmod fpow U vm many other).
  { intros many other Hkm H s0 rs H0 Hrs. destruct (H s0 rs H0 Hrs) as [n [Hj [HU Hn]]].
    exists n. split; [exact Hj|]. split; [|right; exact Hn].
    apply (C12_can_have_must_have fmod fpow U many s0 n Hkm H0 HU Hn).
    apply (join_view_can_have vm s0 n Hon Hinc). exact (can_join_some_can_have _ _ _ _ Hj). }
  destruct (vm_card vm); apply Hall; assumption.
Qed.
Print Assumptions C12_join_analyser.

(** the join entries the analyser appends at a node are exactly the [can_join] verdicts (dead iff [Some _]) *)
Theorem C12_join_flags : forall vm others s,
  s_joins (add_joins vm others s) = s_joins s ++ map (fun rs => mark_join s rs vm) others /\
  forall rs, s_dead rs = false ->
    s_dead (mark_join s rs vm) = match can_join s rs vm with Some _ => true | None => false end.
Proof. intros vm others s. split; [apply add_joins_spec | intros rs; apply mark_join_dead]. Qed.
Print Assumptions C12_join_flags.

(** (2) Static comparison folding.  For a filtering comparison (no [bool]) of two syntactically constant operands
    with plain matching, the analyser produces ONE source whose dead flag is exactly "the comparison is
    certainly false", and then every admitted result is empty, on every database. *)
Theorem C12_static_partial : forall fmod fpow op vm l r x y,
  is_comparison op = true -> plain_vm vm = true ->
  const_val l = Some x -> const_val r = Some y ->
  exists S, walk_node fmod fpow (EBin op false vm l r) = [S] /\
            s_dead S = static_false op x y /\
            (s_dead S = true -> forall db R, Sem db (EBin op false vm l r) (RVec R) -> R = []).
Proof.
  intros fmod fpow op vm l r x y Hcmp Hplain Hx Hy.
  destruct (static_flag_is_static_false fmod fpow op false vm l r x y Hcmp Hplain Hx Hy) as [S [Hw Hd]].
  exists S. split; [exact Hw|]. split; [exact Hd|].
  intros Hdead db R HS. rewrite Hd in Hdead. exact (static_false_empty db op vm l r x y R Hcmp Hx Hy Hdead HS).
Qed.
Print Assumptions C12_static_partial.

(** on constant operands the analyser's ReturnedNumber is the value *)
Theorem C12_const_val_known : forall fmod fpow e v,
  const_val e = Some v ->
  exists s, walk_node fmod fpow e = [s] /\ s_known s = true /\ s_always s = true /\ s_number s = v /\ s_dead s = false.
Proof. intros fmod fpow e v H. exact (const_val_known fmod fpow e v H). Qed.
Print Assumptions C12_const_val_known.

(** (3) [l unless on() r] with [r] never empty returns nothing; (4) [l or on() r] with [l] never empty:
    the right hand side contributes nothing. *)
Theorem C12_always_ne_sound : forall db e R,
  always_ne e = true -> Sem db e R -> exists R0, R = RVec R0 /\ R0 <> [].
Proof. intros db e R Ha HS. exact (always_ne_sound db e Ha R HS). Qed.
Print Assumptions C12_always_ne_sound.

Theorem C12_unless_on_partial : forall db rb vm l r Cl Cr R,
  on_empty vm = true -> always_ne r = true -> Sem db r (RVec Cr) ->
  local db (EBin OUnless rb (Some vm) l r) [RVec Cl; RVec Cr] (RVec R) = Some true -> R = [].
Proof.
  intros db rb vm l r Cl Cr R Hon Ha HSr Hloc. cbn [local] in Hloc. apply and_opt_true in Hloc. destruct Hloc as [Hb _].
  exact (unless_on_empty_dead db rb vm r Cl Cr R Hon Ha HSr Hb).
Qed.
Print Assumptions C12_unless_on_partial.

Theorem C12_or_on_partial : forall db rb vm l r Cl Cr R,
  on_empty vm = true -> always_ne l = true -> Sem db l (RVec Cl) ->
  local db (EBin OOr rb (Some vm) l r) [RVec Cl; RVec Cr] (RVec R) = Some true ->
  local db (EBin OOr rb (Some vm) l r) [RVec Cl; RVec []] (RVec R) = Some true.
Proof.
  intros db rb vm l r Cl Cr R Hon Ha HSl Hloc. cbn [local] in *. apply and_opt_true in Hloc. destruct Hloc as [Hb Hs].
  rewrite (or_on_empty_rhs_dead db rb vm l Cl Cr R Hon Ha HSl Hb), Hs. reflexivity.
Qed.
Print Assumptions C12_or_on_partial.

(** (3'), (4') The same two verdicts stated with the analyser's OWN condition instead of the verified guard.
    source.go marks the left hand side of [l unless on() r] dead exactly when some result branch of [r] has
    AlwaysReturns and is not conditional ([C12_unless_flag]); on the syntactic complement of known finding K7
    ([k7_free_vec]: no vector/vector operation, clamp, topk/bottomk, and only functions with an exact rule) that
    condition implies that every admitted result of [r] is non-empty ([C12_analyser_always_sound]), so the verdict
    is true ([C12_unless_on_analyser], [C12_or_on_analyser]).  Since fix f3c0f95 this covers [absent()]
    operands: their branches never have AlwaysReturns. *)
Theorem C12_unless_flag : forall rb vm s rc rs0,
  s_dead s = false ->
  s_dead (fst (mtm_step OUnless rb vm (s, rc) rs0)) = vm_on_empty vm && s_always rs0 && negb (s_cond rs0).
Proof.
  intros rb vm s rc rs0 Hd. unfold mtm_step.
  assert (Hm : s_always (mark_join s rs0 vm) = s_always rs0 /\ s_cond (mark_join s rs0 vm) = s_cond rs0).
  { unfold mark_join. destruct (can_join s rs0 vm); split; reflexivity. }
  destruct Hm as [Ha Hc]. rewrite Ha, Hc. cbn [fst s_dead set_unless].
  destruct (vm_on_empty vm && s_always rs0 && negb (s_cond rs0)); [reflexivity | exact Hd].
Qed.
Print Assumptions C12_unless_flag.

Theorem C12_analyser_always_sound : forall fmod fpow db e s R,
  k7_free_vec e = true -> In s (walk_node fmod fpow e) -> s_always s = true -> s_cond s = false ->
  Sem db e R -> exists R0, R = RVec R0 /\ R0 <> [].
Proof.
  intros fmod fpow db e s R Hk Hin Ha Hc HS.
  destruct (analyser_always_ne fmod fpow e Hk) as [_ H]. exact (always_ne_sound db e (H s Hin Ha Hc) R HS).
Qed.
Print Assumptions C12_analyser_always_sound.

Theorem C12_unless_on_analyser : forall fmod fpow db rb vm l r Cl Cr R rs,
  on_empty vm = true -> k7_free_vec r = true ->
  In rs (walk_node fmod fpow r) -> s_always rs = true -> s_cond rs = false ->
  Sem db r (RVec Cr) ->
  local db (EBin OUnless rb (Some vm) l r) [RVec Cl; RVec Cr] (RVec R) = Some true -> R = [].
Proof.
  intros fmod fpow db rb vm l r Cl Cr R rs Hon Hk Hin Ha Hc HSr Hloc.
  destruct (analyser_always_ne fmod fpow r Hk) as [_ H].
  exact (C12_unless_on_partial db rb vm l r Cl Cr R Hon (H rs Hin Ha Hc) HSr Hloc).
Qed.
Print Assumptions C12_unless_on_analyser.

Theorem C12_or_on_analyser : forall fmod fpow db rb vm l r Cl Cr R ls,
  on_empty vm = true -> k7_free_vec l = true ->
  In ls (walk_node fmod fpow l) -> s_always ls = true -> s_cond ls = false ->
  Sem db l (RVec Cl) ->
  local db (EBin OOr rb (Some vm) l r) [RVec Cl; RVec Cr] (RVec R) = Some true ->
  local db (EBin OOr rb (Some vm) l r) [RVec Cl; RVec []] (RVec R) = Some true.
Proof.
  intros fmod fpow db rb vm l r Cl Cr R ls Hon Hk Hin Ha Hc HSl Hloc.
  destruct (analyser_always_ne fmod fpow l Hk) as [_ H].
  exact (C12_or_on_partial db rb vm l r Cl Cr R Hon (H ls Hin Ha Hc) HSl Hloc).
Qed.
Print Assumptions C12_or_on_analyser.

(** ** Refutations of the unguarded statement (results = the vendored engine's on a db_total database) *)

Definition U5 : list string := ["__name__"; "a"; "b"; "c"; "job"; "d"].
Definition nanf (_ _ : float) : float := nan.
Notation walk0 := (walk_node nanf nanf).

(** "every result branch is reported dead, yet a non-empty result is admitted (and returned by the engine)" *)
Definition refutes_all_dead (e : expr) (db : list labelset) (rs : list result) : bool :=
  db_total_b U5 db && certified db e rs
  && forallb s_dead (walk0 e) && negb (match walk0 e with [] => true | _ => false end)
  && match rs with RVec (_ :: _) :: _ => true | _ => false end.

Definition k1_e : expr := (EBin OGtr true None (ECall "vector" [VScalar] [(ENum (1)%float)]) (ENum (2)%float)).
Definition k1_db : list labelset := [[("__name__", "foo"); ("a", "2"); ("b", "2"); ("c", "1"); ("d", "2"); ("job", "1")]; [("__name__", "bar"); ("a", "2"); ("b", "2"); ("c", "2"); ("d", "1"); ("job", "2")]; [("__name__", "baz"); ("a", "1"); ("b", "1"); ("c", "2"); ("d", "2"); ("job", "2")]].
Definition k1_rs : list result := [(RVec [[]]); (RVec [[]]); RScalar; RScalar].

Definition k2_e : expr := (EBin OOr false (Some {| vm_card := ManyToMany; vm_on := false; vm_labels := []; vm_include := [] |}) (ECall "vector" [VScalar] [(ENum (1)%float)]) (ESel [{| m_type := MEq; m_name := "__name__"; m_value := "foo" |}])).
Definition k2_db : list labelset := [[("__name__", "foo"); ("a", "1"); ("b", "1"); ("c", "1"); ("d", "2"); ("job", "1")]; [("__name__", "bar"); ("a", "1"); ("b", "1"); ("c", "2"); ("d", "2"); ("job", "2")]; [("__name__", "baz"); ("a", "2"); ("b", "2"); ("c", "1"); ("d", "1"); ("job", "2")]; [("__name__", "baz"); ("a", "2"); ("b", "2"); ("c", "1"); ("d", "2"); ("job", "2")]].
Definition k2_rs : list result := [(RVec [[]; [("__name__", "foo"); ("a", "1"); ("b", "1"); ("c", "1"); ("d", "2"); ("job", "1")]]); (RVec [[]]); RScalar; (RVec [[("__name__", "foo"); ("a", "1"); ("b", "1"); ("c", "1"); ("d", "2"); ("job", "1")]])].

Definition k3_e : expr := (EBin OAnd false (Some {| vm_card := ManyToMany; vm_on := true; vm_labels := ["a"]; vm_include := [] |}) (EParen (EBin ODiv false (Some {| vm_card := OneToOne; vm_on := true; vm_labels := ["a"]; vm_include := [] |}) (EAgg ASum false [] None (ESel [{| m_type := MEq; m_name := "__name__"; m_value := "foo" |}])) (EAgg ASum false [] None (ESel [{| m_type := MEq; m_name := "__name__"; m_value := "bar" |}])))) (EAgg ASum false [] None (ESel [{| m_type := MEq; m_name := "__name__"; m_value := "baz" |}]))).
Definition k3_db : list labelset := [[("__name__", "foo"); ("a", "2"); ("b", "2"); ("c", "1"); ("d", "1"); ("job", "2")]; [("__name__", "bar"); ("a", "2"); ("b", "2"); ("c", "2"); ("d", "1"); ("job", "1")]; [("__name__", "baz"); ("a", "2"); ("b", "2"); ("c", "1"); ("d", "1"); ("job", "2")]].
Definition k3_rs : list result := [(RVec [[]]); (RVec [[]]); (RVec [[]]); (RVec [[]]); (RVec [[("__name__", "foo"); ("a", "2"); ("b", "2"); ("c", "1"); ("d", "1"); ("job", "2")]]); (RVec [[]]); (RVec [[("__name__", "bar"); ("a", "2"); ("b", "2"); ("c", "2"); ("d", "1"); ("job", "1")]]); (RVec [[]]); (RVec [[("__name__", "baz"); ("a", "2"); ("b", "2"); ("c", "1"); ("d", "1"); ("job", "2")]])].

Definition k6_e : expr := (EBin OEql false None (EAgg ACount false [] None (ECall "vector" [VScalar] [(ENum (5)%float)])) (ENum (1)%float)).
Definition k6_db : list labelset := [[("__name__", "foo"); ("a", "2"); ("b", "1"); ("c", "1"); ("d", "1"); ("job", "2")]; [("__name__", "bar"); ("a", "1"); ("b", "1"); ("c", "2"); ("d", "1"); ("job", "1")]; [("__name__", "baz"); ("a", "2"); ("b", "1"); ("c", "2"); ("d", "1"); ("job", "2")]].
Definition k6_rs : list result := [(RVec [[]]); (RVec [[]]); (RVec [[]]); RScalar; RScalar].

Definition k7_e : expr := (EBin OUnless false (Some {| vm_card := ManyToMany; vm_on := true; vm_labels := []; vm_include := [] |}) (ESel [{| m_type := MEq; m_name := "__name__"; m_value := "foo" |}]) (EParen (EBin OAnd false (Some {| vm_card := ManyToMany; vm_on := false; vm_labels := []; vm_include := [] |}) (ECall "vector" [VScalar] [(ENum (1)%float)]) (ESel [{| m_type := MEq; m_name := "a"; m_value := "" |}; {| m_type := MEq; m_name := "__name__"; m_value := "bar" |}])))).
Definition k7_db : list labelset := [[("__name__", "foo"); ("a", "1"); ("b", "2"); ("c", "1"); ("d", "1"); ("job", "2")]; [("__name__", "bar"); ("a", "2"); ("b", "2"); ("c", "2"); ("d", "1"); ("job", "2")]; [("__name__", "baz"); ("a", "2"); ("b", "1"); ("c", "2"); ("d", "1"); ("job", "2")]].
Definition k7_rs : list result := [(RVec [[("__name__", "foo"); ("a", "1"); ("b", "2"); ("c", "1"); ("d", "1"); ("job", "2")]]); (RVec [[("__name__", "foo"); ("a", "1"); ("b", "2"); ("c", "1"); ("d", "1"); ("job", "2")]]); (RVec []); (RVec []); (RVec [[]]); RScalar; (RVec [])].

Definition ok_join_e : expr := (EBin OAnd false (Some {| vm_card := ManyToMany; vm_on := true; vm_labels := ["a"]; vm_include := [] |}) (ESel [{| m_type := MEq; m_name := "__name__"; m_value := "foo" |}]) (EAgg ASum false [] None (ESel [{| m_type := MEq; m_name := "__name__"; m_value := "bar" |}]))).
Definition ok_join_db : list labelset := [[("__name__", "foo"); ("a", "2"); ("b", "2"); ("c", "1"); ("d", "1"); ("job", "1")]; [("__name__", "foo"); ("a", "1"); ("b", "2"); ("c", "2"); ("d", "2"); ("job", "2")]; [("__name__", "bar"); ("a", "1"); ("b", "1"); ("c", "1"); ("d", "2"); ("job", "2")]; [("__name__", "bar"); ("a", "2"); ("b", "2"); ("c", "2"); ("d", "1"); ("job", "2")]; [("__name__", "baz"); ("a", "1"); ("b", "2"); ("c", "2"); ("d", "2"); ("job", "1")]].
Definition ok_join_rs : list result := [(RVec []); (RVec [[("__name__", "foo"); ("a", "1"); ("b", "2"); ("c", "2"); ("d", "2"); ("job", "2")]; [("__name__", "foo"); ("a", "2"); ("b", "2"); ("c", "1"); ("d", "1"); ("job", "1")]]); (RVec [[]]); (RVec [[("__name__", "bar"); ("a", "1"); ("b", "1"); ("c", "1"); ("d", "2"); ("job", "2")]; [("__name__", "bar"); ("a", "2"); ("b", "2"); ("c", "2"); ("d", "1"); ("job", "2")]])].

Definition ok_unless_e : expr := (EBin OUnless false (Some {| vm_card := ManyToMany; vm_on := true; vm_labels := []; vm_include := [] |}) (ESel [{| m_type := MEq; m_name := "__name__"; m_value := "foo" |}]) (ECall "vector" [VScalar] [(ENum (1)%float)])).
Definition ok_unless_db : list labelset := [[("__name__", "foo"); ("a", "1"); ("b", "1"); ("c", "1"); ("d", "1"); ("job", "2")]; [("__name__", "bar"); ("a", "1"); ("b", "1"); ("c", "2"); ("d", "2"); ("job", "1")]; [("__name__", "bar"); ("a", "1"); ("b", "2"); ("c", "1"); ("d", "2"); ("job", "1")]; [("__name__", "bar"); ("a", "1"); ("b", "2"); ("c", "1"); ("d", "1"); ("job", "2")]; [("__name__", "baz"); ("a", "1"); ("b", "2"); ("c", "1"); ("d", "2"); ("job", "1")]; [("__name__", "baz"); ("a", "2"); ("b", "1"); ("c", "2"); ("d", "2"); ("job", "2")]; [("__name__", "baz"); ("a", "2"); ("b", "1"); ("c", "1"); ("d", "2"); ("job", "1")]].
Definition ok_unless_rs : list result := [(RVec []); (RVec [[("__name__", "foo"); ("a", "1"); ("b", "1"); ("c", "1"); ("d", "1"); ("job", "2")]]); (RVec [[]]); RScalar].

Definition ok_static_e : expr := (EBin OGtr false None (ECall "vector" [VScalar] [(ENum (1)%float)]) (ENum (2)%float)).
Definition ok_static_db : list labelset := [[("__name__", "foo"); ("a", "2"); ("b", "1"); ("c", "2"); ("d", "2"); ("job", "1")]; [("__name__", "bar"); ("a", "1"); ("b", "2"); ("c", "2"); ("d", "1"); ("job", "1")]; [("__name__", "baz"); ("a", "2"); ("b", "2"); ("c", "2"); ("d", "2"); ("job", "2")]].
Definition ok_static_rs : list result := [(RVec []); (RVec [[]]); RScalar; RScalar].

(** K1: [vector(1) > bool 2] *)
Theorem C12_bool_refuted : refutes_all_dead k1_e k1_db k1_rs = true.
Proof. vm_compute. reflexivity. Qed.
Print Assumptions C12_bool_refuted.

(** K6: [count(vector(5)) == 1] (ReturnedNumber 5 is not the value 1) *)
Theorem C12_static_value_refuted : refutes_all_dead k6_e k6_db k6_rs = true /\ const_val k6_e = None.
Proof. split; vm_compute; reflexivity. Qed.
Print Assumptions C12_static_value_refuted.

(** K7: [foo unless on() (vector(1) and bar{a=""})] (AlwaysReturns survives [and]) *)
Theorem C12_always_returns_refuted :
  refutes_all_dead k7_e k7_db k7_rs = true /\
  match k7_e with EBin _ _ _ _ r => always_ne r | _ => true end = false.
Proof. split; vm_compute; reflexivity. Qed.
Print Assumptions C12_always_returns_refuted.

(** K2: [vector(1) or foo]: the foo branch is reported dead, yet the result holds the foo series, which is not a
    series of the left hand side *)
Theorem C12_or_refuted :
  db_total_b U5 k2_db && certified k2_db k2_e k2_rs = true /\
  map s_dead (walk0 k2_e) = [false; true] /\
  (match k2_rs with
   | RVec R :: RVec Cl :: _ => negb (subset_ls R Cl)
   | _ => false end) = true.
Proof. repeat split; vm_compute; reflexivity. Qed.
Print Assumptions C12_or_refuted.

(** K3: [(sum(foo) / on(a) sum(bar)) and on(a) sum(baz)]: the [and] join is reported as never matching (the
    analyser thinks the left side has label a because of on(a)); the guard fails and the engine returns a series *)
Theorem C12_must_have_refuted :
  db_total_b U5 k3_db && certified k3_db k3_e k3_rs = true /\
  (exists s, walk0 k3_e = [s] /\ existsb s_dead (s_joins s) = true) /\
  must_have U5 (match k3_e with EBin _ _ _ l _ => l | _ => k3_e end) "a" = false /\
  match k3_rs with RVec (_ :: _) :: _ => true | _ => false end = true.
Proof.
  split; [vm_compute; reflexivity|]. split; [eexists; split; vm_compute; reflexivity|].
  split; vm_compute; reflexivity.
Qed.
Print Assumptions C12_must_have_refuted.

(** ** Non-vacuity: the guarded theorems apply to real verdicts.
    [foo and on(a) sum(bar)]: flagged on label a, [must_have foo a] holds, the engine returns nothing;
    [foo unless on() vector(1)] and [vector(1) > 2]: dead, guards hold, the engine returns nothing. *)
Example C12_nonvacuous :
  (db_total_b U5 ok_join_db && certified ok_join_db ok_join_e ok_join_rs = true /\
   (forall s0 rs, In s0 (walk0 (ESel [{| m_type := MEq; m_name := "__name__"; m_value := "foo" |}])) ->
                  In rs (walk0 (EAgg ASum false [] None (ESel [{| m_type := MEq; m_name := "__name__"; m_value := "bar" |}]))) ->
                  can_join (join_view {| vm_card := ManyToMany; vm_on := true; vm_labels := ["a"]; vm_include := [] |} s0) rs
                           {| vm_card := ManyToMany; vm_on := true; vm_labels := ["a"]; vm_include := [] |} = Some "a") /\
   must_have U5 (ESel [{| m_type := MEq; m_name := "__name__"; m_value := "foo" |}]) "a" = true /\
   hd RErr ok_join_rs = RVec []) /\
  (certified ok_unless_db ok_unless_e ok_unless_rs = true /\ forallb s_dead (walk0 ok_unless_e) = true /\
   match ok_unless_e with EBin _ _ (Some vm) _ r => on_empty vm && always_ne r | _ => false end = true /\
   match ok_unless_e with EBin _ _ _ _ r => k7_free_vec r && forallb (fun s => s_always s && negb (s_cond s)) (walk0 r) | _ => false end = true /\
   hd RErr ok_unless_rs = RVec []) /\
  (certified ok_static_db ok_static_e ok_static_rs = true /\ forallb s_dead (walk0 ok_static_e) = true /\
   match ok_static_e with EBin op _ vm l r =>
     match const_val l, const_val r with Some x, Some y => plain_vm vm && static_false op x y | _, _ => false end
   | _ => false end = true /\
   hd RErr ok_static_rs = RVec []).
Proof.
  split; [|split].
  - split; [vm_compute; reflexivity|]. split.
    + intros s0 rs H1 H2. vm_compute in H1, H2. destruct H1 as [<-|[]]. destruct H2 as [<-|[]]. vm_compute. reflexivity.
    + split; vm_compute; reflexivity.
  - repeat split; vm_compute; reflexivity.
  - repeat split; vm_compute; reflexivity.
Qed.

(** the premises of [C12_join_analyser] are satisfiable: [foo{a="1"} and sum without(a) (bar)] (default matching):
    the driving side is a selector ([k3_free]), canJoin flags the only pair on the stored label "a". *)
Definition ja_l : expr := ESel [{| m_type := MEq; m_name := "a"; m_value := "1" |}; {| m_type := MEq; m_name := "__name__"; m_value := "foo" |}].
Definition ja_r : expr := EAgg ASum true ["a"] None (ESel [{| m_type := MEq; m_name := "__name__"; m_value := "bar" |}]).
Definition ja_vm : vmatch := {| vm_card := ManyToMany; vm_on := false; vm_labels := []; vm_include := [] |}.

Example C12_join_analyser_nonvacuous :
  wf (EBin OAnd false (Some ja_vm) ja_l ja_r) = true /\ k3_free ja_l = true /\
  (forall s0 rs, In s0 (walk0 ja_l) -> In rs (walk0 ja_r) ->
     exists n, can_join (join_view ja_vm s0) rs ja_vm = Some n /\ In n U5 /\ n <> metric_name) /\
  (exists s, walk0 (EBin OAnd false (Some ja_vm) ja_l ja_r) = [s] /\ map s_dead (s_joins s) = [true]).
Proof.
  split; [reflexivity|]. split; [reflexivity|]. split.
  - intros s0 rs H1 H2. vm_compute in H1, H2. destruct H1 as [<-|[]]. destruct H2 as [<-|[]].
    exists "a". split; [vm_compute; reflexivity|]. split; [right; left; reflexivity | discriminate].
  - eexists. split; vm_compute; reflexivity.
Qed.

(** Former known finding K10 (fixed by 5b88941): [absent(bar{a=""}) <= vector(1)] was reported as a join that can never
    match because absent() was believed to carry label "a".  The analyser now gives absent() exactly the labels
    [absentLabels] returns: the join is not flagged, nothing is dead, promql/impossible has nothing to report. *)
Definition k10_e : expr :=
  EBin OLte false (Some {| vm_card := OneToOne; vm_on := false; vm_labels := []; vm_include := [] |})
       (ECall "absent" [VVector] [ESel [{| m_type := MEq; m_name := "a"; m_value := "" |}; {| m_type := MEq; m_name := "__name__"; m_value := "bar" |}]])
       (ECall "vector" [VScalar] [ENum 1%float]).

Example C12_absent_labels_fixed :
  wf k10_e = true /\
  (exists s, walk0 k10_e = [s] /\ s_dead s = false /\ forallb (fun j => negb (s_dead j)) (s_joins s) = true /\
             can_have_label s "a" = false) /\
  impossible_problems (walk0 k10_e) = [].
Proof.
  split; [reflexivity|]. split; [eexists; repeat split; vm_compute; reflexivity | vm_compute; reflexivity].
Qed.

(** * The property as ONE theorem

    For every expression [e] of the fragment, every database in which every series carries every label of [U]
    ([db_total], the property's premise), every operation node [n] of [e] at any depth ([subterm]) and every dead-code
    verdict [v] the analyser introduces at [n] ([emits]: exactly the conditions under which source.go sets IsDead there,
    hence promql/impossible reports -- see [C12_join_flags], [C12_unless_flag], [C12_or_rhs_flag], [C12_static_partial]):
    IF the verdict is outside the open known-finding classes K1 K2 K3 K6 K7 ([outside_classes]; the predicates of
    Model/PromClass.v are the very definitions the harness mirrors in Go, cross-checked on every correspondence case)
    AND inside the fragment where soundness is proved ([proved_fragment]: constant operands / [k7_free_vec] deciding
    operand / per flagged label [must_have] or a [k3_free] driving side), THEN the flagged part contributes nothing
    ([contributes_nothing]: the operation's rule admits the same result with the flagged operand replaced by the empty
    vector; the operation returns nothing where that is what the report says).
    What lies between the classes and the proved fragment (range functions and label_replace in a deciding operand,
    calls in a driving side, ...) is covered by the engine oracle only. *)
Theorem C12_impossible_sound : forall fmod fpow U db e,
  db_total U db -> wf e = true ->
  forall n v, subterm n e ->
    emits fmod fpow n v -> outside_classes fmod fpow U n v -> proved_fragment fmod fpow U n v ->
    contributes_nothing db n v.
Proof. intros fmod fpow U db e Ht Hwf n v Hs. exact (impossible_sound fmod fpow U db Ht e Hwf n v Hs). Qed.
Print Assumptions C12_impossible_sound.

(** ... and [promql/impossible] reports NOTHING for an expression unless some operation node, at any depth, marks
    something ([marks]: static folding applied to a comparison of always-returning branches, canJoin flagging some
    pair, [unless on()] with an always-returning right branch, [or] with no left branch that can be empty): dead flags
    have no other origin, whatever the nesting (induction over the whole analyser incl. Joins/Unless lists).  So every
    "dead code in query" problem goes back to a verdict of one of the four kinds of [C12_impossible_sound]. *)
Theorem C12_no_mark_no_problem : forall fmod fpow e,
  (forall n, subterm n e -> ~ marks fmod fpow n) -> impossible_problems (walk_node fmod fpow e) = [].
Proof. intros fmod fpow e H. exact (no_mark_no_impossible fmod fpow e H). Qed.
Print Assumptions C12_no_mark_no_problem.

(** every verdict of [emits] (join / unless on() / or) is such a mark *)
Theorem C12_emits_marks : forall fmod fpow n v,
  wf n = true -> v <> VStatic -> emits fmod fpow n v -> marks fmod fpow n.
Proof.
  intros fmod fpow n v Hwf Hv He. destruct n as [| | | | | | | | |op rb vm l r]; try (destruct v; exact He).
  destruct v; try congruence; cbv beta iota delta [emits] in He; destruct vm as [vm|]; try destruct He; cbn [marks]; right.
  - (* join: wf gives a pair of branches *)
    left. cbn [wf] in Hwf. apply andb_true_iff in Hwf. destruct Hwf as [Hwf Hwr]. apply andb_true_iff in Hwf. destruct Hwf as [_ Hwl].
    pose proof (walk_nonempty fmod fpow l Hwl) as Hl. pose proof (walk_nonempty fmod fpow r Hwr) as Hr.
    assert (Hm : walk_node fmod fpow (many_side vm l r) <> [] /\ walk_node fmod fpow (other_side vm l r) <> [])
      by (unfold many_side, other_side; destruct (vm_card vm); split; assumption).
    destruct Hm as [Hm Ho].
    destruct (walk_node fmod fpow (many_side vm l r)) as [|s0 ?] eqn:E1; [congruence|].
    destruct (walk_node fmod fpow (other_side vm l r)) as [|rs ?] eqn:E2; [congruence|].
    exists s0, rs. split; [left; reflexivity|]. split; [left; reflexivity|]. apply H0; left; reflexivity.
  - right. left. destruct H0 as [Hon Hex]. auto.
  - right. right. auto.
Qed.

(** the right hand side of [or] is marked dead exactly when no left hand branch can be empty *)
Theorem C12_or_rhs_flag : forall vm lhs_can_be_empty s,
  s_dead s = false -> s_dead (or_rhs_src vm lhs_can_be_empty s) = negb lhs_can_be_empty.
Proof.
  intros vm b s Hd. unfold or_rhs_src. destruct (negb b); [reflexivity|].
  unfold set_op_default. destruct (String.eqb (s_operation s) ""); exact Hd.
Qed.
Print Assumptions C12_or_rhs_flag.

(** where it can be decided syntactically, the proved fragment lies outside the classes *)
Theorem C12_fragment_outside_classes : forall n,
  (in_fragment n VStatic = true -> k1_class n = false /\ k6_class n = false) /\
  (in_fragment n VOrRhs = true -> k2_class n = false).
Proof.
  intros n. destruct n as [| | | | | | | | |op rb vm l r]; try (split; discriminate). split.
  - cbn [in_fragment]. intros H. repeat (apply andb_true_iff in H; destruct H as [H ?]).
    apply negb_true_iff in H. subst rb. split; [reflexivity|].
    cbn [k6_class]. destruct (is_comparison op); [|reflexivity]. rewrite H1, H0. reflexivity.
  - cbn [in_fragment]. destruct vm as [vm|]; [|discriminate]. intros H.
    apply andb_true_iff in H. destruct H as [H _]. apply andb_true_iff in H. destruct H as [Ho Hon].
    destruct op; try discriminate. cbn [k2_class]. rewrite Hon. reflexivity.
Qed.

(** non-vacuity at depth: the verdict of [foo{a="1"} and sum without(a) (bar)] nested inside [abs(sum(...))] *)
Definition top_n : expr := EBin OAnd false (Some ja_vm) ja_l ja_r.
Definition top_e : expr := ECall "abs" [VVector] [EAgg ASum false [] None top_n].

Example C12_impossible_sound_nonvacuous :
  wf top_e = true /\ subterm top_n top_e /\
  emits nanf nanf top_n VJoin /\ outside_classes nanf nanf U5 top_n VJoin /\ proved_fragment nanf nanf U5 top_n VJoin.
Proof.
  split; [reflexivity|]. split.
  - apply (st_step top_n (EAgg ASum false [] None top_n) top_e); [left; reflexivity|].
    apply (st_step top_n top_n (EAgg ASum false [] None top_n)); [left; reflexivity | apply st_refl].
  - assert (Hpair : forall s0 rs, In s0 (walk0 ja_l) -> In rs (walk0 ja_r) ->
                       can_join (join_view ja_vm s0) rs ja_vm = Some "a").
    { intros s0 rs H1 H2. vm_compute in H1, H2. destruct H1 as [<-|[]]. destruct H2 as [<-|[]]. vm_compute. reflexivity. }
    split; [|split].
    + split; [discriminate|]. intros s0 rs H1 H2. rewrite (Hpair s0 rs H1 H2). discriminate.
    + intros s0 rs lab H1 H2 Hj. rewrite (Hpair s0 rs H1 H2) in Hj. inversion Hj; subst. vm_compute. reflexivity.
    + split; [reflexivity|]. intros s0 rs lab H1 H2 Hj. rewrite (Hpair s0 rs H1 H2) in Hj. inversion Hj; subst. vm_compute. reflexivity.
Qed.
