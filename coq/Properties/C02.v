(** C02 — linting any input terminates with a renderable verdict, never a crash: the part that is logic.

    (1) every rule the parser returns, in either mode, for EVERY node forest, is exactly one of:
        error set | alerting with non-empty alert and expr | recording with non-empty record and expr
        — the precondition every check silently relies on (Rule.Expr(), Rule.NameNode());
    (2) entries with a path error or a rule error are routed to the error check only, whose problem is
        computed without touching a nil error (parseRuleError), is Fatal and points at the error line;
        every other entry carries a complete rule;
    (3) the relaxed descent terminates on every forest (C19_relaxed_total, Properties/C19.v);
    (4) reported lines lie inside the file ([C02_lines_strict], [C02_lines_relaxed]): if the coordinates yaml.v3
        reported are inside the file (executable check [docs_fit], evaluated on every correspondence case; it fails
        exactly on the open known finding C02-lone-cr) then every line pint's parser hands on — the line of the
        yaml/parse problem of every error entry, the line range of every complete rule, the line extent of every
        field, label and annotation, incl. rules found in YAML embedded in literal block scalars — satisfies
        1 <= line <= TotalLines and first <= last; the position oracle enters through [plines_inside], which is
        PROVED of the executable model of NewPositionRange used by the correspondence runs ([C02_lines_oracle]),
        together with the absence of index panics in that loop ([C02_positions_total]).
    The runtime remainder (panics/hangs inside yaml.v3, the PromQL parser, text/template, the opaque checks,
    the renderers' string handling) cannot be excluded by a model: PARTIAL, covered by executing the real
    in-process pipeline and the real binary with all four renderers on every generated/mutated/fixture file. *)
From Coq Require Import List String Ascii Arith Bool NArith ZArith Lia.
From PintV Require Import Common.Bytes Model.Yaml Model.YamlPosLines Model.Parser Model.YamlFits Model.Routing Run.C19
  Proofs.C19_relaxed Proofs.C02_wellformed Proofs.C02_lines Proofs.C02_poslines Model.Render Proofs.C02_render.
Import ListNotations.
Open Scope string_scope.
Open Scope list_scope.

Theorem C02_strict_rules_wellformed :
  forall plines metric_ok lname_ok lvalue_ok dur_ok int_ok null_ok thanos lines ds yerr g r,
    In g (f_groups (parse_strict plines metric_ok lname_ok lvalue_ok dur_ok int_ok null_ok thanos lines ds yerr)) ->
    In r (g_rules g) -> wellformed r.
Proof. intros. eapply strict_rules_wellformed; eassumption. Qed.
Print Assumptions C02_strict_rules_wellformed.

Theorem C02_relaxed_rules_wellformed :
  forall plines metric_ok lname_ok lvalue_ok lines ds yerr f g r,
    parse_relaxed plines metric_ok lname_ok lvalue_ok lines ds yerr = Some f ->
    In g (f_groups f) -> In r (g_rules g) -> wellformed r.
Proof. intros. eapply relaxed_rules_wellformed; eassumption. Qed.
Print Assumptions C02_relaxed_rules_wellformed.

(** Routing, for the file either parser mode returns. *)
Theorem C02_routing_total_strict :
  forall plines metric_ok lname_ok lvalue_ok dur_ok int_ok null_ok thanos lines ds yerr base e,
    In e (read_rules (parse_strict plines metric_ok lname_ok lvalue_ok dur_ok int_ok null_ok thanos lines ds yerr)) ->
    (has_error e = true /\ checks_for_entry base e = [yaml_parse_reporter] /\
     exists p, parse_rule_error e = Ok p /\ p_fatal p = true /\ p_first p = p_last p) \/
    (has_error e = false /\ checks_for_entry base e = base e /\
     match r_body (e_rule e) with
     | Alerting a x _ _ _ _ => y_value a <> "" /\ y_value x <> ""
     | Recording n x _ => y_value n <> "" /\ y_value x <> ""
     | NoBody => False
     end).
Proof. intros. eapply routing_total; [apply strict_rules_wellformed|eassumption]. Qed.
Print Assumptions C02_routing_total_strict.

Theorem C02_routing_total_relaxed :
  forall plines metric_ok lname_ok lvalue_ok lines ds yerr f base e,
    parse_relaxed plines metric_ok lname_ok lvalue_ok lines ds yerr = Some f ->
    In e (read_rules f) ->
    (has_error e = true /\ checks_for_entry base e = [yaml_parse_reporter] /\
     exists p, parse_rule_error e = Ok p /\ p_fatal p = true /\ p_first p = p_last p) \/
    (has_error e = false /\ checks_for_entry base e = base e /\
     match r_body (e_rule e) with
     | Alerting a x _ _ _ _ => y_value a <> "" /\ y_value x <> ""
     | Recording n x _ => y_value n <> "" /\ y_value x <> ""
     | NoBody => False
     end).
Proof. intros. eapply routing_total; [eapply relaxed_rules_wellformed; eassumption|eassumption]. Qed.
Print Assumptions C02_routing_total_relaxed.


(** ---- (4) reported lines lie inside the file ---- *)

(** What the theorems need of diags.NewPositionRange(lines, node, minColumn).Lines(): it starts at the node's line and
    ends at the node's line or at a line of [lines] ([elen]: a final empty string produced by splitting a text that
    ends with a line break is not a line). *)
Definition plines_inside (plines : list string -> node -> nat -> nat * nat) : Prop :=
  forall lines n mc, 1 <= n_line n -> 1 <= n_col n -> 1 <= mc ->
    n_line n <= fst (plines lines n mc) /\ fst (plines lines n mc) <= snd (plines lines n mc) /\
    snd (plines lines n mc) <= Nat.max (n_line n) (elen lines).

(** The statement about one entry: the yaml/parse problem of an error entry points inside the file; an entry without
    error carries a rule whose line range and every field extent are inside the file ([body_ok], Proofs/C02_lines.v);
    so are the group labels it inherits. *)
Definition entry_inside (T : nat) (e : entry) : Prop :=
  (forall p, parse_rule_error e = Ok p -> (1 <= p_first p /\ p_first p <= T) /\ (1 <= p_last p /\ p_last p <= T)) /\
  (has_error e = false -> body_ok T (e_rule e)) /\
  (forall m, e_glabels e = Some m -> ymap_ok T m).

Theorem C02_lines_strict :
  forall plines metric_ok lname_ok lvalue_ok dur_ok int_ok null_ok thanos all_lines ds yerr e,
    plines_inside plines ->
    docs_fit (List.length all_lines) ds = true ->
    (forall pe, yerr = Some pe -> 1 <= pe_line pe /\ pe_line pe <= List.length all_lines) ->
    In e (read_rules (parse_strict plines metric_ok lname_ok lvalue_ok dur_ok int_ok null_ok thanos all_lines ds yerr)) ->
    entry_inside (List.length all_lines) e.
Proof.
  intros until e. intros Hp Hd Hy Hin.
  eapply entries_report_inside; [|apply strict_rules_wellformed|exact Hin].
  apply strict_lines_inside; [exact Hp|apply le_n|exact Hy|apply docs_fit_sound; exact Hd].
Qed.
Print Assumptions C02_lines_strict.

Theorem C02_lines_relaxed :
  forall plines metric_ok lname_ok lvalue_ok all_lines ds yerr f e,
    plines_inside plines ->
    docs_fit (List.length all_lines) ds = true ->
    (forall pe, yerr = Some pe -> 1 <= pe_line pe /\ pe_line pe <= List.length all_lines) ->
    parse_relaxed plines metric_ok lname_ok lvalue_ok all_lines ds yerr = Some f ->
    In e (read_rules f) ->
    entry_inside (List.length all_lines) e.
Proof.
  intros until e. intros Hp Hd Hy Hf Hin.
  eapply entries_report_inside; [|eapply relaxed_rules_wellformed; exact Hf|exact Hin].
  eapply (relaxed_lines_inside plines metric_ok lname_ok lvalue_ok lvalue_ok (fun _ => true) (fun _ => true));
    [exact Hp|apply le_n|exact Hy|apply docs_fit_sound; exact Hd|exact Hf].
Qed.
Print Assumptions C02_lines_relaxed.

(** The executable model of NewPositionRange's line extent (Model/YamlPosLines.v, the oracle of every correspondence
    run) satisfies [plines_inside] ... *)
Theorem C02_lines_oracle : plines_inside plines_run.
Proof. exact plines_run_ok. Qed.
Print Assumptions C02_lines_oracle.

(** ... and its loop never indexes the lines or a line out of range ([None] = the Go code would panic) for a node
    whose line and column count from 1 and a minimum column >= 1 (every call site passes 1), whatever its style
    (block scalar, double-quoted or not) and anchor. *)
Theorem C02_positions_total :
  forall lines n mc, 1 <= n_line n -> 1 <= n_col n -> 1 <= mc ->
    forall block anchor_len dq, pos_lines lines (n_value n) (n_line n) (n_col n) mc block anchor_len dq <> None.
Proof. exact pos_lines_total. Qed.
Print Assumptions C02_positions_total.


(** ---- (5) renderer index arithmetic on line ranges (Model/Render.v; tied by correspondence of LineRange.Expand) ---- *)

(** For a range inside the file the JSON `lines` expansion returns exactly First..Last (no makeslice panic) and the
    console prints every one of those lines (the guard added by f44c1ab drops nothing). *)
Theorem C02_render_total :
  forall nlines first last : Z,
    (1 <= first)%Z -> (first <= last)%Z -> (last <= nlines)%Z ->
    (exists l, expand first last = Ok l /\ Z.of_nat (List.length l) = (last - first + 1)%Z /\
               forall x, In x l <-> (first <= x <= last)%Z) /\
    console_plain nlines first last = zrange first (Z.to_nat (last - first + 1)).
Proof.
  intros nlines first last H1 H2 H3. split; [apply expand_ok; lia|apply console_plain_all; assumption].
Qed.
Print Assumptions C02_render_total.

(** Since fix 5f804fb (my candidate patch) the expansion is total: no range, inverted or not, can make the JSON
    reporter panic; an inverted range is rendered as its first line.  (Before the fix the model had a [Crash] outcome
    for Last < First - 1 and this theorem was [C02_render_crash_iff].) *)
Theorem C02_render_expand_total :
  forall first last : Z, exists l, expand first last = Ok l /\ ((last < first)%Z -> l = [first]).
Proof. exact expand_total. Qed.
Print Assumptions C02_render_expand_total.

(** ... while the console loop indexes inside the file for ANY range. *)
Theorem C02_console_in_bounds :
  forall nlines first last x : Z, In x (console_plain nlines first last) -> (1 <= x <= nlines)%Z.
Proof. exact console_plain_in_bounds. Qed.
Print Assumptions C02_console_in_bounds.

(** Put together for the always-enabled error check, strict mode: the yaml/parse problem of every error entry renders. *)
Theorem C02_error_report_renders_strict :
  forall plines metric_ok lname_ok lvalue_ok dur_ok int_ok null_ok thanos all_lines ds yerr e p,
    plines_inside plines ->
    docs_fit (List.length all_lines) ds = true ->
    (forall pe, yerr = Some pe -> 1 <= pe_line pe /\ pe_line pe <= List.length all_lines) ->
    In e (read_rules (parse_strict plines metric_ok lname_ok lvalue_ok dur_ok int_ok null_ok thanos all_lines ds yerr)) ->
    parse_rule_error e = Ok p ->
    expand (Z.of_nat (p_first p)) (Z.of_nat (p_last p)) = Ok [Z.of_nat (p_first p)] /\
    (1 <= Z.of_nat (p_first p) <= Z.of_nat (List.length all_lines))%Z /\
    console_plain (Z.of_nat (List.length all_lines)) (Z.of_nat (p_first p)) (Z.of_nat (p_last p)) = [Z.of_nat (p_first p)].
Proof.
  intros until p. intros Hp Hd Hy Hin E.
  destruct (C02_lines_strict _ _ _ _ _ _ _ _ _ _ _ _ Hp Hd Hy Hin) as (A & _). destruct (A p E) as [[A1 A2] _].
  assert (Heq : p_first p = p_last p).
  { unfold parse_rule_error in E. destruct (e_perr e); [inversion E; reflexivity|]. destruct (r_error (e_rule e)); [inversion E; reflexivity|discriminate]. }
  rewrite <- Heq.
  split; [apply expand_singleton|]. split; [lia|]. apply console_plain_singleton. lia.
Qed.
Print Assumptions C02_error_report_renders_strict.


(** ---- (6) InjectDiagnostics: which source lines are printed (Model/Render.v [inject_lines]; tied on every run by
    correspondence with the real diags.InjectDiagnostics on the diagnostics of the file's own problems) ---- *)

(** `slices.Max(lineCoverage(diags))` is the only panic of the function: it happens iff no diagnostic has a position.
    Positions built by NewPositionRange are never empty (fix 75918ac; C06_positions_nonempty_inside), so a problem
    with at least one diagnostic renders. *)
Theorem C02_inject_no_panic_iff :
  forall nlines ds, (exists l, inject_lines nlines ds = Ok l) <-> List.concat ds <> [].
Proof. exact inject_lines_ok_iff. Qed.
Print Assumptions C02_inject_no_panic_iff.

Theorem C02_inject_renders :
  forall nlines ds d, In d ds -> d <> [] -> exists l, inject_lines nlines ds = Ok l.
Proof.
  intros nlines ds d Hin Hd. apply inject_lines_ok_iff. intros E.
  destruct d as [|x r]; [contradiction|].
  assert (X : In x (List.concat ds)) by (apply in_concat; exists (x :: r); split; [exact Hin|left; reflexivity]).
  rewrite E in X. destruct X.
Qed.
Print Assumptions C02_inject_renders.

(** Every printed line number is a line of the file, whatever the positions are; and when the positions are inside the
    file, a source line is printed IFF some diagnostic has a position on it (nothing is lost, nothing is invented). *)
Theorem C02_inject_lines_in_file :
  forall nlines ds l x, inject_lines nlines ds = Ok l -> In x l -> (1 <= x <= nlines)%Z.
Proof. exact inject_lines_in_file. Qed.
Print Assumptions C02_inject_lines_in_file.

Theorem C02_inject_lines_complete :
  forall nlines ds l,
    (forall x, In x (List.concat ds) -> (1 <= x <= nlines)%Z) ->
    inject_lines nlines ds = Ok l ->
    forall x, In x l <-> In x (List.concat ds).
Proof. exact inject_lines_complete. Qed.
Print Assumptions C02_inject_lines_complete.

(** Non-vacuity / regression of the design-session witness: the strict file with rules `- {}`, `- ~`
    (corpus/C02/empty_rules.yaml) yields two error rules (not the zero Rule that made pint dereference nil),
    both routed to the error check. *)
Definition pl0 (_ : list string) (n : node) (_ : nat) : nat * nat := (n_line n, n_line n).
Definition yes (_ : string) : bool := true.
Definition ex_empty_rules : node :=
  Dc 1 1 4 [Mp "!!map" 1 1 4 [Sc "!!str" "groups" 1 1 23; Sq "!!seq" 2 1 4 [Mp "!!map" 2 3 4
    [Sc "!!str" "name" 2 3 23; Sc "!!str" "g" 2 9 23; Sc "!!str" "rules" 3 3 23;
     Sq "!!seq" 4 3 4 [Mp "!!map" 4 5 4 []; Sc "!!null" "~" 5 5 0]]]]].

Example C02_nonvacuous :
  let f := parse_strict pl0 yes yes yes yes (fun _ => true) (fun _ => true) false [] [(ex_empty_rules, 0)] None in
  map (fun e => (has_error e, checks_for_entry (fun _ => ["promql/syntax"]) e,
                 match parse_rule_error e with Ok p => Some (p_first p) | Crash _ => None end)) (read_rules f)
  = [(true, ["yaml/parse"], Some 4); (true, ["yaml/parse"], Some 5)].
Proof. vm_compute. reflexivity. Qed.

(** Non-vacuity of (4): the hypothesis holds of that forest in a 5-line file and fails in a 4-line one (the rule
    `- ~` sits on line 5): [docs_fit] is a real check. *)
Example C02_lines_nonvacuous :
  docs_fit 5 [(ex_empty_rules, 5)] = true /\ docs_fit 4 [(ex_empty_rules, 4)] = false.
Proof. vm_compute. split; reflexivity. Qed.
