(** C02 — linting any input terminates with a renderable verdict, never a crash: the part that is logic.

    (1) every rule the parser returns, in either mode, for EVERY node forest, is exactly one of:
        error set | alerting with non-empty alert and expr | recording with non-empty record and expr
        — the precondition every check silently relies on (Rule.Expr(), Rule.NameNode());
    (2) entries with a path error or a rule error are routed to the error check only, whose problem is
        computed without touching a nil error (parseRuleError), is Fatal and points at the error line;
        every other entry carries a complete rule;
    (3) the relaxed descent terminates on every forest (C19_relaxed_total, Properties/C19.v);
    (4) reported lines lie inside the file: Properties below ([C02_lines_*]).
    The runtime remainder (panics/hangs inside yaml.v3, the PromQL parser, text/template, the opaque checks,
    the renderers' string handling) cannot be excluded by a model: PARTIAL, covered by executing the real
    in-process pipeline and the real binary with all four renderers on every generated/mutated/fixture file. *)
From Coq Require Import List String Ascii Arith Bool NArith.
From PintV Require Import Common.Bytes Model.Yaml Model.Parser Model.Routing Proofs.C19_relaxed Proofs.C02_wellformed.
Import ListNotations.
Open Scope string_scope.
Open Scope list_scope.

Theorem C02_strict_rules_wellformed :
  forall plines metric_ok lname_ok lvalue_ok dur_ok int_ok thanos lines ds yerr g r,
    In g (f_groups (parse_strict plines metric_ok lname_ok lvalue_ok dur_ok int_ok thanos lines ds yerr)) ->
    In r (g_rules g) -> wellformed r.
Proof. intros. eapply strict_rules_wellformed; eassumption. Qed.
Print Assumptions C02_strict_rules_wellformed.

Theorem C02_relaxed_rules_wellformed :
  forall plines metric_ok lname_ok lvalue_ok lines ds yerr f g r,
    parse_relaxed plines metric_ok lname_ok lvalue_ok lines ds yerr = Some f ->
    In g (f_groups f) -> In r (g_rules g) -> wellformed r.
Proof. intros. eapply relaxed_rules_wellformed; eassumption. Qed.
Print Assumptions C02_relaxed_rules_wellformed.

(** Routing, for the file either parser mode returns. *)
Theorem C02_routing_total_strict :
  forall plines metric_ok lname_ok lvalue_ok dur_ok int_ok thanos lines ds yerr base e,
    In e (read_rules (parse_strict plines metric_ok lname_ok lvalue_ok dur_ok int_ok thanos lines ds yerr)) ->
    (has_error e = true /\ checks_for_entry base e = [yaml_parse_reporter] /\
     exists p, parse_rule_error e = Ok p /\ p_fatal p = true /\ p_first p = p_last p) \/
    (has_error e = false /\ checks_for_entry base e = base e /\
     match r_body (e_rule e) with
     | Alerting a x _ _ _ _ => y_value a <> "" /\ y_value x <> ""
     | Recording n x _ => y_value n <> "" /\ y_value x <> ""
     | NoBody => False
     end).
Proof. intros. eapply routing_total; [apply strict_rules_wellformed|eassumption]. Qed.
Print Assumptions C02_routing_total_strict.

Theorem C02_routing_total_relaxed :
  forall plines metric_ok lname_ok lvalue_ok lines ds yerr f base e,
    parse_relaxed plines metric_ok lname_ok lvalue_ok lines ds yerr = Some f ->
    In e (read_rules f) ->
    (has_error e = true /\ checks_for_entry base e = [yaml_parse_reporter] /\
     exists p, parse_rule_error e = Ok p /\ p_fatal p = true /\ p_first p = p_last p) \/
    (has_error e = false /\ checks_for_entry base e = base e /\
     match r_body (e_rule e) with
     | Alerting a x _ _ _ _ => y_value a <> "" /\ y_value x <> ""
     | Recording n x _ => y_value n <> "" /\ y_value x <> ""
     | NoBody => False
     end).
Proof. intros. eapply routing_total; [eapply relaxed_rules_wellformed; eassumption|eassumption]. Qed.
Print Assumptions C02_routing_total_relaxed.

(** Non-vacuity / regression of the design-session witness: the strict file with rules `- {}`, `- ~`
    (corpus/C02/empty_rules.yaml) yields two error rules (not the zero Rule that made pint dereference nil),
    both routed to the error check. *)
Definition pl0 (_ : list string) (n : node) (_ : nat) : nat * nat := (n_line n, n_line n).
Definition yes (_ : string) : bool := true.
Definition ex_empty_rules : node :=
  Dc 1 1 4 [Mp "!!map" 1 1 4 [Sc "!!str" "groups" 1 1 23; Sq "!!seq" 2 1 4 [Mp "!!map" 2 3 4
    [Sc "!!str" "name" 2 3 23; Sc "!!str" "g" 2 9 23; Sc "!!str" "rules" 3 3 23;
     Sq "!!seq" 4 3 4 [Mp "!!map" 4 5 4 []; Sc "!!null" "~" 5 5 0]]]]].

Example C02_nonvacuous :
  let f := parse_strict pl0 yes yes yes yes (fun _ => true) false [] [(ex_empty_rules, 0)] None in
  map (fun e => (has_error e, checks_for_entry (fun _ => ["promql/syntax"]) e,
                 match parse_rule_error e with Ok p => Some (p_first p) | Crash _ => None end)) (read_rules f)
  = [(true, ["yaml/parse"], Some 4); (true, ["yaml/parse"], Some 5)].
Proof. vm_compute. reflexivity. Qed.
