(** C01 — a file pint passes in strict mode is loadable by Prometheus.

    pint side   : Model.Parser.parse_strict + Model.Routing.strict_blocks (yaml/parse for every error entry,
                  promql/syntax, alerts/for "invalid duration", alerts/template "template syntax error": a SUBSET of
                  the Bug/Fatal problems pint reports, so "pint does not block" implies "the model does not block").
    Prometheus  : Model.PromLoader.prom_accepts (yaml.v3 struct decoding of RuleGroups with KnownFields + Validate).
    Both are functions of the same node forest and of shared oracles with no assumed behaviour.

    FULL STATEMENT (all forests, all oracles):  strict_blocks F = false -> prom_accepts F = true.
    It is FALSE of the faithful models and of the real pint/Prometheus pair: one machine-checked refutation is left, with a
    witness file that the real pint (HEAD cd8be7e) passes and the real rulefmt.Parse refuses: known finding
    C01-merge-not-alias (`<<` of a non-alias).
    Eight further classes were repaired in pint — null record/alert/expr (d65cbbf), group without a name (cc77cdd), limit
    that is no Go int (a6b0afc), scalar tagged !!null with text (b9483ac), group `labels: *anchor` (17469da), two `<<` keys in
    one mapping (e113542), explicit tag contradicting the kind (b22de24 at the group/rules/rule sites, 4a0d172 on rule values
    and on collections tagged !!null), group label key given as a yaml alias (cd8be7e): their former witnesses are machine-checked to be BLOCKED by the pint model now
    (C01_fixed_witnesses_blocked, _round3, _tag_kind, C01_fixed_witness_blocked_label_key_alias).
    The guards / hypotheses these repairs made unnecessary are gone from the main theorem: "record/alert/expr not null",
    "group has a name or rules", H_int, and — since the pint model contains the strict pre-pass b9483ac with the shared
    oracle null_ok — H_null and the guard clause "null-tagged scalars spell a null" (Proofs/C01_full.v: the loader model only
    asks its null oracle about nodes reachable from the document, on those the pre-pass established the answer), the
    "tag matches kind" clauses of the guard (kind_mismatch), and "group-level values are not aliases" (17469da).

    PROVED (C01_sound_guarded, the main theorem), for every stream of documents and every oracle instance satisfying
      H_tmpl   pint's template check (ParseTest + Expand) is at least as strict as Prometheus' (ParseTest),
      H_str    a non-null scalar decodes into a Go string     (excludes explicit tags that do not resolve, bad !!binary),
      H_empty  the empty string is not a label name, is a label value and is a valid template,
    and every single document satisfying [guards_doc] — the documented fragment:
      - one root; below it mappings, sequences and scalars as yaml.v3 builds them (collections without a value, scalars
        without content, mapping content in key/value pairs), no node tagged !!merge outside the one merge key below, no
        null-tagged mapping keys.  TAGS ARE OTHERWISE FREE: that a node's tag fits its kind where it matters is no longer a
        premise, pint enforces it itself (kind_mismatch at the nine sites of b22de24 / 4a0d172) and the proofs take the kinds
        from those checks;
      - a rule may carry ONE MERGE KEY `<<: *anchor` ([merge_rule_guard]): the anchor is a plain alias-free mapping with distinct,
        non-empty keys other than "<<"; pint splices the pairs the rule does not set itself, Prometheus merges after the explicit
        keys — the same fields as a permutation ([rule_sound_merge]).  Merge keys elsewhere, several merge keys, and `<<` of a
        non-alias (known finding C01-merge-not-alias) stay outside;
      - yaml ALIASES are inside the fragment where they are the value of a rule key (`expr: *e`, `for: *d`, `labels: *l`,
        `annotations: *a`) or a value inside a rule's labels / annotations mapping (`severity: *s`), pointing at plain nodes
        ([rule_guard], [alias_to]: an alias node as yaml.v3 returns it — no content, the ShortTag of its target, a non-empty
        anchor name), and as the value of a group key — which matters for `labels: *anchor`, read through the anchor by both
        sides since 17469da; for name / interval / query_offset / limit pint insists on a scalar node and blocks.  Aliases
        elsewhere (mapping keys, rule / group items, the `rules` / `groups` values) stay outside.
      [plain_guards_doc]: the alias-free fragment of the earlier rounds is an instance.
    C01_sound_partial (the name of the earlier rounds) is kept as a corollary: the same statement with the now superfluous
    premise H_null.
    The same oracle [int_ok] (yaml.Node.Decode into a Go int) is used by pint's limit check and by the loader.
    Outside the fragment (aliases, merge keys) the property is searched by the implementation-level oracle only.

    GLUE (C01_mask_id): on a file without pint control comments the masking reader (Model/Reader.v) masks nothing and hands
    yaml.v3 the file's bytes with CR LF written as LF; that yaml.v3 then returns the forest rulefmt.Parse starts from is
    re-checked on every case (same syntax errors, same forest). *)
From Coq Require Import List String Ascii Arith Bool NArith.
From PintV Require Import Common.Bytes Model.Yaml Model.Parser Model.Routing Model.PromLoader Model.Reader Model.Comments
     Proofs.C19_relaxed Proofs.C01_prom Proofs.C01_rule Proofs.C01_group Proofs.C01_merge Proofs.C01_full Proofs.C01_mask Proofs.C01_witness Proofs.C01_tables Gen.C01 Run.C19 Run.C01.
Import ListNotations.
Open Scope string_scope.
Open Scope list_scope.

Theorem C01_sound_guarded :
  forall (plines : list string -> node -> nat -> nat * nat)
         (metric_ok lname_ok lvalue_ok dur_ok expr_ok tmpl_pint tmpl_prom dur_zero : string -> bool)
         (str_ok int_ok null_ok : node -> bool),
    (forall n, n_kind n = KScalar -> n_tag n <> nullTag -> str_ok n = true) ->
    (forall s, tmpl_pint s = true -> tmpl_prom s = true) ->
    lname_ok "" = false -> lvalue_ok "" = true -> tmpl_prom "" = true ->
    forall (lines : list string) (ds : list (node * nat)) (yerr : option perror),
      (forall d nl, ds = [(d, nl)] -> guards_doc d) ->
      strict_blocks expr_ok dur_ok tmpl_pint
        (parse_strict plines metric_ok lname_ok lvalue_ok dur_ok int_ok null_ok false lines ds yerr) = false ->
      prom_accepts str_ok int_ok null_ok expr_ok dur_ok dur_zero metric_ok lname_ok lvalue_ok tmpl_prom (map fst ds) = true.
Proof. intros. eapply stream_sound_full; eauto. Qed.
Print Assumptions C01_sound_guarded.

(** The statement of the earlier rounds, now a corollary (its premise H_null is not used any more). *)
Theorem C01_sound_partial :
  forall (plines : list string -> node -> nat -> nat * nat)
         (metric_ok lname_ok lvalue_ok dur_ok expr_ok tmpl_pint tmpl_prom dur_zero : string -> bool)
         (str_ok int_ok null_ok : node -> bool),
    (forall n, n_kind n = KScalar -> n_tag n <> nullTag -> str_ok n = true) ->
    (forall n, n_kind n = KScalar -> n_tag n = nullTag -> null_text (n_value n) -> null_ok n = true) ->
    (forall s, tmpl_pint s = true -> tmpl_prom s = true) ->
    lname_ok "" = false -> lvalue_ok "" = true -> tmpl_prom "" = true ->
    forall (lines : list string) (ds : list (node * nat)) (yerr : option perror),
      (forall d nl, ds = [(d, nl)] -> guards_doc d) ->
      strict_blocks expr_ok dur_ok tmpl_pint
        (parse_strict plines metric_ok lname_ok lvalue_ok dur_ok int_ok null_ok false lines ds yerr) = false ->
      prom_accepts str_ok int_ok null_ok expr_ok dur_ok dur_zero metric_ok lname_ok lvalue_ok tmpl_prom (map fst ds) = true.
Proof. intros. eapply C01_sound_guarded; eauto. Qed.
Print Assumptions C01_sound_partial.

(** The rule-level core for a rule with one merge key `<<: *anchor`.  Inside one rule there is no pre-pass: the null oracle is
    asked to resolve the null-tagged scalars of THIS rule ([nulls_resolve]: every scalar tagged !!null reachable from the
    rule node resolves to null — what the strict pre-pass establishes for a whole document). *)
Theorem C01_rule_sound_merge :
  forall (plines : list string -> node -> nat -> nat * nat)
         (metric_ok lname_ok lvalue_ok dur_ok expr_ok tmpl_pint tmpl_prom dur_zero : string -> bool)
         (str_ok null_ok : node -> bool),
    (forall n, n_kind n = KScalar -> n_tag n <> nullTag -> str_ok n = true) ->
    (forall s, tmpl_pint s = true -> tmpl_prom s = true) ->
    lname_ok "" = false -> lvalue_ok "" = true -> tmpl_prom "" = true ->
    forall lines rn glabels pre mk mx post t,
      nulls_resolve null_ok rn ->
      merge_rule_guard rn pre mk mx post t ->
      r_error (parse_rule_strict plines metric_ok lname_ok lvalue_ok lines rn) = None ->
      rule_blocks expr_ok dur_ok tmpl_pint glabels (parse_rule_strict plines metric_ok lname_ok lvalue_ok lines rn) = false ->
      exists pr, dec_rule str_ok null_ok dur_ok rn = DOk pr /\
                 rule_valid expr_ok dur_zero metric_ok lname_ok lvalue_ok tmpl_prom pr = true.
Proof. intros. eapply rule_sound_merge_local; eauto. Qed.
Print Assumptions C01_rule_sound_merge.

(** The alias-free fragment of the earlier rounds is an instance of the guard. *)
Theorem C01_plain_fragment_inside :
  forall d root, n_kind d = KDocument -> n_content d = [root] -> plain_below root -> guards_doc d.
Proof. exact plain_guards_doc. Qed.
Print Assumptions C01_plain_fragment_inside.

(** The rule-level core, usable on its own: an accepted rule mapping (aliases allowed in value position) decodes and passes
    Rule.Validate. *)
Theorem C01_rule_sound :
  forall (plines : list string -> node -> nat -> nat * nat)
         (metric_ok lname_ok lvalue_ok dur_ok expr_ok tmpl_pint tmpl_prom dur_zero : string -> bool)
         (str_ok int_ok null_ok : node -> bool),
    (forall n, n_kind n = KScalar -> n_tag n <> nullTag -> str_ok n = true) ->
    (forall s, tmpl_pint s = true -> tmpl_prom s = true) ->
    lname_ok "" = false -> lvalue_ok "" = true -> tmpl_prom "" = true ->
    forall lines rn glabels,
      nulls_resolve null_ok rn ->
      rule_guard rn ->
      r_error (parse_rule_strict plines metric_ok lname_ok lvalue_ok lines rn) = None ->
      rule_blocks expr_ok dur_ok tmpl_pint glabels (parse_rule_strict plines metric_ok lname_ok lvalue_ok lines rn) = false ->
      exists pr, dec_rule str_ok null_ok dur_ok rn = DOk pr /\
                 rule_valid expr_ok dur_zero metric_ok lname_ok lvalue_ok tmpl_prom pr = true.
Proof. intros. eapply rule_sound_local; eauto. Qed.
Print Assumptions C01_rule_sound.

(** Glue: without pint control comments the masking reader masks nothing (output = the file's bytes, its lines, no comments,
    no diagnostics) and yaml.v3 is handed those bytes with CR LF line ends written as LF (fix 670b316) — the document
    rulefmt.Parse is given, up to the spelling of line breaks (forest equality is re-checked per case). *)
Theorem C01_mask_id :
  forall (tp : string -> option BinNums.Z) (f : string),
    (forall n buf, In buf (chunks f) -> Comments.parse tp n buf = []) ->
    r_out (reader_impl tp f) = f /\ r_lines (reader_impl tp f) = map strip_nl (chunks f) /\
    r_comments (reader_impl tp f) = [] /\ r_diags (reader_impl tp f) = [] /\
    r_yaml (reader_impl tp f) = crlf_to_lf f.
Proof. intros tp f H. destruct (mask_id tp f H) as (A & B & C & D & _). pose proof (mask_id_yaml tp f H). auto. Qed.
Print Assumptions C01_mask_id.

(** The finite key tables both sides hinge on are those of the current sources (Gen/C01.v is regenerated from strict.go,
    parser.go and the vendored rulefmt.go on every run): pint's strict rule keys = the fields of rulefmt.Rule = what
    [field_of] / [rule_fields] know; pint's group keys = the fields of rulefmt.RuleGroup + the Thanos-only key, and the model's
    [group_entry] rejects every other key; the top-level key; the Go types of the Prometheus fields are the ones the decoder
    model implements. *)
Theorem C01_key_tables :
  (map field_name all_fields = pint_rule_keys /\ pint_rule_loop_keys = pint_rule_keys /\ pint_rule_keys = rule_fields) /\
  (forall k, In k pint_rule_keys -> field_of k <> FUnknown) /\ (forall k, ~ In k pint_rule_keys -> field_of k = FUnknown) /\
  (forall k, In k pint_group_keys <-> In k (group_fields ++ ["partial_response_strategy"])) /\
  (forall plines metric_ok lname_ok lvalue_ok dur_ok int_ok thanos lines g k v,
      ~ In (node_value k) pint_group_keys ->
      exists g', group_entry plines metric_ok lname_ok lvalue_ok dur_ok int_ok thanos lines g k v = inl g') /\
  pint_top_keys = map fst prom_groups_fields /\
  map fst prom_rule_fields = rule_fields /\ map fst prom_group_fields = group_fields /\
  map snd prom_rule_fields = ["string"; "string"; "string"; "model.Duration"; "model.Duration"; "map[string]string"; "map[string]string"] /\
  map snd prom_group_fields = ["string"; "model.Duration"; "*model.Duration"; "int"; "[]Rule"; "map[string]string"] /\
  prom_groups_fields = [("groups", "[]RuleGroup")].
Proof.
  split; [split; [exact (proj1 rule_keys_table)|split; [exact (proj2 rule_keys_table)|exact rule_keys_agree]]|].
  split; [exact field_of_known|]. split; [exact field_of_unknown|]. split; [exact group_keys_agree|].
  split; [exact group_entry_unknown_key|]. split; [exact top_keys_agree|]. repeat split; reflexivity.
Qed.
Print Assumptions C01_key_tables.

(** ---- refutations of the full statement: the witnesses of corpus/C01 as serialised from yaml.v3, with the answers the
    real libraries gave for every scalar (n_ann); both verdicts are evaluated by the models. ---- *)
Definition mk (d : node) (nl : nat) : C19.case :=
  {| c_id := 0; c_thanos := false; c_lines := []; c_docs := [(d, nl)]; c_yerr := None; c_strict := None; c_relaxed := None |}.
Definition refutes (d : node) : Prop := model_blocks (mk d 0) = false /\ model_prom (mk d 0) = false.

Definition w_null_record : node :=
  Dc 1 1 388 [Mp "!!map" 1 1 388 [Sc "!!str" "groups" 1 1 439; Sq "!!seq" 2 1 388 [Mp "!!map" 2 3 388
    [Sc "!!str" "name" 2 3 439; Sc "!!str" "g" 2 9 439; Sc "!!str" "rules" 3 3 439;
     Sq "!!seq" 4 3 388 [Mp "!!map" 4 5 388 [Sc "!!str" "record" 4 5 439; Sc "!!null" "~" 4 13 6631; Sc "!!str" "expr" 5 5 439; Sc "!!str" "up" 5 11 439]]]]]].
Definition w_null_expr : node :=
  Dc 1 1 388 [Mp "!!map" 1 1 388 [Sc "!!str" "groups" 1 1 439; Sq "!!seq" 2 1 388 [Mp "!!map" 2 3 388
    [Sc "!!str" "name" 2 3 439; Sc "!!str" "g" 2 9 439; Sc "!!str" "rules" 3 3 439;
     Sq "!!seq" 4 3 388 [Mp "!!map" 4 5 388 [Sc "!!str" "alert" 4 5 439; Sc "!!str" "A" 4 12 439; Sc "!!str" "expr" 5 5 439; Sc "!!null" "null" 5 11 6647]]]]]].
Definition w_nameless_group : node :=
  Dc 1 1 388 [Mp "!!map" 1 1 388 [Sc "!!str" "groups" 1 1 439; Sq "!!seq" 2 1 388 [Mp "!!map" 2 3 388
    [Sc "!!str" "interval" 2 3 439; Sc "!!str" "1m" 2 13 447]]]].
Definition w_limit : node :=
  Dc 1 1 388 [Mp "!!map" 1 1 388 [Sc "!!str" "groups" 1 1 439; Sq "!!seq" 2 1 388 [Mp "!!map" 2 3 388
    [Sc "!!str" "name" 2 3 439; Sc "!!str" "g" 2 9 439; Sc "!!str" "limit" 3 3 439; Sc "!!int" "18446744073709551615" 3 10 439;
     Sc "!!str" "rules" 4 3 439; Sq "!!seq" 4 10 388 []]]]].
Definition w_merge_rule_a : node :=
  Mp "!!map" 4 5 388 [Sc "!!str" "alert" 5 5 439; Sc "!!str" "A" 5 12 439; Sc "!!str" "expr" 6 5 439; Sc "!!str" "up" 6 11 439; Sc "!!str" "for" 7 5 439; Sc "!!str" "5m" 7 10 447].
Definition w_merge : node :=
  Dc 1 1 388 [Mp "!!map" 1 1 388 [Sc "!!str" "groups" 1 1 439; Sq "!!seq" 2 1 388 [Mp "!!map" 2 3 388
    [Sc "!!str" "name" 2 3 439; Sc "!!str" "g" 2 9 439; Sc "!!str" "rules" 3 3 439;
     Sq "!!seq" 4 3 388 [w_merge_rule_a;
       Mp "!!map" 8 5 388 [Sc "!!str" "record" 8 5 439; Sc "!!str" "c" 8 13 439; Sc "!!str" "expr" 9 5 439; Sc "!!str" "up" 9 11 439;
                           Sc "!!merge" "<<" 10 5 423; Sq "!!seq" 10 9 388 [Node KAlias "!!map" "b" 10 10 407 [] (Some w_merge_rule_a) None]]]]]]].
Definition w_tag_kind : node :=
  Dc 1 1 388 [Mp "!!map" 1 1 388 [Sc "!!str" "groups" 1 1 439; Sq "!!seq" 2 1 388 [Mp "!!map" 2 3 388
    [Sc "!!str" "name" 2 3 439; Sc "!!str" "g" 2 9 439; Sc "!!str" "rules" 3 3 439; Sc "!!seq" "foo" 3 10 439]]]].

(** The three repaired classes: the former counterexamples are now blocked by the pint model (and still refused by the
    Prometheus model), so they no longer refute anything; a regression of d65cbbf / cc77cdd / a6b0afc flips these. *)
Definition now_blocked (d : node) : Prop := model_blocks (mk d 0) = true /\ model_prom (mk d 0) = false.
Theorem C01_fixed_witnesses_blocked :
  now_blocked w_null_record /\ now_blocked w_null_expr /\ now_blocked w_nameless_group /\ now_blocked w_limit.
Proof. vm_compute. repeat split. Qed.
Print Assumptions C01_fixed_witnesses_blocked.
Definition w_null_tag_text : node :=
  Dc 1 1 388 [Mp "!!map" 1 1 388 [Sc "!!str" "groups" 1 1 439; Sq "!!seq" 2 1 388 [Mp "!!map" 2 3 388
    [Sc "!!str" "name" 2 3 439; Sc "!!str" "g1" 2 9 439; Sc "!!str" "rules" 3 3 439;
     Sq "!!seq" 4 3 388 [Mp "!!map" 4 5 388 [Sc "!!str" "alert" 4 5 439; Sc "!!str" "HighErrors" 4 12 439; Sc "!!str" "expr" 5 5 439; Sc "!!str" "up == 0" 5 11 439;
                                              Sc "!!str" "for" 6 5 439; Sc "!!str" "5m" 6 10 447; Sc "!!str" "annotations" 7 5 439; Sc "!!null" "x" 7 18 407]]]]]].
Definition w_group_labels_alias_map : node := Mp "!!map" 6 18 65924 [Sc "!!str" "__name__" 7 7 439; Sc "!!str" "x" 7 17 439].
Definition w_group_labels_alias : node :=
  Dc 1 1 388 [Mp "!!map" 1 1 388 [Sc "!!str" "groups" 1 1 439; Sq "!!seq" 2 1 388
    [Mp "!!map" 2 3 388 [Sc "!!str" "name" 2 3 439; Sc "!!str" "g1" 2 9 439; Sc "!!str" "rules" 3 3 439;
       Sq "!!seq" 4 3 388 [Mp "!!map" 4 5 388 [Sc "!!str" "alert" 4 5 439; Sc "!!str" "A" 4 12 439; Sc "!!str" "expr" 5 5 439; Sc "!!str" "up == 0" 5 11 439;
                                                Sc "!!str" "annotations" 6 5 439; w_group_labels_alias_map]]];
     Mp "!!map" 8 3 388 [Sc "!!str" "name" 8 3 439; Sc "!!str" "g2" 8 9 439; Sc "!!str" "labels" 9 3 439;
                         Node KAlias "!!map" "l" 9 11 407 [] (Some w_group_labels_alias_map) None;
                         Sc "!!str" "rules" 10 3 439; Sq "!!seq" 10 10 388 []]]]].
Definition w_dm_a : node := Mp "!!map" 6 13 65924 [Sc "!!str" "for" 7 7 439; Sc "!!str" "5m" 7 12 447].
Definition w_dm_b : node := Mp "!!map" 8 18 65924 [Sc "!!str" "keep_firing_for" 9 7 439; Sc "!!str" "1m" 9 24 447].
Definition w_double_merge : node :=
  Dc 1 1 388 [Mp "!!map" 1 1 388 [Sc "!!str" "groups" 1 1 439; Sq "!!seq" 2 1 388 [Mp "!!map" 2 3 388
    [Sc "!!str" "name" 2 3 439; Sc "!!str" "g" 2 9 439; Sc "!!str" "rules" 3 3 439;
     Sq "!!seq" 4 3 388
       [Mp "!!map" 4 5 388 [Sc "!!str" "alert" 4 5 439; Sc "!!str" "A" 4 12 439; Sc "!!str" "expr" 5 5 439; Sc "!!str" "up" 5 11 439;
                            Sc "!!str" "labels" 6 5 439; w_dm_a; Sc "!!str" "annotations" 8 5 439; w_dm_b];
        Mp "!!map" 10 5 388 [Sc "!!merge" "<<" 10 5 423; Node KAlias "!!map" "a" 10 9 407 [] (Some w_dm_a) None;
                             Sc "!!merge" "<<" 11 5 423; Node KAlias "!!map" "b" 11 9 407 [] (Some w_dm_b) None;
                             Sc "!!str" "alert" 12 5 439; Sc "!!str" "C" 12 12 439; Sc "!!str" "expr" 13 5 439; Sc "!!str" "up" 13 11 439]]]]]].
(** What was left of the tag-kind class after b22de24 and was repaired by 4a0d172: (a) inside a rule the labels / annotations
    value (and the values inside such mappings) were only checked by tag — `labels: !!map foo`; (b) kindMismatch exempted
    every node tagged !!null, also a mapping standing where a list is expected — `rules: !!null {? r1 : r2}`. *)
Definition w_tag_kind_rule_labels : node :=
  Dc 1 1 388 [Mp "!!map" 1 1 388 [Sc "!!str" "groups" 1 1 439; Sq "!!seq" 2 1 388 [Mp "!!map" 2 3 388
    [Sc "!!str" "name" 2 3 439; Sc "!!str" "g" 2 9 439; Sc "!!str" "rules" 3 3 439;
     Sq "!!seq" 4 3 388 [Mp "!!map" 4 5 388 [Sc "!!str" "alert" 4 5 439; Sc "!!str" "A" 4 12 439; Sc "!!str" "expr" 5 5 439; Sc "!!str" "up == 0" 5 11 439;
                                              Sc "!!str" "labels" 6 5 439; Sc "!!map" "foo" 6 13 439]]]]]].
Definition w_null_tagged_mapping : node :=
  Dc 1 1 388 [Mp "!!map" 1 1 388 [Sc "!!str" "groups" 1 1 439; Sq "!!seq" 2 1 388 [Mp "!!map" 2 3 388
    [Sc "!!str" "name" 2 3 439; Sc "!!str" "g" 2 9 439; Sc "!!str" "rules" 3 3 439;
     Mp "!!null" 3 10 388 [Mp "!!map" 4 7 388 [Sc "!!str" "record" 4 8 439; Sc "!!str" "a" 4 16 439; Sc "!!str" "expr" 4 19 439; Sc "!!str" "up" 4 25 439];
                           Mp "!!map" 5 7 388 [Sc "!!str" "record" 5 8 439; Sc "!!str" "b" 5 16 439; Sc "!!str" "expr" 5 19 439; Sc "!!str" "up" 5 25 439]]]]]].
Theorem C01_fixed_witnesses_blocked_tag_kind : now_blocked w_tag_kind_rule_labels /\ now_blocked w_null_tagged_mapping.
Proof. vm_compute. repeat split. Qed.
Print Assumptions C01_fixed_witnesses_blocked_tag_kind.
(** A class found after 17469da and repaired by cd8be7e: a group label KEY that is an alias — parseGroup validated the text of
    the alias node (the anchor name "n"), Prometheus the key it resolves to (`__name__`).  corpus/C01/group_label_key_alias.yaml. *)
Definition w_label_key_alias : node :=
  Dc 1 1 388 [Mp "!!map" 1 1 388 [Sc "!!str" "groups" 1 1 439; Sq "!!seq" 2 1 388 [Mp "!!map" 2 3 388
    [Sc "!!str" "name" 2 3 439; Sc "!!str" "__name__" 2 9 65975; Sc "!!str" "labels" 3 3 439;
     Mp "!!map" 4 5 388 [Node KAlias "!!str" "n" 4 5 407 [] (Some (Sc "!!str" "__name__" 2 9 65975)) None; Sc "!!str" "foo" 4 10 439];
     Sc "!!str" "rules" 5 3 439; Sq "!!seq" 5 10 388 []]]]].
Theorem C01_fixed_witness_blocked_label_key_alias : now_blocked w_label_key_alias.
Proof. vm_compute. repeat split. Qed.
Print Assumptions C01_fixed_witness_blocked_label_key_alias.
Theorem C01_sound_refuted_merge_not_alias : refutes w_merge.
Proof. vm_compute. repeat split. Qed.
Print Assumptions C01_sound_refuted_merge_not_alias.
(** Round-3 repairs (b9483ac, 17469da, e113542, b22de24): the witnesses of the four classes found or confirmed in this round
    are now blocked by the pint model and still refused by the Prometheus model; a regression of any of the four commits flips
    its conjunct. *)
Theorem C01_fixed_witnesses_blocked_round3 :
  now_blocked w_null_tag_text /\ now_blocked w_group_labels_alias /\ now_blocked w_double_merge /\ now_blocked w_tag_kind.
Proof. vm_compute. repeat split. Qed.
Print Assumptions C01_fixed_witnesses_blocked_round3.

(** Non-vacuity: a document inside the fragment (guards hold) that pint passes and Prometheus loads, and one with a
    PromQL syntax error that pint blocks and Prometheus refuses. *)
Definition w_ok : node :=
  Dc 1 1 388 [Mp "!!map" 1 1 388 [Sc "!!str" "groups" 1 1 439; Sq "!!seq" 2 1 388 [Mp "!!map" 2 3 388
    [Sc "!!str" "name" 2 3 439; Sc "!!str" "g" 2 9 439; Sc "!!str" "rules" 3 3 439;
     Sq "!!seq" 4 3 388 [Mp "!!map" 4 5 388 [Sc "!!str" "alert" 4 5 439; Sc "!!str" "A" 4 12 439; Sc "!!str" "expr" 5 5 439; Sc "!!str" "up" 5 11 439;
                                              Sc "!!str" "for" 6 5 439; Sc "!!str" "5m" 6 10 447]]]]]].
Definition w_bad_expr : node :=
  Dc 1 1 388 [Mp "!!map" 1 1 388 [Sc "!!str" "groups" 1 1 439; Sq "!!seq" 2 1 388 [Mp "!!map" 2 3 388
    [Sc "!!str" "name" 2 3 439; Sc "!!str" "g" 2 9 439; Sc "!!str" "rules" 3 3 439;
     Sq "!!seq" 4 3 388 [Mp "!!map" 4 5 388 [Sc "!!str" "record" 4 5 439; Sc "!!str" "a" 4 13 439; Sc "!!str" "expr" 5 5 439; Sc "!!str" "sum(" 5 11 423]]]]]].

Example C01_nonvacuous :
  (model_blocks (mk w_ok 0) = false /\ model_prom (mk w_ok 0) = true) /\
  (model_blocks (mk w_bad_expr 0) = true /\ model_prom (mk w_bad_expr 0) = false).
Proof. vm_compute. repeat split. Qed.

(** Non-vacuity of the guard itself, with aliases: corpus/C01/alias_values.yaml (`expr: *e`, `for: *d`, `labels: *l`,
    `summary: *s`) satisfies [guards_doc], pint passes it and Prometheus loads it. *)
Example C01_nonvacuous_alias :
  guards_doc w_alias /\ model_blocks (mk w_alias 0) = false /\ model_prom (mk w_alias 0) = true.
Proof. split; [exact w_alias_guard|]. vm_compute. split; reflexivity. Qed.

(** ... and with a merge key: corpus/C01/merge_alias.yaml (`- &base {...}`, `- <<: *base` overriding alert and for). *)
Example C01_nonvacuous_merge :
  guards_doc w_merge_ok /\ model_blocks (mk w_merge_ok 0) = false /\ model_prom (mk w_merge_ok 0) = true.
Proof. split; [exact w_merge_guard|]. vm_compute. split; reflexivity. Qed.
