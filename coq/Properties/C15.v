(** C15 — Failover happens on unavailability only, and outages degrade to warnings.

    Only the property theorems; each is closed from lemmas of Proofs/C15_failover.v and followed by
    [Print Assumptions].  All theorems quantify over every endpoint, every server list of any length and
    every response an upstream can send (any status code, any decoded/undecodable body, any transport
    error) — the nine fault modes of the property are instances. *)
From Coq Require Import List String ZArith Bool Arith Lia.
From PintV Require Import Common.Bytes Gen.Tables Gen.C15 Model.Failover Proofs.C15_failover Proofs.C15_sequences.
Import ListNotations.
Open Scope string_scope.
Open Scope list_scope.

(** ** 1. Answered by the first available upstream (any client state: caches, known-unsupported flags).

    If upstream [k] is the first whose attempt does not let the loop continue, the result of the whole
    call is upstream [k]'s own answer or error, unchanged and attributed to [k]; upstreams [0..k] are
    asked (each at most once, exactly as often as a single attempt asks them) and no later upstream is
    contacted at all. *)
Theorem C15_answered_by_first_available : forall ep ups k u,
  nth_error ups k = Some u ->
  (forall j uj, j < k -> nth_error ups j = Some uj -> retry ep (att ep uj) = true) ->
  retry ep (att ep u) = false ->
  fo_outcome (failover ep ups) = outcome_of k (att ep u) /\
  fo_contacts (failover ep ups) = map (contacts ep) (firstn (S k) ups) ++ repeat 0 (List.length ups - S k) /\
  (forall uj, In uj ups -> contacts ep uj <= 1).
Proof.
  intros ep ups k u Hn Hb Hs.
  destruct (failover_from_stops ep ups 0 ONoServers k u Hn Hb Hs) as [H1 [H2 _]].
  repeat split; [exact H1 | exact H2 | intros; apply contacts_le_1].
Qed.
Print Assumptions C15_answered_by_first_available.

(** The same on a fresh group, stated on what the upstreams SEND: every earlier upstream is classified
    unavailable (transport error, 5xx without a JSON error, JSON error of type server_error, config that
    is not YAML) or — status APIs only — answered 404; upstream [k] is neither; then the result is exactly
    what upstream [k]'s own query produced, upstreams [0..k] got one request each, later ones none. *)
Theorem C15_first_available_fresh : forall ep rs k resp marker,
  nth_error rs k = Some (resp, marker) ->
  (forall j rj mj, j < k -> nth_error rs j = Some (rj, mj) ->
     property_unavailable ep rj = true \/ unsupported_404 ep rj = true) ->
  property_unavailable ep resp = false -> unsupported_404 ep resp = false ->
  fo_outcome (failover ep (fresh_group rs)) = outcome_of k (run_query ep marker resp) /\
  fo_contacts (failover ep (fresh_group rs)) = repeat 1 (S k) ++ repeat 0 (List.length rs - S k).
Proof.
  intros ep rs k resp marker Hn Hb H1 H2. apply first_available_fresh; [exact Hn | |].
  - intros j rj mj Hj Hnj. unfold skips. destruct (Hb j rj mj Hj Hnj) as [H|H]; rewrite H; [reflexivity | apply orb_true_r].
  - unfold skips. rewrite H1, H2. reflexivity.
Qed.
Print Assumptions C15_first_available_fresh.

(** Conversely the loop has no other behaviour: either some first non-retryable upstream exists (case 1)
    or every upstream was asked and the last error is returned. *)
Theorem C15_failover_characterisation : forall ep ups,
  (exists k u, nth_error ups k = Some u /\ retry ep (att ep u) = false /\
     (forall j uj, j < k -> nth_error ups j = Some uj -> retry ep (att ep uj) = true) /\
     fo_outcome (failover ep ups) = outcome_of k (att ep u))
  \/ ((forall u, In u ups -> retry ep (att ep u) = true) /\
      fo_contacts (failover ep ups) = map (contacts ep) ups /\
      fo_outcome (failover ep ups) =
        match rev ups with [] => ONoServers | u :: _ => outcome_of (List.length ups - 1) (att ep u) end).
Proof.
  intros ep ups. destruct (first_stop_or_all ep ups) as [[k [u [Hn [Hs Hb]]]] | Hall].
  - left. exists k, u. repeat split; try assumption.
    destruct (failover_from_stops ep ups 0 ONoServers k u Hn Hb Hs) as [H1 _]. exact H1.
  - right. destruct (failover_from_exhausts ep ups 0 ONoServers Hall) as [H1 [H2 _]].
    repeat split; assumption.
Qed.
Print Assumptions C15_failover_characterisation.

(** ** 2. Errors caused by the query are not retried.

    On a fresh upstream the loop continues exactly when the response is unavailable (or a 404 of a status
    API); in particular it stops — for every endpoint — on bad_data 400, execution 422, any JSON error whose
    type is not server_error, any 4xx without a JSON error (404 included on the query APIs) and on a 2xx
    body that cannot be decoded (truncated). *)
Theorem C15_retry_iff_unavailable : forall ep resp marker,
  retry ep (att ep (fresh resp marker)) = property_unavailable ep resp || unsupported_404 ep resp.
Proof. exact retry_fresh. Qed.
Print Assumptions C15_retry_iff_unavailable.

Definition query_error_response (ep : endpoint) (r : response) : bool :=
  match r with
  | RTransport _ => false
  | RHttp status b =>
      negb (Z.eqb status 404 && config_like ep) &&
      match b with
      | BUndecodable => Z.eqb (status / 100)%Z 4 || Z.eqb (status / 100)%Z 2
      | BJson st et _ _ => negb (Z.eqb (status / 100)%Z 2 && String.eqb st "success") && negb (String.eqb et "server_error")
      end
  end.

Theorem C15_query_error_not_retried : forall ep rs k resp marker,
  nth_error rs k = Some (resp, marker) ->
  (forall j rj mj, j < k -> nth_error rs j = Some (rj, mj) ->
     property_unavailable ep rj = true \/ unsupported_404 ep rj = true) ->
  query_error_response ep resp = true ->
  exists e, run_query ep marker resp = AErr e /\ is_unavailable e = false /\
    fo_outcome (failover ep (fresh_group rs)) = OError k e /\
    fo_contacts (failover ep (fresh_group rs)) = repeat 1 (S k) ++ repeat 0 (List.length rs - S k).
Proof.
  intros ep rs k resp marker Hn Hb Hq.
  assert (HU : property_unavailable ep resp = false /\ unsupported_404 ep resp = false).
  { destruct resp as [t|status b]; [discriminate|]. cbn [query_error_response property_unavailable unsupported_404] in *.
    destruct (Z.eqb status 404 && config_like ep); [discriminate|]. cbn [negb andb] in *. split; [|reflexivity].
    destruct b as [|st et msg p].
    - destruct (Z.eqb_spec (status / 100) 5) as [E|]; [|reflexivity]. rewrite E in Hq. discriminate.
    - apply andb_prop in Hq. destruct Hq as [Hq1 Hq2].
      destruct (Z.eqb (status / 100) 2 && String.eqb st "success"); [discriminate|].
      apply negb_true_iff in Hq2. exact Hq2. }
  destruct HU as [HU1 HU2].
  destruct (C15_first_available_fresh ep rs k resp marker Hn Hb HU1 HU2) as [H1 H2].
  pose proof (run_query_unavailable ep marker resp) as HA. rewrite HU1 in HA.
  destruct (run_query ep marker resp) as [m|e] eqn:ER.
  - (* a query error response never yields an answer *)
    exfalso. destruct resp as [t|status b]; [discriminate|]. cbn [query_error_response run_query] in *.
    destruct (Z.eqb (status / 100) 2) eqn:E2; [|discriminate].
    destruct b as [|st et msg p]; cbn [stream_result] in ER; [discriminate|].
    destruct (String.eqb st "success"); cbn [negb andb] in *; [|discriminate].
    rewrite andb_false_r in Hq. discriminate.
  - exists e. cbn in HA. repeat split; assumption.
Qed.
Print Assumptions C15_query_error_not_retried.

(** The listed query-error modes are instances (all five endpoints; 404 only on the query APIs). *)
Theorem C15_listed_query_errors : forall ep,
  query_error_response ep (RHttp 400 (BJson "error" "bad_data" "bad query" PNone)) = true /\
  query_error_response ep (RHttp 422 (BJson "error" "execution" "exec failed" PNone)) = true /\
  query_error_response ep (RHttp 200 BUndecodable) = true /\
  (config_like ep = false -> query_error_response ep (RHttp 404 BUndecodable) = true) /\
  (config_like ep = true -> unsupported_404 ep (RHttp 404 BUndecodable) = true).
Proof. intros ep. destruct ep; cbn; repeat split; (reflexivity || discriminate). Qed.
Print Assumptions C15_listed_query_errors.

(** ** 3. Every upstream unavailable: one "unable to run checks" problem of severity Warning, Bug iff the
    server is required; never another finding; all upstreams asked exactly once. *)
Theorem C15_all_down_is_warning : forall ep rs strict,
  rs <> [] ->
  (forall r m, In (r, m) rs -> property_unavailable ep r = true) ->
  check_unable ep strict (fo_outcome (failover ep (fresh_group rs))) = [if strict then "Bug" else "Warning"] /\
  fo_contacts (failover ep (fresh_group rs)) = repeat 1 (List.length rs) /\
  assoc "Warning" severity_consts = Some 1%Z /\ assoc "Bug" severity_consts = Some 2%Z.
Proof.
  intros ep rs strict Hne Hall.
  destruct (all_down_fresh ep rs Hne Hall) as [e [H1 [HU [HS [HT HC]]]]].
  rewrite H1. cbn [check_unable]. rewrite HS, andb_false_r.
  rewrite (problem_severity_unavailable strict (check_fallback ep) e HU HT).
  repeat split; try assumption; reflexivity.
Qed.
Print Assumptions C15_all_down_is_warning.

(** ** 4. The unavailable table: for every endpoint and every response, the error a single query yields is
    classified unavailable by IsUnavailableError exactly in the listed classes. *)
Theorem C15_unavailable_table : forall ep marker r,
  attempt_unavailable (run_query ep marker r) = property_unavailable ep r.
Proof. exact run_query_unavailable. Qed.
Print Assumptions C15_unavailable_table.

(** DESIGN.md stated the table as  unavailable <-> transport \/ (5xx /\ undecodable) \/ errType = server_error.
    Two corrections are needed for the code as it is, both outside the nine listed fault modes:
    a config answer whose YAML does not parse is also treated as unavailable, and a 404 from a status API
    is "unsupported" whatever its body says. *)
Theorem C15_unavailable_table_design_refuted :
  (exists ep marker r, attempt_unavailable (run_query ep marker r) = true /\
     match r with RHttp status (BJson _ et _ _) => (status / 100 =? 5)%Z = false /\ et <> "server_error" | _ => False end) /\
  (exists ep marker r, attempt_unavailable (run_query ep marker r) = false /\
     match r with RHttp _ (BJson _ et _ _) => et = "server_error" | _ => False end).
Proof.
  split.
  - exists EConfig, "u0", (RHttp 200 (BJson "success" "" "" PBadYaml)). vm_compute. repeat split. discriminate.
  - exists EConfig, "u0", (RHttp 404 (BJson "error" "server_error" "x" PNone)). vm_compute. repeat split.
Qed.
Print Assumptions C15_unavailable_table_design_refuted.

(** ** 5. Client state: a second identical call on the same group is answered from the cache of the upstream that
    answered the first one — that upstream gets NO further request; the unavailable upstreams in front of it are
    asked again (errors are never cached), except status APIs that answered 404 (now known to be unsupported). *)
Theorem C15_second_call_served_from_cache : forall ep rs k resp marker a,
  nth_error rs k = Some (resp, marker) ->
  (forall j rj mj, j < k -> nth_error rs j = Some (rj, mj) ->
     property_unavailable ep rj = true \/ unsupported_404 ep rj = true) ->
  run_query ep marker resp = AAnswer a ->
  let r1 := failover ep (fresh_group rs) in
  let r2 := failover ep (fo_state r1) in
  fo_outcome r1 = OAnswer k a /\ fo_outcome r2 = OAnswer k a /\
  fo_contacts r2 = map (fun p => if unsupported_404 ep (fst p) then 0 else 1) (firstn k rs) ++ repeat 0 (List.length rs - k).
Proof.
  intros ep rs k resp marker a Hn Hb ER. apply (second_call_fresh ep rs k resp marker a Hn); [|exact ER].
  intros j rj mj Hj Hnj. unfold skips. destruct (Hb j rj mj Hj Hnj) as [H|H]; rewrite H; [reflexivity | apply orb_true_r].
Qed.
Print Assumptions C15_second_call_served_from_cache.

(** ** 6. Fault sequences: errors leave no trace.

    After a call that upstream [k] answered behind unavailable upstreams the client state is the fresh state except that
    [k] holds its own answer: nothing at all is remembered about the upstreams that failed (no cached error, no flag). *)
Theorem C15_errors_leave_no_trace : forall ep rs k resp marker a,
  nth_error rs k = Some (resp, marker) ->
  (forall j rj mj, j < k -> nth_error rs j = Some (rj, mj) -> property_unavailable ep rj = true) ->
  run_query ep marker resp = AAnswer a ->
  fo_state (failover ep (fresh_group rs)) =
    fresh_group (firstn k rs) ++ [mk_upstream resp marker false (Some a)] ++ fresh_group (skipn (S k) rs).
Proof. exact state_after_answer. Qed.
Print Assumptions C15_errors_leave_no_trace.

(** Hence an upstream that comes back is used again at once: if [j0 < k] now answers ([r0'] yields [a0]) and the
    upstreams in front of it are still unavailable — whatever all the others send now ([rs2]) — the second call on the
    same group is answered by [j0] with its own fresh answer (not by the cached answer of [k], not by a replayed
    error), upstreams [0..j0] get one request each and no later upstream any. *)
Theorem C15_recovered_upstream_answers : forall ep rs k resp marker a j0 r0 m0 r0' a0 rs2,
  nth_error rs k = Some (resp, marker) ->
  (forall j rj mj, j < k -> nth_error rs j = Some (rj, mj) -> property_unavailable ep rj = true) ->
  run_query ep marker resp = AAnswer a ->
  j0 < k -> nth_error rs j0 = Some (r0, m0) ->
  nth_error rs2 j0 = Some r0' -> run_query ep m0 r0' = AAnswer a0 ->
  (forall j rj, j < j0 -> nth_error rs2 j = Some rj -> property_unavailable ep rj = true) ->
  List.length rs2 = List.length rs ->
  let st := fo_state (failover ep (fresh_group rs)) in
  let r2 := failover ep (set_resps st rs2) in
  fo_outcome r2 = OAnswer j0 a0 /\
  fo_contacts r2 = repeat 1 (S j0) ++ repeat 0 (List.length rs - S j0).
Proof. exact recovered_upstream_answers. Qed.
Print Assumptions C15_recovered_upstream_answers.

(** ** 7. Range queries over several slices.

    Whatever the schedule ([pick]: which failing slice reports last), a range query cut into slices [rs] on one upstream
    has exactly the result of a ONE-slice query on a fresh upstream sending one of the slices' responses — a failing
    one whenever some slice fails.  So all theorems above apply to multi-slice queries: one failing slice makes the
    whole upstream fail over (if that slice is unavailable) or stop the loop (if it is a query error) exactly as if the
    upstream had failed entirely, and an answer is entirely the answering upstream's own. *)
Theorem C15_range_slices_collapse : forall pick marker rs,
  pick_ok pick -> rs <> [] ->
  exists r, In r rs /\ slices_attempt pick marker rs = att ERange (fresh r marker) /\
            ((exists r' e, In r' rs /\ run_query ERange marker r' = AErr e) -> exists e, run_query ERange marker r = AErr e).
Proof. exact slices_collapse. Qed.
Print Assumptions C15_range_slices_collapse.

(** Lifted to the whole group: a range query over a failover group whose upstreams answer slice by slice ([sls]), under
    ANY schedule, has the outcome of the ONE-slice retry loop over a fresh group in which every upstream sends one of its
    own slices' responses — a failing one whenever one of its slices fails.  ([outcome_loop] is the retry loop as a
    function of the per-upstream attempts; it is the outcome of [failover_from] — lemma failover_from_outcome_loop.)
    With theorems 1–3 this gives: upstreams with an unavailable slice are skipped, the first upstream whose slices all
    answer gives the whole answer, a query-error slice stops the loop. *)
Theorem C15_multislice_failover : forall pick, pick_ok pick ->
  forall sls : list (list response * string),
  (forall sl, In sl sls -> fst sl <> []) ->
  exists rs : list (response * string),
    Forall2 (fun sl p => In (fst p) (fst sl) /\ snd p = snd sl /\
                         ((exists r' e, In r' (fst sl) /\ run_query ERange (snd sl) r' = AErr e) ->
                          exists e, run_query ERange (snd sl) (fst p) = AErr e)) sls rs /\
    outcome_loop ERange 0 ONoServers (map (fun sl => slices_attempt pick (snd sl) (fst sl)) sls) =
    fo_outcome (failover ERange (fresh_group rs)).
Proof.
  intros pick Hp sls Hne. destruct (multislice_failover pick Hp sls Hne) as [rs [HF Hloop]].
  exists rs. split; [exact HF|]. exact (Hloop 0 ONoServers).
Qed.
Print Assumptions C15_multislice_failover.

(** ** 8. The group the loops run over is the configured one (finite, generated from config.newFailoverGroup): the server
    list is `uri` followed by the `failover` entries in the order they were written — any statement that sorts,
    compacts or otherwise touches the list is rejected by the translator — and `required` becomes the strict flag.
    (That the running code agrees is part of every correspondence case: the harness builds its groups through
    config.newFailoverGroup and attaches its counters by URI.) *)
Theorem C15_group_built_in_configured_order : group_built_in_configured_order = true.
Proof. vm_compute. reflexivity. Qed.
Print Assumptions C15_group_built_in_configured_order.

(** ** Non-vacuity: [refused; 500 text; healthy; healthy] on the query API is answered by upstream 2 with its
    own marker; [bad_data 400] behind a timeout stops there; three dead upstreams of a required server give
    one Bug. *)
Example C15_nonvacuous :
  let healthy := RHttp 200 (BJson "success" "" "" PGood) in
  let g1 := fresh_group [(RTransport TRefused, "u0"); (RHttp 500 BUndecodable, "u1"); (healthy, "u2"); (healthy, "u3")] in
  let g2 := fresh_group [(RTransport TTimeout, "u0"); (RHttp 400 (BJson "error" "bad_data" "x" PNone), "u1"); (healthy, "u2")] in
  let g3 := fresh_group [(RTransport TRefused, "u0"); (RHttp 503 BUndecodable, "u1"); (RHttp 500 (BJson "error" "server_error" "x" PNone), "u2")] in
  fo_outcome (failover EQuery g1) = OAnswer 2 "u2" /\ fo_contacts (failover EQuery g1) = [1; 1; 1; 0] /\
  fo_outcome (failover ERange g2) = OError 1 (EApi "bad_data" "x") /\ fo_contacts (failover ERange g2) = [1; 1; 0] /\
  check_unable EFlags true (fo_outcome (failover EFlags g3)) = ["Bug"] /\
  check_unable EFlags false (fo_outcome (failover EFlags g3)) = ["Warning"] /\
  check_unable EFlags false (fo_outcome (failover EFlags g2)) = ["Warning"] /\
  (* sequence: [500; healthy] answered by u1, then u0 recovers: the second call is answered by u0, one request *)
  (let g4 := fresh_group [(RHttp 500 BUndecodable, "u0"); (healthy, "u1")] in
   let r2 := failover EQuery (set_resps (fo_state (failover EQuery g4)) [healthy; healthy]) in
   fo_outcome (failover EQuery g4) = OAnswer 1 "u1" /\ fo_outcome r2 = OAnswer 0 "u0" /\ fo_contacts r2 = [1; 0]).
Proof. vm_compute. repeat split. Qed.
