(** C14 — Identical questions reach a Prometheus server once; concurrency stays bounded.

    Theorems about ALL reachable states of the transition system of Model/KeyLock.v (any number of
    callers, lock keys, cache keys, workers; any interleaving; any answers/errors; any eviction), by
    induction on the step relation (Proofs/C14_lts.v, C14_props.v).  What the LTS takes for granted — that
    sync.Cond, channels and the scheduler behave like its atomic actions — is the runtime remainder
    (partial), covered by execution (stress runs, -race) and not by these theorems. *)
From Coq Require Import List Arith Bool Lia.
From Coq Require Import ZArith NArith String.
From PintV Require Import Common.Bytes Model.KeyLockKeys.
From PintV Require Import Model.KeyLock Model.KeyLockCache Proofs.C14_lists Proofs.C14_lts Proofs.C14_props Proofs.C14_refine Proofs.C14_keys.
From PintV Require Import Model.KeyLockTimed Proofs.C14_timed.
From PintV Require Gen.C14.
Import ListNotations.

(** ** lock_mutex: a lock key has at most one holder; the held set is exactly the keys of the callers
    inside their critical section. (No side condition.) *)
Theorem C14_lock_mutex : forall cf s, reachable cf s ->
  (forall c c', crit (phase s c) = true -> crit (phase s c') = true -> key_of cf c = key_of cf c' -> c = c') /\
  NoDup (held s) /\
  (forall k, In k (held s) <-> exists c, crit (phase s c) = true /\ key_of cf c = k).
Proof. intros cf s [l R]. destruct (lock_inv_gen cf l s R) as [H1 [H2 H3]]. auto. Qed.
Print Assumptions C14_lock_mutex.

(** ** inflight_bound: never more requests in flight than workers (= `concurrency`). *)
Theorem C14_inflight_bound : forall cf s, reachable cf s -> List.length (inflight cf s) <= pool cf.
Proof. intros cf s _. apply inflight_bound_any. Qed.
Print Assumptions C14_inflight_bound.

(** ** no_identical_inflight: if the lock key determines the cache keys ([side_cond]) no two requests with
    the same cache key are in flight — nor anywhere in the pool — at the same time. *)
Theorem C14_no_identical_inflight : forall cf s, side_cond cf -> reachable cf s ->
  NoDup (inflight cf s) /\ NoDup (map snd (insys cf s)).
Proof.
  intros cf s SC R. pose proof (reachable_inv cf SC s R) as I.
  split; [apply inflight_nodup | apply insys_ck_nodup]; assumption.
Qed.
Print Assumptions C14_no_identical_inflight.

(** The side condition is necessary: two callers holding DIFFERENT lock keys (0 and 1) that ask the same cache
    key 7, two workers: both requests are in flight at once and the key is answered successfully twice.  (This was
    the shape of range slices before fix fb76e32, see [C14_lock_key_determines_cache_keys] below.) *)
Theorem C14_side_cond_necessary :
  exists cf l s, run cf init l = Some s /\ inflight cf s = [7; 7] /\
    exists l2 s2, run cf s l2 = Some s2 /\ served s2 = [(7, 2); (7, 1)].
Proof.
  exists (mk_config (fun c => c) (fun _ => [7]) 2),
         [ALock 0; ALock 1; AEnq 0; AEnq 1; ATake 0; ATake 1; ACheck 0; ACheck 1].
  eexists. split; [vm_compute; reflexivity|]. split; [reflexivity|].
  exists [AEnd 0 (ROk 1); AEnd 1 (ROk 2)]. eexists. split; vm_compute; reflexivity.
Qed.
Print Assumptions C14_side_cond_necessary.

(** Where the side condition comes from: the key construction of the CURRENT source, regenerated from the Go AST on
    every run ([Gen.C14.key_table] -> [key_table]: per API method the parts of the partitionLocker key and the parts
    hashed into the cache key).  The table satisfies the criterion [table_ok]; hence for ALL rows and ALL values of
    the variables (expression, metric, step, lookback, slice bounds, server URI) two requests with the same cache
    key are guarded by the same lock key, and a question's lock key does not depend on the slice - for range slices
    too (fix fb76e32).  With the lookback in the range lock key (the pre-fix table, or any re-introduction of it)
    the criterion is false and there is a concrete pair of requests with equal cache keys under different locks. *)
Local Open Scope string_scope.
Theorem C14_lock_key_determines_cache_keys :
  table_ok key_table = true /\
  (forall r1 r2 e1 e2, In r1 key_table -> In r2 key_table ->
     cache_val r1 e1 = cache_val r2 e2 -> lock_str r1 e1 = lock_str r2 e2) /\
  (forall r e sl, In r key_table -> lock_str r (with_slice e sl) = lock_str r e) /\
  table_ok key_table_prefix = false /\
  (exists r e1 e2, In r key_table_prefix /\ cache_val r e1 = cache_val r e2 /\ lock_str r e1 <> lock_str r e2).
Proof.
  assert (H : table_ok key_table = true) by (vm_compute; reflexivity).
  split; [exact H|]. split; [intros r1 r2 e1 e2; now apply keys_sound|].
  split; [intros r e sl Hr; apply lock_str_with_slice; eapply table_ok_row_ok; eauto|].
  split; [vm_compute; reflexivity|].
  exists (mk_row "range" "/" [(true, "/api/v1/query_range"); (false, "expr"); (false, "params.String()")]
            (match find_row "range" key_table with Some r => kr_cache r | None => [] end)),
         (with_slice (q_env (QRange "up" "5h" "1m")) ("1790863200", "1790870399")),
         (with_slice (q_env (QRange "up" "9h" "1m")) ("1790863200", "1790870399")).
  split; [vm_compute; tauto|]. split; [vm_compute; reflexivity|]. vm_compute. discriminate.
Qed.
Print Assumptions C14_lock_key_determines_cache_keys.
Local Close Scope string_scope.

(** Hence [no_identical_inflight] WITHOUT a side condition on keys, for every set of callers asking questions of the
    current key table (any values of the variables, any slicing into pairwise different requests, any injective
    numbering of keys): no two requests with the same cache key are in flight, nor anywhere in the pool. *)
Theorem C14_no_identical_inflight_questions : forall callers encL encC pool s,
  (forall a b, encL a = encL b -> a = b) -> (forall a b, encC a = encC b -> a = b) ->
  (forall c, In (qc_row (callers c)) key_table) ->
  (forall c, NoDup (q_requests (callers c))) ->
  reachable (qconfig callers encL encC pool) s ->
  NoDup (inflight (qconfig callers encL encC pool) s) /\
  NoDup (map snd (insys (qconfig callers encL encC pool) s)).
Proof.
  intros callers encL encC pool s HL HC Hrow Hnd R.
  assert (SC : side_cond (qconfig callers encL encC pool)).
  { apply (side_cond_from_table key_table); auto; vm_compute; reflexivity. }
  pose proof (reachable_inv _ SC s R) as I.
  split; [apply inflight_nodup | apply insys_ck_nodup]; assumption.
Qed.
Print Assumptions C14_no_identical_inflight_questions.

(** Two structural facts of the source the transition system relies on, re-read from the Go AST on every run:
    partitionLocker.lock re-checks its condition in a loop around Cond.Wait (so [ALock] is only enabled when the key
    is free), and processJob - the only place a request is run - is called by the pool workers only (so requests in
    flight are bounded by the pool: [C14_inflight_bound]); and queryCache.get / set / gc each hold the cache mutex for
    their whole body (one Lock, one deferred Unlock, nothing else), which is what makes the cache part of [ACheck],
    [AEnd] and [AGc] ATOMIC actions.  That atomicity is needed: see [C14_gc_atomicity_necessary]. *)
Theorem C14_source_structure :
  Gen.C14.lock_wait_rechecked_in_loop = true /\ Gen.C14.process_job_callers = ["queryWorker"%string] /\
  Gen.C14.cache_single_critical_section = [("gc", true); ("get", true); ("set", true)]%string.
Proof. repeat split; reflexivity. Qed.
Print Assumptions C14_source_structure.

(** ** served_once: within a cache lifetime (a run without eviction) a cache key has at most one successful
    request; the cache holds its value; every caller that got a successful answer for the key got that
    value (all callers' results are equal). *)
Theorem C14_served_once : forall cf l s, side_cond cf ->
  forallb (fun a => negb (is_gc a)) l = true -> run cf init l = Some s ->
  NoDup (map fst (served s)) /\
  (forall ck v, In (ck, v) (served s) -> lookup ck (cache s) = Some v) /\
  (forall c ck v, In (c, ck, ROk v) (delivered s) -> lookup ck (cache s) = Some v) /\
  (forall c c' ck v v', In (c, ck, ROk v) (delivered s) -> In (c', ck, ROk v') (delivered s) -> v = v').
Proof.
  intros cf l s SC G R.
  destruct (run_inv2 cf SC l init s G (inv_init cf) inv2_init R) as [I J].
  assert (ND : NoDup (map fst (served s))) by (rewrite <- (i_served _ _ I); apply (i_cache_nodup _ _ I)).
  assert (LK : forall ck v, In (ck, v) (served s) -> lookup ck (cache s) = Some v).
  { intros ck v H. rewrite (i_served _ _ I). apply lookup_NoDup; assumption. }
  repeat split; [exact ND | exact LK | |].
  - intros c ck v H. apply LK. apply (i_delivered _ J c ck v H).
  - intros c c' ck v v' H H'. apply (i_delivered _ J) in H. apply (i_delivered _ J) in H'.
    apply LK in H. apply LK in H'. congruence.
Qed.
Print Assumptions C14_served_once.

(** With eviction the same holds per lifetime: [served] (successful runs whose entry is still cached) never
    has two entries for one key, and a request only starts on a cache miss. *)
Theorem C14_one_run_per_lifetime : forall cf s, side_cond cf -> reachable cf s ->
  NoDup (map fst (served s)) /\ cache s = served s /\
  (forall w c ck, wst s w = WRunning (c, ck) -> lookup ck (cache s) = None).
Proof.
  intros cf s SC R. pose proof (reachable_inv cf SC s R) as I. repeat split.
  - rewrite <- (i_served _ _ I). apply (i_cache_nodup _ _ I).
  - apply (i_served _ _ I).
  - apply (i_running_miss _ _ I).
Qed.
Print Assumptions C14_one_run_per_lifetime.

(** ** no_lost_unlock: the held set contains only keys of callers that are still inside their call; a call
    ends only through its unlock, which removes its key; and nothing can get stuck on the way there,
    also on error paths: a running request may end with any result, every result can be replied, a caller
    with all replies can unlock. *)
Theorem C14_no_lost_unlock : forall cf s, side_cond cf -> reachable cf s ->
  (forall c, crit (phase s c) = false ->
     In (key_of cf c) (held s) -> exists c', c' <> c /\ crit (phase s c') = true /\ key_of cf c' = key_of cf c) /\
  (forall a s' c, step cf s a = Some s' -> phase s c <> PDone -> phase s' c = PDone ->
     a = AUnlock c /\ ~ In (key_of cf c) (held s')) /\
  (forall w j r, wst s w = WRunning j -> exists s', step cf s (AEnd w r) = Some s') /\
  (forall w j r, wst s w = WReply j r -> exists s', step cf s (AReply w) = Some s') /\
  (forall c, phase s c = PCrit [] [] -> exists s', step cf s (AUnlock c) = Some s' /\ phase s' c = PDone).
Proof.
  intros cf s SC R. pose proof (reachable_inv cf SC s R) as I. repeat split.
  - intros c Hc Hk. apply (i_held _ _ I) in Hk. destruct Hk as [c' [Hc' Hk]]. exists c'. repeat split; auto.
    intros ->. congruence.
  - eapply done_only_by_unlock; eauto.
  - pose proof (done_only_by_unlock cf s a s' c H H0 H1) as ->.
    cbn in H. destruct (phase s c) as [|[|] [|]|] eqn:P; try discriminate. injection H as <-. cbn.
    apply remove1_NoDup_notin. apply (i_held_nodup _ _ I).
  - intros w j r W. eapply end_enabled; eauto.
  - intros w j r W. eapply reply_enabled; eauto.
  - intros c P. destruct (unlock_enabled cf s c I P) as [s' [H1 [H2 _]]]. eauto.
Qed.
Print Assumptions C14_no_lost_unlock.

(** ** The two models agree: the sequential cache / processJob model — the one compared with the real
    queryCache.get/set/gc and processJob on every run — refines the cache actions of the transition system.
    [abs_cache] forgets expiry and last-read times; [same_cache] = all lookups agree. *)
Theorem C14_cache_model_refines_lts :
  (forall now k st,
     option_map Z.to_nat (fst (cache_get now k st)) = lookup (N.to_nat k) (abs_cache st) /\
     same_cache (abs_cache (snd (cache_get now k st))) (abs_cache st)) /\
  (forall now k v ttl st,
     same_cache (abs_cache (cache_set now k v ttl st)) ((N.to_nat k, Z.to_nat v) :: abs_cache st)) /\
  (forall ms now st, keys_unique st ->
     keys_unique (cache_gc ms now st) /\
     exists ev, same_cache (abs_cache (cache_gc ms now st)) (drop_keys ev (abs_cache st))) /\
  (forall now k v ttl st, keys_unique st ->
     keys_unique (snd (cache_get now k st)) /\ keys_unique (cache_set now k v ttl st)).
Proof.
  repeat split.
  - apply get_refines.
  - apply get_refines.
  - apply set_refines.
  - apply keys_unique_gc; assumption.
  - apply gc_refines; assumption.
  - apply keys_unique_get; assumption.
  - apply keys_unique_set; assumption.
Qed.
Print Assumptions C14_cache_model_refines_lts.

(** A worker that took job (c, k) does what [process_job] does: hit = reply the cached value without a request
    ([ACheck]); miss = request starts, only a successful end fills the cache ([AEnd]), with the same content. *)
Theorem C14_process_job_refines_lts : forall cf s w c now k a ttl v o st,
  wst s w = WTaken (c, N.to_nat k) ->
  same_cache (cache s) (abs_cache (ps_cache st)) ->
  is_disabled a (ps_disabled st) = false ->
  let '(got, err, ran, st') := process_job now k a ttl v o st in
  exists s1, step cf s (ACheck w) = Some s1 /\
    if ran then
      wst s1 w = WRunning (c, N.to_nat k) /\
      let r := match o with OkVal => ROk (Z.to_nat v) | _ => RErr end in
      exists s2, step cf s1 (AEnd w r) = Some s2 /\ wst s2 w = WReply (c, N.to_nat k) r /\
                 same_cache (cache s2) (abs_cache (ps_cache st')) /\
                 (err = ""%string <-> o = OkVal) /\ (o = OkVal -> got = v)
    else
      err = ""%string /\ wst s1 w = WReply (c, N.to_nat k) (ROk (Z.to_nat got)) /\
      same_cache (cache s1) (abs_cache (ps_cache st')).
Proof. exact process_job_refines. Qed.
Print Assumptions C14_process_job_refines_lts.

(** ** Time.  The timed system (Model/KeyLockTimed.v) replaces "eviction of an arbitrary key set" by what
    queryCache.gc() does at the current instant of an injected clock (TTL run out, or not read for maxStale); its
    cache is the sequential queryCache model that is compared with the real cache on every run.  Every state it
    reaches is a state of the untimed system, with the same cache content - so every theorem above holds of it. *)
Theorem C14_timed_refines_untimed : forall tc ts, treachable tc ts ->
  reachable (t_cf tc) (t_s ts) /\
  (forall ck, lookup ck (cache (t_s ts)) =
              option_map (fun e => Z.to_nat (ce_val e)) (centry_find (N.of_nat ck) (cs_entries (t_c ts)))) /\
  keys_unique (t_c ts) /\
  (forall a ts', tstep tc ts a = Some ts' -> (t_now ts <= t_now ts')%Z /\ run (t_cf tc) (t_s ts) (untimed tc ts a) = Some (t_s ts')).
Proof.
  intros tc ts R. pose proof (treachable_tinv tc ts R) as TI. split; [now apply treachable_reachable|].
  split; [intros ck; now apply tinv_lookup|]. split; [apply (ti_unique _ TI)|].
  intros a ts' H. split; [eapply tstep_clock; eauto|now apply tstep_untimed].
Qed.
Print Assumptions C14_timed_refines_untimed.

(** "A successful answer is reused for its cache lifetime": in every reachable state of the timed system,
    (1) a successful request stores its answer with expiry now + TTL(cache key) (none when TTL <= 0);
    (2) while an answer is cached, a worker that looks the key up replies that value WITHOUT a request, and no
        request for that key can be running (so the server is not asked again);
    (3) whatever happens next, the entry keeps its value and its expiry (a hit only refreshes its last-read instant)
        - except a gc that finds it evictable, i.e. past its expiry or not read for maxStale, which removes it;
    (4) and a gc at an instant where the TTL has not run out and the last read is less than maxStale ago keeps it. *)
Theorem C14_answer_reused_for_cache_lifetime : forall tc ts, side_cond (t_cf tc) -> treachable tc ts ->
  (forall w c ck v ts', wst (t_s ts) w = WRunning (c, ck) -> tstep tc ts (TEnd w (ROk v)) = Some ts' ->
     centry_find (N.of_nat ck) (cs_entries (t_c ts')) =
     Some (mk_centry (Z.of_nat v) (if (0 <? t_ttl tc ck)%Z then Some (t_now ts + t_ttl tc ck)%Z else None) (t_now ts))) /\
  (forall k e, centry_find k (cs_entries (t_c ts)) = Some e ->
     (forall w c, wst (t_s ts) w = WTaken (c, N.to_nat k) ->
        exists ts', tstep tc ts (TCheck w) = Some ts' /\ wst (t_s ts') w = WReply (c, N.to_nat k) (ROk (Z.to_nat (ce_val e)))) /\
     (forall w c, wst (t_s ts) w <> WRunning (c, N.to_nat k)) /\
     (forall a ts', tstep tc ts a = Some ts' ->
        (exists e', centry_find k (cs_entries (t_c ts')) = Some e' /\ ce_val e' = ce_val e /\ ce_expires e' = ce_expires e /\
                    (ce_lastget e' = ce_lastget e \/ ce_lastget e' = t_now ts)) \/
        (a = TGc /\ evictable (t_max_stale tc) (t_now ts) e = true /\ centry_find k (cs_entries (t_c ts')) = None)) /\
     ((forall x, ce_expires e = Some x -> (t_now ts <= x)%Z) -> (t_now ts - ce_lastget e < t_max_stale tc)%Z ->
      forall ts', tstep tc ts TGc = Some ts' -> centry_find k (cs_entries (t_c ts')) = Some e)).
Proof.
  intros tc ts SC R. pose proof (treachable_tinv tc ts R) as TI.
  pose proof (reachable_inv _ SC _ (treachable_reachable tc ts R)) as I.
  split; [intros w c ck v ts' W H; eapply stored_entry; eauto|].
  intros k e F. split; [intros w c W; eapply cached_entry_hit; eauto|].
  split.
  { intros w c W. pose proof (i_running_miss _ _ I w c (N.to_nat k) W) as M.
    rewrite (tinv_lookup ts _ TI), N2Nat.id, F in M. discriminate. }
  split; [intros a ts' H; eapply cached_entry_step; eauto|].
  intros H1 H2 ts' H.
  assert (Ev : evictable (t_max_stale tc) (t_now ts) e = false) by (apply evictable_false_iff; auto).
  destruct (cached_entry_step tc ts TGc ts' k e SC I TI F H) as [(e' & F' & _)|(_ & K & _)]; [|congruence].
  cbn [tstep] in H. destruct (step _ _ _); [|discriminate]. injection H as <-. cbn [t_c]. unfold cache_gc. cbn [cs_entries].
  apply find_filter_keep; auto. cbn. now rewrite Ev.
Qed.
Print Assumptions C14_answer_reused_for_cache_lifetime.

(** The invariants of the untimed system, read off the timed one (lock mutual exclusion, the in-flight bound, no
    identical requests in flight, one successful run per cached key). *)
Theorem C14_timed_invariants : forall tc ts, side_cond (t_cf tc) -> treachable tc ts ->
  NoDup (held (t_s ts)) /\ List.length (inflight (t_cf tc) (t_s ts)) <= pool (t_cf tc) /\
  NoDup (inflight (t_cf tc) (t_s ts)) /\ NoDup (map fst (served (t_s ts))) /\ cache (t_s ts) = served (t_s ts).
Proof.
  intros tc ts SC R. pose proof (treachable_reachable tc ts R) as R'.
  destruct (C14_lock_mutex _ _ R') as (_ & A & _). destruct (C14_no_identical_inflight _ _ SC R') as (B & _).
  destruct (C14_one_run_per_lifetime _ _ SC R') as (C & D & _).
  repeat split; auto. now apply C14_inflight_bound.
Qed.
Print Assumptions C14_timed_invariants.

(** Why gc must be one critical section: if gc computed its survivors from a snapshot [st0] and installed them after a
    concurrent cache.set (so that the set lands in the map that is thrown away), the answer just stored is lost - the
    next lookup of the key misses and the request goes to the server a second time within the answer's lifetime
    (sequential cache model, clock 0..1, TTL 300, maxStale 3600: nothing is expired or stale). *)
Theorem C14_gc_atomicity_necessary :
  let st0 := cache_set 0 1 11 300 cache_empty in            (* key 1 cached *)
  let st1 := cache_set 1 2 22 300 st0 in                    (* a worker stores key 2 while gc is between snapshot and swap *)
  let swapped := cache_gc 3600 1 st0 in                     (* gc installs the survivors of its SNAPSHOT *)
  fst (cache_get 1 2 st1) = Some 22%Z /\ fst (cache_get 1 2 swapped) = None /\
  fst (cache_get 1 2 (cache_gc 3600 1 st1)) = Some 22%Z.    (* the atomic gc of the model keeps it *)
Proof. vm_compute. repeat split. Qed.
Print Assumptions C14_gc_atomicity_necessary.

(** ** Non-vacuity: three callers (two asking the same question under the same lock key, one another
    question), two workers; the second caller of the shared question is served from the cache. *)
Example C14_nonvacuous :
  let cf := mk_config (fun c => if Nat.eqb c 2 then 1 else 0) (fun c => if Nat.eqb c 2 then [8] else [7]) 2 in
  let l := [ALock 0; ALock 2; AEnq 0; AEnq 2; ATake 0; ATake 1; ACheck 0; ACheck 1; AEnd 0 (ROk 41); AEnd 1 RErr;
            AReply 0; AReply 1; AUnlock 0; AUnlock 2; ALock 1; AEnq 1; ATake 1; ACheck 1; AReply 1; AUnlock 1] in
  side_cond cf /\
  step cf init (ALock 0) <> None /\
  (exists s, run cf init [ALock 0] = Some s /\ step cf s (ALock 1) = None) /\
  exists s, run cf init l = Some s /\ held s = [] /\ served s = [(7, 41)] /\
            delivered s = [(1, 7, ROk 41); (2, 8, RErr); (0, 7, ROk 41)].
Proof.
  cbn zeta. split.
  - constructor.
    + intros c. cbn. destruct (Nat.eqb c 2); (constructor; [intros [] | constructor]).
    + intros c c' ck. cbn. destruct (Nat.eqb c 2), (Nat.eqb c' 2); cbn; intros N [<-|[]] [E|[]]; congruence.
  - split; [vm_compute; discriminate|]. split.
    + eexists. split; [vm_compute; reflexivity | vm_compute; reflexivity].
    + eexists. split; [vm_compute; reflexivity|]. vm_compute. repeat split.
Qed.

(** Non-vacuity of the timed system: TTL 10, maxStale 100.  An answer stored at time 0 survives a gc at time 5, is
    served from the cache at time 5, is evicted by the gc at time 11 (past its expiry), and the next caller's lookup
    is a miss: the request runs again. *)
Example C14_timed_nonvacuous :
  let tc := mk_tconfig (mk_config (fun _ => 0) (fun _ => [7]) 1) (fun _ => 10%Z) 100%Z in
  let call c := [TLock c; TEnq c; TTake 0; TCheck 0] in
  let fin c := [TReply 0; TUnlock c] in
  side_cond (t_cf tc) /\
  (exists ts, trun tc tinit (call 0 ++ [TEnd 0 (ROk 5)] ++ fin 0 ++ [TTick 5; TGc] ++ call 1) = Some ts /\
              wst (t_s ts) 0 = WReply (1, 7) (ROk 5) /\ List.length (cs_entries (t_c ts)) = 1) /\
  (exists ts, trun tc tinit (call 0 ++ [TEnd 0 (ROk 5)] ++ fin 0 ++ [TTick 5; TGc] ++ call 1 ++ fin 1 ++ [TTick 6; TGc] ++ call 2) = Some ts /\
              wst (t_s ts) 0 = WRunning (2, 7) /\ cs_entries (t_c ts) = [] /\ t_now ts = 11%Z).
Proof.
  cbn zeta. split.
  - constructor; cbn.
    + intros c. constructor; [intros []|constructor].
    + intros c c' ck N. congruence.
  - split; eexists; (split; [vm_compute; reflexivity|]); vm_compute; repeat split.
Qed.
