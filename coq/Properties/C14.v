(** C14 — Identical questions reach a Prometheus server once; concurrency stays bounded.

    Theorems about ALL reachable states of the transition system of Model/KeyLock.v (any number of
    callers, lock keys, cache keys, workers; any interleaving; any answers/errors; any eviction), by
    induction on the step relation (Proofs/C14_lts.v, C14_props.v).  What the LTS takes for granted — that
    sync.Cond, channels and the scheduler behave like its atomic actions — is the runtime remainder
    (partial), covered by execution (stress runs, -race) and not by these theorems. *)
From Coq Require Import List Arith Bool Lia.
From Coq Require Import ZArith NArith String.
From PintV Require Import Model.KeyLockKeys Proofs.C14_keys.
From PintV Require Import Model.KeyLock Model.KeyLockCache Proofs.C14_lists Proofs.C14_lts Proofs.C14_props Proofs.C14_refine.
Import ListNotations.

(** ** lock_mutex: a lock key has at most one holder; the held set is exactly the keys of the callers
    inside their critical section. (No side condition.) *)
Theorem C14_lock_mutex : forall cf s, reachable cf s ->
  (forall c c', crit (phase s c) = true -> crit (phase s c') = true -> key_of cf c = key_of cf c' -> c = c') /\
  NoDup (held s) /\
  (forall k, In k (held s) <-> exists c, crit (phase s c) = true /\ key_of cf c = k).
Proof. intros cf s [l R]. destruct (lock_inv_gen cf l s R) as [H1 [H2 H3]]. auto. Qed.
Print Assumptions C14_lock_mutex.

(** ** inflight_bound: never more requests in flight than workers (= `concurrency`). *)
Theorem C14_inflight_bound : forall cf s, reachable cf s -> List.length (inflight cf s) <= pool cf.
Proof. intros cf s _. apply inflight_bound_any. Qed.
Print Assumptions C14_inflight_bound.

(** ** no_identical_inflight: if the lock key determines the cache keys ([side_cond]) no two requests with
    the same cache key are in flight — nor anywhere in the pool — at the same time. *)
Theorem C14_no_identical_inflight : forall cf s, side_cond cf -> reachable cf s ->
  NoDup (inflight cf s) /\ NoDup (map snd (insys cf s)).
Proof.
  intros cf s SC R. pose proof (reachable_inv cf SC s R) as I.
  split; [apply inflight_nodup | apply insys_ck_nodup]; assumption.
Qed.
Print Assumptions C14_no_identical_inflight.

(** The side condition is necessary, and it fails for range slices: two range queries with the same
    expression and step but different lookbacks take different lock keys and share slice cache keys.
    Model-level witness: two callers, lock keys 0 and 1, both asking cache key 7, two workers. *)
Theorem C14_shared_slices_refuted :
  exists cf l s, run cf init l = Some s /\ inflight cf s = [7; 7] /\
    exists l2 s2, run cf s l2 = Some s2 /\ served s2 = [(7, 2); (7, 1)].
Proof.
  exists (mk_config (fun c => c) (fun _ => [7]) 2),
         [ALock 0; ALock 1; AEnq 0; AEnq 1; ATake 0; ATake 1; ACheck 0; ACheck 1].
  eexists. split; [vm_compute; reflexivity|]. split; [reflexivity|].
  exists [AEnd 0 (ROk 1); AEnd 1 (ROk 2)]. eexists. split; vm_compute; reflexivity.
Qed.
Print Assumptions C14_shared_slices_refuted.

(** Where the side condition comes from: the key construction of the code (Model/KeyLockKeys.v, compared with the
    lock keys the real client holds on every run).  Questions other than range queries that share a cache key hold
    the same lock key; two range questions with the same expression and step but different lookbacks share slice
    cache keys under DIFFERENT lock keys (the finding); with the lookback removed from the lock key (candidate
    patch) every shared cache key implies the same lock key. *)
Local Open Scope string_scope.
Theorem C14_lock_key_determines_cache_keys :
  (forall q1 q2 s1 s2 k, is_range q1 = false -> is_range q2 = false ->
     In k (cache_keys q1 s1) -> In k (cache_keys q2 s2) -> lock_key q1 = lock_key q2) /\
  (forall q1 q2 s1 s2 k, is_range q1 = true -> is_range q2 = false ->
     In k (cache_keys q1 s1) -> In k (cache_keys q2 s2) -> False) /\
  (exists q1 q2 s1 s2 k, In k (cache_keys q1 s1) /\ In k (cache_keys q2 s2) /\ lock_key q1 <> lock_key q2) /\
  (forall q1 q2 s1 s2 k, In k (cache_keys q1 s1) -> In k (cache_keys q2 s2) -> lock_key_fixed q1 = lock_key_fixed q2).
Proof.
  repeat split.
  - exact shared_cache_key_same_lock.
  - exact range_disjoint_from_others.
  - exists (QRange "up" "5h" "1m"), (QRange "up" "9h" "1m"), [("1790863200", "1790870399")], [("1790863200", "1790870399")],
      ["/api/v1/query_range"; "up"; "1790863200"; "1790870399"; "1m"].
    repeat split; [left; reflexivity | left; reflexivity | discriminate].
  - exact fixed_key_determines.
Qed.
Print Assumptions C14_lock_key_determines_cache_keys.
Local Close Scope string_scope.

(** ** served_once: within a cache lifetime (a run without eviction) a cache key has at most one successful
    request; the cache holds its value; every caller that got a successful answer for the key got that
    value (all callers' results are equal). *)
Theorem C14_served_once : forall cf l s, side_cond cf ->
  forallb (fun a => negb (is_gc a)) l = true -> run cf init l = Some s ->
  NoDup (map fst (served s)) /\
  (forall ck v, In (ck, v) (served s) -> lookup ck (cache s) = Some v) /\
  (forall c ck v, In (c, ck, ROk v) (delivered s) -> lookup ck (cache s) = Some v) /\
  (forall c c' ck v v', In (c, ck, ROk v) (delivered s) -> In (c', ck, ROk v') (delivered s) -> v = v').
Proof.
  intros cf l s SC G R.
  destruct (run_inv2 cf SC l init s G (inv_init cf) inv2_init R) as [I J].
  assert (ND : NoDup (map fst (served s))) by (rewrite <- (i_served _ _ I); apply (i_cache_nodup _ _ I)).
  assert (LK : forall ck v, In (ck, v) (served s) -> lookup ck (cache s) = Some v).
  { intros ck v H. rewrite (i_served _ _ I). apply lookup_NoDup; assumption. }
  repeat split; [exact ND | exact LK | |].
  - intros c ck v H. apply LK. apply (i_delivered _ J c ck v H).
  - intros c c' ck v v' H H'. apply (i_delivered _ J) in H. apply (i_delivered _ J) in H'.
    apply LK in H. apply LK in H'. congruence.
Qed.
Print Assumptions C14_served_once.

(** With eviction the same holds per lifetime: [served] (successful runs whose entry is still cached) never
    has two entries for one key, and a request only starts on a cache miss. *)
Theorem C14_one_run_per_lifetime : forall cf s, side_cond cf -> reachable cf s ->
  NoDup (map fst (served s)) /\ cache s = served s /\
  (forall w c ck, wst s w = WRunning (c, ck) -> lookup ck (cache s) = None).
Proof.
  intros cf s SC R. pose proof (reachable_inv cf SC s R) as I. repeat split.
  - rewrite <- (i_served _ _ I). apply (i_cache_nodup _ _ I).
  - apply (i_served _ _ I).
  - apply (i_running_miss _ _ I).
Qed.
Print Assumptions C14_one_run_per_lifetime.

(** ** no_lost_unlock: the held set contains only keys of callers that are still inside their call; a call
    ends only through its unlock, which removes its key; and nothing can get stuck on the way there,
    also on error paths: a running request may end with any result, every result can be replied, a caller
    with all replies can unlock. *)
Theorem C14_no_lost_unlock : forall cf s, side_cond cf -> reachable cf s ->
  (forall c, crit (phase s c) = false ->
     In (key_of cf c) (held s) -> exists c', c' <> c /\ crit (phase s c') = true /\ key_of cf c' = key_of cf c) /\
  (forall a s' c, step cf s a = Some s' -> phase s c <> PDone -> phase s' c = PDone ->
     a = AUnlock c /\ ~ In (key_of cf c) (held s')) /\
  (forall w j r, wst s w = WRunning j -> exists s', step cf s (AEnd w r) = Some s') /\
  (forall w j r, wst s w = WReply j r -> exists s', step cf s (AReply w) = Some s') /\
  (forall c, phase s c = PCrit [] [] -> exists s', step cf s (AUnlock c) = Some s' /\ phase s' c = PDone).
Proof.
  intros cf s SC R. pose proof (reachable_inv cf SC s R) as I. repeat split.
  - intros c Hc Hk. apply (i_held _ _ I) in Hk. destruct Hk as [c' [Hc' Hk]]. exists c'. repeat split; auto.
    intros ->. congruence.
  - eapply done_only_by_unlock; eauto.
  - pose proof (done_only_by_unlock cf s a s' c H H0 H1) as ->.
    cbn in H. destruct (phase s c) as [|[|] [|]|] eqn:P; try discriminate. injection H as <-. cbn.
    apply remove1_NoDup_notin. apply (i_held_nodup _ _ I).
  - intros w j r W. eapply end_enabled; eauto.
  - intros w j r W. eapply reply_enabled; eauto.
  - intros c P. destruct (unlock_enabled cf s c I P) as [s' [H1 [H2 _]]]. eauto.
Qed.
Print Assumptions C14_no_lost_unlock.

(** ** The two models agree: the sequential cache / processJob model — the one compared with the real
    queryCache.get/set/gc and processJob on every run — refines the cache actions of the transition system.
    [abs_cache] forgets expiry and last-read times; [same_cache] = all lookups agree. *)
Theorem C14_cache_model_refines_lts :
  (forall now k st,
     option_map Z.to_nat (fst (cache_get now k st)) = lookup (N.to_nat k) (abs_cache st) /\
     same_cache (abs_cache (snd (cache_get now k st))) (abs_cache st)) /\
  (forall now k v ttl st,
     same_cache (abs_cache (cache_set now k v ttl st)) ((N.to_nat k, Z.to_nat v) :: abs_cache st)) /\
  (forall ms now st, keys_unique st ->
     keys_unique (cache_gc ms now st) /\
     exists ev, same_cache (abs_cache (cache_gc ms now st)) (drop_keys ev (abs_cache st))) /\
  (forall now k v ttl st, keys_unique st ->
     keys_unique (snd (cache_get now k st)) /\ keys_unique (cache_set now k v ttl st)).
Proof.
  repeat split.
  - apply get_refines.
  - apply get_refines.
  - apply set_refines.
  - apply keys_unique_gc; assumption.
  - apply gc_refines; assumption.
  - apply keys_unique_get; assumption.
  - apply keys_unique_set; assumption.
Qed.
Print Assumptions C14_cache_model_refines_lts.

(** A worker that took job (c, k) does what [process_job] does: hit = reply the cached value without a request
    ([ACheck]); miss = request starts, only a successful end fills the cache ([AEnd]), with the same content. *)
Theorem C14_process_job_refines_lts : forall cf s w c now k a ttl v o st,
  wst s w = WTaken (c, N.to_nat k) ->
  same_cache (cache s) (abs_cache (ps_cache st)) ->
  is_disabled a (ps_disabled st) = false ->
  let '(got, err, ran, st') := process_job now k a ttl v o st in
  exists s1, step cf s (ACheck w) = Some s1 /\
    if ran then
      wst s1 w = WRunning (c, N.to_nat k) /\
      let r := match o with OkVal => ROk (Z.to_nat v) | _ => RErr end in
      exists s2, step cf s1 (AEnd w r) = Some s2 /\ wst s2 w = WReply (c, N.to_nat k) r /\
                 same_cache (cache s2) (abs_cache (ps_cache st')) /\
                 (err = ""%string <-> o = OkVal) /\ (o = OkVal -> got = v)
    else
      err = ""%string /\ wst s1 w = WReply (c, N.to_nat k) (ROk (Z.to_nat got)) /\
      same_cache (cache s1) (abs_cache (ps_cache st')).
Proof. exact process_job_refines. Qed.
Print Assumptions C14_process_job_refines_lts.

(** ** Non-vacuity: three callers (two asking the same question under the same lock key, one another
    question), two workers; the second caller of the shared question is served from the cache. *)
Example C14_nonvacuous :
  let cf := mk_config (fun c => if Nat.eqb c 2 then 1 else 0) (fun c => if Nat.eqb c 2 then [8] else [7]) 2 in
  let l := [ALock 0; ALock 2; AEnq 0; AEnq 2; ATake 0; ATake 1; ACheck 0; ACheck 1; AEnd 0 (ROk 41); AEnd 1 RErr;
            AReply 0; AReply 1; AUnlock 0; AUnlock 2; ALock 1; AEnq 1; ATake 1; ACheck 1; AReply 1; AUnlock 1] in
  side_cond cf /\
  step cf init (ALock 0) <> None /\
  (exists s, run cf init [ALock 0] = Some s /\ step cf s (ALock 1) = None) /\
  exists s, run cf init l = Some s /\ held s = [] /\ served s = [(7, 41)] /\
            delivered s = [(1, 7, ROk 41); (2, 8, RErr); (0, 7, ROk 41)].
Proof.
  cbn zeta. split.
  - constructor.
    + intros c. cbn. destruct (Nat.eqb c 2); (constructor; [intros [] | constructor]).
    + intros c c' ck. cbn. destruct (Nat.eqb c 2), (Nat.eqb c' 2); cbn; intros N [<-|[]] [E|[]]; congruence.
  - split; [vm_compute; discriminate|]. split.
    + eexists. split; [vm_compute; reflexivity | vm_compute; reflexivity].
    + eexists. split; [vm_compute; reflexivity|]. vm_compute. repeat split.
Qed.
