(** C13 — Slicing a range query is invisible in its result.

    Only the property theorems; each is closed from lemmas of Proofs/C13_*.v and followed by
    [Print Assumptions].  Times are Z nanoseconds; the model is Model/Range.v (sliceRange, RangeQuery's slice
    bookkeeping, AppendSampleToRanges, ExpandRangesEnd, Overlaps, MergeRanges, sort) and the reference is
    Model/RangeRef.v ([runs]: maximal runs of present points of ONE unsliced evaluation). *)
From Coq Require Import List ZArith NArith Bool Lia Permutation.
From PintV Require Import Common.GoTime Model.Range Model.RangeRef Model.RangeStream Proofs.C13_stream
  Proofs.C13_slice Proofs.C13_grid Proofs.C13_fold Proofs.C13_overlaps Proofs.C13_stair Proofs.C13_imerge
  Proofs.C13_sim Proofs.C13_runs Proofs.C13_final Proofs.C13_headline Proofs.C13_multi.
Import ListNotations.
Open Scope Z_scope.

(** * Termination of the slicing loop *)

(** sliceRange terminates (some fuel suffices) exactly when the slice size is positive, or the whole range
    is at most one step long (the early return). *)
Theorem C13_slice_range_terminates : forall start end_ res size, 0 <= res ->
  ((exists fuel, slice_range fuel start end_ res size <> None) <-> (0 < size \/ end_ - start <= res)).
Proof. exact slice_range_terminates. Qed.
Print Assumptions C13_slice_range_terminates.

(** The defect repaired by fix 43069bd, as a theorem about sliceRange itself: a step above 4h rounds the slice
    size (2h).Round(step) to zero, and with a zero slice size the loop never ends. *)
Theorem C13_unguarded_slicing_diverges : forall start end_ step fuel,
  4 * hour < step -> step <= max_int64 - 2 * hour -> step < end_ - start ->
  slice_size step = 0 /\ slice_range fuel start end_ step (slice_size step) = None.
Proof.
  intros start end_ step fuel H1 H2 H3.
  assert (slice_size step = 0) as E by (apply slice_size_zero_iff; unfold hour, sec in *; lia).
  split; [exact E|]. rewrite E. apply slice_range_zero_size_diverges; unfold hour, sec in *; lia.
Qed.
Print Assumptions C13_unguarded_slicing_diverges.

(** With the guard [queryStep <= 0 || queryStep > lookback], the slice bookkeeping of RangeQuery is total for
    every (start, end, lookback, step), with an explicit fuel bound. *)
Theorem C13_query_slices_total : forall start end_ lookback step, 0 <= step ->
  query_slices (slice_fuel start end_ (slice_size step)) start end_ lookback step <> None.
Proof. exact query_slices_total. Qed.
Print Assumptions C13_query_slices_total.

(** * The slices partition the evaluation grid *)

(** For every step >= 1s: the evaluation grids of the slices (start + k*step <= end of each slice),
    concatenated in slice order, are exactly the grid of one query from the first slice's start to [end]:
    no grid point is evaluated twice, none is skipped, all lie on one step grid. *)
Theorem C13_slices_partition_grid : forall step fuel start end_ lookback sl,
  sec <= step -> step <= max_int64 - 2 * hour ->
  query_slices fuel start end_ lookback step = Some sl ->
  flat_map (slice_grid step) sl = grid_between (first_start sl start) end_ step.
Proof. intros. eapply slices_partition_grid; eassumption. Qed.
Print Assumptions C13_slices_partition_grid.

(** * The chain of the proof, each link stated on its own *)

(** (i) What one slice contributes — AppendSampleToRanges folded over the server's ascending samples, then
    ExpandRangesEnd — is exactly the list of maximal runs of present grid points of that slice. *)
Theorem C13_per_slice_fold_is_runs : forall step fp pres a b, 0 < step ->
  per_slice1 step fp pres (a, b) = runs_of fp step pres a b.
Proof. exact per_slice_runs. Qed.
Print Assumptions C13_per_slice_fold_is_runs.

(** (ii) On grid-aligned ranges [R (A1,A2)] = [g0 + A1*step, g0 + A2*step + step - 1s] of one series, the nine
    cases of Overlaps(existing, incoming) are: merged into the hull iff the index intervals touch (adjacent
    or sharing points) — except the two holes (existing strictly inside incoming, sharing its start or its
    end), where nothing is merged.  Every step >= 1s, including step = 1s. *)
Theorem C13_overlaps_aligned : forall g0 step fp A1 A2 B1 B2, sec <= step -> A1 <= A2 -> B1 <= B2 ->
  overlaps (R g0 step fp (A1, A2)) (R g0 step fp (B1, B2)) step
  = option_map (R_tr g0 step)
      (if hole (A1, A2) (B1, B2) then None
       else if touch (A1, A2) (B1, B2) then Some (hull (A1, A2) (B1, B2)) else None).
Proof. exact overlaps_aligned. Qed.
Print Assumptions C13_overlaps_aligned.

(** the holes are real and asymmetric (model-level note of DESIGN §6): existing [2..3] inside incoming [2..9]
    is not merged, the swapped call is *)
Example C13_overlaps_not_symmetric :
  overlaps (R 0 (60 * sec) 7 (2, 3)) (R 0 (60 * sec) 7 (2, 9)) (60 * sec) = None /\
  overlaps (R 0 (60 * sec) 7 (2, 9)) (R 0 (60 * sec) 7 (2, 3)) (60 * sec) <> None.
Proof. split; [vm_compute; reflexivity|vm_compute; discriminate]. Qed.

(** (iii) MergeRanges on a *staircase* of aligned ranges of one series (any two elements strictly ordered in
    both coordinates, none lying between two touching ones — what disjoint per-slice runs are, in any order):
    it terminates within fuel [length + 1], never meets a hole, preserves the set of covered grid points,
    and ends with pairwise non-touching ranges (so the fixpoint is the set of connected components). *)
Theorem C13_merge_computes_components : forall g0 step fp L fuel, sec <= step ->
  (length L < fuel)%nat -> stair L -> T L -> valid L ->
  exists Rr b, merge_ranges fuel step (Rm g0 step fp L) = Some (Rm g0 step fp Rr, b) /\
    (forall k, cov Rr k <-> cov L k) /\
    ForallOrdPairs (fun x y => touch x y = false) Rr /\
    valid Rr /\ (b = false -> Rr = L) /\ (b = true -> (length Rr < length L)%nat).
Proof.
  intros g0 step fp L fuel Hs Hf H1 H2 H3.
  destruct (imerge_spec fuel L Hf (conj H1 (conj H2 H3))) as [Rr [b [E [HI [Hc [Hn [Hb0 Hb1]]]]]]].
  exists Rr, b. rewrite (merge_sim g0 step fp Hs fuel L H3), E. cbn [option_map fst snd].
  split; [reflexivity|]. split; [exact Hc|]. split; [exact Hn|]. split; [apply HI|]. split; assumption.
Qed.
Print Assumptions C13_merge_computes_components.

(** * Headline: sliced = unsliced *)

(** For every step >= 1s, every (start, end, lookback), every presence pattern [pres] of a series, and every
    arrival order of the slice responses (any permutation of the slices RangeQuery computes): folding each
    response, concatenating in arrival order, MergeRanges and the final sort give exactly the maximal runs
    of present points of ONE evaluation on the same step grid, from the first slice's start to [end].
    Consequently consecutive samples merge across slice boundaries, a single missing sample is a gap, and
    the arrival order is irrelevant.  (One series; Fingerprint = labels.Hash is the series identity.) *)
Theorem C13_sliced_eq_unsliced : forall step fp pres fuel start end_ lookback sl arrival,
  sec <= step -> step <= max_int64 - 2 * hour ->
  query_slices fuel start end_ lookback step = Some sl ->
  Permutation arrival sl ->
  sliced1 (merge_fuel (flat_map (per_slice1 step fp pres) arrival)) step fp pres arrival
  = Some (runs_of fp step pres (first_start sl start) end_).
Proof. intros. eapply sliced_eq_unsliced; eassumption. Qed.
Print Assumptions C13_sliced_eq_unsliced.

(** arrival order independence, spelled out *)
Corollary C13_arrival_order_irrelevant : forall step fp pres fuel start end_ lookback sl a1 a2,
  sec <= step -> step <= max_int64 - 2 * hour ->
  query_slices fuel start end_ lookback step = Some sl ->
  Permutation a1 sl -> Permutation a2 sl ->
  sliced1 (merge_fuel (flat_map (per_slice1 step fp pres) a1)) step fp pres a1 =
  sliced1 (merge_fuel (flat_map (per_slice1 step fp pres) a2)) step fp pres a2.
Proof.
  intros. rewrite (C13_sliced_eq_unsliced step fp pres fuel start end_ lookback sl a1) by assumption.
  rewrite (C13_sliced_eq_unsliced step fp pres fuel start end_ lookback sl a2) by assumption. reflexivity.
Qed.
Print Assumptions C13_arrival_order_irrelevant.

(** "For every series": when a response stream carries several series (pairwise distinct fingerprints), they are
    folded into one list by AppendSampleToRanges, merged by one MergeRanges call and sorted together; the part
    of the result that belongs to any one series is exactly that series' runs of the unsliced grid — the
    other series, their interleaving and the global hadMerged flag have no influence. *)
Theorem C13_series_independent : forall step (ss : series) fuel start end_ lookback sl arrival fp pres,
  sec <= step -> step <= max_int64 - 2 * hour ->
  NoDup (map fst ss) -> In (fp, pres) ss ->
  query_slices fuel start end_ lookback step = Some sl ->
  Permutation arrival sl ->
  exists res, sliced (merge_fuel (flat_map (per_slice step ss) arrival)) step ss arrival = Some res /\
              group_of fp res = runs_of fp step pres (first_start sl start) end_.
Proof. intros. eapply series_independent; eassumption. Qed.
Print Assumptions C13_series_independent.

(** The headline for ANY FINITE SET OF SERIES.  MergeRanges groups by fingerprint (labels.Hash); streamSampleStream folds
    all series of a response into one list; RangeQuery concatenates the responses in arrival order.  For every finite set
    [ss] of series with pairwise distinct fingerprints, every presence pattern of each (a series with no sample in a slice
    simply does not occur in that response, so the set of series differs from response to response), every response
    listing its series in an order of its own ([ord]), and every arrival order of the responses: the result contains, for
    every series of [ss], exactly the runs of that series on the ONE unsliced grid - and no range of any other series. *)
Theorem C13_sliced_eq_unsliced_all_series : forall step (ss : series) (ord : tr -> series) fuel start end_ lookback sl arrival,
  sec <= step -> step <= max_int64 - 2 * hour ->
  NoDup (map fst ss) -> (forall s, Permutation (ord s) ss) ->
  query_slices fuel start end_ lookback step = Some sl ->
  Permutation arrival sl ->
  exists res,
    sliced_ord (merge_fuel (flat_map (fun s => per_slice step (ord s) s) arrival)) step ord arrival = Some res /\
    (forall fp pres, In (fp, pres) ss -> group_of fp res = runs_of fp step pres (first_start sl start) end_) /\
    (forall fp, ~ In fp (map fst ss) -> group_of fp res = []).
Proof. intros. eapply all_series; eassumption. Qed.
Print Assumptions C13_sliced_eq_unsliced_all_series.

(** ... and from the decoder on.  streamSampleStream decodes every element of a response into ONE reused variable and
    resets it afterwards ([stream_elems]: json.Unmarshal into an existing map keeps the entries the object does not
    mention, so without the reset a series with fewer label names would inherit labels of its predecessor).  For series
    given by their label sets, [hash] (labels.Hash o MetricToLabels) injective on them - the only thing assumed about it -,
    every response carrying its series in an order of its own, every arrival order: the result holds for every series,
    under the fingerprint of ITS OWN labels, exactly its runs on the unsliced grid, and nothing under any other
    fingerprint. *)
Theorem C13_sliced_eq_unsliced_decoded : forall (hash : metric -> N) step (ls : list (metric * presence))
    (ord : tr -> list (metric * presence)) fuel start end_ lookback sl arrival,
  sec <= step -> step <= max_int64 - 2 * hour ->
  NoDup (map (fun s => hash (fst s)) ls) -> (forall s, Permutation (ord s) ls) ->
  query_slices fuel start end_ lookback step = Some sl ->
  Permutation arrival sl ->
  let response := fun s : tr =>
    stream_response hash step (map (fun x => (fst x, server_samples (snd x) (fst s) (snd s) step)) (ord s)) in
  exists res,
    finalize (merge_fuel (flat_map response arrival)) step (flat_map response arrival) = Some res /\
    (forall m pres, In (m, pres) ls -> group_of (hash m) res = runs_of (hash m) step pres (first_start sl start) end_) /\
    (forall fp, ~ In fp (map (fun s => hash (fst s)) ls) -> group_of fp res = []).
Proof.
  intros hash step ls ord fuel start end_ lookback sl arrival Hs Hmax Hnd Hord Hq Hperm response.
  set (g := fun s : metric * presence => (hash (fst s), snd s)).
  assert (forall l, flat_map response l = flat_map (fun s => per_slice step (map g (ord s)) s) l) as Ef.
  { intro l. apply flat_map_ext. intro s. unfold response. apply stream_response_per_slice. }
  assert (map fst (map g ls) = map (fun s => hash (fst s)) ls) as Em by (rewrite map_map; reflexivity).
  destruct (all_series step Hs (map g ls) (fun s => map g (ord s)) fuel start end_ lookback sl arrival Hmax
              ltac:(rewrite Em; exact Hnd) ltac:(intro s; apply Permutation_map, Hord) Hq Hperm) as [res [E [H1 H2]]].
  exists res. rewrite Ef. split; [exact E|]. split.
  - intros m pres Hin. apply (H1 (hash m) pres). change (hash m, pres) with (g (m, pres)). apply in_map. exact Hin.
  - intros fp Hn. apply H2. rewrite Em. exact Hn.
Qed.
Print Assumptions C13_sliced_eq_unsliced_decoded.

(** Non-vacuity: a 7-minute step (does not divide 2h; slice = 119m), 5 slices arriving out of order
    (1,0,4,3,2), a series present over three slice boundaries with ONE missing sample exactly on a slice
    boundary: the premises hold, the pipeline evaluates, and the result is the two expected ranges (a gap of
    one sample at the boundary, merged across the other boundaries). *)
Definition ex_step := 420 * sec.
Definition ex_start := 1654041600 * sec + 123456789.
Definition ex_end := ex_start + 8 * hour.
Definition ex_pres : presence := fun t =>
  (1654041600 * sec + hour <=? t) && (t <=? 1654041600 * sec + 7 * hour) && negb (t =? 1654048560 * sec).
Definition ex_expected : list range :=
  [mkR 1 (1654045200 * sec) (1654048559 * sec); mkR 1 (1654048980 * sec) (1654067039 * sec)].

Example C13_nonvacuous :
  exists sl, query_slices 100 ex_start ex_end (8 * hour) ex_step = Some sl /\ length sl = 5%nat /\
    let arrival := rev (skipn 2 sl ++ firstn 2 sl) in
    Permutation arrival sl /\ arrival <> sl /\
    sliced1 (merge_fuel (flat_map (per_slice1 ex_step 1 ex_pres) arrival)) ex_step 1 ex_pres arrival = Some ex_expected /\
    runs_of 1 ex_step ex_pres (first_start sl ex_start) ex_end = ex_expected.
Proof.
  eexists. split; [vm_compute; reflexivity|]. split; [reflexivity|]. cbv zeta. split; [|split; [|split]].
  - match goal with |- Permutation (rev (skipn 2 ?l ++ firstn 2 ?l)) _ =>
      apply Permutation_trans with (l' := skipn 2 l ++ firstn 2 l); [apply Permutation_sym, Permutation_rev|];
      apply Permutation_trans with (l' := firstn 2 l ++ skipn 2 l); [apply Permutation_app_comm|];
      rewrite firstn_skipn; apply Permutation_refl
    end.
  - vm_compute. discriminate.
  - vm_compute. reflexivity.
  - vm_compute. reflexivity.
Qed.
Print Assumptions C13_nonvacuous.

(** Non-vacuity of the multi-series statement: two series on the same query as above, the second one present only during
    the third slice (so it occurs in one response only), responses listing their series in alternating order. *)
Definition ex_pres2 : presence := fun t => (1654056060 * sec <=? t) && (t <=? 1654059000 * sec).
Definition ex_ss : series := [(1%N, ex_pres); (2%N, ex_pres2)].
Definition ex_ord (s : tr) : series := if Z.even (fst s / (119 * minute)) then ex_ss else rev ex_ss.

Example C13_nonvacuous_multi :
  exists sl, query_slices 100 ex_start ex_end (8 * hour) ex_step = Some sl /\
    let arrival := rev (skipn 2 sl ++ firstn 2 sl) in
    match sliced_ord (merge_fuel (flat_map (fun s => per_slice ex_step (ex_ord s) s) arrival)) ex_step ex_ord arrival with
    | Some res =>
        group_of 1 res = ex_expected /\
        group_of 2 res = runs_of 2 ex_step ex_pres2 (first_start sl ex_start) ex_end /\
        length (group_of 2 res) = 1%nat
    | None => False
    end /\
    map (fun s => map fst (ex_ord s)) sl = [[1%N; 2%N]; [2%N; 1%N]; [1%N; 2%N]; [2%N; 1%N]; [1%N; 2%N]].
Proof.
  eexists. split; [vm_compute; reflexivity|]. cbv zeta. split.
  - vm_compute. split; [reflexivity|]. split; reflexivity.
  - vm_compute. reflexivity.
Qed.
Print Assumptions C13_nonvacuous_multi.
