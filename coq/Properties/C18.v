(** C18 — An accepted configuration never crashes a later lint run.

    Part 1 (all behaviours of text/template and regexp): the TemplatedRegexp protocol — a pattern that load-time
    validation accepted is built by the same function and expanded by a total MustExpand, for every rule.
    Part 2 (finite, tables regenerated from the Go AST every run): every site where an error is dropped after load
    or a Must* helper is used is accounted for in the reviewed table — validated at load through the same function on
    the same field with compatible emptiness guards on both sides (checked mechanically against the generated
    validator and guard tables), or a reviewed harmless class.  There is no "known crash" class: the rows that were
    crash sites while this check was built (link uri, match regexps validated bare, promql/regexp label name,
    range_query max validated only when non-empty, --disabled flag) were repaired in /repo (457aa6b, 4986535, 4008951,
    0b2762d, 72c92b8, and the upstream-URI nil dereference in promapi.doRequest: 6f3f221), no finding is open, and the
    FULL statement is what is proved.
    Part 3 (finite, generated): load-time validation reaches every block of the configuration schema.
    The runtime remainder (that the harmless classes really are harmless, and crashes outside these sites) is covered by
    execution, not by proof. *)
From Coq Require Import List String Ascii Bool.
From PintV Require Import Common.Bytes Gen.Tables Gen.C18 Model.TemplatedRegexp Model.TemplatedRegexpBlocks Model.TemplatedRegexpSites
                          Proofs.C18_template Proofs.C18_blocks Proofs.C18_sites.
Import ListNotations.
Open Scope string_scope.
Open Scope list_scope.

(* ---------------------------------------------------------------------------------------------- *)
(** * Part 1 — TemplatedRegexp *)

(** MustExpand is total (fix 7fc2b62): whatever the template engine and the regexp compiler do with the expanded
    text, it returns a regexp — provided the constant fallback pattern [^\s\S] compiles (tested on every run). *)
Theorem C18_must_expand_total :
  forall (Tmpl Re : Type) (tmpl_parse : string -> option Tmpl) (tmpl_exec : Tmpl -> tctx -> option string)
         (re_compile : string -> option Re),
  re_compile never_matching <> None ->
  forall t r, exists re, must_expand Tmpl Re tmpl_parse tmpl_exec re_compile t r = Ok re.
Proof. exact must_expand_total. Qed.
Print Assumptions C18_must_expand_total.

(** A templated pattern accepted at load (validate calls New(Raw)TemplatedRegexp on it) never crashes a check that
    was built from the same string with Must(Raw)TemplatedRegexp, on any rule. *)
Theorem C18_use_sites_total :
  forall (Tmpl Re : Type) (tmpl_parse : string -> option Tmpl) (tmpl_exec : Tmpl -> tctx -> option string)
         (re_compile : string -> option Re),
  re_compile never_matching <> None ->
  forall s r,
    (validate_templated Tmpl Re tmpl_parse tmpl_exec re_compile s = true ->
     exists re, use_site Tmpl Re tmpl_parse tmpl_exec re_compile (must_templated Tmpl Re tmpl_parse tmpl_exec re_compile s) r = Ok re) /\
    (validate_raw_templated Tmpl Re tmpl_parse tmpl_exec re_compile s = true ->
     exists re, use_site Tmpl Re tmpl_parse tmpl_exec re_compile (must_raw_templated Tmpl Re tmpl_parse tmpl_exec re_compile s) r = Ok re).
Proof.
  intros Tmpl Re tp te rc H s r. split; intro V.
  - exact (use_site_total Tmpl Re tp te rc H s r V).
  - exact (use_site_raw_total Tmpl Re tp te rc H s r V).
Qed.
Print Assumptions C18_use_sites_total.

(** Validation matters: the same use site on a string that validation would have rejected dereferences nil. *)
Theorem C18_unvalidated_pattern_crashes :
  forall (Tmpl Re : Type) (tmpl_parse : string -> option Tmpl) (tmpl_exec : Tmpl -> tctx -> option string)
         (re_compile : string -> option Re) s r,
  validate_templated Tmpl Re tmpl_parse tmpl_exec re_compile s = false ->
  exists w, use_site Tmpl Re tmpl_parse tmpl_exec re_compile (must_templated Tmpl Re tmpl_parse tmpl_exec re_compile s) r = Crash w.
Proof. exact unvalidated_crashes. Qed.
Print Assumptions C18_unvalidated_pattern_crashes.

(** Before fix 7fc2b62 totality held only for templates whose execution ignores the rule ... *)
Theorem C18_constant_templates_total_prefix :
  forall (Tmpl Re : Type) (tmpl_parse : string -> option Tmpl) (tmpl_exec : Tmpl -> tctx -> option string)
         (re_compile : string -> option Re) t,
  (forall tm c1 c2, tmpl_parse (aliases ++ t_anchored t)%string = Some tm -> tmpl_exec tm c1 = tmpl_exec tm c2) ->
  expand Tmpl Re tmpl_parse tmpl_exec re_compile t empty_rule <> None ->
  forall r, exists re, must_expand_prefix Tmpl Re tmpl_parse tmpl_exec re_compile t r = Ok re.
Proof. exact constant_templates_total_prefix. Qed.
Print Assumptions C18_constant_templates_total_prefix.

(** ... and failed otherwise: a library behaviour, an accepted pattern and a rule on which the pre-fix MustExpand
    crashes while the current one answers the never matching regexp (shape of the design witness
    value = "{{ $alert }}.*" with alert: "CPU [high"). *)
Theorem C18_prefix_protocol_refuted :
  validate_templated string string toy_parse toy_exec toy_compile "{{ $alert }}.*" = true /\
  exists t, must_templated string string toy_parse toy_exec toy_compile "{{ $alert }}.*" = Some t /\
            must_expand_prefix string string toy_parse toy_exec toy_compile t witness_rule = Crash "nil *regexp.Regexp dereferenced" /\
            must_expand string string toy_parse toy_exec toy_compile t witness_rule = Ok never_matching.
Proof. exact prefix_protocol_crashes. Qed.
Print Assumptions C18_prefix_protocol_refuted.

(* ---------------------------------------------------------------------------------------------- *)
(** * Part 1b — the protocol at the level of whole rule sub-blocks (validate / parseRule / String + Check)

    For every behaviour of text/template and regexp (with the constant fallback pattern compiling):

    an `annotation "<key>" { token value }` / `label "<key>" { .. }` block accepted by AnnotationSettings.validate is
    turned by parseRule into a check whose key pointer is non-nil and still spells the configured key, whose String()
    does not crash, whose every regexp use inside Check (key unguarded, token and value behind `!= nil`) returns a
    regexp on every rule, and in which a token / value that was set is really in force (not silently dropped). *)
Theorem C18_annotation_label_blocks_total :
  forall (Tmpl Re : Type) (tmpl_parse : string -> option Tmpl) (tmpl_exec : Tmpl -> tctx -> option string)
         (re_compile : string -> option Re),
  re_compile never_matching <> None ->
  forall s name required r,
    validate_kv Tmpl Re tmpl_parse tmpl_exec re_compile s = true ->
    let c := build_kv Tmpl Re tmpl_parse tmpl_exec re_compile s in
    (exists k, kc_key c = Some k /\ t_original k = ks_key s) /\
    is_ok (kv_string name required c) = true /\
    forallb is_ok (kv_uses Tmpl Re tmpl_parse tmpl_exec re_compile c r) = true /\
    (ks_token s <> "" -> kc_token c <> None) /\ (ks_value s <> "" -> kc_value c <> None).
Proof. intros Tmpl Re tp te rc H s name required r V. exact (kv_block_total Tmpl Re tp te rc H s name required r V). Qed.
Print Assumptions C18_annotation_label_blocks_total.

(** ... and it is the validation of the key that protects: with a key that validation would have rejected, the very
    first String() call dereferences nil (an invalid token / value would only disable that option). *)
Theorem C18_unvalidated_block_key_crashes :
  forall (Tmpl Re : Type) (tmpl_parse : string -> option Tmpl) (tmpl_exec : Tmpl -> tctx -> option string)
         (re_compile : string -> option Re) s name required,
  validate_templated Tmpl Re tmpl_parse tmpl_exec re_compile (ks_key s) = false ->
  is_ok (kv_string name required (build_kv Tmpl Re tmpl_parse tmpl_exec re_compile s)) = false.
Proof. exact kv_block_unvalidated_key_crashes. Qed.
Print Assumptions C18_unvalidated_block_key_crashes.

(** `reject "<re>" {}`: every check built is total on every rule (all uses are behind `!= nil`), and for an accepted
    block the configured regexp is in force in each of them. *)
Theorem C18_reject_blocks_total :
  forall (Tmpl Re : Type) (tmpl_parse : string -> option Tmpl) (tmpl_exec : Tmpl -> tctx -> option string)
         (re_compile : string -> option Re),
  re_compile never_matching <> None ->
  forall regex lk lv ak av r c,
    In c (build_reject Tmpl Re tmpl_parse tmpl_exec re_compile regex lk lv ak av) ->
    forallb is_ok (reject_uses Tmpl Re tmpl_parse tmpl_exec re_compile c r) = true /\
    (validate_reject Tmpl Re tmpl_parse tmpl_exec re_compile regex = true -> rc_key c <> None \/ rc_value c <> None).
Proof.
  intros Tmpl Re tp te rc H regex lk lv ak av r c Hin. split.
  - exact (reject_block_total Tmpl Re tp te rc H regex lk lv ak av r c Hin).
  - intro V. exact (reject_block_in_force Tmpl Re tp te rc regex lk lv ak av V c Hin).
Qed.
Print Assumptions C18_reject_blocks_total.

(** `name "<re>" {}`, `link "<re>" {}` (String() and Check dereference the pointer unguarded) and
    `aggregate "<re>" {}` (built under `Name != ""`, used unguarded; validate rejects the empty name). *)
Theorem C18_name_link_aggregate_blocks_total :
  forall (Tmpl Re : Type) (tmpl_parse : string -> option Tmpl) (tmpl_exec : Tmpl -> tctx -> option string)
         (re_compile : string -> option Re),
  re_compile never_matching <> None ->
  forall regex name r,
    (validate_single Tmpl Re tmpl_parse tmpl_exec re_compile regex = true ->
       is_ok (single_string name (build_single Tmpl Re tmpl_parse tmpl_exec re_compile regex)) = true /\
       forallb is_ok (single_uses Tmpl Re tmpl_parse tmpl_exec re_compile (build_single Tmpl Re tmpl_parse tmpl_exec re_compile regex) r) = true) /\
    (validate_aggregate Tmpl Re tmpl_parse tmpl_exec re_compile regex = true ->
       forallb is_ok (single_uses Tmpl Re tmpl_parse tmpl_exec re_compile (build_aggregate Tmpl Re tmpl_parse tmpl_exec re_compile regex) r) = true).
Proof.
  intros Tmpl Re tp te rc H regex name r. split; intro V.
  - exact (single_block_total Tmpl Re tp te rc H regex name r V).
  - exact (aggregate_block_total Tmpl Re tp te rc H regex r V).
Qed.
Print Assumptions C18_name_link_aggregate_blocks_total.

(* ---------------------------------------------------------------------------------------------- *)
(** * Part 2 — dropped-error sites of the current source *)

(** FULL statement.  Every site of internal/config, internal/checks, internal/promapi, internal/discovery and cmd/pint
    where an error is dropped or a Must* helper gets a non-constant argument ([all_sites]: regenerated from the Go AST
    on every run, so a NEW site without a reviewed row breaks this theorem) has a reviewed disposition, and what the
    disposition claims holds of the CURRENT source:
    - [ValidatedSame]: a validate() method calls the same function (or the function its Must wrapper wraps) on the
      same field and returns its error; that call is unconditional, or it is under `F != ""` and EVERY occurrence of
      the use site is under `F != ""` for the same field F;
    - [ValidatedDefaulted]: the validator call exists (an empty value is replaced by a default before use: review);
    - [ValidatedWrapped]: an unconditional validator call exists on the bare pattern;
    - the remaining classes (zero value, rule data, constant, harmless, helper body, CLI flag) are review judgements
      exercised by the binary-level runs.
    There is no crash class: [disposition] has no constructor for one.  (While finding C18-upstream-uri-unparsed was
    open — promapi.doRequest dropping the url.Parse error of a failover / prometheusQuery URI — this was stated as
    _partial + _refuted with a [CrashKnown] row for that site; fix 6f3f221 turned the drop into an error return, the
    site is gone and the full statement holds again.) *)
Theorem C18_every_dropped_error_is_validated :
  forall s, In s all_sites -> exists d, disposition_of s = Some d /\ disposition_holds s d.
Proof. intros s Hin. apply site_ok_spec. exact (proj1 (forallb_forall _ _) all_sites_accounted s Hin). Qed.
Print Assumptions C18_every_dropped_error_is_validated.

(** What the [ValidatedSame] class means semantically, for ANY partial function [f] shared by validator and use site
    (parseDuration, ParseSeverity, New(Raw)TemplatedRegexp, regexp.Compile of the anchored form, …): if the validator is
    unconditional, or validator and use are both conditional on the value being non-empty — the two cases
    [validator_covers] accepts — then for every accepted value the error the use site drops is never an error; and in
    the shape it rejects (validated only when non-empty, used always, [f] failing on the empty value) an accepted
    configuration does reach a dropped error. *)
Theorem C18_validated_same_never_drops_an_error :
  forall (A B : Type) (f : A -> option B) (is_empty : A -> bool),
    (forall gv gu a d, (gv = true -> gu = true) -> validator_accepts A B f is_empty gv a = true ->
                       use_result A B f is_empty gu a d <> None) /\
    (forall a d, is_empty a = true -> f a = None ->
                 validator_accepts A B f is_empty true a = true /\ use_result A B f is_empty false a d = None).
Proof.
  intros A B f is_empty. split.
  - intros gv gu a d. exact (same_function_never_drops A B f is_empty gv gu a d).
  - intros a d. exact (guarded_validator_unguarded_use_drops A B f is_empty a d).
Qed.
Print Assumptions C18_validated_same_never_drops_an_error.

(** The reviewed table itself is in step with the source: no row is stale; the Must wrappers wrap the functions the
    validators call; matchRegex and validateMatchRegex compile the same anchored expression (fix 4986535). *)
Theorem C18_every_dropped_error_is_reviewed :
  (forall s, In s all_sites -> site_ok s = true) /\
  (forall kd, In kd reviewed -> row_is_live kd = true) /\
  forallb must_pair_backed must_pairs = true /\
  forallb helper_validator_backed helper_validators = true.
Proof.
  split; [|split; [|split]].
  - exact (proj1 (forallb_forall _ _) all_sites_accounted).
  - exact (proj1 (forallb_forall _ _) no_stale_rows).
  - exact must_pairs_backed.
  - exact helper_validators_backed.
Qed.
Print Assumptions C18_every_dropped_error_is_reviewed.

(** The guard check has teeth: the two rows the review keeps in the zero-value class because they are validated only
    when non-empty but used unconditionally (cost.maxEvaluationDuration, report.severity — the shape of the repaired
    range_query.max defect 0b2762d) are REJECTED as [ValidatedSame] rows by the mechanical check, while the
    corresponding guarded use (alerts.range) is accepted. *)
Theorem C18_guard_check_rejects_unguarded_use :
  validator_covers {| ds_file := "internal/config/parsed_rule.go"; ds_func := "parseRule"; ds_kind := "dropped";
                      ds_callee := "parseDuration"; ds_args := "rule.Cost.MaxEvaluationDuration" |}
                   "CostSettings.validate" "parseDuration" "cs.MaxEvaluationDuration" = false /\
  validator_covers {| ds_file := "internal/config/report.go"; ds_func := "getSeverity"; ds_kind := "dropped";
                      ds_callee := "checks.ParseSeverity"; ds_args := "rs.Severity" |}
                   "ReportSettings.validate" "checks.ParseSeverity" "rs.Severity" = false /\
  validator_covers {| ds_file := "internal/config/parsed_rule.go"; ds_func := "parseRule"; ds_kind := "dropped";
                      ds_callee := "parseDuration"; ds_args := "rule.Alerts.Range" |}
                   "AlertsSettings.validate" "parseDuration" "as.Range" = true /\
  has_validator "CostSettings.validate" "parseDuration" "cs.MaxEvaluationDuration" false = true /\
  has_validator "ReportSettings.validate" "checks.ParseSeverity" "rs.Severity" false = true.
Proof. vm_compute. repeat split. Qed.
Print Assumptions C18_guard_check_rejects_unguarded_use.

(** The emptiness guards the block model uses ([build_kv]: key unconditional, token / value only when set;
    [build_aggregate]: only when the name is set; reject / name / link: unconditional) are the guards of the CURRENT
    parseRule, and the validator calls the model assumes ([validate_kv]: all three unconditional) are the current
    validator calls — read off the generated tables. *)
Theorem C18_block_model_matches_source :
  let site callee arg := {| ds_file := "internal/config/parsed_rule.go"; ds_func := "parseRule"; ds_kind := "must"; ds_callee := callee; ds_args := arg |} in
  guards_of (site "checks.MustTemplatedRegexp" "ann.Key") = [""] /\
  guards_of (site "checks.MustRawTemplatedRegexp" "ann.Token") = ["ann.Token != """""] /\
  guards_of (site "checks.MustTemplatedRegexp" "ann.Value") = ["ann.Value != """""] /\
  guards_of (site "checks.MustTemplatedRegexp" "lab.Key") = [""] /\
  guards_of (site "checks.MustRawTemplatedRegexp" "lab.Token") = ["lab.Token != """""] /\
  guards_of (site "checks.MustTemplatedRegexp" "lab.Value") = ["lab.Value != """""] /\
  guards_of (site "checks.MustTemplatedRegexp" "reject.Regex") = [""] /\
  guards_of (site "checks.MustTemplatedRegexp" "name.Regex") = [""] /\
  guards_of (site "checks.MustTemplatedRegexp" "link.Regex") = [""] /\
  guards_of (site "checks.MustTemplatedRegexp" "aggr.Name") = ["aggr.Name != """""] /\
  has_validator "AnnotationSettings.validate" "checks.NewTemplatedRegexp" "as.Key" true = true /\
  has_validator "AnnotationSettings.validate" "checks.NewRawTemplatedRegexp" "as.Token" true = true /\
  has_validator "AnnotationSettings.validate" "checks.NewTemplatedRegexp" "as.Value" true = true /\
  has_validator "RejectSettings.validate" "checks.NewTemplatedRegexp" "rs.Regex" true = true /\
  has_validator "RuleNameSettings.validate" "checks.NewTemplatedRegexp" "rs.Regex" true = true /\
  has_validator "RuleLinkSettings.validate" "checks.NewTemplatedRegexp" "s.Regex" true = true /\
  has_validator "AggregateSettings.validate" "checks.NewTemplatedRegexp" "ag.Name" true = true.
Proof. vm_compute. repeat split. Qed.
Print Assumptions C18_block_model_matches_source.

(* ---------------------------------------------------------------------------------------------- *)
(** * Part 3 — load-time validation reaches every block of the configuration schema

    For every `hcl:"<name>,block"` field of every struct of internal/config (35 in the current source; regenerated, so
    a NEW block breaks this theorem until its parent validates it): the block's type has a validate method, the
    parent's validate method (config.Load for the root) calls it on that field — for every element when the field
    is a list — and returns its error; and the parent is itself reachable from the root through such fields. *)
Theorem C18_validation_reaches_every_block : forall b, In b config_blocks ->
  block_reachable b = true /\
  In (cb_type b) validate_methods /\
  exists c, In c validate_calls /\ vc_owner c = cb_struct b /\ vc_field c = cb_field b /\
            vc_func c = validate_func_of (cb_struct b) /\ vc_error_returned c = true.
Proof.
  intros b Hin. split.
  - exact (proj1 (forallb_forall _ _) all_blocks_reachable b Hin).
  - apply block_validated_spec. exact (proj1 (forallb_forall _ _) all_blocks_validated b Hin).
Qed.
Print Assumptions C18_validation_reaches_every_block.

(** Every OPTION (non-block hcl field) of every block: its block has a validate method, and validate looks at the option
    (directly or through a method of the same type), or the option is a boolean, or it carries a reviewed reason why any
    value is acceptable; every reviewed reason names an existing option.  128 options in the current source, 34 reviewed
    (free-text comments, literal lists, display text, integers replaced by defaults, templates whose rendering goes
    through PrometheusConfig.validate, and the two options that ARE parsed later but never validated —
    match.keep_firing_for and gitlab.timeout — whose dropped error only yields a zero value).  A NEW option that
    validate does not look at breaks this theorem until it is reviewed.
    History: round 3 had prometheus.failover and prometheusQuery.uri among the reviewed options with the reason "a bad URI
    is a request error" — wrong (nil dereference in promapi.doRequest); since fix 6f3f221 both are looked at by
    validate (url.Parse) and have no row any more. *)
Theorem C18_every_option_is_validated_or_reviewed :
  (forall a, In a config_attrs ->
     In (ca_struct a) validate_methods /\
     (attr_mentioned a = true \/ ca_type a = "bool" \/ attr_reviewed a = true)) /\
  (forall r, In r unvalidated_attrs -> unvalidated_row_live r = true).
Proof.
  split.
  - intros a Hin. pose proof (proj1 (forallb_forall _ _) all_attrs_accounted a Hin) as H. unfold attr_ok in H.
    apply andb_true_iff in H. destruct H as [Hm H]. split; [apply mem_str_In; exact Hm|].
    apply orb_true_iff in H. destruct H as [H|H]; [|right; right; exact H].
    apply orb_true_iff in H. destruct H as [H|H]; [left; exact H | right; left; apply String.eqb_eq; exact H].
  - exact (proj1 (forallb_forall _ _) no_stale_attr_rows).
Qed.
Print Assumptions C18_every_option_is_validated_or_reviewed.

(** the two options of the repaired finding are now LOOKED AT by validate (regression guard for 6f3f221: if the
    validation is removed again this fails, in addition to the corpus witnesses crashing the binary) *)
Theorem C18_upstream_uris_are_validated :
  mem_pair "PrometheusConfig" "Failover" validate_mentions = true /\
  mem_pair "PrometheusConfig" "URI" validate_mentions = true /\
  mem_pair "PrometheusQuery" "URI" validate_mentions = true /\
  has_validator "PrometheusConfig.validate" "url.Parse" "pc.Failover[]" true = true /\
  has_validator "PrometheusQuery.validate" "url.Parse" "pq.URI" true = true.
Proof. vm_compute. repeat split. Qed.
Print Assumptions C18_upstream_uris_are_validated.

(** Non-vacuity: the tables are populated, contain validated rows of every mechanically checked kind, and the schema
    contains the rule-level blocks the property talks about. *)
Example C18_nonvacuous :
  Nat.leb 50 (List.length all_sites) = true /\ Nat.leb 40 (List.length validators) = true /\
  Nat.leb 30 (List.length config_blocks) = true /\ Nat.leb 80 (List.length site_guards) = true /\
  existsb (fun s => match disposition_of s with Some (ValidatedSame _ _ _) => negb (match guards_of s with [] => true | _ => false end) | _ => false end) all_sites = true /\
  existsb (fun s => match disposition_of s with Some (ValidatedSame _ _ _) => match guards_of s with [""] => true | _ => false end | _ => false end) all_sites = true /\
  existsb (fun b => String.eqb (cb_struct b) "Rule" && String.eqb (cb_hcl b) "annotation") config_blocks = true /\
  existsb (fun b => String.eqb (cb_struct b) "Match" && String.eqb (cb_hcl b) "label") config_blocks = true.
Proof. vm_compute. repeat split. Qed.
