(** C18 — An accepted configuration never crashes a later lint run.

    Part 1 (all behaviours of text/template and regexp): the TemplatedRegexp protocol — a pattern that load-time
    validation accepted is built by the same function and expanded by a total MustExpand, for every rule.
    Part 2 (finite, tables regenerated from the Go AST every run): every site where an error is dropped after load
    or a Must* helper is used is accounted for in the reviewed table — validated at load through the same function,
    harmless, rule data, ... — or listed as an open known finding.
    Three rows were crash sites when this check was built (link uri, match regexps validated bare, promql/regexp label
    name); they were repaired (457aa6b, 4986535, 4008951) and the full statement now holds.  The runtime remainder (that
    the harmless classes really are harmless, and crashes outside these sites) is covered by execution, not by proof. *)
From Coq Require Import List String Ascii Bool.
From PintV Require Import Common.Bytes Gen.Tables Gen.C18 Model.TemplatedRegexp Model.TemplatedRegexpSites
                          Proofs.C18_template Proofs.C18_sites.
Import ListNotations.
Open Scope string_scope.
Open Scope list_scope.

(* ---------------------------------------------------------------------------------------------- *)
(** * Part 1 — TemplatedRegexp *)

(** MustExpand is total (fix 7fc2b62): whatever the template engine and the regexp compiler do with the expanded
    text, it returns a regexp — provided the constant fallback pattern [^\s\S] compiles (tested on every run). *)
Theorem C18_must_expand_total :
  forall (Tmpl Re : Type) (tmpl_parse : string -> option Tmpl) (tmpl_exec : Tmpl -> tctx -> option string)
         (re_compile : string -> option Re),
  re_compile never_matching <> None ->
  forall t r, exists re, must_expand Tmpl Re tmpl_parse tmpl_exec re_compile t r = Ok re.
Proof. exact must_expand_total. Qed.
Print Assumptions C18_must_expand_total.

(** A templated pattern accepted at load (validate calls New(Raw)TemplatedRegexp on it) never crashes a check that
    was built from the same string with Must(Raw)TemplatedRegexp, on any rule. *)
Theorem C18_use_sites_total :
  forall (Tmpl Re : Type) (tmpl_parse : string -> option Tmpl) (tmpl_exec : Tmpl -> tctx -> option string)
         (re_compile : string -> option Re),
  re_compile never_matching <> None ->
  forall s r,
    (validate_templated Tmpl Re tmpl_parse tmpl_exec re_compile s = true ->
     exists re, use_site Tmpl Re tmpl_parse tmpl_exec re_compile (must_templated Tmpl Re tmpl_parse tmpl_exec re_compile s) r = Ok re) /\
    (validate_raw_templated Tmpl Re tmpl_parse tmpl_exec re_compile s = true ->
     exists re, use_site Tmpl Re tmpl_parse tmpl_exec re_compile (must_raw_templated Tmpl Re tmpl_parse tmpl_exec re_compile s) r = Ok re).
Proof.
  intros Tmpl Re tp te rc H s r. split; intro V.
  - exact (use_site_total Tmpl Re tp te rc H s r V).
  - exact (use_site_raw_total Tmpl Re tp te rc H s r V).
Qed.
Print Assumptions C18_use_sites_total.

(** Validation matters: the same use site on a string that validation would have rejected dereferences nil. *)
Theorem C18_unvalidated_pattern_crashes :
  forall (Tmpl Re : Type) (tmpl_parse : string -> option Tmpl) (tmpl_exec : Tmpl -> tctx -> option string)
         (re_compile : string -> option Re) s r,
  validate_templated Tmpl Re tmpl_parse tmpl_exec re_compile s = false ->
  exists w, use_site Tmpl Re tmpl_parse tmpl_exec re_compile (must_templated Tmpl Re tmpl_parse tmpl_exec re_compile s) r = Crash w.
Proof. exact unvalidated_crashes. Qed.
Print Assumptions C18_unvalidated_pattern_crashes.

(** Before fix 7fc2b62 totality held only for templates whose execution ignores the rule ... *)
Theorem C18_constant_templates_total_prefix :
  forall (Tmpl Re : Type) (tmpl_parse : string -> option Tmpl) (tmpl_exec : Tmpl -> tctx -> option string)
         (re_compile : string -> option Re) t,
  (forall tm c1 c2, tmpl_parse (aliases ++ t_anchored t)%string = Some tm -> tmpl_exec tm c1 = tmpl_exec tm c2) ->
  expand Tmpl Re tmpl_parse tmpl_exec re_compile t empty_rule <> None ->
  forall r, exists re, must_expand_prefix Tmpl Re tmpl_parse tmpl_exec re_compile t r = Ok re.
Proof. exact constant_templates_total_prefix. Qed.
Print Assumptions C18_constant_templates_total_prefix.

(** ... and failed otherwise: a library behaviour, an accepted pattern and a rule on which the pre-fix MustExpand
    crashes while the current one answers the never matching regexp (shape of the design witness
    value = "{{ $alert }}.*" with alert: "CPU [high"). *)
Theorem C18_prefix_protocol_refuted :
  validate_templated string string toy_parse toy_exec toy_compile "{{ $alert }}.*" = true /\
  exists t, must_templated string string toy_parse toy_exec toy_compile "{{ $alert }}.*" = Some t /\
            must_expand_prefix string string toy_parse toy_exec toy_compile t witness_rule = Crash "nil *regexp.Regexp dereferenced" /\
            must_expand string string toy_parse toy_exec toy_compile t witness_rule = Ok never_matching.
Proof. exact prefix_protocol_crashes. Qed.
Print Assumptions C18_prefix_protocol_refuted.

(* ---------------------------------------------------------------------------------------------- *)
(** * Part 2 — dropped-error sites of the current source *)

(** Every site of internal/config, internal/checks and cmd/pint where an error is dropped or a Must* helper gets a
    non-constant argument has a reviewed disposition; [ValidatedSame]/[ValidatedWrapped] dispositions are backed by a
    call in a validate() method of the CURRENT source (same function or its Must wrapper, same field, compatible
    guard); no reviewed row is stale; the Must wrappers wrap the functions the validators call; matchRegex
    and validateMatchRegex compile the same anchored expression (fix 4986535). *)
Theorem C18_every_dropped_error_is_reviewed :
  (forall s, In s all_sites -> site_ok s = true) /\
  (forall kd, In kd reviewed -> row_is_live kd = true) /\
  forallb must_pair_backed must_pairs = true /\
  forallb helper_validator_backed helper_validators = true.
Proof.
  split; [|split; [|split]].
  - exact (proj1 (forallb_forall _ _) all_sites_accounted).
  - exact (proj1 (forallb_forall _ _) no_stale_rows).
  - exact must_pairs_backed.
  - exact helper_validators_backed.
Qed.
Print Assumptions C18_every_dropped_error_is_reviewed.

(** what "accounted for" gives for the validated classes *)
Theorem C18_validated_sites_have_validators : forall s, In s all_sites ->
  exists d, disposition_of s = Some d /\
    match d with
    | ValidatedSame vf vc va g =>
        callee_compatible (ds_callee s) vc = true /\
        exists v, In v validators /\ v_func v = vf /\ v_callee v = vc /\ v_arg v = va /\ (g = false -> v_guard v = "")
    | ValidatedWrapped vf vc va _ =>
        exists v, In v validators /\ v_func v = vf /\ v_callee v = vc /\ v_arg v = va /\ v_guard v = ""
    | _ => True
    end.
Proof. intros s Hin. apply site_ok_spec. exact (proj1 (forallb_forall _ _) all_sites_accounted s Hin). Qed.
Print Assumptions C18_validated_sites_have_validators.

(** FULL statement: "no reviewed site is a crash site".  It is stated relative to the list of OPEN known findings
    [known_crash_findings] (Proofs/C18_sites.v, kept in step with known_findings.d/C18.json):
      - PARTIAL: a site classified as a crash site belongs to one of the open findings, and the crash rows are exactly them;
      - when the list is empty the full statement follows (C18_every_dropped_error_is_validated_when_no_open_finding);
      - while it is not empty the full statement is refuted by the row itself.
    History: link uri (457aa6b), match regexps validated bare (4986535), promql/regexp label name (4008951) were such rows
    and range_query { max = "" } (0b2762d; validated only when non-empty but parsed unguarded: a check without limit and
    without server whose String() dereferences nil) were such rows and are repaired; none is open now, so
    [C18_every_dropped_error_is_validated] below is the full statement. *)
Theorem C18_every_dropped_error_is_validated_partial : forall s, In s all_sites -> is_crash s = true ->
  exists f, disposition_of s = Some (CrashKnown f) /\ In f known_crash_findings.
Proof.
  intros s Hin Hc. unfold is_crash in Hc. destruct (disposition_of s) as [d|] eqn:D; [|discriminate].
  destruct d; try discriminate. exists finding. split; [reflexivity|].
  rewrite <- crash_rows_exactly. unfold crash_findings.
  apply in_flat_map. exists s. split; [exact Hin|]. rewrite D. left. reflexivity.
Qed.
Print Assumptions C18_every_dropped_error_is_validated_partial.

Theorem C18_crash_rows_are_exactly_the_open_findings : crash_findings = known_crash_findings.
Proof. exact crash_rows_exactly. Qed.
Print Assumptions C18_crash_rows_are_exactly_the_open_findings.

Theorem C18_every_dropped_error_is_validated_when_no_open_finding :
  known_crash_findings = [] ->
  forall s, In s all_sites -> exists d, disposition_of s = Some d /\ (forall f, d <> CrashKnown f).
Proof.
  intros Hnone s Hin. pose proof (proj1 (forallb_forall _ _) all_sites_accounted s Hin) as Hok.
  unfold site_ok in Hok. destruct (disposition_of s) as [d|] eqn:D; [|discriminate].
  exists d. split; [reflexivity|]. intros f E. subst d.
  assert (Hc : is_crash s = true) by (unfold is_crash; rewrite D; reflexivity).
  destruct (C18_every_dropped_error_is_validated_partial s Hin Hc) as [f' [_ Hf]]. rewrite Hnone in Hf. exact Hf.
Qed.
Print Assumptions C18_every_dropped_error_is_validated_when_no_open_finding.

(** no finding is open in the current source: the full statement *)
Theorem C18_every_dropped_error_is_validated :
  forall s, In s all_sites -> exists d, disposition_of s = Some d /\ (forall f, d <> CrashKnown f).
Proof. exact (C18_every_dropped_error_is_validated_when_no_open_finding eq_refl). Qed.
Print Assumptions C18_every_dropped_error_is_validated.

(** the full statement is false while a crash row exists *)
Theorem C18_every_dropped_error_is_validated_refuted :
  known_crash_findings <> [] -> exists s, In s all_sites /\ is_crash s = true.
Proof.
  intro Hne. destruct (existsb is_crash all_sites) eqn:E.
  - apply existsb_exists. exact E.
  - exfalso. apply Hne. rewrite <- crash_rows_exactly. unfold crash_findings.
    assert (F : forall l, existsb is_crash l = false ->
              flat_map (fun s => match disposition_of s with Some (CrashKnown f) => [f] | _ => [] end) l = []).
    { induction l as [|x l IH]; intro H; simpl; [reflexivity|]. simpl in H. apply orb_false_iff in H. destruct H as [Hx Hl].
      rewrite (IH Hl). unfold is_crash in Hx. destruct (disposition_of x) as [[]|]; try reflexivity. discriminate. }
    exact (F all_sites E).
Qed.
Print Assumptions C18_every_dropped_error_is_validated_refuted.

(** Non-vacuity: the tables are populated and contain validated rows. *)
Example C18_nonvacuous :
  Nat.leb 50 (List.length all_sites) = true /\ Nat.leb 40 (List.length validators) = true /\
  existsb (fun s => match disposition_of s with Some (ValidatedSame _ _ _ _) => true | _ => false end) all_sites = true.
Proof. vm_compute. repeat split. Qed.
