(** C17 — Pull-request commenting converges and is idempotent.

    [step pf store pending] = one run of updateDestination against a platform
    {is_equal; can_create; can_delete; create} whose comment store is [store]; it returns the store the next
    List will see and the log (Create calls with what was stored, comments refused by CanCreate, Delete calls).
    Generic theorems hold for EVERY platform satisfying law L1 on the pending list
        L1: create p = Some e -> is_equal e p = true
    (L2, "an existing comment equals pending comments of one key only", turned out not to be needed by any of
    the clauses; it is proved per platform for completeness).  Then L1/L2 are proved for the GitHub and GitLab
    models.  Only property theorems here; proofs in Proofs/C17_*.v. *)
From Coq Require Import List String ZArith NArith Bool Lia.
From PintV Require Import Common.Bytes Model.CommentsReconcile Model.Platforms.
From PintV Require Import Proofs.C17_reconcile Proofs.C17_grouping Proofs.C17_platforms.
From PintV Require Import Model.PlatformBitbucket Proofs.C17_bitbucket.
Import ListNotations.

Section Generic.
  Context {E P : Type}.
  Variable pf : platform E P.

  (** After a run every pending comment is IsEqual to a comment in the store, or was refused by CanCreate, or
      cannot be placed by the platform at all (Create answered errCommentSkipped and stored nothing); with budget m
      at most m comments are placed (skipped Create calls are not counted against the budget, fix 15e1a20). *)
  Theorem C17_covered_or_deferred : forall store pend m,
    L1 pf pend -> (forall k, can_create pf k = Nat.ltb k m) ->
    (forall p, In p pend ->
       covered_by pf (fst (step pf store pend)) p = true \/
       In p (l_deferred (snd (step pf store pend))) \/
       (In (p, None) (l_created (snd (step pf store pend))) /\ create pf p = None)) /\
    (List.length (stored (l_created (snd (step pf store pend)))) <= m)%nat.
  Proof.
    intros store pend m HL Hb. split; [now apply covered_or_deferred|now apply created_le_budget].
  Qed.

  (** No comment equal to one that already existed is created. *)
  Theorem C17_no_duplicate_creation : forall store pend p oe,
    In (p, oe) (l_created (snd (step pf store pend))) ->
    In p pend /\ forall e, In e store -> is_equal pf e p = false.
  Proof. exact (no_duplicate_creation pf). Qed.

  (** Deletable existing comments equal to no pending one are deleted and gone; all others (still corresponding
      to a problem, or not pint's to delete: foreign) stay; only such comments are ever deleted. *)
  Theorem C17_stale_removed : forall store pend e,
    In e store ->
    (stale pf pend e = true -> In e (l_deleted (snd (step pf store pend))) /\
                               ~ In e (filter (fun x => negb (stale pf pend x)) store)) /\
    (stale pf pend e = false -> In e (fst (step pf store pend)) /\ ~ In e (l_deleted (snd (step pf store pend)))) /\
    (forall d, In d (l_deleted (snd (step pf store pend))) ->
       In d store /\ can_delete pf d = true /\ forall p, In p pend -> is_equal pf d p = false).
  Proof.
    intros store pend e He. destruct (stale_removed pf store pend e He) as [A B].
    split; [exact A|]. split; [exact B|]. intros d Hd. now apply deleted_spec.
  Qed.

  (** Once no comment that could be placed is deferred, repeating the run with unchanged results stores nothing,
      deletes nothing and leaves the store unchanged - with NO side condition on skipped comments: what the
      platform cannot place is offered to Create again, skipped again, and never enters the store. *)
  Theorem C17_idempotent : forall store pend,
    L1 pf pend ->
    (forall p, In p (l_deferred (snd (step pf store pend))) -> create pf p = None) ->
    let store' := fst (step pf store pend) in
    fst (step pf store' pend) = store' /\
    stored (l_created (snd (step pf store' pend))) = [] /\
    l_deleted (snd (step pf store' pend)) = [] /\
    (forall p, In p (l_deferred (snd (step pf store' pend))) -> create pf p = None).
  Proof. exact (idempotent pf). Qed.

  (** With budget m and unchanged results: n = number of pending comments that are uncovered at the start AND can
      be placed by the platform ([todo]).  Run number k+1 defers no placeable comment as soon as (k+1)*m >= n
      (i.e. after ceil(n/m) runs), after it nothing is left to do, and after k runs at most n - k*m are left.
      No exception for paths outside the pull request: such comments are skipped for free (fix 15e1a20). *)
  Theorem C17_converges : forall m store pend k,
    L1 pf pend -> (forall j, can_create pf j = Nat.ltb j m) ->
    (List.length (todo pf store pend) <= S k * m)%nat ->
    (forall p, In p (l_deferred (snd (step pf (run_n pf k store pend) pend))) -> create pf p = None) /\
    todo pf (run_n pf (S k) store pend) pend = [] /\
    (List.length (todo pf (run_n pf k store pend) pend) <= List.length (todo pf store pend) - k * m)%nat.
  Proof.
    intros m store pend k HL Hb Hn. split; [now apply (converges pf m)|].
    split; [now apply (converged_todo_nil pf m)|now apply todo_after_runs].
  Qed.

  (** [todo = []] means what it should: every pending comment is covered or cannot be placed. *)
  Theorem C17_todo_nil_spec : forall store pend,
    todo pf store pend = [] <-> (forall p, In p pend -> covered_by pf store p = true \/ create pf p = None).
  Proof.
    intros store pend. unfold todo, placeable. split.
    - intros H p Hp. pose proof (filter_nil_forall _ _ H p Hp) as K. cbn beta in K.
      destruct (covered_by pf store p); [now left|]. destruct (create pf p); [discriminate|now right].
    - intros H. apply filter_none. intros p Hp. destruct (H p Hp) as [K|K]; rewrite K; [reflexivity|].
      now rewrite andb_false_r.
  Qed.
End Generic.
Print Assumptions C17_covered_or_deferred.
Print Assumptions C17_no_duplicate_creation.
Print Assumptions C17_stale_removed.
Print Assumptions C17_idempotent.
Print Assumptions C17_converges.
Print Assumptions C17_todo_nil_spec.

(** Problems of one check on the same lines share a comment: dedupReports yields non-empty groups uniform in
    (severity, reporter, target path, lines, anchor), exactly one group per such key, made only of reports that
    are considered (not hidden duplicates), and the group of a report's key carries its (summary, details). *)
Theorem C17_grouping : forall src show_dups,
  (forall g, In g (dedup_reports src show_dups) ->
     exists h t, g = h :: t /\ forall x, In x t -> gkey x = gkey h) /\
  NoDup (map ghk (dedup_reports src show_dups)) /\
  (forall g x, In g (dedup_reports src show_dups) -> In x g -> In x src /\ considered show_dups x) /\
  (forall r, In r src -> considered show_dups r ->
     exists g, In g (dedup_reports src show_dups) /\ ghk g = Some (gkey r) /\ exists x, In x g /\ same_msg x r) /\
  List.length (make_comments src show_dups) = List.length (dedup_reports src show_dups).
Proof.
  intros src sd. destruct (dedup_inv src sd) as (A & B & C & D).
  repeat (split; [assumption|]). rewrite make_comments_spec. apply map_length.
Qed.
Print Assumptions C17_grouping.

(** The comment is placed on the last modified line inside the problem's lines, else on its last line. *)
Theorem C17_comment_line : forall r,
  (In (comment_line r) (cr_modified r) /\ (cr_lfirst r <= comment_line r <= cr_llast r)%Z) \/ comment_line r = cr_llast r.
Proof. exact comment_line_spec. Qed.
Print Assumptions C17_comment_line.

(** Platform laws.  GitLab (after fix 38f6be7): every created discussion is recognised when listed back. *)
Theorem C17_gitlab_L1 : forall diffs p e,
  (0 < pc_line p)%Z -> pc_path p <> ""%string -> gl_create diffs p = Some e -> gl_is_equal e p = true.
Proof. exact gitlab_L1. Qed.
Print Assumptions C17_gitlab_L1.

Theorem C17_github_L1 : forall files p e, gh_create files p = Some e -> gh_is_equal files e p = true.
Proof. exact github_L1. Qed.
Print Assumptions C17_github_L1.

Theorem C17_platform_L2 :
  (forall e p p', gl_is_equal e p = true -> gl_is_equal e p' = true -> gl_key p = gl_key p') /\
  (forall files e p p', gh_is_equal files e p = true -> gh_is_equal files e p' = true -> gh_key files p = gh_key files p').
Proof. split; [exact gitlab_L2|exact github_L2]. Qed.
Print Assumptions C17_platform_L2.

(** Hence, for the platform models, with NO exception for paths outside the pull/merge request: a run that defers
    nothing placeable is a fixpoint of repeated runs, and with budget m run ceil(n/m) leaves nothing to do. *)
Theorem C17_gitlab_idempotent : forall diffs m store pend,
  (forall p, In p pend -> (0 < pc_line p)%Z /\ pc_path p <> ""%string) ->
  let pf := gitlab diffs m in
  (forall p, In p (l_deferred (snd (step pf store pend))) -> create pf p = None) ->
  let store' := fst (step pf store pend) in
  fst (step pf store' pend) = store' /\ stored (l_created (snd (step pf store' pend))) = [] /\
  l_deleted (snd (step pf store' pend)) = [].
Proof.
  intros diffs m store pend Hv pf Hd store'.
  destruct (idempotent pf store pend (gitlab_L1_list diffs m pend Hv) Hd) as (A & B & C & _). auto.
Qed.
Print Assumptions C17_gitlab_idempotent.

Theorem C17_github_idempotent : forall files m store pend,
  let pf := github files m in
  (forall p, In p (l_deferred (snd (step pf store pend))) -> create pf p = None) ->
  let store' := fst (step pf store pend) in
  fst (step pf store' pend) = store' /\ stored (l_created (snd (step pf store' pend))) = [] /\
  l_deleted (snd (step pf store' pend)) = [].
Proof.
  intros files m store pend pf Hd store'.
  destruct (idempotent pf store pend (github_L1_list files m pend) Hd) as (A & B & C & _). auto.
Qed.
Print Assumptions C17_github_idempotent.

Theorem C17_platforms_converge :
  (forall files m store pend k,
     (List.length (todo (github files m) store pend) <= S k * m)%nat ->
     forall p, In p pend ->
       covered_by (github files m) (run_n (github files m) (S k) store pend) p = true \/ gh_create files p = None) /\
  (forall diffs m store pend k,
     (forall p, In p pend -> (0 < pc_line p)%Z /\ pc_path p <> ""%string) ->
     (List.length (todo (gitlab diffs m) store pend) <= S k * m)%nat ->
     forall p, In p pend ->
       covered_by (gitlab diffs m) (run_n (gitlab diffs m) (S k) store pend) p = true \/ gl_create diffs p = None).
Proof.
  split.
  - intros files m store pend k Hn.
    apply (proj1 (C17_todo_nil_spec (github files m) _ pend)).
    apply (converged_todo_nil (github files m) m); auto. apply github_L1_list.
  - intros diffs m store pend k Hv Hn.
    apply (proj1 (C17_todo_nil_spec (gitlab diffs m) _ pend)).
    apply (converged_todo_nil (gitlab diffs m) m); auto. now apply gitlab_L1_list.
Qed.
Print Assumptions C17_platforms_converge.

(** The same over the SERVER's state (all discussions / comments the API holds, including other people's, system
    and general notes): List's filter is part of the platform.  L1 holds; what List does not show is never recognised
    as covering a problem, never deleted and still there after the run; GitHub never deletes anything; and the
    generic theorems (covered-or-deferred, no duplicates, stale removed, idempotent, converges) apply verbatim. *)
Theorem C17_server_platforms_L1 :
  (forall diffs m pend, (forall p, In p pend -> (0 < pc_line p)%Z /\ pc_path p <> ""%string) -> L1 (gitlab_srv diffs m) pend) /\
  (forall files m pend, (forall p, In p pend -> pc_path p <> ""%string) -> L1 (github_srv files m) pend).
Proof. split; [exact gitlab_srv_L1_list|exact github_srv_L1_list]. Qed.
Print Assumptions C17_server_platforms_L1.

Theorem C17_foreign_untouched :
  (forall diffs m store pend n, In n store -> gl_view n = None ->
     In n (fst (step (gitlab_srv diffs m) store pend)) /\
     ~ In n (l_deleted (snd (step (gitlab_srv diffs m) store pend))) /\
     forall p, In p pend -> is_equal (gitlab_srv diffs m) n p = false) /\
  (forall files m store pend c, In c store ->
     In c (fst (step (github_srv files m) store pend)) /\ l_deleted (snd (step (github_srv files m) store pend)) = []).
Proof.
  split.
  - intros diffs m store pend n Hin Hv. apply invisible_untouched; auto; cbn [is_equal can_delete gitlab_srv]; now rewrite Hv.
  - intros files m store pend c Hin.
    destruct (stale_removed (github_srv files m) store pend c Hin) as [_ B].
    assert (Hs : forall x, stale (github_srv files m) pend x = false) by (intros x; unfold stale; cbn [can_delete github_srv]; apply andb_false_r).
    split; [apply B, Hs|]. unfold step. destruct (create_phase _ _ _ _) as [c0 d0]. cbn [snd l_deleted].
    apply filter_none. intros x _. apply Hs.
Qed.
Print Assumptions C17_foreign_untouched.

Theorem C17_server_platforms_converge :
  (forall diffs m store pend k,
     (forall p, In p pend -> (0 < pc_line p)%Z /\ pc_path p <> ""%string) ->
     (List.length (todo (gitlab_srv diffs m) store pend) <= S k * m)%nat ->
     todo (gitlab_srv diffs m) (run_n (gitlab_srv diffs m) (S k) store pend) pend = [] /\
     let s' := run_n (gitlab_srv diffs m) (S k) store pend in
     fst (step (gitlab_srv diffs m) s' pend) = s' /\ stored (l_created (snd (step (gitlab_srv diffs m) s' pend))) = [] /\
     l_deleted (snd (step (gitlab_srv diffs m) s' pend)) = []) /\
  (forall files m store pend k,
     (forall p, In p pend -> pc_path p <> ""%string) ->
     (List.length (todo (github_srv files m) store pend) <= S k * m)%nat ->
     todo (github_srv files m) (run_n (github_srv files m) (S k) store pend) pend = [] /\
     let s' := run_n (github_srv files m) (S k) store pend in
     fst (step (github_srv files m) s' pend) = s' /\ stored (l_created (snd (step (github_srv files m) s' pend))) = []).
Proof.
  split.
  - intros diffs m store pend k Hv Hn. pose proof (gitlab_srv_L1_list diffs m pend Hv) as HL.
    split; [apply (converged_todo_nil _ m); auto|]. cbn zeta.
    change (run_n (gitlab_srv diffs m) (S k) store pend)
      with (run_n (gitlab_srv diffs m) k (fst (step (gitlab_srv diffs m) store pend)) pend).
    rewrite <- (run_n_snoc (gitlab_srv diffs m) k store pend).
    destruct (idempotent (gitlab_srv diffs m) (run_n (gitlab_srv diffs m) k store pend) pend HL
                (converges (gitlab_srv diffs m) m store pend k HL (fun _ => eq_refl) Hn)) as (A & B & C & _). auto.
  - intros files m store pend k Hv Hn. pose proof (github_srv_L1_list files m pend Hv) as HL.
    split; [apply (converged_todo_nil _ m); auto|]. cbn zeta.
    change (run_n (github_srv files m) (S k) store pend)
      with (run_n (github_srv files m) k (fst (step (github_srv files m) store pend)) pend).
    rewrite <- (run_n_snoc (github_srv files m) k store pend).
    destruct (idempotent (github_srv files m) (run_n (github_srv files m) k store pend) pend HL
                (converges (github_srv files m) m store pend k HL (fun _ => eq_refl) Hn)) as (A & B & _). auto.
Qed.
Print Assumptions C17_server_platforms_converge.

(* ---- refutations ---------------------------------------------------------------------------------- *)

Definition witness_diff : string := "@@ -3,7 +3,5 @@
 context 3
 context 4
 context 5
-removed 6
-removed 7
 context 8
 context 9
".
Definition witness_pending : pcomment :=
  {| pc_path := "rules/a.yml"; pc_line := 7; pc_anchor_before := true; pc_text := "dependency" |}.
Definition witness_diffs := [{| gd_old_path := "rules/a.yml"; gd_new_path := "rules/a.yml"; gd_diff := witness_diff |}].

(** Before fix 38f6be7 L1 was false for comments on removed lines (design-session witness: lines 6-7 removed,
    comment for old line 7 posted at old_line 9), and the run was not idempotent: the second run with unchanged
    results creates the comment again and deletes the first one.  With the fix the same input is a fixpoint. *)
Theorem C17_gitlab_prefix_L1_refuted :
  (exists e, create (gitlab_prefix witness_diffs 50) witness_pending = Some e /\ gl_is_equal e witness_pending = false) /\
  (let pf := gitlab_prefix witness_diffs 50 in
   let s1 := fst (step pf [] [witness_pending]) in
   l_deferred (snd (step pf [] [witness_pending])) = [] /\
   List.length (l_created (snd (step pf s1 [witness_pending]))) = 1%nat /\
   List.length (l_deleted (snd (step pf s1 [witness_pending]))) = 1%nat) /\
  (let pf := gitlab witness_diffs 50 in
   let s1 := fst (step pf [] [witness_pending]) in
   step pf s1 [witness_pending] = (s1, {| l_created := []; l_deferred := []; l_deleted := [] |})).
Proof.
  split; [eexists; split; vm_compute; reflexivity|]. split; vm_compute; auto.
Qed.
Print Assumptions C17_gitlab_prefix_L1_refuted.

(** Before fix 15e1a20 a comment that Create skipped (path outside the pull request) was counted against the
    budget; when such comments came first they starved the others.  [step_prefix] is that accounting: with
    maxComments = 1 the second comment below is never posted however often the run is repeated.  With the current
    accounting ([step]) the very same input converges in one run and is a fixpoint afterwards. *)
Definition gh_witness_files : gh_files := [("rules/a.yml", "@@ -1,1 +1,2 @@
 ctx
+new
")]%string.
Definition gh_witness_pending : list pcomment :=
  [{| pc_path := "rules/not-in-pr.yml"; pc_line := 2; pc_anchor_before := false; pc_text := "first" |};
   {| pc_path := "rules/a.yml"; pc_line := 2; pc_anchor_before := false; pc_text := "second" |}]%string.

Theorem C17_counting_skips_starves_refuted :
  let pf := github gh_witness_files 1 in
  (forall k, run_n_prefix pf k [] gh_witness_pending = [] /\
             List.length (l_deferred (snd (step_prefix pf (run_n_prefix pf k [] gh_witness_pending) gh_witness_pending))) = 1%nat) /\
  (let '(s1, l1) := step pf [] gh_witness_pending in
   List.length s1 = 1%nat /\ l_deferred l1 = [] /\ todo pf s1 gh_witness_pending = [] /\
   fst (step pf s1 gh_witness_pending) = s1).
Proof.
  intros pf. split; [|vm_compute; repeat split].
  assert (H : forall k, run_n_prefix pf k [] gh_witness_pending = []).
  { induction k as [|k IH]; [reflexivity|]. cbn [run_n_prefix].
    replace (fst (step_prefix pf [] gh_witness_pending)) with (@nil ecomment) by (vm_compute; reflexivity).
    exact IH. }
  intros k. split; [apply H|]. rewrite H. vm_compute. reflexivity.
Qed.
Print Assumptions C17_counting_skips_starves_refuted.

(* ---- BitBucket ------------------------------------------------------------------------------------ *)

(** BitBucket has its own reconciliation (bitbucket_api.go: limitComments, pruneComments, addComments; not a Commenter).
    Under the echo assumption and with no comment anchored to a COMMIT diff in pint's view: after a run every pending
    comment (after the limit) has an equal comment; nothing equal to an existing comment is posted; exactly the
    comments equal to no pending one are pruned (deleted / resolved) and the others stay; and repeating the run with the
    same pending list prunes nothing, posts nothing and leaves the view unchanged. *)
Theorem C17_bitbucket_reconcile : forall id id' ex pend,
  no_commit ex -> (forall p, In p pend -> String.eqb (ba_diff_type (bp_anchor p)) "COMMIT" = false) ->
  (forall p, In p pend -> exists e, In e (bb_run id ex pend) /\ bb_equal e p = true) /\
  (forall p, In p (bb_add ex pend) -> In p pend /\ forall e, In e ex -> bb_equal e p = false) /\
  (forall e, In e ex ->
     (bb_keep pend e = false -> In (be_id e) (map fst (bb_prune ex pend)) /\ ~ In e (filter (bb_keep pend) ex)) /\
     (bb_keep pend e = true -> In e (bb_run id ex pend))) /\
  (let ex' := bb_run id ex pend in bb_prune ex' pend = [] /\ bb_add ex' pend = [] /\ bb_run id' ex' pend = ex').
Proof.
  intros id id' ex pend NC NP. split; [intros p Hp; now apply bb_covered|].
  split; [intros p Hp; now apply bb_no_duplicate|]. split; [intros e He; now apply bb_stale|].
  now apply bb_idempotent.
Qed.
Print Assumptions C17_bitbucket_reconcile.

Definition bb_p (line : Z) (text : string) : bb_pending :=
  {| bp_anchor := {| ba_path := "a.yml"; ba_line := line; ba_line_type := "ADDED"; ba_diff_type := "EFFECTIVE" |};
     bp_file_type := "TO"; bp_text := text; bp_severity := "NORMAL" |}.

(** Two places where BitBucket's code does NOT have C17's shape (observations; bitbucket_api.go is outside the property's
    anchors): (1) limitComments is a hard cap - with maxComments = 1 the second of three problems never gets a comment,
    whatever is already there and however often the run is repeated (nothing "waits for a later run"); (2) addComments
    resets its flag on any comment anchored to a COMMIT diff: with such a comment after the equal one in pint's view a
    comment equal to an existing one is posted again (two equal comments afterwards). *)
Theorem C17_bitbucket_deviations_refuted :
  (let lim := bb_limit 1 "too many" [bb_p 1 "one"; bb_p 2 "two"; bb_p 3 "three"] in
   List.length lim = 2%nat /\
   forall id ex, (forall e, In e ex -> bb_equal e (bb_p 2 "two") = false) ->
                 forall e, In e (bb_run id ex lim) -> bb_equal e (bb_p 2 "two") = false) /\
  (let p := bb_p 1 "one" in
   let commit := {| be_id := 9; be_anchor := {| ba_path := "a.yml"; ba_line := 5; ba_line_type := "CONTEXT"; ba_diff_type := "COMMIT" |};
                    be_text := "on a commit"; be_severity := "NORMAL"; be_replies := 0 |} in
   let ex := [bb_posted 1 p; commit] in
   bb_add ex [p] = [p] /\
   List.length (filter (fun e => bb_equal e p) (bb_run 2 ex [p])) = 2%nat).
Proof.
  split.
  - cbn zeta. split; [reflexivity|]. intros id ex H e He. unfold bb_run in He. apply in_app_or in He. destruct He as [He|He].
    + apply filter_In in He. apply H. tauto.
    + apply number_from_in in He. destruct He as (i & p & Hp & ->). unfold bb_add in Hp. apply filter_In in Hp. destruct Hp as [Hp _].
      vm_compute in Hp. destruct Hp as [<-|[<-|[]]]; reflexivity.
  - vm_compute. repeat split.
Qed.
Print Assumptions C17_bitbucket_deviations_refuted.

(** Non-vacuity: a concrete GitLab run with budget 1 over two problems, a stale and a foreign-looking comment:
    run 1 creates one and deletes the stale one, run 2 creates the other, run 3 does nothing. *)
Example C17_nonvacuous :
  let pf := gitlab witness_diffs 1 in
  let p2 := {| pc_path := "rules/a.yml"; pc_line := 4; pc_anchor_before := false; pc_text := "other" |} in
  let pend := [witness_pending; p2] in
  let stale_c := {| ec_path := "rules/a.yml"; ec_line := 1; ec_text := "gone" |} in
  let '(s1, l1) := step pf [stale_c] pend in
  let '(s2, l2) := step pf s1 pend in
  let '(s3, l3) := step pf s2 pend in
  (List.length (l_created l1), List.length (l_deferred l1), List.length (l_deleted l1)) = (1, 1, 1)%nat /\
  (List.length (l_created l2), List.length (l_deferred l2), List.length (l_deleted l2)) = (1, 0, 0)%nat /\
  l3 = {| l_created := []; l_deferred := []; l_deleted := [] |} /\ s3 = s2 /\ List.length s2 = 2%nat /\
  List.length (todo pf [stale_c] pend) = 2%nat /\ todo pf s2 pend = [].
Proof. vm_compute. repeat split. Qed.
Print Assumptions C17_nonvacuous.
