(** C16 — promql/series verdicts agree with what the server actually holds.

    The model (Model/Series.v) computes, for every selector that SeriesCheck.Check examines, the problems it
    emits as a function of the database the server holds.  Theorems are universally quantified over the
    database, the regexp semantics [re] (no property of it is assumed), the clock, the settings, the rule
    set and the selector list.  The documented carve-outs are visible premises:
      - the statements are about *checked* selectors (elements of getNonFallbackSelectors; `... or vector(0)`
        fallbacks are not checked at all);
      - ALERTS / ALERTS_FOR_STATE selectors are answered from the rule set, never from the server;
      - disable/snooze comments, ignoreMetrics, recording rules of the checked set, and
        ignoreMatchingElsewhere (which needs another server) exempt a selector from the Bug. *)
From Coq Require Import List String ZArith NArith Bool Lia.
From PintV Require Import Common.Bytes Common.GoTime Model.Range Model.RangeRef Model.Series Proofs.C16_series.
Import ListNotations.
Open Scope Z_scope.

(** Shape of the verdict list: one entry per distinct selector text, every checked selector has an entry,
    and an entry is computed from the first selector with that text. *)
Theorem C16_one_verdict_per_selector : forall re d others now st rules sels,
  NoDup (map fst (check re d others now st rules sels)) /\
  (forall s, In s sels -> In (vs_str s) (map fst (check re d others now st rules sels))) /\
  (forall k o, In (k, o) (check re d others now st rules sels) ->
     exists pre s post, sels = (pre ++ s :: post)%list /\ vs_str s = k /\
       (forall s', In s' pre -> vs_str s' <> k) /\ o = check_selector re d others now st rules s).
Proof.
  intros. split; [apply check_all_nodup|]. split.
  - intros s Hs. apply check_all_covers; [exact Hs|intros []].
  - intros k o H. apply (check_all_entry re d others now st rules sels [] k o H).
Qed.
Print Assumptions C16_one_verdict_per_selector.

(** (a) A selector for which an instant query returns series NOW gets no problem at all (the tree stops at
    step 1), whatever the history, the other servers, the rules and the settings. *)
Theorem C16_present_not_missing : forall re d others now st rules sels k o,
  In (k, o) (check re d others now st rules sels) ->
  exists s, In s sels /\ vs_str s = k /\ o = check_selector re d others now st rules s /\
    (is_alerts s = false ->
     instant_match re d now (vs_matchers s) <> [] ->
     o = Decided []).
Proof.
  intros re d others now st rules sels k o H.
  destruct (check_all_entry re d others now st rules sels [] k o H) as [_ [pre [s [post [Hs [Hk [_ Ho]]]]]]].
  exists s. split; [subst sels; apply in_or_app; right; left; reflexivity|]. split; [exact Hk|]. split; [exact Ho|].
  intros Ha Hp. rewrite Ho. apply present_decided; assumption.
Qed.
Print Assumptions C16_present_not_missing.

(** (b) A checked selector whose metric (the bare selector: only its __name__ matchers) matches no series at
    any instant the lookback probe evaluates, nor now, for which no recording rule of the checked set is
    named like the bare selector, which is not exempted by a disable/snooze comment nor by ignoreMetrics, and
    with no other server to consult (or no ignoreMatchingElsewhere), gets exactly one problem:
    "query on nonexistent series" with severity Bug. *)
Theorem C16_never_there_is_bug : forall re d others now st rules sels k o,
  In (k, o) (check re d others now st rules sels) ->
  exists s, In s sels /\ vs_str s = k /\ o = check_selector re d others now st rules s /\
    (vs_disabled s = false -> vs_snoozed s = false -> is_alerts s = false ->
     vs_bare_str s <> EmptyString -> 0 <= set_step st ->
     (forall t, In t (probe_points now st) \/ t = now ->
                instant_match re d t (bare_matchers (vs_matchers s)) = []) ->
     has_recording rules (vs_bare_str s) = false ->
     mem_str (vs_bare_str s) (set_ignored st) = false ->
     (others = [] \/ set_ignore_elsewhere st = []) ->
     o = Decided [(summary_nonexistent, Bug)]).
Proof.
  intros re d others now st rules sels k o H.
  destruct (check_all_entry re d others now st rules sels [] k o H) as [_ [pre [s [post [Hs [Hk [_ Ho]]]]]]].
  exists s. split; [subst sels; apply in_or_app; right; left; reflexivity|]. split; [exact Hk|]. split; [exact Ho|].
  intros. rewrite Ho. apply never_there_bug; assumption.
Qed.
Print Assumptions C16_never_there_is_bug.

(** The ALERTS carve-out, stated rather than hidden: an ALERTS{alertname="X"} selector with no alerting rule X
    in the checked set is a Bug "unknown alert referenced" whatever the server holds — even when the
    server currently returns such series. *)
Theorem C16_alerts_answered_from_rules : forall re d others now st rules s,
  vs_disabled s = false -> vs_snoozed s = false -> is_alerts s = true ->
  alertname_of s <> EmptyString -> has_alerting rules (alertname_of s) = false ->
  check_selector re d others now st rules s = Decided [(summary_unknown_alert, Bug)].
Proof.
  intros re d others now st rules s Hd Hz Ha Hn Hr. unfold check_selector. rewrite Hd, Hz, Ha. cbn [orb].
  destruct (String.eqb (alertname_of s) "") eqn:E; [apply String.eqb_eq in E; contradiction|].
  rewrite Hr. reflexivity.
Qed.
Print Assumptions C16_alerts_answered_from_rules.

(** Non-vacuity: a concrete database where both situations occur (premises satisfiable, conclusions computed). *)
Example C16_nonvacuous :
  let re := fun _ _ : string => false in
  let now := 1700000000000000000 in
  let st := mkSet (4 * hour) (5 * minute) [] [] in
  let present := mkTS [("__name__", "m0"); ("job", "a")]%string [(now - 10 * hour, now + hour)] in
  let s0 := mkSel "m0" "m0" "m0" [mkM MEq "__name__" "m0"] false false in
  let s1 := mkSel "m1{job=""a""}" "m1" "m1" [mkM MEq "__name__" "m1"; mkM MEq "job" "a"] false false in
  check re [present] [] now st [] [s0; s1] =
    [("m0"%string, Decided []); ("m1{job=""a""}"%string, Decided [(summary_nonexistent, Bug)])]
  /\ instant_match re [present] now (vs_matchers s0) <> []
  /\ (forall t, instant_match re [present] t (bare_matchers (vs_matchers s1)) = []).
Proof.
  cbv zeta. split; [vm_compute; reflexivity|]. split; [vm_compute; discriminate|].
  intro t. unfold instant_match. cbn [filter map]. reflexivity.
Qed.
Print Assumptions C16_nonvacuous.
