(** C16 — promql/series verdicts agree with what the server actually holds.

    The model (Model/Series.v) computes, for every selector that SeriesCheck.Check examines, the problems it
    emits as a function of the database the server holds.  Theorems are universally quantified over the
    database, the regexp semantics [re] (no property of it is assumed), the clock, the settings, the rule
    set and the selector list.  The documented carve-outs are visible premises:
      - the statements are about *checked* selectors (elements of getNonFallbackSelectors; `... or vector(0)`
        fallbacks are not checked at all);
      - ALERTS / ALERTS_FOR_STATE selectors are answered from the rule set, never from the server;
      - disable/snooze comments, ignoreMetrics, recording rules of the checked set, and
        ignoreMatchingElsewhere (which needs another server) exempt a selector from the Bug. *)
From Coq Require Import List String ZArith NArith Bool Lia.
From PintV Require Import Common.Bytes Common.GoTime Model.Range Model.RangeRef Model.Series Proofs.C16_series
  Model.SeriesSelectors Proofs.C16_selectors.
Import ListNotations.
Open Scope Z_scope.

(** Shape of the verdict list: one entry per distinct selector text, every checked selector has an entry,
    and an entry is computed from the first selector with that text ([verdict]: the decision tree of that
    selector, given what is known about the accumulated problem list at its turn). *)
Theorem C16_one_verdict_per_selector : forall re d others now st rules sels,
  NoDup (map fst (check re d others now st rules sels)) /\
  (forall s, In s sels -> In (vs_str s) (map fst (check re d others now st rules sels))) /\
  (forall k o, In (k, o) (check re d others now st rules sels) ->
     exists pre s post p, sels = (pre ++ s :: post)%list /\ vs_str s = k /\
       (forall s', In s' pre -> vs_str s' <> k) /\ o = verdict re d others now st rules p s).
Proof.
  intros. split; [apply check_all_nodup|]. split.
  - intros s Hs. apply check_all_covers; [exact Hs|intros []].
  - intros k o H. apply (check_all_entry re d others now st rules sels [] (Some false) k o H).
Qed.
Print Assumptions C16_one_verdict_per_selector.

(** (a) A selector for which an instant query returns series NOW gets no problem at all (the tree stops at
    step 1), whatever the history, the other servers, the rules, the settings and the problems reported for
    other selectors.  "Now" is the server's clock when the probe arrives: the probe carries no time parameter
    ([instant_request], compared with the requests pint really sends on every run). *)
Theorem C16_present_not_missing : forall re d others now st rules sels k o,
  In (k, o) (check re d others now st rules sels) ->
  exists s p, In s sels /\ vs_str s = k /\ o = verdict re d others now st rules p s /\
    (is_alerts s = false ->
     instant_match re d (eval_time now instant_request) (vs_matchers s) <> [] ->
     o = Decided []).
Proof.
  intros re d others now st rules sels k o H.
  destruct (check_all_entry re d others now st rules sels [] _ k o H) as [_ [pre [s [post [p [Hs [Hk [_ Ho]]]]]]]].
  exists s, p. split; [subst sels; apply in_or_app; right; left; reflexivity|]. split; [exact Hk|]. split; [exact Ho|].
  intros Ha Hp. rewrite Ho. apply verdict_const; [|reflexivity]. intro b. apply present_decided; assumption.
Qed.
Print Assumptions C16_present_not_missing.

(** (b) A checked selector whose metric (the bare selector: only its __name__ matchers) matches no series at
    any instant the lookback probe evaluates, nor now, for which no recording rule of the checked set is
    named like the bare selector, which is not exempted by a disable/snooze comment nor by ignoreMetrics, and
    with no other server to consult (or no ignoreMatchingElsewhere), gets exactly one problem:
    "query on nonexistent series" with severity Bug - whatever was reported for other selectors. *)
Theorem C16_never_there_is_bug : forall re d others now st rules sels k o,
  In (k, o) (check re d others now st rules sels) ->
  exists s p, In s sels /\ vs_str s = k /\ o = verdict re d others now st rules p s /\
    (vs_disabled s = false -> vs_snoozed s = false -> is_alerts s = false ->
     vs_bare_str s <> EmptyString -> 0 <= set_step st ->
     (forall t, In t (probe_points now st) \/ t = now ->
                instant_match re d t (bare_matchers (vs_matchers s)) = []) ->
     has_recording rules (vs_bare_str s) = false ->
     mem_str (vs_bare_str s) (set_ignored st) = false ->
     (others = [] \/ set_ignore_elsewhere st = []) ->
     o = Decided [(summary_nonexistent, Bug)]).
Proof.
  intros re d others now st rules sels k o H.
  destruct (check_all_entry re d others now st rules sels [] _ k o H) as [_ [pre [s [post [p [Hs [Hk [_ Ho]]]]]]]].
  exists s, p. split; [subst sels; apply in_or_app; right; left; reflexivity|]. split; [exact Hk|]. split; [exact Ho|].
  intros. rewrite Ho. apply verdict_const; [|reflexivity]. intro b. apply never_there_bug; assumption.
Qed.
Print Assumptions C16_never_there_is_bug.

(** Only rules of the right KIND count as producers: an alerting rule named like the metric does not produce it
    ([has_recording] looks at recording rules only), a recording rule named like an alert does not produce
    ALERTS{alertname=...} ([has_alerting] looks at alerting rules only). *)
Theorem C16_rule_kind_matters : forall n rules,
  (forall r, In r rules -> ri_name r = n -> ri_recording r = false) -> has_recording rules n = false.
Proof.
  intros n rules H. unfold has_recording. induction rules as [|r rs IH]; [reflexivity|]. cbn [existsb].
  rewrite IH by (intros r' Hr'; apply H; right; exact Hr'). rewrite orb_false_r.
  destruct (String.eqb (ri_name r) n) eqn:E; [|rewrite !andb_false_r; reflexivity].
  apply String.eqb_eq in E. rewrite (H r (or_introl eq_refl) E). reflexivity.
Qed.
Print Assumptions C16_rule_kind_matters.

(** The ALERTS carve-out, stated rather than hidden: an ALERTS{alertname="X"} selector with no alerting rule X
    in the checked set is a Bug "unknown alert referenced" whatever the server holds - even when the
    server currently returns such series, and even when a RECORDING rule is named X. *)
Theorem C16_alerts_answered_from_rules : forall re d others now st rules b s,
  vs_disabled s = false -> vs_snoozed s = false -> is_alerts s = true ->
  alertname_of s <> EmptyString -> has_alerting rules (alertname_of s) = false ->
  check_selector re d others now st rules b s = Decided [(summary_unknown_alert, Bug)].
Proof.
  intros re d others now st rules b s Hd Hz Ha Hn Hr. unfold check_selector. rewrite Hd, Hz, Ha. cbn [orb].
  destruct (String.eqb (alertname_of s) "") eqn:E; [apply String.eqb_eq in E; contradiction|].
  rewrite Hr. reflexivity.
Qed.
Print Assumptions C16_alerts_answered_from_rules.

(** * The probe instants are pinned

    What pint asks for is part of the model: the instant probe has no time parameter (evaluated at the server's
    now), the range probes are the slices of [now - lookbackRange, now] with step lookbackStep.  The verdict
    list is a function of the database restricted to those instants: two databases that answer every selector
    alike at [now] and at every point of the range grid get the same verdicts - for the whole decision tree,
    steps 0-8.  (So a change of the evaluation instants - e.g. an instant probe evaluated at a truncated time -
    is a change of this model and of the theorems below, and is caught by the request correspondence.) *)
Theorem C16_verdict_reflects_database_at_probe_instants : forall re d d' others now st rules sels,
  (forall t ms, In t (probe_points now st) \/ t = eval_time now instant_request ->
                instant_match re d t ms = instant_match re d' t ms) ->
  check re d others now st rules sels = check re d' others now st rules sels.
Proof.
  intros re d d' others now st rules sels H. unfold check.
  apply (check_all_agree re now st d d'). unfold agree. intros t ms Ht. apply H.
  destruct Ht as [Ht|Ht]; [left; exact Ht|right; exact Ht].
Qed.
Print Assumptions C16_verdict_reflects_database_at_probe_instants.

(** the instants of the range probes: the evaluation grids of the requests [range_requests] *)
Theorem C16_probe_instants : forall now st t,
  In t (probe_points now st) <->
  exists rs r, range_requests now st = Some rs /\ In r rs /\ rq_step r = set_step st /\
               In t (grid_between (rq_start r) (rq_end r) (set_step st)).
Proof.
  intros now st t. unfold probe_points. split.
  - intro H. destruct (range_requests now st) as [rs|] eqn:E; [|contradiction].
    apply in_flat_map in H. destruct H as [r [Hr Ht]]. exists rs, r.
    assert (rq_step r = set_step st) as Es.
    { unfold range_requests, range_requests_for in E. destruct (query_slices _ _ _ _ _); [|discriminate].
      inversion E; subst rs. apply in_map_iff in Hr. destruct Hr as [x [Hx _]]. subst r. reflexivity. }
    split; [reflexivity|]. split; [exact Hr|]. split; [exact Es|]. rewrite <- Es. exact Ht.
  - intros [rs [r [E [Hr [Es Ht]]]]]. rewrite E. apply in_flat_map. exists r. split; [exact Hr|]. rewrite Es. exact Ht.
Qed.
Print Assumptions C16_probe_instants.

(** Every range probe returns exactly the runs of ONE evaluation of its expression on the grid
    first slice start, + step, ... <= now, with the first slice start at or before now - lookbackRange:
    slicing is invisible (C13's headline theorem applied to the requests pint really makes). *)
Theorem C16_range_probe_is_unsliced_runs : forall now st pres,
  sec <= set_step st -> set_step st <= max_int64 - 2 * hour ->
  exists a, a <= now - set_lookback st /\
    range_probe_pres now st pres = Some (runs_of count_fp (set_step st) pres a now).
Proof.
  intros now st pres Hs Hm. destruct (range_probe_pres_runs now st pres Hs Hm) as [sl [_ [Ha E]]].
  exists (C13_grid.first_start sl (now - set_lookback st)). split; [exact Ha|exact E].
Qed.
Print Assumptions C16_range_probe_is_unsliced_runs.

(** * Steps 3-8: one link stated on its own (step 4)

    A selector without positive label matchers whose metric has exactly one presence range in the window, there
    since (at most one step after) the start of the window and gone for more than one step: it is reported
    ("query on nonexistent series", Bug, or Warning under ignoreMetrics) exactly when it has been gone for longer
    than min-age (2h unless a rule/set comment says otherwise), provided nothing was reported before. *)
Theorem C16_disappeared_metric_is_reported : forall re d others now st rules s r up,
  vs_disabled s = false -> vs_snoozed s = false -> is_alerts s = false ->
  instant_match re d now (vs_matchers s) = [] -> vs_bare_str s <> EmptyString ->
  0 < set_step st -> 0 <= set_lookback st ->
  range_probe re d now st (bare_matchers (vs_matchers s)) = Some [r] ->
  uptime_ranges re d now st = Some up ->
  label_names s = [] ->
  r_start r <= now - set_lookback st + set_step st ->
  r_end r < now - set_step st ->
  check_selector re d others now st rules false s =
    Decided (if r_end r <? now - vs_min_age s then [nonexistent (sev_of st s)] else []).
Proof. intros. eapply disappeared_reported; eassumption. Qed.
Print Assumptions C16_disappeared_metric_is_reported.

(** Steps 5-7, one link (step 5, the analogue of (b) for a label value): a positive matcher [lm] whose selector
    [metric{lm}] matches no series at any instant of the range grid is reported for that matcher - Bug, or Warning when
    the metric is in ignoreMetrics - whatever the uptime and the base metric's gaps are. *)
Theorem C16_matcher_never_matches_is_reported : forall re d now st up base_gaps s lm,
  0 < set_step st -> 0 <= set_lookback st ->
  (forall t, In t (probe_points now st) -> instant_match re d t (label_selector s lm) = []) ->
  step567_one re d now st up base_gaps s lm = MProblems [nonexistent (sev_of st s)].
Proof. intros. apply matcher_never_matches; assumption. Qed.
Print Assumptions C16_matcher_never_matches_is_reported.

(** * Which selectors are checked (the "checked selector" premise of (a)/(b), no longer an opaque list)

    Model/SeriesSelectors.v models getNonFallbackSelectors over the Source tree utils.LabelsSource builds
    ([sources_of]: Selector / AlwaysReturns / IsConditional / Joins / Unless), including appendOperandSelectors (joins
    and conditional unless operands followed recursively), appendUnlessSelectors and selectorHasFallback (an [or] node
    with the selector on one side and an always-returning other side); the harness compares [checked e] with the list
    the real function returns on every case.
    For EVERY expression of the fragment (selectors, always-returning operands, wrappers, comparisons with numbers,
    [or], joins on either primary side, [unless], arbitrarily nested; selectors identified by their position): the
    checked selectors are the REACHABLE selectors of the expression except those with their own or-fallback, where
    [reach] (Proofs/C16_selectors.v) is every selector of the expression except those inside an [unless] operand that is
    not a condition: `foo unless bar` only tests the presence of bar (documented carve-out), `foo unless bar > 5`
    depends on bar, and so does everything joined to bar or nested in it. *)
Theorem C16_checked_selectors_are_the_reachable_ones_without_own_fallback : forall e,
  NoDup (sels e) -> forall i,
  In i (checked e) <-> In i (reach e) /\ or_fallback e i = false.
Proof. exact checked_characterised_reach. Qed.
Print Assumptions C16_checked_selectors_are_the_reachable_ones_without_own_fallback.

(** Without [unless] every selector is reachable: the checked selectors are ALL selectors of the expression EXCEPT those
    with their own or-fallback.  In particular an always-returning operand elsewhere in the query (and on() hour(),
    * on() group_left vector(1)) exempts nothing. *)
Theorem C16_checked_selectors_are_those_without_own_fallback : forall e,
  no_unless e = true -> NoDup (sels e) -> forall i,
  In i (checked e) <-> In i (sels e) /\ or_fallback e i = false.
Proof. exact checked_characterised. Qed.
Print Assumptions C16_checked_selectors_are_those_without_own_fallback.

(** the witnesses of the fixes and of seed C16-3, and the documented carve-outs, computed:
    [notfound > 0 and on() hour()] checks notfound; [(a > 0 and on() hour()) / notfound] checks both;
    [a * on(x) (b * on(x) notfound)] checks all three; [sum(m or vector(0))] checks nothing;
    [a * (b or vector(0))] checks a only; [a unless b] checks a only; [a unless b > 5] checks both;
    [a / (b unless c > 5)] and [a unless (b * c) > 5] check all three; [a unless (b * c)] checks a only. *)
Example C16_checked_selectors_examples :
  checked (EJoin false (ECmp (ESel 0)) EAlways) = [0%N] /\
  checked (EJoin false (EJoin false (ECmp (ESel 1)) EAlways) (ESel 30)) = [1%N; 30%N] /\
  checked (EJoin false (ESel 0) (EJoin false (ESel 11) (ESel 21))) = [0%N; 11%N; 21%N] /\
  checked (EWrap (EOr (ESel 4) EAlways)) = [] /\
  checked (EJoin false (ESel 0) (EOr (ESel 5) EAlways)) = [0%N] /\
  checked (EUnless (ESel 0) (ESel 9)) = [0%N] /\
  checked (EUnless (ESel 0) (ECmp (ESel 9))) = [0%N; 9%N] /\
  checked (EJoin false (ESel 0) (EUnless (ESel 5) (ECmp (ESel 14)))) = [0%N; 5%N; 14%N] /\
  checked (EUnless (ESel 0) (ECmp (EJoin false (ESel 10) (ESel 14)))) = [0%N; 10%N; 14%N] /\
  checked (EUnless (ESel 0) (EJoin false (ESel 10) (ESel 14))) = [0%N].
Proof. repeat split; vm_compute; reflexivity. Qed.

(** Non-vacuity: a concrete database where the situations occur (premises satisfiable, conclusions computed):
    m0 present now; m1 never there (Bug) although an ALERTING rule is named m1; m2 there for the whole window
    until 3h ago (step 4: Bug). *)
Example C16_nonvacuous :
  let re := fun _ _ : string => false in
  let now := 1700000000000000000 in
  let st := mkSet (4 * hour) (5 * minute) [] [] "up" in
  let present := mkTS [("__name__", "m0"); ("job", "a")]%string [(now - 10 * hour, now + hour)] in
  let gone := mkTS [("__name__", "m2")]%string [(now - 10 * hour, now - 3 * hour)] in
  let s0 := mkSel "m0" "m0" "m0" [mkM MEq "__name__" "m0"] false false (2 * hour) [] in
  let s1 := mkSel "m1{job=""a""}" "m1" "m1" [mkM MEq "__name__" "m1"; mkM MEq "job" "a"] false false (2 * hour) [] in
  let s2 := mkSel "m2" "m2" "m2" [mkM MEq "__name__" "m2"] false false (2 * hour) [] in
  check re [present; gone] [] now st [mkRI false "m1" false] [s0; s1] =
    [("m0"%string, Decided []); ("m1{job=""a""}"%string, Decided [(summary_nonexistent, Bug)])]
  /\ check re [present; gone] [] now st [] [s2] = [("m2"%string, Decided [(summary_nonexistent, Bug)])]
  /\ instant_match re [present; gone] now (vs_matchers s0) <> []
  /\ (forall t, instant_match re [present; gone] t (bare_matchers (vs_matchers s1)) = []).
Proof.
  cbv zeta.
  split; [vm_compute; reflexivity|].
  split; [vm_compute; reflexivity|].
  split; [vm_compute; discriminate|].
  intro t. apply instant_match_no_label_match. vm_compute. reflexivity.
Qed.
Print Assumptions C16_nonvacuous.
