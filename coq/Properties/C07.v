(** C07 — Control comments suppress exactly the targeted check on the targeted rules.

    Only the property theorems; proofs in Proofs/C07_*.v.  [now] (the clock) is universally quantified.
    The selection [get_checks] is the loop of Config.GetChecksForEntry around parsedRule.isEnabled, including
    the "already enabled" de-duplication by String(), rule{enable/disable} overrides, checks{enabled/disabled},
    Meta().States, AlwaysEnabled, locked blocks, tags. *)
From Coq Require Import List String Ascii ZArith Bool.
From PintV Require Import Common.Bytes Model.CommentsUnicode Model.Comments Model.Enable Proofs.C07_enable Proofs.C07_problems Proofs.C07_grammar.
Import ListNotations.
Open Scope string_scope.
Open Scope list_scope.

(** Adding ONE [# pint disable m] comment to a rule (anywhere among its comments) has exactly the effect of deleting
    from the configuration the checks that [m] targets — [m] is the registered name, the check's String(), or
    name(+tag) for one of its tags — and that are neither locked nor always-enabled; every other check is selected
    exactly as before (the de-duplication is re-run on what remains, so a locked twin of a removed check takes over). *)
Theorem C07_disable_exact : forall now en dis cfg e c1 c2 m prs,
  e_comments e = c1 ++ c2 ->
  get_checks now en dis (with_comments e (c1 ++ mk_disable m :: c2)) cfg prs =
  get_checks now en dis e cfg (filter (rule_keep m) prs).
Proof. exact disable_exact. Qed.
Print Assumptions C07_disable_exact.

(** When no two parsed rules share a String() (no de-duplication possible) this is the formula of the design document:
    the new selection is the old selection minus the targeted, unlocked, not always-enabled checks. *)
Theorem C07_disable_exact_nodup : forall now en dis cfg e c1 c2 m prs,
  NoDup (map cstr prs) -> e_comments e = c1 ++ c2 ->
  get_checks now en dis (with_comments e (c1 ++ mk_disable m :: c2)) cfg prs =
  filter (rule_keep m) (get_checks now en dis e cfg prs).
Proof. exact disable_exact_nodup. Qed.
Print Assumptions C07_disable_exact_nodup.

(** ... and at the level of reported problems: with the checks themselves opaque ([run], any function) and the one
    assumption that they do not react to the added comment, the problems after = the problems before minus exactly
    those of the targeted, unlocked, not always-enabled checks (each problem paired with the check that reported it). *)
Theorem C07_problems_exact : forall now (problem : Type) (run : prule -> entry -> list problem) en dis cfg e c1 c2 m prs,
  NoDup (map cstr prs) -> e_comments e = c1 ++ c2 ->
  (forall pr, run pr (with_comments e (c1 ++ mk_disable m :: c2)) = run pr e) ->
  problems now problem run en dis cfg (with_comments e (c1 ++ mk_disable m :: c2)) prs =
  filter (fun pp => rule_keep m (fst pp)) (problems now problem run en dis cfg e prs).
Proof. exact problems_exact. Qed.
Print Assumptions C07_problems_exact.

(** The property as written — "removes exactly the problems of that check on that rule" — with the shift of the
    rule by the inserted comment line.  The checks are opaque: [run pr entry content] is any function ([content] =
    the rule with its positions, the file, the other entries), [ins] moves the rule down by the inserted line,
    [shift] moves a problem down by one line (both the identity for a trailing comment).  Two named hypotheses,
    required only of the checks that are selected before and kept after:
      [insensitive e e' pr]  the check answers the same on the entry with the extra comment,
      [equivariant e pr]     on the moved rule it answers the same problems, moved.
    Conclusion: problems(e', moved) = shift (filter (not targeted, or locked, or always-enabled) problems(e)).
    Known NOT to satisfy [insensitive] (inspection of internal/checks): promql/series for the comments it reads
    itself — `disable/snooze promql/series(<selector>)` and `rule/set promql/series ...`; those comments do not
    change the selection (C07_untargeted_comment_selection below), what they change happens inside that check.
    Every other check reads no rule comment.  The hypotheses are tested on the real binary by the relational
    oracle (harness/C07/c07_oracle.go), not proved. *)
Theorem C07_problems_exact_shift :
  forall now (problem content : Type) (run : prule -> entry -> content -> list problem)
         (ins : content -> content) (shift : problem -> problem) en dis cfg e c1 c2 m prs x,
  NoDup (map cstr prs) -> e_comments e = c1 ++ c2 ->
  let e' := with_comments e (c1 ++ mk_disable m :: c2) in
  (forall pr, In pr (get_checks now en dis e cfg prs) -> rule_keep m pr = true -> insensitive problem content run e e' pr) ->
  (forall pr, In pr (get_checks now en dis e cfg prs) -> rule_keep m pr = true -> equivariant problem content run ins shift e pr) ->
  problems_of now problem content run en dis cfg e' (ins x) prs =
  map (shift_pp problem shift) (filter (fun pp => rule_keep m (fst pp)) (problems_of now problem content run en dis cfg e x prs)).
Proof. intros. now apply problems_exact_disable. Qed.
Print Assumptions C07_problems_exact_shift.

(** the same for a live snooze ... *)
Theorem C07_problems_exact_snooze_shift :
  forall now (problem content : Type) (run : prule -> entry -> content -> list problem)
         (ins : content -> content) (shift : problem -> problem) en dis cfg e c1 c2 until m prs x,
  NoDup (map cstr prs) -> e_comments e = c1 ++ c2 -> (now < until)%Z ->
  let e' := with_comments e (c1 ++ mk_snooze until m :: c2) in
  (forall pr, In pr (get_checks now en dis e cfg prs) -> rule_keep m pr = true -> insensitive problem content run e e' pr) ->
  (forall pr, In pr (get_checks now en dis e cfg prs) -> rule_keep m pr = true -> equivariant problem content run ins shift e pr) ->
  problems_of now problem content run en dis cfg e' (ins x) prs =
  map (shift_pp problem shift) (filter (fun pp => rule_keep m (fst pp)) (problems_of now problem content run en dis cfg e x prs)).
Proof. intros. now apply problems_exact_snooze_live. Qed.
Print Assumptions C07_problems_exact_snooze_shift.

(** ... and, without the NoDup premise, against the configuration with the targeted checks deleted (exact also when
    two parsed rules share a String() and differ in locked/tags) *)
Theorem C07_problems_exact_cfg :
  forall now (problem content : Type) (run : prule -> entry -> content -> list problem)
         (ins : content -> content) (shift : problem -> problem) en dis cfg e c1 c2 m prs x,
  e_comments e = c1 ++ c2 ->
  let e' := with_comments e (c1 ++ mk_disable m :: c2) in
  (forall pr, In pr (get_checks now en dis e cfg (filter (rule_keep m) prs)) -> insensitive problem content run e e' pr) ->
  (forall pr, In pr (get_checks now en dis e cfg (filter (rule_keep m) prs)) -> equivariant problem content run ins shift e pr) ->
  problems_of now problem content run en dis cfg e' (ins x) prs =
  map (shift_pp problem shift) (problems_of now problem content run en dis cfg e x (filter (rule_keep m) prs)).
Proof. intros. now apply problems_exact_disable_cfg. Qed.
Print Assumptions C07_problems_exact_cfg.

(** Comments that are no disable/snooze of a configured check never change the selection: every other comment type
    attached to the rule (`# pint rule/set ...`, `# pint rule/owner`, `# pint file/owner`, file/disable ... ) whatever
    its value, and a disable/snooze whose match is no spelling of any configured check — in particular the partial
    form `# pint disable promql/series(<selector>)`, which the series check interprets itself. *)
Theorem C07_untargeted_comment_selection : forall now en dis cfg e c1 c2 c prs,
  e_comments e = c1 ++ c2 ->
  (c_type c <> DisableType /\ c_type c <> SnoozeType) \/
  (exists m, (c = mk_disable m \/ exists u, c = mk_snooze u m) /\
             forall pr, In pr prs -> targets m (pr_name pr) (ck_string (pr_check pr)) (pr_tags pr) = false) ->
  get_checks now en dis (with_comments e (c1 ++ c :: c2)) cfg prs = get_checks now en dis e cfg prs.
Proof.
  intros now en dis cfg e c1 c2 c prs He H. apply untargeted_comment_selection; [exact He|].
  destruct H as [[H1 H2]|(m & Hc & Hm)].
  - now apply other_types_untargeting.
  - destruct (unknown_match_untargeting now prs m Hm) as [U1 U2]. destruct Hc as [->|(u & ->)]; auto.
Qed.
Print Assumptions C07_untargeted_comment_selection.

(** ... and then every problem stays, moved with the rule (under the two hypotheses, for all selected checks). *)
Theorem C07_problems_untargeted :
  forall now (problem content : Type) (run : prule -> entry -> content -> list problem)
         (ins : content -> content) (shift : problem -> problem) en dis cfg e c1 c2 c prs x,
  e_comments e = c1 ++ c2 -> untargeting now prs c ->
  let e' := with_comments e (c1 ++ c :: c2) in
  (forall pr, In pr (get_checks now en dis e cfg prs) -> insensitive problem content run e e' pr) ->
  (forall pr, In pr (get_checks now en dis e cfg prs) -> equivariant problem content run ins shift e pr) ->
  problems_of now problem content run en dis cfg e' (ins x) prs =
  map (shift_pp problem shift) (problems_of now problem content run en dis cfg e x prs).
Proof. intros. now apply problems_exact_untargeted. Qed.
Print Assumptions C07_problems_untargeted.

(** "Every other check reads no rule comment" is re-derived from the source on every run: the non-test files of
    internal/checks that select a field named Comments or call comments.Only (translator/ext_C07.go -> Gen/C07.v) are
    exactly promql_series.go.  A new reader of rule comments (a check for which H-insensitive may fail) changes the
    list and breaks this obligation. *)
From PintV Require Gen.C07.
Theorem C07_comment_readers_match_source : Gen.C07.comment_reading_files = ["promql_series.go"].
Proof. reflexivity. Qed.
Print Assumptions C07_comment_readers_match_source.

(** a snooze whose time is in the future does the same *)
Theorem C07_snooze_live_exact : forall now en dis cfg e c1 c2 until m prs,
  e_comments e = c1 ++ c2 -> (now < until)%Z ->
  get_checks now en dis (with_comments e (c1 ++ mk_snooze until m :: c2)) cfg prs =
  get_checks now en dis e cfg (filter (rule_keep m) prs).
Proof. exact snooze_live_exact. Qed.
Print Assumptions C07_snooze_live_exact.

(** an expired snooze changes nothing *)
Theorem C07_snooze_expired_noop : forall now en dis cfg e c1 c2 until m prs,
  e_comments e = c1 ++ c2 -> (until <= now)%Z ->
  get_checks now en dis (with_comments e (c1 ++ mk_snooze until m :: c2)) cfg prs = get_checks now en dis e cfg prs.
Proof. exact snooze_expired_noop. Qed.
Print Assumptions C07_snooze_expired_noop.

(** checks coming from a locked config block ignore rule-level comments altogether *)
Theorem C07_locked_ignores_comments : forall now en dis sofar cfg e cs' pr,
  pr_locked pr = true ->
  parsed_rule_is_enabled now en dis sofar (with_comments e cs') cfg pr = parsed_rule_is_enabled now en dis sofar e cfg pr.
Proof. exact locked_ignores_comments. Qed.
Print Assumptions C07_locked_ignores_comments.

Theorem C07_all_locked_ignore_comments : forall now en dis cfg e cs' prs,
  Forall (fun pr => pr_locked pr = true) prs ->
  get_checks now en dis (with_comments e cs') cfg prs = get_checks now en dis e cfg prs.
Proof. exact all_locked_ignore_comments. Qed.
Print Assumptions C07_all_locked_ignore_comments.

(** [# pint file/disable m] (or a live [file/snooze]) anywhere among the file-level comments: for EVERY rule of the
    file (every entry whose DisabledChecks readRules computed from those comments) the effect is the deletion of the
    targeted, not always-enabled checks — locked blocks are not protected from file-level comments. *)
Theorem C07_file_disable_all_rules : forall now en dis cfg fc1 fc2 c m e prs,
  contributes now c = Some m ->
  e_disabled e = file_disabled now (fc1 ++ fc2) ->
  get_checks now en dis (with_disabled e (file_disabled now (fc1 ++ c :: fc2))) cfg prs =
  get_checks now en dis e cfg (filter (file_keep m) prs).
Proof. exact file_disable_all_rules. Qed.
Print Assumptions C07_file_disable_all_rules.

(** an expired file/snooze (or any other comment type) leaves DisabledChecks unchanged as a set, and the decision only
    reads it as a set *)
Theorem C07_file_comment_noop : forall now fc1 fc2 c,
  contributes now c = None ->
  forall x, In x (file_disabled now (fc1 ++ c :: fc2)) <-> In x (file_disabled now (fc1 ++ fc2)).
Proof. exact file_comment_noop. Qed.
Print Assumptions C07_file_comment_noop.


(** ** Grammar round trip (internal/comments parseComment): a comment written the documented way parses to exactly the
    intended type, offset and value — at any byte offset, after any ASCII text without '#', for every ASCII value
    [m] that is non-empty, has no newline and no white space at either end ([ok_value]), for every behaviour [tp] of
    time.Parse.  The general statement [C07_grammar_roundtrip] covers all 12 keywords ([kw_ok] is proved for each by
    computation in Proofs/C07_grammar.v) and also says when the result is an Invalid comment. *)
Theorem C07_grammar_roundtrip : forall tp kw t pre v line,
  kw_ok kw t -> t <> UnknownType -> all_ascii pre = true -> no_hash pre = true -> ok_value v ->
  parse_comment tp (whole pre kw v) line =
  match parse_value tp t v line with
  | inl val => Some {| c_type := t; c_off := String.length pre; c_val := val |}
  | inr e => Some {| c_type := InvalidComment; c_off := String.length pre;
                     c_val := VInvalid e line (S (String.length pre)) (String.length (whole pre kw v)) |}
  end.
Proof. exact grammar_roundtrip. Qed.
Print Assumptions C07_grammar_roundtrip.

Theorem C07_grammar_keywords :
  kw_ok "ignore/file" IgnoreFileType /\ kw_ok "ignore/line" IgnoreLineType /\ kw_ok "ignore/begin" IgnoreBeginType /\
  kw_ok "ignore/end" IgnoreEndType /\ kw_ok "ignore/next-line" IgnoreNextLineType /\ kw_ok "file/owner" FileOwnerType /\
  kw_ok "rule/owner" RuleOwnerType /\ kw_ok "file/disable" FileDisableType /\ kw_ok "disable" DisableType /\
  kw_ok "file/snooze" FileSnoozeType /\ kw_ok "snooze" SnoozeType /\ kw_ok "rule/set" RuleSetType.
Proof.
  repeat split; first [ apply kw_ignore_file | apply kw_ignore_line | apply kw_ignore_begin | apply kw_ignore_end
    | apply kw_ignore_next_line | apply kw_file_owner | apply kw_rule_owner | apply kw_file_disable | apply kw_disable
    | apply kw_file_snooze | apply kw_snooze | apply kw_rule_set ].
Qed.
Print Assumptions C07_grammar_keywords.

Theorem C07_roundtrip_disable : forall tp pre m line,
  all_ascii pre = true -> no_hash pre = true -> ok_value m ->
  parse_comment tp (append pre (append "# pint disable " m)) line =
  Some {| c_type := DisableType; c_off := String.length pre; c_val := VDisable m |}.
Proof. exact roundtrip_disable. Qed.
Print Assumptions C07_roundtrip_disable.

Theorem C07_roundtrip_file_disable : forall tp pre m line,
  all_ascii pre = true -> no_hash pre = true -> ok_value m ->
  parse_comment tp (append pre (append "# pint file/disable " m)) line =
  Some {| c_type := FileDisableType; c_off := String.length pre; c_val := VDisable m |}.
Proof. exact roundtrip_file_disable. Qed.
Print Assumptions C07_roundtrip_file_disable.

Theorem C07_roundtrip_snooze : forall tp (file : bool) pre stamp m u line,
  all_ascii pre = true -> no_hash pre = true ->
  no_space stamp = true -> tp stamp = Some u -> ok_value (append stamp (String " "%char m)) ->
  parse_comment tp (append pre (append (if file then "# pint file/snooze " else "# pint snooze ") (append stamp (String " "%char m)))) line =
  Some {| c_type := if file then FileSnoozeType else SnoozeType; c_off := String.length pre; c_val := VSnooze u m |}.
Proof. exact roundtrip_snooze. Qed.
Print Assumptions C07_roundtrip_snooze.

(** Non-vacuity: a configuration where the comment removes one check, keeps its locked twin and an unrelated check. *)
Definition nv_ck (s : string) : check := {| ck_string := s; ck_always := false; ck_states := [1%N] |}.
Definition nv_prs : list prule :=
  [ {| pr_name := "rule/label"; pr_check := nv_ck "rule/label(owner:true)"; pr_tags := []; pr_locked := false; pr_match := true |};
    {| pr_name := "rule/label"; pr_check := nv_ck "rule/label(team:true)"; pr_tags := []; pr_locked := true; pr_match := true |};
    {| pr_name := "promql/series"; pr_check := nv_ck "promql/series(prom)"; pr_tags := ["prod"]; pr_locked := false; pr_match := true |} ].
Definition nv_e : entry := {| e_comments := []; e_disabled := []; e_state := 1%N |}.

Example C07_nonvacuous :
  map pr_name (get_checks 0%Z [] [] nv_e [] nv_prs) = ["rule/label"; "rule/label"; "promql/series"] /\
  map (fun p => ck_string (pr_check p)) (get_checks 0%Z [] [] (with_comments nv_e [mk_disable "rule/label"]) [] nv_prs)
    = ["rule/label(team:true)"; "promql/series(prom)"] /\
  map pr_name (get_checks 0%Z [] [] (with_comments nv_e [mk_disable "promql/series(+prod)"]) [] nv_prs) = ["rule/label"; "rule/label"] /\
  map pr_name (get_checks 0%Z [] [] (with_comments nv_e [mk_snooze 5%Z "promql/series"]) [] nv_prs) = ["rule/label"; "rule/label"] /\
  map pr_name (get_checks 10%Z [] [] (with_comments nv_e [mk_snooze 5%Z "promql/series"]) [] nv_prs) = ["rule/label"; "rule/label"; "promql/series"].
Proof. vm_compute. repeat split. Qed.
Print Assumptions C07_nonvacuous.

(** the hypotheses of the lifting are satisfiable together with a non-trivial conclusion: checks that report one
    problem at the rule's line; the disable of rule/label removes the unlocked rule/label problem and moves the rest *)
Example C07_problems_nonvacuous :
  let run := fun (pr : prule) (_ : entry) (line : Z) => [(pr_name pr, line)] in
  let ins := fun line : Z => (line + 1)%Z in
  let shift := fun p : string * Z => (fst p, (snd p + 1)%Z) in
  let e' := with_comments nv_e [mk_disable "rule/label"] in
  (forall pr, insensitive (string * Z) Z run nv_e e' pr) /\
  (forall pr, equivariant (string * Z) Z run ins shift nv_e pr) /\
  map snd (problems_of 0%Z (string * Z) Z run [] [] [] nv_e 7%Z nv_prs) =
    [("rule/label", 7%Z); ("rule/label", 7%Z); ("promql/series", 7%Z)] /\
  map snd (problems_of 0%Z (string * Z) Z run [] [] [] e' (ins 7%Z) nv_prs) = [("rule/label", 8%Z); ("promql/series", 8%Z)].
Proof. cbv zeta. split; [intros pr x; reflexivity|]. split; [intros pr x; reflexivity|]. vm_compute. split; reflexivity. Qed.
Print Assumptions C07_problems_nonvacuous.

Example C07_grammar_nonvacuous :
  ok_value "promql/series(+prod)" /\ all_ascii "    expr: up " = true /\ no_hash "    expr: up " = true /\
  parse_comment (fun _ => None) "    expr: up # pint disable promql/series(+prod)" 7 =
    Some {| c_type := DisableType; c_off := 13; c_val := VDisable "promql/series(+prod)" |}.
Proof.
  split; [|repeat split; vm_compute; reflexivity].
  repeat split; try reflexivity; eexists; split; reflexivity.
Qed.
Print Assumptions C07_grammar_nonvacuous.

(** The finite tables of the model (prefix, keyword -> type, type numbering, IsRuleComment, what the reader collects as
    file-level comments) are those of the current source, regenerated by the translator on every run. *)
From PintV Require Import Proofs.C10_tables.
Theorem C07_tables_match_source : tables_ok = true.
Proof. exact tables_match_source. Qed.
Print Assumptions C07_tables_match_source.

(** ** Attachment (parser.go parseRule, models.go mergeComments): which yaml comment fields make up rule.Comments.
    A yaml node is its three comment fields, its line and its children; [rule_comments tp node] is rule.Comments of
    the rule parsed from mapping node [node].  (Where yaml.v3 puts a source comment — head/line/foot of which node —
    is not modelled; it is exercised by the correspondence check on real parser output and by the relational oracle
    at the placements the property lists.) *)
From PintV Require Import Model.Attach Proofs.C07_attach.

Theorem C07_attach_sound : forall tp node c,
  In c (rule_comments tp node) ->
  is_rule_comment (c_type c) = true /\ exists s k, In s (merge_comments node) /\ In c (parse tp k s).
Proof. exact attach_sound. Qed.
Print Assumptions C07_attach_sound.

Theorem C07_attach_complete_below : forall tp node j p s c,
  nth_error (y_content node) j = Some p ->
  In s (flat_map merge_comments (y_content p)) ->
  In c (parse tp (y_nline p) s) -> is_rule_comment (c_type c) = true ->
  In c (rule_comments tp node).
Proof. exact attach_complete_below. Qed.
Print Assumptions C07_attach_complete_below.

Theorem C07_attach_complete_part : forall tp node j p s c,
  nth_error (y_content node) j = Some p ->
  (s = y_head p \/ s = y_line p \/
   (s = y_foot p /\ (j <> List.length (y_content node) - 1 \/ y_foot node = EmptyString))) ->
  s <> EmptyString ->
  In c (parse tp (y_nline p) s) -> is_rule_comment (c_type c) = true ->
  In c (rule_comments tp node).
Proof. exact attach_complete_part. Qed.
Print Assumptions C07_attach_complete_part.
