(** C06 — Reported positions spell the text they point at.

    Model: Model/Position.v (byte-exact [NewPositionRange], [appendPosition], [readRange], [AddOffset],
    [Lines]) and Model/Layout.v ([spells], the guard [node_ok], the layout relations).
    Only the property theorems live here; each is closed from lemmas of Proofs/C06_*.v and followed by
    [Print Assumptions]. *)
From Coq Require Import List String Ascii ZArith Bool Lia.
From PintV Require Import Common.Bytes Model.Position Model.Layout
     Proofs.C06_expand Proofs.C06_match Proofs.C06_styles Proofs.C06_readrange Proofs.C06_bounds
     Proofs.C06_shift Proofs.C06_blocks Proofs.C06_carets Proofs.C06_plain_exact Proofs.C06_flowml Proofs.C06_dq Proofs.C06_sync.
Import ListNotations.
Local Open Scope Z_scope.
Local Open Scope list_scope.

(** ** The full statement (false of the code as it is; kept visible)

    "For every scalar node the YAML library hands to pint, the positions computed from the line table spell the
    node's value."  [C06_full_statement] is what the property asks for.  Since the fix commits 660d1e1, 6c7f5de,
    9af0d98, 69b377d, d1959ae ONE layout class is left where the faithful model (and the real code,
    corpus/C06/dq_escape.yml) violates it: double-quoted scalars with an escape that hides the byte
    ([C06_refuted_dq_escape]).  The seven former classes are now positive statements ([..._fixed]). *)
Definition C06_full_statement : Prop :=
  forall lines n minCol pos,
    sn_value n <> EmptyString ->
    new_position_range lines n minCol = Ok pos ->
    spells lines pos (sn_value n).

(** ** UNCONDITIONAL soundness (new with fix 6c7f5de: a line break only gets a position when it stands for a byte
    of the value): for EVERY line table, node that is not double quoted, and minColumn — any layout, plain, single-quoted,
    literal, folded — a call that returns either found nothing (the one-column fallback of fix 75918ac) or returns positions
    that are well formed, inside the file and read back, in order and up to line folding, a PREFIX of the value.
    So a diagnostic offset never lands on a byte that is not the corresponding byte of the value; what can still
    go wrong is only that the scan does not get to the end (completeness, next theorem).  Double-quoted nodes are
    excluded: there an escape sequence is located as one token ([scan_line_dq]) and a hidden byte reads back the escape's
    text (finding C06-dq-escape); without a backslash on the scanned lines they behave like any other node
    ([scan_line_dq_plain], used by the guarded theorem below). *)
Theorem C06_positions_spell_prefix : forall lines n minCol pos,
  sn_dq n = false ->
  new_position_range lines n minCol = Ok pos ->
  pos = fallback n \/
  (wf pos /\ exists rb done_ left_,
      read_back lines pos = Some rb /\ fold_eq rb done_ = true /\ sn_value n = (done_ ++ left_)%string).
Proof. exact positions_spell_prefix. Qed.
Print Assumptions C06_positions_spell_prefix.

(** ** UNCONDITIONAL for EVERY node, double-quoted scalars with arbitrary escape sequences included: the positions are
    IN STEP with the value — a returning call gives the fallback or positions whose number equals the length of the prefix of
    the value that was located ([done_]); the k-th position is the place of the k-th value byte.  A diagnostic's offsets
    [FirstColumn..LastColumn] into the value therefore select the positions of exactly those bytes ([diag_positions] counts
    positions), never shifted — also where the literal read-back differs (escape sequences).  Before fixes 6c7f5de and a2fc6da
    this was false (an extra line-break position shifted every later offset; the scan ran away at an escape). *)
Theorem C06_positions_in_step : forall lines n minCol pos,
  new_position_range lines n minCol = Ok pos ->
  pos = fallback n \/
  exists done_ left_, sn_value n = (done_ ++ left_)%string /\ wf pos /\ plen pos = slen done_.
Proof. exact positions_in_step. Qed.
Print Assumptions C06_positions_in_step.

(** ** Partial theorem, general form: under the guard [node_ok] (Model/Layout.v: every line's scan finds its
    segment — what is left of Appendix C after the fixes is g1 and "the value is not made of line breaks only";
    executable, evaluated by the check on every generated field outside the known-finding class)
    the call does not panic, the positions are non-empty, well formed, inside the file and spell the value. *)
Theorem C06_spell_guarded_partial : forall lines n minCol,
  node_ok lines n minCol = true ->
  exists pos, new_position_range lines n minCol = Ok pos /\
              pos <> [] /\ wf pos /\ spells lines pos (sn_value n).
Proof. exact node_ok_spells. Qed.
Print Assumptions C06_spell_guarded_partial.

(** ** One-line styles: plain, single-quoted (with '' for '), double-quoted whose only escapes are
    backslash-doublequote and backslash-backslash.  The layout relation [Lay1 st lines n] says: line
    [sn_line n] reads [pre ++ token ++ post] with the token of the value in style [st] starting at byte column
    [sn_col n]; anything may precede and follow it (keys, flow-mapping neighbours, comments). *)
Theorem C06_spell_plain : forall lines n minCol,
  Lay1 Plain lines n ->
  exists pos, new_position_range lines n minCol = Ok pos /\ pos <> [] /\ spells lines pos (sn_value n).
Proof.
  intros lines n minCol H. destruct (node_ok_spells lines n minCol (lay1_node_ok _ _ _ minCol H)) as [pos [H1 [H2 [_ H3]]]].
  exists pos. auto.
Qed.
Print Assumptions C06_spell_plain.

Theorem C06_spell_single_quoted : forall lines n minCol,
  Lay1 SingleQuoted lines n ->
  exists pos, new_position_range lines n minCol = Ok pos /\ pos <> [] /\ spells lines pos (sn_value n).
Proof.
  intros lines n minCol H. destruct (node_ok_spells lines n minCol (lay1_node_ok _ _ _ minCol H)) as [pos [H1 [H2 [_ H3]]]].
  exists pos. auto.
Qed.
Print Assumptions C06_spell_single_quoted.

Theorem C06_spell_double_noescape : forall lines n minCol,
  Lay1 DoubleQuotedSimple lines n ->
  exists pos, new_position_range lines n minCol = Ok pos /\ pos <> [] /\ spells lines pos (sn_value n).
Proof.
  intros lines n minCol H. destruct (node_ok_spells lines n minCol (lay1_node_ok _ _ _ minCol H)) as [pos [H1 [H2 [_ H3]]]].
  exists pos. auto.
Qed.
Print Assumptions C06_spell_double_noescape.


(** Double-quoted scalars WITH the self-escapes backslash-doublequote and backslash-backslash (how PromQL with label matchers
    is usually quoted: [expr: "up{job=\"a\"} == 0"]): since fix a2fc6da every escape sequence is one token; the escaped
    character is located on itself (not on the backslash) and the positions spell the value.  The line reads
    [pre ++ quote ++ dq_escape_simple value ++ quote ++ post] with ASCII [pre]; the value does not start with a double quote
    (it would be located on the opening quote). *)
Theorem C06_spell_double_selfescape : forall lines n minCol l pre post need rest,
  sn_block n = false -> sn_anchor n = EmptyString -> sn_dq n = true ->
  sn_value n = String need rest -> Ascii.eqb need dquote = false ->
  line_at lines (sn_line n) = Some l ->
  l = (pre ++ String dquote (dq_escape_simple (String need rest) ++ String dquote post))%string ->
  ascii_only pre = true -> sn_col n = slen pre + 1 ->
  exists pos, new_position_range lines n minCol = Ok pos /\ pos <> [] /\ wf pos /\ spells lines pos (sn_value n).
Proof. exact double_selfescape_spells. Qed.
Print Assumptions C06_spell_double_selfescape.

Example C06_nonvacuous_double_selfescape :
  let l := "  expr: ""up{job=\""a\\b\""} == 0"" # c"%string in
  let v := "up{job=""a\b""} == 0"%string in
  l = ("  expr: " ++ String dquote (dq_escape_simple v ++ String dquote " # c"))%string /\
  new_position_range ["- alert: A"; l]%string (mksn v 2 9 false EmptyString true) 1
  = Ok [mkp 2 10 16; mkp 2 18 19; mkp 2 21 22; mkp 2 24 30].
Proof. split; vm_compute; reflexivity. Qed.

(** ** Block scalars.  [block_ok literal b minCol] is the executable guard on the layout record [b]
    (Model/Layout.v): the header line is ARBITRARY (indicators, comment, anything: since fix 660d1e1 the scan starts
    on the next line), the first content line is not blank (it may start with blanks: explicit indentation
    indicator), the content is indented by at least [minCol - 1] columns (g1; the parser passes [minCol] = 1 since
    fix d1959ae, so this always holds there), blank lines occur only inside literal blocks, folded bodies do not
    start with a blank, and no later line of the file contains a line-break byte. *)
Theorem C06_spell_literal : forall b minCol,
  block_ok true b minCol = true ->
  exists pos, new_position_range (bl_lines b) (bl_node true b) minCol = Ok pos /\ pos <> [] /\
              spells (bl_lines b) pos (bl_value true b).
Proof.
  intros b minCol H. destruct (node_ok_spells _ _ minCol (block_node_ok true b minCol H)) as [pos [H1 [H2 [_ H3]]]].
  exists pos. auto.
Qed.
Print Assumptions C06_spell_literal.

Theorem C06_spell_folded_noblank : forall b minCol,
  block_ok false b minCol = true ->
  exists pos, new_position_range (bl_lines b) (bl_node false b) minCol = Ok pos /\ pos <> [] /\
              spells (bl_lines b) pos (bl_value false b).
Proof.
  intros b minCol H. destruct (node_ok_spells _ _ minCol (block_node_ok false b minCol H)) as [pos [H1 [H2 [_ H3]]]].
  exists pos. auto.
Qed.
Print Assumptions C06_spell_folded_noblank.

(** Folded blocks WITH blank lines between the paragraphs (the former finding class C06-folded-blank, the usual layout
    of long annotations): [bl_value_fold] = YAML line folding incl. blank lines ([j] blank lines between two lines give
    [j] line breaks, none a space), [fold_ok] = the guard (any header line; non-blank lines do not start with a blank,
    i.e. no more-indented lines; g1). *)
Theorem C06_spell_folded_blank_lines : forall b minCol,
  fold_ok b minCol = true ->
  exists pos, new_position_range (bl_lines b) (bl_node_fold b) minCol = Ok pos /\ pos <> [] /\
              spells (bl_lines b) pos (bl_value_fold b).
Proof.
  intros b minCol H. destruct (node_ok_spells _ _ minCol (fold_node_ok b minCol H)) as [pos [H1 [H2 [_ H3]]]].
  exists pos. auto.
Qed.
Print Assumptions C06_spell_folded_blank_lines.

(** ** Multi-line plain scalars ([pm_ok]: segments non-blank, not starting with a blank, continuation lines
    indented by at least [minCol - 1] and ending with their segment). *)
Theorem C06_spell_plain_multiline : forall p minCol,
  pm_ok p minCol = true ->
  exists pos, new_position_range (pm_lines p) (pm_node p) minCol = Ok pos /\ pos <> [] /\
              spells (pm_lines p) pos (pm_value p).
Proof.
  intros p minCol H. destruct (node_ok_spells _ _ minCol (plain_ml_node_ok p minCol H)) as [pos [H1 [H2 [_ H3]]]].
  exists pos. auto.
Qed.
Print Assumptions C06_spell_plain_multiline.


(** ** Multi-line flow scalars in general ([fm_ok]): a multi-line plain scalar whose last line is followed by
    anything (blanks, a comment), or a multi-line single-/double-quoted scalar whose segments contain neither
    the quote character nor an escape (they appear verbatim between [fm_open] and [fm_trailer]). *)
Theorem C06_spell_flow_multiline : forall p minCol,
  fm_ok p minCol = true ->
  exists pos, new_position_range (fm_lines p) (fm_node p) minCol = Ok pos /\ pos <> [] /\
              spells (fm_lines p) pos (fm_value p).
Proof.
  intros p minCol H. destruct (node_ok_spells _ _ minCol (flow_ml_node_ok p minCol H)) as [pos [H1 [H2 [_ H3]]]].
  exists pos. auto.
Qed.
Print Assumptions C06_spell_flow_multiline.

(** ** The diagnostic consequence.  [diag_positions a b pos] is what InjectDiagnostics computes for a diagnostic
    with FirstColumn [a], LastColumn [b] (offsets into the field's value, clipped by [pos.Len()]).  If the
    field's positions spell its value, those positions are inside the file and read back exactly
    [value[a'-1:b']] (up to line folding) for the clipped offsets. *)
Theorem C06_read_range_lands : forall lines pos value a b,
  wf pos -> spells lines pos value ->
  exists rb', read_back lines (diag_positions a b pos) = Some rb' /\
              fold_eq rb' (slice1 (Z.min a (plen pos)) (Z.min b (plen pos)) value) = true.
Proof.
  intros lines pos value a b Hwf [rb [Hrb Hsp]]. unfold diag_positions.
  apply (read_range_lands_lemma lines pos value _ _ rb Hrb Hsp).
  rewrite (plen_points pos Hwf), (read_back_length lines pos rb Hrb). lia.
Qed.
Print Assumptions C06_read_range_lands.

(** ** Unconditional (every node, also double-quoted ones with any escape sequences: [scan_line_dq_inv]): every
    successful call returns a non-empty, well-formed list of ranges on lines >= the node's line; the ranges are inside
    the file (readable) whenever the node's own position is. *)
Theorem C06_positions_nonempty_inside : forall lines n minCol pos,
  new_position_range lines n minCol = Ok pos ->
  pos <> [] /\ wf pos /\ lines_ge (sn_line n) pos /\
  (char_at lines (sn_line n, sn_col n) <> None -> exists rb, read_back lines pos = Some rb).
Proof. exact npr_positions_bounds. Qed.
Print Assumptions C06_positions_nonempty_inside.

(** ** Rule line ranges ([rule_lines] = the accumulation of [lines] in parseRule over the parts of the rule
    mapping: (part line, last line of the field's positions)).  The range encloses every part and every
    field, and stays below every bound on them (in particular the number of lines of the file). *)
Theorem C06_rule_lines_enclose : forall parts,
  parts <> [] -> Forall (fun pt => 1 <= fst pt) parts ->
  let lr := rule_lines parts in
  1 <= fst lr /\ fst lr <= snd lr /\
  Forall (fun pt => fst lr <= fst pt <= snd lr /\ forall fl, snd pt = Some fl -> fl <= snd lr) parts /\
  (forall m, 0 <= m -> Forall (fun pt => fst pt <= m /\ forall fl, snd pt = Some fl -> fl <= m) parts -> snd lr <= m).
Proof. exact rule_lines_enclose_lemma. Qed.
Print Assumptions C06_rule_lines_enclose.


(** ... and lies inside the file: if every part line is a line of the file and every field's last line is the
    [Lines().Last] of positions that can be read back from the file (which [C06_positions_nonempty_inside]
    gives for every node inside the file), then 1 <= First <= Last <= number of lines. *)
Theorem C06_rule_lines_inside_file : forall lines parts,
  parts <> [] ->
  Forall (fun pt => 1 <= fst pt <= Z.of_nat (List.length lines) /\
                    forall fl, snd pt = Some fl ->
                      exists pos rb, pos <> [] /\ wf pos /\ read_back lines pos = Some rb /\ fl = snd (lines_of pos)) parts ->
  1 <= fst (rule_lines parts) /\ fst (rule_lines parts) <= snd (rule_lines parts) /\
  snd (rule_lines parts) <= Z.of_nat (List.length lines).
Proof. exact rule_lines_inside_file_lemma. Qed.
Print Assumptions C06_rule_lines_inside_file.

(** [Lines()] of a field's positions is the tightest enclosing line interval. *)
Theorem C06_lines_of_encloses : forall prs, prs <> [] ->
  Forall (fun q => fst (lines_of prs) <= pr_line q <= snd (lines_of prs)) prs /\
  (forall m, Forall (fun q => m <= pr_line q) prs -> m <= fst (lines_of prs)) /\
  (forall m, Forall (fun q => pr_line q <= m) prs -> snd (lines_of prs) <= m).
Proof. exact lines_of_spec. Qed.
Print Assumptions C06_lines_of_encloses.

(** ** Shift-equivariance (also used by C19): inserting [pre] lines above and prefixing every line with [p]
    shifts the positions by (|pre|, |p|) — provided no line is empty unless [p] is (an empty line is skipped
    by the scan, the same line made of blanks is not), [p] is ASCII (yaml columns count characters), the node
    has no anchor and a column >= 1. *)
Theorem C06_shift_equivariance : forall pre p lines n minCol pos,
  (p = EmptyString \/ Forall (fun l => l <> EmptyString) lines) ->
  ascii_only p = true -> sn_anchor n = EmptyString -> sn_dq n = false -> 1 <= sn_col n ->
  new_position_range lines n minCol = Ok pos ->
  new_position_range (shift_lines pre p lines) (shift_node (Z.of_nat (List.length pre)) (slen p) n) (minCol + slen p)
  = Ok (add_offset (Z.of_nat (List.length pre)) (slen p) pos).
Proof. exact npr_shift_lemma. Qed.
Print Assumptions C06_shift_equivariance.


(** ** Carets (InjectDiagnostics, problems.go, after fix e721538).  [caret_marks len L prs] is the mark string
    printed under an ASCII source line of [len] bytes for the ranges [prs] = [diag_positions first last pos], [L]
    their last line.  FULL THEOREM: one mark per column up to the last covered column of the line, a caret
    exactly under the columns covered by a range of that line ([on_point]), a blank elsewhere — whatever the
    number of ranges (doubled quotes and escapes split the covered text into several). Before the fix this was
    refuted ([- alert: 'it''s up'] printed 20 blanks and stretched carets); the positive instance is below. *)
Theorem C06_carets_exact : forall len L prs,
  wf prs -> last_col L prs <= Z.of_nat len ->
  caret_marks len L prs =
  sconcat (map (fun k => if on_point L (Z.of_nat k + 1) prs then "^"%string else " "%string)
               (seq 0 (Z.to_nat (last_col L prs)))).
Proof. exact carets_exact_lemma. Qed.
Print Assumptions C06_carets_exact.

Theorem C06_carets_single_range : forall len L others a b,
  Forall (fun p => pr_line p <> L) others -> wf others ->
  1 <= a -> a <= b -> b <= Z.of_nat len ->
  caret_marks len L (others ++ [mkp L a b]) =
  (repeat_char space (Z.to_nat (a - 1)) ++ repeat_char "^"%char (Z.to_nat (b - a + 1)))%string.
Proof. exact carets_single_range_lemma. Qed.
Print Assumptions C06_carets_single_range.

(** The caret line under ANY source line (model [caret_marks_line], tied to the real InjectDiagnostics by correspondence
    also on lines with non-ASCII text): one mark per CHARACTER, decided by the byte column of the character's first byte,
    so the display column of a caret is the number of characters before the byte it denotes.  For an ASCII line it is the
    per-byte [caret_marks] of the two theorems above. *)
Theorem C06_carets_any_line_ascii : forall line L prs,
  ascii_only line = true -> caret_marks_line line L prs = caret_marks (String.length line) L prs.
Proof. exact caret_marks_line_ascii. Qed.
Print Assumptions C06_carets_any_line_ascii.

(** after four 2-byte characters the reported fragment [== 0)] (byte columns 21-25 of the line) gets its carets under
    display columns 17-21: 16 blanks, then five carets — the closing parenthesis included *)
Example C06_carets_after_non_ascii :
  caret_marks_line ("(up{job=""" ++ bs [197;188;195;179;197;130;196;135]%N ++ """} == 0)")%string 1 [mkp 1 21 25]
  = (repeat_char space 16 ++ "^^^^^")%string.
Proof. vm_compute. reflexivity. Qed.
Print Assumptions C06_carets_after_non_ascii.

(** the former witness of the split-range defect now renders correctly *)
Example C06_caret_split_range_fixed :
  caret_marks 19 1 [mkp 1 11 13; mkp 1 15 18] = (repeat_char space 10 ++ "^^^ ^^^^")%string.
Proof. vm_compute. reflexivity. Qed.
Print Assumptions C06_caret_split_range_fixed.

(** ** END TO END for the common case (one-line plain scalar, e.g. [expr: up == 0]): the positions are exactly
    one range over the token; for a diagnostic over columns [a..b] of the value InjectDiagnostics underlines
    exactly the file columns [col+a-1 .. col+b-1] of the scalar's line — the carets point at the right
    characters ([len] = length of that line). *)
Theorem C06_plain_end_to_end : forall lines n minCol a b len,
  Lay1 Plain lines n ->
  1 <= a -> a <= b -> b <= slen (sn_value n) ->
  sn_col n + b - 1 <= Z.of_nat len ->
  exists pos,
    new_position_range lines n minCol = Ok pos /\
    pos = [mkp (sn_line n) (sn_col n) (sn_col n + slen (sn_value n) - 1)] /\
    diag_positions a b pos = [mkp (sn_line n) (sn_col n + a - 1) (sn_col n + b - 1)] /\
    caret_marks len (sn_line n) (diag_positions a b pos) =
      (repeat_char space (Z.to_nat (sn_col n + a - 2)) ++ repeat_char "^"%char (Z.to_nat (b - a + 1)))%string.
Proof.
  intros lines n minCol a b len HL Ha Hab Hb Hlen.
  destruct (plain_end_to_end lines n minCol a b len HL Ha Hab Hb Hlen) as [pos [H1 [H2 H3]]].
  exists pos. split; [exact H1|]. split; [|split; assumption].
  rewrite (plain_exact_positions lines n minCol HL) in H1. inversion H1; reflexivity.
Qed.
Print Assumptions C06_plain_end_to_end.



(** ** The remaining refutation of the full statement, and the seven former ones turned positive.  Witnesses are
    evaluated on the model by [vm_compute]; the same inputs are corpus/C06/*.yml, run through the real parser on
    every check (the observed positions are compared with the model by the correspondence; the oracle requires the
    former witnesses to spell and counts the dq-escape one under its known-finding id).  [minColumn] = 1 is what
    the parser passes. *)

Definition tab : string := String (ascii_of_N 9) EmptyString.
Definition nl : string := String (ascii_of_N 10) EmptyString.

(** [- alert: "a\tb"]: the tab byte has no byte of its own in the source.  Since the dq-escape fix the escape
    sequence is one token: the tab is located on the last column of [\t] (the [t], column 13), the scan stays in sync
    ([b] on column 14, three positions for three value bytes, all on line 1) — but read back LITERALLY the positions
    spell [atb], not the value: the literal reading of the property stays refuted for exactly these bytes. *)
Definition w_dq_lines : list string :=
  ["- alert: ""a\tb"""; "  expr: up == 0"; "- alert: Next"; "  expr: up == 1"]%string.
Definition w_dq_node : snode := mksn ("a" ++ tab ++ "b")%string 1 10 false EmptyString true.

Theorem C06_refuted_dq_escape :
  exists pos, new_position_range w_dq_lines w_dq_node 1 = Ok pos /\
              spells_b w_dq_lines pos (sn_value w_dq_node) = false /\
              pos = [mkp 1 11 11; mkp 1 13 14] /\ read_back w_dq_lines pos = Some "atb"%string /\
              plen pos = slen (sn_value w_dq_node).
Proof. eexists. split; [vm_compute; reflexivity|]. repeat split; vm_compute; reflexivity. Qed.
Print Assumptions C06_refuted_dq_escape.

(** the escapes of YAML 1.2 on one line: every value byte gets a position, in order, on the columns of its own escape
    sequence or literal byte (backslash-n: the n; backslash-u00e9: the last two hex digits for the two UTF-8 bytes;
    an escaped double quote: the quote; a doubled backslash: the second one), and the scan ends on the closing part of the scalar, not in a later rule. *)
Example C06_dq_escapes_in_sync :
  let line := "    s: ""down\nsince \u00e9 \""x\"" \\n"""%string in
  let v := ("down" ++ nl ++ "since " ++ bs [195;169]%N ++ " ""x"" \n")%string in
  new_position_range ["- alert: A"; line; "- alert: downsince"]%string (mksn v 2 8 false EmptyString true) 1
  = Ok [mkp 2 9 12; mkp 2 14 20; mkp 2 25 27; mkp 2 29 30; mkp 2 32 33; mkp 2 35 36].
Proof. vm_compute. reflexivity. Qed.
Print Assumptions C06_dq_escapes_in_sync.

(** folded block with a blank line (fixed by 6c7f5de): the break of the blank line gets no position. *)
Definition w_fb_lines : list string :=
  ["- alert: Foo"; "  expr: up == 0"; "  annotations:"; "    summary: >-"; "      first line"; ""; "      second"]%string.
Definition w_fb_node : snode := mksn ("first line" ++ nl ++ "second")%string 4 14 true EmptyString false.

Example C06_folded_blank_fixed :
  new_position_range w_fb_lines w_fb_node 1 = Ok [mkp 5 7 17; mkp 7 7 12] /\
  spells_b w_fb_lines [mkp 5 7 17; mkp 7 7 12] (sn_value w_fb_node) = true.
Proof. split; vm_compute; reflexivity. Qed.
Print Assumptions C06_folded_blank_fixed.

(** block header (fixed by 660d1e1): [expr: | # up] no longer matches inside the comment, [expr: |-] followed by
    [-1 * foo] no longer matches the chomping indicator. *)
Definition w_bh_lines : list string :=
  ["- alert: Foo"; "  expr: | # up"; "    up == 0"; "- alert: Bar"; "  expr: |-"; "    -1 * foo"]%string.

Example C06_block_header_fixed :
  new_position_range w_bh_lines (mksn ("up == 0" ++ nl)%string 2 9 true EmptyString false) 1 = Ok [mkp 3 5 11] /\
  new_position_range w_bh_lines (mksn "-1 * foo"%string 5 9 true EmptyString false) 1 = Ok [mkp 6 5 12].
Proof. split; vm_compute; reflexivity. Qed.
Print Assumptions C06_block_header_fixed.

(** content / continuation indented by one column relative to the key (fixed by d1959ae: minColumn = 1). *)
Definition w_si_lines : list string :=
  ["- alert: Foo"; "  expr: |"; "   up == 0"; "- alert: Bar"; "  expr: up"; "   == 0"]%string.

Example C06_shallow_indent_fixed :
  new_position_range w_si_lines (mksn ("up == 0" ++ nl)%string 2 9 true EmptyString false) 1 = Ok [mkp 3 4 10] /\
  new_position_range w_si_lines (mksn0 "up == 0"%string 5 9) 1 = Ok [mkp 5 9 11; mkp 6 4 7] /\
  spells_b w_si_lines [mkp 5 9 11; mkp 6 4 7] "up == 0"%string = true.
Proof. repeat split; vm_compute; reflexivity. Qed.
Print Assumptions C06_shallow_indent_fixed.

(** trailing blanks on a continued line of a multi-line quoted scalar (fixed by 6c7f5de). *)
Definition w_ts_lines : list string := ["- alert: Foo"; "  expr: 'up  "; "    == 0'"]%string.

Example C06_continued_trailing_space_fixed :
  new_position_range w_ts_lines (mksn0 "up == 0"%string 2 9) 1 = Ok [mkp 2 10 12; mkp 3 5 8] /\
  spells_b w_ts_lines [mkp 2 10 12; mkp 3 5 8] "up == 0"%string = true.
Proof. split; vm_compute; reflexivity. Qed.
Print Assumptions C06_continued_trailing_space_fixed.

(** block scalar whose value starts with a line break (fixed by 660d1e1 + 6c7f5de): the break of the blank first
    content line is consumed there and gets its position. *)
Definition w_lb_lines : list string :=
  ["- alert: Foo"; "  expr: up == 0"; "  annotations:"; "    summary: |"; ""; "      text"]%string.

Example C06_block_leading_blank_fixed :
  new_position_range w_lb_lines (mksn (nl ++ "text" ++ nl)%string 4 14 true EmptyString false) 1 = Ok [mkp 5 1 1; mkp 6 7 10] /\
  spells_b w_lb_lines [mkp 5 1 1; mkp 6 7 10] (nl ++ "text" ++ nl)%string = true.
Proof. split; vm_compute; reflexivity. Qed.
Print Assumptions C06_block_leading_blank_fixed.

(** yaml.v3 counts columns in characters (fixed by 9af0d98: [byteColumn]): after four 3-byte arrows the node of
    [b]'s value [x] is reported at column 28 while the byte [x] sits at byte column 36. *)
Definition w_mb_line : string :=
  ("  labels: {a: """ ++ bs [226;134;146;226;134;146;226;134;146;226;134;146]%N ++ " x"", b: x}")%string.
Definition w_mb_lines : list string := ["- alert: Foo"; "  expr: up == 0"; w_mb_line]%string.

Example C06_multibyte_prefix_fixed :
  String.get 35 w_mb_line = Some "x"%char /\ String.get 28 w_mb_line = Some "x"%char /\
  new_position_range w_mb_lines (mksn0 "x"%string 3 28) 1 = Ok [mkp 3 36 36].
Proof. repeat split; vm_compute; reflexivity. Qed.
Print Assumptions C06_multibyte_prefix_fixed.

(** anchored scalar (fixed by 69b377d): yaml.v3 reports the node at the [&] (column 9), the value [up == 0] starts
    at column 13. *)
Example C06_anchor_prefix_fixed :
  new_position_range ["- alert: Foo"; "  expr: &up up == 0"]%string (mksn "up == 0"%string 2 9 false "up"%string false) 1
  = Ok [mkp 2 13 19].
Proof. vm_compute. reflexivity. Qed.
Print Assumptions C06_anchor_prefix_fixed.

(** The full statement is still false (one class left). *)
Theorem C06_full_statement_refuted : ~ C06_full_statement.
Proof.
  intros H. destruct C06_refuted_dq_escape as [pos [H1 [H2 _]]].
  specialize (H w_dq_lines w_dq_node 1 pos ltac:(discriminate) H1).
  destruct H as [rb [Hrb Hsp]]. unfold spells_b in H2. rewrite Hrb in H2. congruence.
Qed.
Print Assumptions C06_full_statement_refuted.

(** Non-vacuity: the premises of the partial theorems are satisfiable, on a typical rule. *)
Example C06_nonvacuous :
  node_ok ["- alert: Foo"; "  expr: up == 0  # comment"]%string (mksn0 "up == 0"%string 2 9) 1 = true /\
  Lay1 Plain ["- alert: Foo"; "  expr: up == 0  # comment"]%string (mksn0 "up == 0"%string 2 9) /\
  Lay1 SingleQuoted ["- alert: 'it''s'"]%string (mksn0 "it's"%string 1 10) /\
  Lay1 DoubleQuotedSimple ["  summary: ""say hi"" # x"]%string (mksn "say hi"%string 1 12 false EmptyString true).
Proof.
  split; [vm_compute; reflexivity|]. split; [|split].
  - split; [discriminate|]. repeat (split; [reflexivity|]). split; [|split; [reflexivity|discriminate]].
    exists "  expr: up == 0  # comment"%string, "  expr: "%string, "  # comment"%string. repeat split.
  - split; [discriminate|]. repeat (split; [reflexivity|]). split; [|split; discriminate].
    exists "- alert: 'it''s'"%string, "- alert: "%string, ""%string. repeat split.
  - split; [discriminate|]. repeat (split; [reflexivity|]). split; [|split; [discriminate|]].
    + exists "  summary: ""say hi"" # x"%string, "  summary: "%string, " # x"%string. repeat split.
    + intros _. exists "  summary: ""say hi"" # x"%string. split; reflexivity.
Qed.
Print Assumptions C06_nonvacuous.

Definition ex_literal : block_layout :=
  {| bl_pre := ["- alert: Foo"]%string; bl_keyline_pre := "  expr: "%string; bl_header := "|-  # sum(foo)"%string;
     bl_indent := 3; bl_first := "sum(foo)"%string;
     bl_items := [Body "  by (job)"%string; Blank 0; Body "> 0"%string]; bl_tail := 0;
     bl_after := ["  for: 5m"]%string |}.
Definition ex_folded : block_layout :=
  {| bl_pre := []; bl_keyline_pre := "    summary: "%string; bl_header := ">"%string;
     bl_indent := 6; bl_first := "first line"%string; bl_items := [Body "second"%string]; bl_tail := 1;
     bl_after := [] |}.
Definition ex_plain_ml : plain_ml_layout :=
  {| pm_pre := ["- alert: Foo"]%string; pm_keyline_pre := "  expr: "%string; pm_first := "sum(foo)"%string;
     pm_more := [(6%nat, "by (job)"%string); (3%nat, "> 0"%string)]; pm_after := ["  for: 5m"]%string |}.

Definition ex_quoted_ml : flow_ml_layout :=
  {| fm_pre := ["- alert: Foo"]%string; fm_keyline_pre := "  expr: "%string; fm_open := "'"%string;
     fm_first := "sum(foo{job=""a""})"%string; fm_mid := [(6%nat, "by (job)"%string)]; fm_last := (0%nat, "> 0"%string);
     fm_trailer := "'  # comment"%string; fm_after := ["  for: 5m"]%string |}.

Definition ex_folded_paragraphs : block_layout :=
  {| bl_pre := ["- alert: Foo"; "  annotations:"]%string; bl_keyline_pre := "    description: "%string; bl_header := ">- # first"%string;
     bl_indent := 6; bl_first := "first paragraph"%string;
     bl_items := [Body "continues."%string; Blank 0; Blank 3; Body "second paragraph"%string]; bl_tail := 0;
     bl_after := ["  expr: up"]%string |}.

Example C06_nonvacuous_folded_paragraphs :
  fold_ok ex_folded_paragraphs 1 = true /\
  bl_value_fold ex_folded_paragraphs = ("first paragraph continues." ++ nl ++ nl ++ "second paragraph")%string.
Proof. split; vm_compute; reflexivity. Qed.

Example C06_nonvacuous_blocks :
  fm_ok ex_quoted_ml 1 = true /\ fm_value ex_quoted_ml = "sum(foo{job=""a""}) by (job) > 0"%string /\
  block_ok true ex_literal 1 = true /\ block_ok false ex_folded 1 = true /\ pm_ok ex_plain_ml 1 = true /\
  bl_value true ex_literal = ("sum(foo)" ++ nl ++ "  by (job)" ++ nl ++ nl ++ "> 0")%string /\
  bl_value false ex_folded = ("first line second" ++ nl)%string /\
  pm_value ex_plain_ml = "sum(foo) by (job) > 0"%string /\
  slice1 2 4 "abcdef"%string = "bcd"%string.
Proof. repeat split; vm_compute; reflexivity. Qed.
Print Assumptions C06_nonvacuous_blocks.
