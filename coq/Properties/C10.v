(** C10 — Text excluded by ignore comments cannot influence the result.

    Only the property theorems; proofs are in Proofs/C10_*.v.  [tp] (time.Parse of snooze stamps) is universally
    quantified everywhere: the theorems hold for every behaviour of that library function. *)
From Coq Require Import List String Ascii ZArith Bool.
From PintV Require Import Common.Bytes Model.Comments Model.Reader Model.MaskSpec Proofs.C10_refine.
Import ListNotations.
Open Scope string_scope.

(** FULL STATEMENT (false of the real reader, see [C10_impl_refines_spec_refuted]):
      forall tp f, sim (reader_impl tp f) (reader_spec tp f)
    i.e. the reader implements the documented meaning: masked bytes, lines, collected file comments, diagnostics and
    line count are those of MaskSpec, and the four flags abstract to its state.

    PARTIAL, exact guard = no entirely excluded line parses to a pint control comment (the complement of the
    known-finding class C10-control-comment-in-excluded-text). *)
Theorem C10_impl_refines_spec_partial : forall tp f,
  control_comment_in_excluded_text tp f = false ->
  sim (reader_impl tp f) (reader_spec tp f).
Proof. exact impl_refines_spec_partial. Qed.
Print Assumptions C10_impl_refines_spec_partial.

(** The class of the known finding (what the oracle may excuse) is a subset of the guarded-out files. *)
Theorem C10_known_class_within_guard : forall tp f,
  known_leak_class tp f = true -> control_comment_in_excluded_text tp f = true.
Proof. exact known_class_within_guard. Qed.
Print Assumptions C10_known_class_within_guard.

Definition no_time : string -> option Z := fun _ => None.

Definition witness_nextline_in_block : string :=
  "# pint ignore/begin
{{ garbage # pint ignore/next-line
also garbage
{{ more
# pint ignore/end
- alert: A
".

(** The full statement is false: inside begin..end a line carrying ignore/next-line is not blanked and switches
    masking off for the rest of the block (the same input fails on the real reader: corpus/C10/k1_nextline_in_block.txt). *)
Theorem C10_impl_refines_spec_refuted :
  exists f, r_out (reader_impl no_time f) <> s_out (reader_spec no_time f).
Proof. exists witness_nextline_in_block. vm_compute. discriminate. Qed.
Print Assumptions C10_impl_refines_spec_refuted.

(** Three more witnesses of the known-finding class, one per leak channel (each is also a corpus case that fails on
    the real reader/pipeline): a line targeted by ignore/next-line that itself carries an ignore comment is not
    blanked; file/disable inside begin..end is still collected; a rule comment on the line after ignore/next-line
    survives the masking. *)
Definition witness_nextline_target : string :=
  "# pint ignore/next-line
{{ garbage }} # pint ignore/next-line
foo
".
Definition witness_file_disable_in_block : string :=
  "# pint ignore/begin
# pint file/disable promql/rate
# pint ignore/end
".
Definition witness_rule_comment_survives : string :=
  "# pint ignore/next-line
{{ x }} # pint disable promql/series
".

Theorem C10_impl_refines_spec_refuted_channels :
  r_out (reader_impl no_time witness_nextline_target) <> s_out (reader_spec no_time witness_nextline_target) /\
  r_comments (reader_impl no_time witness_file_disable_in_block) <> s_comments (reader_spec no_time witness_file_disable_in_block) /\
  r_out (reader_impl no_time witness_rule_comment_survives) <> s_out (reader_spec no_time witness_rule_comment_survives) /\
  control_comment_in_excluded_text no_time witness_nextline_target = true /\
  control_comment_in_excluded_text no_time witness_file_disable_in_block = true /\
  control_comment_in_excluded_text no_time witness_rule_comment_survives = true /\
  known_leak_class no_time witness_nextline_in_block = true /\
  known_leak_class no_time witness_nextline_target = true /\
  known_leak_class no_time witness_file_disable_in_block = true /\
  known_leak_class no_time witness_rule_comment_survives = true.
Proof. vm_compute. repeat split; discriminate. Qed.
Print Assumptions C10_impl_refines_spec_refuted_channels.

(** ** Non-interference of the documented meaning, for ALL files and payloads.

    [repl (SNormal false) 0 (chunks f) (chunks f')] (Proofs/C10_nonint.v) says: [f'] has the same number of lines as
    [f] and differs from it only inside excluded text — a line the spec excludes entirely may be replaced by any line
    with the same terminator (inside begin..end: not by an ignore/end line), the text in front of an ignore/line or
    ignore/file directive by any newline-free text after which that directive is still the line's pint comment
    (payload_ok), every other line is unchanged.
    Conclusion [sd_equiv]: same final state, line count, collected comments and diagnostic lines, and per line the
    same masked text up to the number of leading spaces ([blank_equiv]). *)
From PintV Require Import Proofs.C10_nonint Proofs.C10_insert.

Theorem C10_spec_noninterference : forall tp f f',
  repl tp (SNormal false) 0 (chunks f) (chunks f') ->
  sd_equiv (reader_spec tp f) (reader_spec tp f').
Proof. exact spec_noninterference. Qed.
Print Assumptions C10_spec_noninterference.

(** ... and when the replacement text has the same byte length on every line, all outputs are EQUAL, so nothing
    downstream of the reader (yaml, rules, positions, problems) can differ. *)
Theorem C10_spec_noninterference_eq : forall tp f f',
  repl tp (SNormal false) 0 (chunks f) (chunks f') ->
  Forall2 same_length (chunks f) (chunks f') ->
  reader_spec tp f = reader_spec tp f'.
Proof. exact spec_noninterference_eq. Qed.
Print Assumptions C10_spec_noninterference_eq.

(** Inserting a fully excluded block ([excl_block]: ignore/next-line + 1 line, a line ending in ignore/line,
    begin..end around any lines without ignore/end, or several of those in a row; directive lines carry nothing but
    the comment) at a point where the reader is in normal state: what precedes is unchanged, the block yields only
    yaml-blank lines and collects nothing, what follows is the old result with line numbers shifted. *)
Theorem C10_spec_insert_shift : forall tp pre blk post,
  snd (spec_steps tp (SNormal false) 0 pre) = SNormal false ->
  excl_block tp blk ->
  let L1 := fst (spec_steps tp (SNormal false) 0 pre) in
  let L2 := fst (spec_steps tp (SNormal false) (List.length pre) post) in
  let fin := snd (spec_steps tp (SNormal false) (List.length pre) post) in
  spec_steps tp (SNormal false) 0 (pre ++ post) = (L1 ++ L2, fin) /\
  exists B, List.length B = List.length blk /\ Forall inert_blank B /\
    spec_steps tp (SNormal false) 0 (pre ++ blk ++ post) = (L1 ++ B ++ map (shift_res (List.length blk)) L2, fin).
Proof. exact spec_insert_shift. Qed.
Print Assumptions C10_spec_insert_shift.

(** The same statement about FILES: [concat_str] glues complete lines ([line_chunk]: newline-free text + newline). *)
Theorem C10_spec_insert_shift_files : forall tp pre blk post,
  Forall line_chunk pre -> Forall line_chunk blk -> Forall line_chunk post ->
  s_st (reader_spec tp (concat_str pre)) = SNormal false ->
  excl_block tp blk ->
  exists L1 L2 B fin,
    List.length B = List.length blk /\ Forall inert_blank B /\
    reader_spec tp (concat_str (pre ++ post)) = assemble (L1 ++ L2) fin (List.length pre + List.length post) /\
    reader_spec tp (concat_str (pre ++ blk ++ post)) =
      assemble (L1 ++ B ++ map (shift_res (List.length blk)) L2) fin (List.length pre + (List.length blk + List.length post)).
Proof. exact spec_insert_shift_files. Qed.
Print Assumptions C10_spec_insert_shift_files.

(** [spec_steps] is the spec itself: [reader_spec] assembled line by line. *)
Theorem C10_spec_steps_is_spec : forall tp f,
  reader_spec tp f = assemble (fst (spec_steps tp (SNormal false) 0 (chunks f)))
                              (snd (spec_steps tp (SNormal false) 0 (chunks f))) (List.length (chunks f)).
Proof. exact reader_spec_assemble. Qed.
Print Assumptions C10_spec_steps_is_spec.

(** Non-interference of the IMPLEMENTATION outside the known-finding class: both files free of control comments in
    excluded text, same-length replacement of excluded text => the real reader's five outputs are equal. *)
Theorem C10_impl_noninterference_partial : forall tp f f',
  control_comment_in_excluded_text tp f = false ->
  control_comment_in_excluded_text tp f' = false ->
  repl tp (SNormal false) 0 (chunks f) (chunks f') ->
  Forall2 same_length (chunks f) (chunks f') ->
  let a := reader_impl tp f in let b := reader_impl tp f' in
  r_out a = r_out b /\ r_lines a = r_lines b /\ r_comments a = r_comments b /\ r_diags a = r_diags b /\
  r_lineno a = r_lineno b.
Proof.
  intros tp f f' G G' Hr Hl.
  destruct (impl_refines_spec_partial tp f G) as (_ & A1 & A2 & A3 & A4 & A5).
  destruct (impl_refines_spec_partial tp f' G') as (_ & B1 & B2 & B3 & B4 & B5).
  cbn zeta. rewrite A1, A2, A3, A4, A5, B1, B2, B3, B4, B5, (spec_noninterference_eq tp f f' Hr Hl).
  repeat split; reflexivity.
Qed.
Print Assumptions C10_impl_noninterference_partial.

(** Non-vacuity: the premises are satisfiable by real-looking files (all four forms), and the refutation witness
    is exactly in the guarded-out class. *)
Definition nv_a : string :=
  "# pint ignore/begin
{{ x }}
# pint ignore/end
foo # pint ignore/line
# pint ignore/next-line
bar
- alert: A
# pint ignore/file
rest
".
Definition nv_b : string :=
  "# pint ignore/begin
- [ yyy
# pint ignore/end
baz # pint ignore/line
# pint ignore/next-line
: :
- alert: A
# pint ignore/file
tser
".

Example C10_nonvacuous :
  repl no_time (SNormal false) 0 (chunks nv_a) (chunks nv_b) /\
  Forall2 same_length (chunks nv_a) (chunks nv_b) /\
  control_comment_in_excluded_text no_time nv_a = false /\
  control_comment_in_excluded_text no_time nv_b = false /\
  nv_a <> nv_b /\
  control_comment_in_excluded_text no_time witness_nextline_in_block = true.
Proof.
  split; [|split; [|repeat split; try (vm_compute; reflexivity); discriminate]].
  - vm_compute. repeat match goal with |- _ /\ _ => split end; try discriminate; try reflexivity.
    + exists "foo ", "baz ", "# pint ignore/line
". do 2 eexists. repeat split.
    + exists "", "", "# pint ignore/file
". do 2 eexists. repeat split.
  - vm_compute. repeat constructor.
Qed.
Print Assumptions C10_nonvacuous.

(** The finite tables of the model are those of the current source (regenerated by the translator on every run):
    comment prefix, keyword -> type table of parseType, numbering of comments.Type, IsRuleComment, and the per-type
    behaviour of ContentReader.parseComments (skip mode / collected / ignore-file diagnostic). *)
From PintV Require Import Proofs.C10_tables.
Theorem C10_tables_match_source : tables_ok = true.
Proof. exact tables_match_source. Qed.
Print Assumptions C10_tables_match_source.

(** Everything downstream of the reader (yaml decoding, rule parsing, positions, checks) consumes only the reader's
    outputs: [Parser.Parse] hands the masked bytes to yaml.v3 and passes [lines] to the rule parser; [comments],
    [diagnostics] and [lineno] go to discovery.readRules.  So for ANY downstream function, same-length replacement of
    excluded text cannot change the result (outside the known-finding class). *)
Theorem C10_pipeline_factors : forall (Result : Type)
    (downstream : string -> list string -> list comment -> list diag -> nat -> Result) tp f f',
  control_comment_in_excluded_text tp f = false ->
  control_comment_in_excluded_text tp f' = false ->
  repl tp (SNormal false) 0 (chunks f) (chunks f') ->
  Forall2 same_length (chunks f) (chunks f') ->
  let a := reader_impl tp f in let b := reader_impl tp f' in
  downstream (r_out a) (r_lines a) (r_comments a) (r_diags a) (r_lineno a) =
  downstream (r_out b) (r_lines b) (r_comments b) (r_diags b) (r_lineno b).
Proof.
  intros Result downstream tp f f' G G' Hr Hl.
  destruct (C10_impl_noninterference_partial tp f f' G G' Hr Hl) as (E1 & E2 & E3 & E4 & E5).
  cbn zeta. rewrite E1, E2, E3, E4, E5. reflexivity.
Qed.
Print Assumptions C10_pipeline_factors.

(** Since fix 670b316 the bytes handed to yaml.v3 are [r_yaml r] = the masked bytes with every CR LF turned into LF
    (the source lines keep their CR).  They are a function of [r_out], so the factoring carries over verbatim. *)
Theorem C10_pipeline_factors_yaml : forall (Result : Type)
    (downstream : string -> list string -> list comment -> list diag -> nat -> Result) tp f f',
  control_comment_in_excluded_text tp f = false ->
  control_comment_in_excluded_text tp f' = false ->
  repl tp (SNormal false) 0 (chunks f) (chunks f') ->
  Forall2 same_length (chunks f) (chunks f') ->
  let a := reader_impl tp f in let b := reader_impl tp f' in
  downstream (r_yaml a) (r_lines a) (r_comments a) (r_diags a) (r_lineno a) =
  downstream (r_yaml b) (r_lines b) (r_comments b) (r_diags b) (r_lineno b).
Proof.
  intros Result downstream tp f f' G G' Hr Hl.
  exact (C10_pipeline_factors Result (fun o => downstream (crlf_to_lf o)) tp f f' G G' Hr Hl).
Qed.
Print Assumptions C10_pipeline_factors_yaml.

(** [crlf_to_lf] on the lead's example: CR LF endings become LF, a lone CR stays. *)
Example C10_crlf_to_lf_example :
  crlf_to_lf (bs [97; 13; 10; 98; 13; 99; 13; 10; 13]%N) = bs [97; 10; 98; 13; 99; 10; 13]%N.
Proof. vm_compute. reflexivity. Qed.
