(** C08 — Every check is switched on and off by the name it reports under.

    Part 1: finite theorems over the tables the translator regenerates from the Go AST on every run
            (registration sites of parsed_rule.go joined with Reporter()/Meta() of every check type,
            CheckNames, OnlineChecks).
    Part 2: theorems, for ALL configurations x entries x lists of parsed rules, about the model of
            isEnabled / parsedRule.isEnabled / GetChecksForEntry / SetDisabledChecks / DisableOnlineChecks
            (Model/CheckSwitch.v).  [names_are_reporters] and [wf_prules] are facts about the list of parsed
            rules; for the registrations of the current source they follow from Part 1, and they are re-checked
            on every correspondence case (Run/C08.v).
    Only theorem statements here; the proofs are in Proofs/C08_tables.v and Proofs/C08_logic.v. *)
From Coq Require Import List String Ascii Bool.
From PintV Require Gen.C08.
From PintV Require Import Common.Bytes Gen.Tables Model.CheckSwitch Model.Routing08Tables Proofs.C08_tables Proofs.C08_logic Proofs.C08_online.
Import ListNotations.
Open Scope string_scope.
Open Scope list_scope.

(* ---------------------------------------------------------------------------------------------- *)
(** * Part 1 — tables of the current source *)

(** Every registration site passes the name constant that the registered check type's Reporter() returns.
    (False before fix 569059c: range_query{} and report{} were registered under query/cost.) *)
Theorem C08_registered_name_is_reporter : forall r, In r registrations ->
  exists t, type_of_ctor (rg_ctor r) = Some t /\ rg_name r = ct_reporter t.
Proof. exact registered_name_is_reporter_lifted. Qed.
Print Assumptions C08_registered_name_is_reporter.

(** Every registered name is a member of CheckNames (so the default enabled list covers it and
    validateCheckName accepts it in checks{} / rule{enable,disable}). *)
Theorem C08_registered_names_in_CheckNames : forall r, In r registrations -> In (rg_name r) check_names.
Proof. exact registered_names_in_CheckNames_lifted. Qed.
Print Assumptions C08_registered_names_in_CheckNames.

(** A registered check talks to Prometheus (Meta().Online) iff its name is in OnlineChecks. *)
Theorem C08_online_iff_listed : forall r, In r registrations ->
  exists t, type_of_ctor (rg_ctor r) = Some t /\ (ct_online t = true <-> In (rg_name r) online_checks).
Proof. exact online_iff_listed_lifted. Qed.
Print Assumptions C08_online_iff_listed.

(** The direction the property needs, separately: nothing listed as online is an offline check
    (so --offline removes nothing that could have run offline) and every online check is listed. *)
Theorem C08_online_directions :
  forallb reg_listed_then_online registrations = true /\ forallb reg_online_then_listed registrations = true.
Proof. exact (conj all_reg_listed_then_online all_reg_online_then_listed). Qed.
Print Assumptions C08_online_directions.

(** Table hygiene used by Part 2: every problem literal of a check type carries c.Reporter(); every name of
    CheckNames is registered somewhere, contains no '(' and occurs once; OnlineChecks is a duplicate-free sublist
    of CheckNames; no registered check type is AlwaysEnabled; a non-constant Reporter() only on the AlwaysEnabled type. *)
Theorem C08_table_hygiene :
  (forall t s, In t check_types -> In s (ct_sites t) -> s = "c.Reporter()") /\
  (forall n, In n check_names -> exists r, In r registrations /\ rg_name r = n) /\
  (forall n, In n check_names -> plain_name n = true) /\
  nodup_str check_names = true /\ nodup_str online_checks = true /\
  forallb (fun n => mem_str n check_names) online_checks = true /\
  forallb registered_ctor_not_always registrations = true /\
  forallb type_const_or_always check_types = true.
Proof.
  exact (conj problems_carry_reporter_lifted (conj every_name_registered_lifted (conj names_plain_lifted
        (conj check_names_nodup (conj online_checks_nodup (conj online_subset_names
        (conj all_registered_not_always all_types_const_or_always))))))).
Qed.
Print Assumptions C08_table_hygiene.

(* ---------------------------------------------------------------------------------------------- *)
(** * Part 2 — the switching logic *)

(** checks{disabled=[N]} / --disabled N (a plain check name appended to the disabled list): the enabled checks
    are the old ones minus those REPORTING under N — except always-enabled checks (parse errors) and checks that a
    matching rule{enable=[N]} block re-enables (documented precedence).  Every other check is unchanged, in order. *)
Theorem C08_disabled_exact : forall c e prs N,
  wf_prules prs = true -> names_are_reporters prs = true -> plain_name N = true ->
  get_checks (with_disabled c (c_disabled c ++ [N])) e prs =
  filter (fun p => ck_always (pr_check p) || negb (String.eqb (ck_reporter (pr_check p)) N)
                   || cfg_enables (c_rules c) (ck_reporter (pr_check p)))
         (get_checks c e prs).
Proof.
  intros c e prs N W R HN.
  rewrite (disable_list_is_filter c e prs prs [N] W (incl_refl _)); [|intros n [<-|[]]; exact HN].
  apply filter_ext_in'. intros p Hp. apply get_checks_incl in Hp.
  pose proof (proj1 (forallb_forall _ _) R p Hp) as E. apply String.eqb_eq in E.
  unfold keep_disabled. rewrite <- E. simpl. destruct (String.eqb (pr_name p) N); reflexivity.
Qed.
Print Assumptions C08_disabled_exact.

(** ... and therefore, for any behaviour [run] of the checks themselves: the emitted problems are the old
    ones minus those whose reporter is N (when no always-enabled check reports under N and no rule{enable}). *)
Theorem C08_disabled_problems_exact : forall (P : Type) (run : check -> list P) c e prs N,
  wf_prules prs = true -> names_are_reporters prs = true -> plain_name N = true ->
  (forall p, In p prs -> ck_always (pr_check p) = true -> ck_reporter (pr_check p) <> N) ->
  cfg_enables (c_rules c) N = false ->
  emitted run (get_checks (with_disabled c (c_disabled c ++ [N])) e prs) =
  filter (fun x => negb (String.eqb (fst x) N)) (emitted run (get_checks c e prs)).
Proof.
  intros P run c e prs N W R HN HA HE.
  rewrite (C08_disabled_exact c e prs N W R HN).
  rewrite <- (emitted_filter run (fun r => negb (String.eqb r N))). f_equal.
  apply filter_ext_in'. intros p Hp. apply get_checks_incl in Hp.
  destruct (String.eqb (ck_reporter (pr_check p)) N) eqn:E; simpl.
  - apply String.eqb_eq in E. rewrite E, HE. rewrite orb_false_r.
    destruct (ck_always (pr_check p)) eqn:A; [|reflexivity]. exfalso. exact (HA p Hp A E).
  - rewrite orb_true_r. reflexivity.
Qed.
Print Assumptions C08_disabled_problems_exact.

(** checks{enabled=[N..]} / --enabled N: starting from an enabled list that covers every registered name
    (the default: CheckNames), the enabled checks are exactly the old ones REPORTING under a listed name,
    plus always-enabled checks (unconditional parse errors). *)
Theorem C08_enabled_exact : forall c e prs E,
  wf_prules prs = true -> names_are_reporters prs = true -> E <> [] -> covers (c_enabled c) prs ->
  get_checks (with_enabled c E) e prs =
  filter (fun p => ck_always (pr_check p) || mem_str (ck_reporter (pr_check p)) E) (get_checks c e prs).
Proof.
  intros c e prs E W R HE Hcov.
  rewrite (enabled_list_is_filter c e prs prs E W (incl_refl _) HE Hcov).
  apply filter_ext_in'. intros p Hp. apply get_checks_incl in Hp.
  pose proof (proj1 (forallb_forall _ _) R p Hp) as Eq. apply String.eqb_eq in Eq.
  unfold keep_enabled. rewrite <- Eq. reflexivity.
Qed.
Print Assumptions C08_enabled_exact.

(** rule { disable = [N..] } (a block without enable, inserted anywhere among the rule blocks): for an entry the
    block matches, the enabled checks are the old ones minus those reporting under a listed name; for an entry it
    does not match nothing changes. *)
Theorem C08_rule_disable_exact : forall c e prs rs1 r rs2,
  wf_prules prs = true -> names_are_reporters prs = true -> c_rules c = rs1 ++ rs2 -> cr_enable r = [] ->
  get_checks (with_rules c (rs1 ++ r :: rs2)) e prs =
  filter (fun p => negb (cr_matched r && mem_str (ck_reporter (pr_check p)) (cr_disable r))) (get_checks c e prs).
Proof.
  intros c e prs rs1 r rs2 W R Hrs He.
  rewrite (rule_disable_is_filter c e prs prs rs1 r rs2 W (incl_refl _) Hrs He).
  apply filter_ext_in'. intros p Hp. apply get_checks_incl in Hp.
  pose proof (proj1 (forallb_forall _ _) R p Hp) as Eq. apply String.eqb_eq in Eq.
  unfold keep_rule_disable. rewrite <- Eq. reflexivity.
Qed.
Print Assumptions C08_rule_disable_exact.

(** --offline (DisableOnlineChecks with the OnlineChecks table of the current source) is exactly disabling the
    listed names: a check disappears iff it reports under a listed name (and is not always-enabled / re-enabled by a
    rule{enable}); nothing that reports under another name disappears. *)
Theorem C08_offline_is_disable_list : forall c e prs,
  wf_prules prs = true -> names_are_reporters prs = true ->
  get_checks (with_disabled c (disable_online_checks online_checks (c_disabled c))) e prs =
  filter (fun p => ck_always (pr_check p) || negb (mem_str (ck_reporter (pr_check p)) online_checks)
                   || cfg_enables (c_rules c) (ck_reporter (pr_check p)))
         (get_checks c e prs).
Proof.
  intros c e prs W R.
  rewrite (offline_is_disable_list_gen c e prs prs online_checks W (incl_refl _) online_names_plain).
  apply filter_ext_in'. intros p Hp. apply get_checks_incl in Hp.
  pose proof (proj1 (forallb_forall _ _) R p Hp) as Eq. apply String.eqb_eq in Eq.
  unfold keep_disabled. rewrite <- Eq. reflexivity.
Qed.
Print Assumptions C08_offline_is_disable_list.

(** DisableOnlineChecks keeps the configured list as a prefix and adds exactly the missing online names. *)
Theorem C08_offline_list_shape : forall d,
  (exists L, disable_online_checks online_checks d = d ++ L /\ forall x, In x L -> In x online_checks) /\
  (forall x, In x (disable_online_checks online_checks d) <-> In x d \/ In x online_checks).
Proof. intro d. split; [apply disable_online_prefix|intro x; apply disable_online_In]. Qed.
Print Assumptions C08_offline_list_shape.

(** Parsed rules built from the registration table of the current source satisfy the two well-formedness facts:
    the reporter is the registered name and String() has the shape  name | name(...)  .  *)
Theorem C08_table_rules_wellformed : forall r t suffix tags locked matched,
  In r registrations -> type_of_ctor (rg_ctor r) = Some t ->
  (suffix = "" \/ exists rest, suffix = String lparen rest) ->
  let p := prule_of_registration r t suffix tags locked matched in
  pr_name p = ck_reporter (pr_check p) /\ plain_name (pr_name p) = true /\ string_shape p = true /\
  ck_always (pr_check p) = false.
Proof.
  intros r t suffix tags locked matched Hr Ht Hs p.
  destruct (C08_registered_name_is_reporter r Hr) as [t' [Ht' Hn]].
  rewrite Ht in Ht'. inversion Ht'; subst t'. clear Ht'.
  assert (Hpl : plain_name (rg_name r) = true) by (apply names_plain_lifted, registered_names_in_CheckNames_lifted; exact Hr).
  split; [exact Hn|]. split; [exact Hpl|]. split.
  - unfold string_shape, p; simpl. rewrite <- Hn.
    destruct Hs as [Hs|[rest Hs]]; subst suffix.
    + replace (rg_name r ++ "")%string with (rg_name r). { rewrite String.eqb_refl. reflexivity. }
      clear. induction (rg_name r); simpl; congruence.
    + apply orb_true_iff. right. apply andb_true_iff. split.
      * clear. induction (rg_name r) as [|a s IH]; simpl; [reflexivity|].
        destruct (Ascii.ascii_dec a a); [exact IH|congruence].
      * assert (G : String.get (String.length (rg_name r)) (rg_name r ++ String lparen rest) = Some lparen).
        { clear. induction (rg_name r); simpl; [reflexivity|assumption]. }
        rewrite G. apply Ascii.eqb_refl.
  - pose proof (proj1 (forallb_forall _ _) all_registered_not_always r Hr) as H.
    unfold registered_ctor_not_always in H. rewrite Ht in H. apply negb_true_iff in H. exact H.
Qed.
Print Assumptions C08_table_rules_wellformed.

(** ... and therefore ANY list of parsed rules built from registration sites of the current source (whatever the
    server names / settings in the String() suffixes, tags, locked flags and match verdicts) satisfies both premises
    of the Part 2 theorems: the switching theorems apply to everything GetChecksForEntry can route for a healthy entry. *)
Theorem C08_table_lists_satisfy_premises : forall prs,
  (forall p, In p prs -> exists r t suffix tags locked matched,
      In r registrations /\ type_of_ctor (rg_ctor r) = Some t /\
      (suffix = "" \/ exists rest, suffix = String lparen rest) /\
      p = prule_of_registration r t suffix tags locked matched) ->
  wf_prules prs = true /\ names_are_reporters prs = true.
Proof.
  intros prs H. split.
  - apply shaped_lists_wellformed. intros p Hp.
    destruct (H p Hp) as [r [t [suffix [tags [locked [matched [Hr [Ht [Hs ->]]]]]]]]].
    destruct (C08_table_rules_wellformed r t suffix tags locked matched Hr Ht Hs) as [Hn [Hpl [_ Ha]]].
    split; [|exact Ha]. split; [exact Hpl|]. exists suffix. split; [|exact Hs].
    simpl. simpl in Hn. rewrite <- Hn. reflexivity.
  - apply forallb_forall. intros p Hp.
    destruct (H p Hp) as [r [t [suffix [tags [locked [matched [Hr [Ht [Hs ->]]]]]]]]].
    destruct (C08_table_rules_wellformed r t suffix tags locked matched Hr Ht Hs) as [Hn _].
    apply String.eqb_eq. exact Hn.
Qed.
Print Assumptions C08_table_lists_satisfy_premises.

(* ---------------------------------------------------------------------------------------------- *)
(** * Part 3 — [--offline] and Meta().Online, Meta().States *)

(** the parsed rules GetChecksForEntry can build for a healthy entry from the registration sites of the current source *)
Definition from_table (prs : list prule) : Prop :=
  forall p, In p prs -> exists r t suffix tags locked matched,
      In r registrations /\ type_of_ctor (rg_ctor r) = Some t /\
      (suffix = "" \/ exists rest, suffix = String lparen rest) /\
      p = prule_of_registration r t suffix tags locked matched.

(** After [--offline] no check whose Meta().Online is true is run — whatever else is configured — except a check that
    a matching rule{enable=[name]} block re-enables (the documented precedence).  This joins DisableOnlineChecks (a list
    of NAMES) with the per-type flag Meta().Online through the generated tables. *)
Theorem C08_offline_runs_no_online_check : forall c e prs p,
  from_table prs ->
  In p (get_checks (with_disabled c (disable_online_checks online_checks (c_disabled c))) e prs) ->
  ck_online (pr_check p) = false \/ cfg_enables (c_rules c) (ck_reporter (pr_check p)) = true.
Proof.
  intros c e prs p HT Hin.
  destruct (C08_table_lists_satisfy_premises prs HT) as [W R].
  rewrite (C08_offline_is_disable_list c e prs W R) in Hin.
  apply filter_In in Hin. destruct Hin as [Hp Hk]. apply get_checks_incl in Hp.
  destruct (HT p Hp) as [r [t [suffix [tags [locked [matched [Hr [Ht [Hs ->]]]]]]]]].
  destruct (C08_table_rules_wellformed r t suffix tags locked matched Hr Ht Hs) as [Hn [_ [_ Ha]]].
  cbn [prule_of_registration pr_check ck_always ck_reporter ck_online pr_name] in *.
  rewrite Ha in Hk. cbn [orb] in Hk.
  destruct (cfg_enables (c_rules c) (ct_reporter t)); [right; reflexivity|left].
  rewrite orb_false_r in Hk. apply negb_true_iff in Hk.
  destruct (online_iff_listed_lifted r Hr) as [t' [Ht' Hiff]]. rewrite Ht in Ht'. inversion Ht'; subst t'.
  destruct (ct_online t); [|reflexivity].
  exfalso. assert (Hl : In (rg_name r) online_checks) by (apply Hiff; reflexivity).
  apply mem_str_In in Hl. rewrite Hn in Hl. rewrite Hl in Hk. discriminate.
Qed.
Print Assumptions C08_offline_runs_no_online_check.

(** ... and [--offline] switches off nothing else: every check that ran before and does not talk to Prometheus still runs. *)
Theorem C08_offline_keeps_offline_checks : forall c e prs p,
  from_table prs ->
  In p (get_checks c e prs) -> ck_online (pr_check p) = false ->
  In p (get_checks (with_disabled c (disable_online_checks online_checks (c_disabled c))) e prs).
Proof.
  intros c e prs p HT Hin Hoff.
  destruct (C08_table_lists_satisfy_premises prs HT) as [W R].
  rewrite (C08_offline_is_disable_list c e prs W R).
  apply filter_In. split; [exact Hin|].
  apply get_checks_incl in Hin.
  destruct (HT p Hin) as [r [t [suffix [tags [locked [matched [Hr [Ht [Hs ->]]]]]]]]].
  destruct (C08_table_rules_wellformed r t suffix tags locked matched Hr Ht Hs) as [Hn _].
  cbn [prule_of_registration pr_check ck_always ck_reporter ck_online pr_name] in *.
  destruct (online_iff_listed_lifted r Hr) as [t' [Ht' Hiff]]. rewrite Ht in Ht'. inversion Ht'; subst t'.
  destruct (mem_str (ct_reporter t) online_checks) eqn:M.
  - exfalso. apply mem_str_In in M. rewrite <- Hn in M. apply Hiff in M. rewrite M in Hoff. discriminate.
  - cbn. rewrite orb_true_r. reflexivity.
Qed.
Print Assumptions C08_offline_keeps_offline_checks.

(** The [--offline] FLAG end to end (cmd/pint/main.go actionSetup = SetDisabledChecks, --enabled, DisableOnlineChecks in
    that order): whatever --disabled values (names, String() forms, tag forms, regexps) and --enabled values accompany it
    and whatever the configuration file holds, no check with Meta().Online runs, except through a rule{enable} block. *)
Theorem C08_offline_flag_end_to_end : forall strict_match fd fe c e prs p,
  from_table prs ->
  In p (get_checks (apply_flags strict_match check_names online_checks fd fe true c) e prs) ->
  ck_online (pr_check p) = false \/ cfg_enables (c_rules c) (ck_reporter (pr_check p)) = true.
Proof.
  intros sm fd fe c e prs p HT Hin.
  exact (C08_offline_runs_no_online_check (apply_flags sm check_names online_checks fd fe false c) e prs p HT Hin).
Qed.
Print Assumptions C08_offline_flag_end_to_end.


(** How actionSetup (cmd/pint/main.go) of the CURRENT source applies the three switches to the loaded configuration
    (Gen/C08.v, regenerated from the Go AST on every run; any other statement touching the check switches is a translator
    error): --disabled through SetDisabledChecks, then --enabled REPLACING cfg.Checks.Enabled when non-empty, then --offline
    through DisableOnlineChecks — exactly the three steps, in the order, that [apply_flags] models. *)
Theorem C08_flag_handling_of_the_source :
  Gen.C08.flag_handling =
  [("disabled", "SetDisabledChecks"); ("enabled", "replace-when-non-empty"); ("offline", "DisableOnlineChecks")].
Proof. reflexivity. Qed.
Print Assumptions C08_flag_handling_of_the_source.

(** ... and what "replace" means in the model: a non-empty --enabled list becomes the enabled list whatever the file said,
    an empty one leaves the file's list alone; the disabled list only grows. *)
Theorem C08_cli_enabled_replaces_file_list : forall strict_match fd fe offline c,
  c_enabled (apply_flags strict_match check_names online_checks fd fe offline c) =
    match fe with [] => c_enabled c | _ => fe end /\
  (forall x, In x (c_disabled c) -> In x (c_disabled (apply_flags strict_match check_names online_checks fd fe offline c))).
Proof.
  intros sm fd fe offline c. split; [reflexivity|].
  intros x Hx. unfold apply_flags. cbn [c_disabled].
  assert (H1 : In x (set_disabled_checks sm check_names fd (c_disabled c))) by (unfold set_disabled_checks; apply in_or_app; left; exact Hx).
  destruct offline; [|exact H1].
  apply (proj2 (disable_online_In online_checks _ x)). left. exact H1.
Qed.
Print Assumptions C08_cli_enabled_replaces_file_list.

(** A check only ever runs on an entry its rule block matches and whose change state it declares in Meta().States. *)
Theorem C08_checks_run_in_declared_states : forall c e prs p,
  In p (get_checks c e prs) ->
  In p prs /\ pr_matched p = true /\ In (e_state e) (ck_states (pr_check p)).
Proof.
  intros c e prs p H. destruct (get_checks_declared c e prs p H) as [H1 [H2 H3]].
  split; [exact H1|]. split; [exact H2|]. apply mem_str_In. exact H3.
Qed.
Print Assumptions C08_checks_run_in_declared_states.

(** Meta().States of every check type of the current source (generated): non-empty, only ChangeType constants, and
    only the always-enabled ErrorCheck and rule/dependency declare [Removed]. *)
Theorem C08_states_table : forall t, In t check_types ->
  ct_states t <> [] /\ (forall s, In s (ct_states t) -> In s known_states) /\
  (In "Removed" (ct_states t) -> ct_always t = true \/ ct_reporter t = "rule/dependency").
Proof.
  intros t Ht. pose proof (proj1 (forallb_forall _ _) all_type_states_ok t Ht) as H.
  unfold type_states_ok in H. apply andb_true_iff in H. destruct H as [H H3].
  apply andb_true_iff in H. destruct H as [H1 H2].
  split; [|split].
  - intro E. rewrite E in H1. discriminate.
  - intros s Hs. apply mem_str_In. exact (proj1 (forallb_forall _ _) H2 s Hs).
  - intro Hr. apply mem_str_In in Hr. rewrite Hr in H3. cbn [negb orb] in H3.
    apply orb_true_iff in H3. destruct H3 as [H3|H3]; [left; exact H3|right; apply String.eqb_eq; exact H3].
Qed.
Print Assumptions C08_states_table.

(* ---------------------------------------------------------------------------------------------- *)
(** * Non-vacuity: a concrete instance where the premises hold and the switches do something *)

Definition ex_check (s r : string) (al : bool) : check :=
  {| ck_string := s; ck_reporter := r; ck_states := ["Noop"; "Added"]; ck_always := al; ck_online := false |}.
Definition ex_prule (n s : string) (al : bool) : prule :=
  {| pr_name := n; pr_check := ex_check s n al; pr_tags := ["t"]; pr_locked := false; pr_matched := true |}.
Definition ex_prs := [ex_prule "promql/syntax" "promql/syntax" false; ex_prule "promql/rate" "promql/rate(prom)" false;
                      ex_prule "rule/label" "rule/label(team:true)" false; ex_prule "yaml/parse" "yaml/parse" true].
Definition ex_cfg := {| c_enabled := check_names; c_disabled := []; c_rules := [] |}.
Definition ex_entry := {| e_state := "Noop"; e_disabled := []; e_comments := [] |}.

Example C08_nonvacuous :
  wf_prules ex_prs = true /\ names_are_reporters ex_prs = true /\
  map pr_name (get_checks ex_cfg ex_entry ex_prs) = ["promql/syntax"; "promql/rate"; "rule/label"; "yaml/parse"] /\
  map pr_name (get_checks (with_disabled ex_cfg [ "promql/rate" ]) ex_entry ex_prs) = ["promql/syntax"; "rule/label"; "yaml/parse"] /\
  map pr_name (get_checks (with_enabled ex_cfg [ "rule/label" ]) ex_entry ex_prs) = ["rule/label"; "yaml/parse"] /\
  map pr_name (get_checks (with_disabled ex_cfg (disable_online_checks online_checks [])) ex_entry ex_prs) = ["promql/syntax"; "rule/label"; "yaml/parse"] /\
  map pr_name (get_checks (with_rules ex_cfg [ {| cr_matched := true; cr_enable := []; cr_disable := ["promql/syntax"] |} ]) ex_entry ex_prs)
     = ["promql/rate"; "rule/label"; "yaml/parse"].
Proof. vm_compute. repeat split. Qed.

(** Non-vacuity of Part 3: two parsed rules built from registration sites of the current source (promql/series bound to
    a server, promql/syntax); both run, the first is an online check, --offline leaves exactly the second. *)
Example C08_offline_nonvacuous :
  match find (fun r => String.eqb (rg_name r) "promql/series") registrations,
        find (fun r => String.eqb (rg_name r) "promql/syntax") registrations with
  | Some r1, Some r2 =>
      match type_of_ctor (rg_ctor r1), type_of_ctor (rg_ctor r2) with
      | Some t1, Some t2 =>
          let prs := [prule_of_registration r1 t1 "(prom)" [] false true; prule_of_registration r2 t2 "" [] false true] in
          map pr_name (get_checks ex_cfg ex_entry prs) = ["promql/series"; "promql/syntax"] /\
          map (fun p => ck_online (pr_check p)) prs = [true; false] /\
          map pr_name (get_checks (with_disabled ex_cfg (disable_online_checks online_checks (c_disabled ex_cfg))) ex_entry prs) = ["promql/syntax"]
      | _, _ => False
      end
  | _, _ => False
  end.
Proof. vm_compute. repeat split. Qed.
