(** C09 — rule{} match/ignore blocks select rules by their documented boolean meaning.

    [full_match] (Go regexp on the fully anchored pattern) and [parse_dur] (model.ParseDuration) are universally
    quantified: the theorems hold for every behaviour of the two libraries.  The documented meaning [doc_applies]
    is written in Model/Match.v from docs/configuration.md ("Matching rules to checks").
    [wf_labels e] = label maps have unique keys (a YAML mapping; duplicate keys are rejected by the strict parser). *)
From Coq Require Import List String Ascii ZArith Bool Lia.
From PintV Require Import Common.Bytes Gen.Tables Model.Match Proofs.C09_match Proofs.C09_conds.
Import ListNotations.
Open Scope string_scope.
Open Scope list_scope.

(** The checks of a rule{} block are applied to an entry iff no ignore block has all its conditions satisfied and
    some match block (after state defaulting; "no match block" = one block holding only the default state) has all
    of its conditions satisfied — for every command, entry, block list and every regexp / duration library. *)
Theorem C09_is_match_eq_doc : forall full_match parse_dur cmd e ignore mtch, wf_labels e ->
  rule_block_applies full_match parse_dur cmd e ignore mtch = doc_applies full_match parse_dur cmd e ignore mtch.
Proof. exact rule_block_applies_eq_doc. Qed.
Print Assumptions C09_is_match_eq_doc.

(** The same for the un-defaulted use of match/ignore by rule{enable/disable} (parsedRule.isEnabled). *)
Theorem C09_is_match_eq_doc_selects : forall full_match parse_dur cmd e ignore mtch, wf_labels e ->
  is_match full_match parse_dur cmd e ignore mtch = doc_selects full_match parse_dur cmd e ignore mtch.
Proof. exact is_match_eq_doc_selects. Qed.
Print Assumptions C09_is_match_eq_doc_selects.

(** One block: the nine early returns of Match.IsMatch, in code order, are the conjunction of the nine conditions. *)
Theorem C09_block_is_conjunction : forall full_match parse_dur cmd m e, wf_labels e ->
  match_is_match full_match parse_dur cmd m e = true <->
  forall c, In c all_conditions -> cond_holds full_match parse_dur cmd m e c = true.
Proof.
  intros fm pd cmd m e W. rewrite (match_is_match_eq_all_conds fm pd cmd m e W).
  unfold all_conds. apply forallb_forall.
Qed.
Print Assumptions C09_block_is_conjunction.

(** State default: `pint ci` => the CIStates of the current source, any other command => ["any"]; the documented
    words mean the ChangeType constants; match blocks without a state get the default, ignore blocks never do. *)
Theorem C09_state_default :
  (forall cmd, default_match_states cmd = if String.eqb cmd "ci" then ["added"; "modified"; "renamed"; "removed"] else ["any"]) /\
  (forall states state, state_matches states state = doc_state states state) /\
  (forall cmd mtch m, In m (default_rule_match mtch (default_match_states cmd)) -> m_state m <> []) /\
  (forall full_match parse_dur cmd e i, wf_labels e -> m_state i = [] ->
     cond_holds full_match parse_dur cmd i e CState = true) /\
  (forall state, doc_state (default_match_states "ci") state = true <->
                 In state ["Added"; "Modified"; "Moved"; "Removed"]) /\
  (forall cmd state, cmd <> "ci" -> doc_state (default_match_states cmd) state = true).
Proof.
  split; [intro cmd; unfold default_match_states; destruct (String.eqb cmd "ci"); reflexivity|].
  split; [exact state_matches_doc|].
  split.
  { intros cmd mtch m Hin. unfold default_rule_match in Hin.
    assert (D : default_match_states cmd <> []) by (unfold default_match_states; destruct (String.eqb cmd "ci"); discriminate).
    destruct mtch as [|m0 ms].
    - destruct Hin as [<-|[]]. exact D.
    - apply in_map_iff in Hin. destruct Hin as [x [<- _]]. destruct (m_state x) eqn:S; [exact D|rewrite S; discriminate]. }
  split; [intros fm pd cmd e i _ S; simpl; rewrite S; reflexivity|].
  split.
  { intro state. change (default_match_states "ci") with ["added"; "modified"; "renamed"; "removed"].
    unfold doc_state. cbn [existsb doc_state_name]. simpl (String.eqb _ "any").
    change (doc_state_name "added") with (Some "Added"). change (doc_state_name "modified") with (Some "Modified").
    change (doc_state_name "renamed") with (Some "Moved"). change (doc_state_name "removed") with (Some "Removed").
    cbv iota beta. cbn [orb]. rewrite !orb_true_iff. rewrite !String.eqb_eq. simpl. intuition (try discriminate; auto). }
  intros cmd state Hne. unfold default_match_states.
  destruct (String.eqb cmd "ci") eqn:E; [apply String.eqb_eq in E; contradiction|reflexivity].
Qed.
Print Assumptions C09_state_default.

(** The extra "removed" of CIStates (docs list added/modified/renamed only) cannot be observed through a configured
    check: in the tables of the current source, only rule/dependency and the always-enabled ErrorCheck run on Removed
    entries, and rule/dependency is never registered from a rule{} block. *)
Theorem C09_removed_default_unobservable :
  forallb (fun t => negb (mem_str "Removed" (ct_states t)) || ct_always t || String.eqb (ct_reporter t) "rule/dependency") check_types = true /\
  forallb (fun r => negb (String.eqb (rg_name r) "rule/dependency") || String.eqb (rg_fn r) "baseRules") registrations = true.
Proof. split; vm_compute; reflexivity. Qed.
Print Assumptions C09_removed_default_unobservable.

(** Label conditions see group-level labels: a group label that the rule does not set itself satisfies a label
    condition whose two patterns match it — whatever the rule's own labels are, also when it has none. *)
Theorem C09_labels_see_group_labels : forall full_match e l g k v,
  me_group_labels e = Some g -> wf_labels e -> In (k, v) g ->
  (forall own, me_labels e = Some own -> me_kind e <> Neither -> ~ In k (keys own)) ->
  full_match (km_key l) k = true -> full_match (km_value l) v = true ->
  kv_is_matching full_match l (entry_labels e) = true.
Proof. exact group_label_visible. Qed.
Print Assumptions C09_labels_see_group_labels.

(** ... and the set of (key, value) pairs a label condition sees is exactly "group labels not set by the rule,
    plus the rule's labels". *)
Theorem C09_labels_are_doc_labels : forall e, wf_labels e ->
  forall kv, In kv (entry_labels e) <-> In kv (doc_labels e).
Proof. exact entry_labels_same_set. Qed.
Print Assumptions C09_labels_are_doc_labels.

(** Evaluating Entry.Labels() leaves the group's labels alone (fix dac9e2b), so the labels a rule is matched
    against do not depend on which other rules of the group were looked at before. *)
Theorem C09_group_labels_untouched : forall g l, group_after g l = g.
Proof. reflexivity. Qed.
Print Assumptions C09_group_labels_untouched.

(** Regression: with the pre-fix MergeMaps (assignment through the shared item pointers) the statement was false —
    a rule label overriding a group label rewrote the group's own value and every later rule of the group saw the
    override; the same witness failed on the real binary (corpus/C09/group_label_aliasing.json). *)
Theorem C09_group_labels_untouched_prefix_refuted :
  exists g l, group_after_prefix g l <> g /\
    let later grp := {| me_path := "r.yml"; me_state := "Noop"; me_kind := Recording; me_name := "b";
                        me_labels := Some [("other", "z")]; me_group_labels := Some grp; me_annotations := None;
                        me_for := None; me_keep := None |} in
    let cond := {| km_key := "team"; km_value := "x" |} in
    kv_is_matching String.eqb cond (entry_labels (later g)) = true /\
    kv_is_matching String.eqb cond (entry_labels (later (group_after_prefix g l))) = false.
Proof.
  exists [("team", "x")], [("team", "y")]. split; [vm_compute; discriminate|]. vm_compute. split; reflexivity.
Qed.
Print Assumptions C09_group_labels_untouched_prefix_refuted.

(** ... and was true exactly when no rule label overrode a group label with a different value (unique keys). *)
Theorem C09_group_labels_untouched_prefix_partial : forall g l, NoDup (keys g) -> NoDup (keys l) ->
  (forall k v v', In (k, v) g -> In (k, v') l -> v = v') -> group_after_prefix g l = g.
Proof.
  intros g l Hg Hl Hsame. unfold group_after_prefix.
  (* every pair of the merged prefix is a pair of g at the same position *)
  revert g Hg Hsame. unfold merge_maps. induction l as [|[k0 v0] l IH]; intros g Hg Hsame; simpl.
  - apply firstn_all.
  - inversion Hl as [|? ? Hn Hl']; subst.
    destruct (mem_str k0 (keys g)) eqn:M.
    + (* key present in g: its value already equals v0, set_value is the identity *)
      assert (E : set_value g k0 v0 = g).
      { apply mem_str_In in M. clear IH Hg. induction g as [|[k1 v1] r IHr]; simpl in *; [contradiction|].
        destruct (String.eqb k1 k0) eqn:E1.
        - apply String.eqb_eq in E1. subst k1. f_equal. f_equal. symmetry.
          apply (Hsame k0 v1 v0); left; reflexivity.
        - f_equal. apply IHr.
          + intros k v v' H1 H2. apply (Hsame k v v'); [right; exact H1|exact H2].
          + destruct M as [M|M]; [apply String.eqb_neq in E1; congruence|exact M]. }
      rewrite E. apply (IH Hl' g Hg). intros k v v' H1 H2. apply (Hsame k v v' H1). right. exact H2.
    + (* key absent: appended after the prefix; continue with the longer map and cut back *)
      pose proof (set_value_absent_prefix g k0 v0 M) as P.
      assert (NG : NoDup (keys (set_value g k0 v0))) by (apply set_value_nodup; exact Hg).
      assert (HS : forall k v v', In (k, v) (set_value g k0 v0) -> In (k, v') l -> v = v').
      { intros k v v' H1 H2. apply (in_set_value g k0 v0 k v Hg) in H1. destruct H1 as [[-> ->]|[Hne H1]].
        - exfalso. apply Hn. change k0 with (fst (k0, v')). apply in_map. exact H2.
        - apply (Hsame k v v' H1). right. exact H2. }
      pose proof (IH Hl' (set_value g k0 v0) NG HS) as Q.
      assert (Len : List.length (set_value g k0 v0) = S (List.length g)).
      { clear -M. induction g as [|[k1 v1] r IHr]; simpl in *; [reflexivity|].
        destruct (String.eqb k0 k1) eqn:E; [discriminate|]. rewrite (String.eqb_sym k1 k0), E. simpl. f_equal. apply IHr. exact M. }
      rewrite Len in Q.
      assert (F : firstn (List.length g) (fold_left (fun acc kv => set_value acc (fst kv) (snd kv)) l (set_value g k0 v0))
                  = firstn (List.length g) (firstn (S (List.length g)) (fold_left (fun acc kv => set_value acc (fst kv) (snd kv)) l (set_value g k0 v0)))).
      { rewrite firstn_firstn. f_equal. lia. }
      rewrite F, Q. exact P.
Qed.
Print Assumptions C09_group_labels_untouched_prefix_partial.

(** Duration comparisons mean their operator, over Z nanoseconds. *)
Theorem C09_duration_ops : forall op d v,
  duration_is_match (op, d) v = true <->
  match op with
  | OpLess => (v < d)%Z | OpLessEqual => (v <= d)%Z | OpEqual => v = d
  | OpNotEqual => v <> d | OpMoreEqual => (v >= d)%Z | OpMore => (v > d)%Z
  end.
Proof. exact duration_ops_spec. Qed.
Print Assumptions C09_duration_ops.

(** Non-vacuity: with exact-string regexps, a block list where ignore dominates and any match suffices. *)
Definition ex_entry (name : string) : mentry :=
  {| me_path := "rules/a.yml"; me_state := "Noop"; me_kind := Alerting; me_name := name;
     me_labels := Some [("severity", "page")]; me_group_labels := Some [("team", "x")];
     me_annotations := Some [("summary", "s")]; me_for := Some "5m"; me_keep := None |}.
Definition ex_block (name kind : string) : mblock :=
  {| m_label := None; m_annotation := None; m_command := None; m_path := ""; m_name := name; m_kind := kind;
     m_for := ""; m_keep := ""; m_state := [] |}.
Definition ex_dur (s : string) : option Z := if String.eqb s "5m" then Some 300000000000%Z else None.

Example C09_nonvacuous :
  wf_labels (ex_entry "Foo") /\
  rule_block_applies String.eqb ex_dur "lint" (ex_entry "Foo") [] [ex_block "Bar" ""; ex_block "Foo" "alerting"] = true /\
  rule_block_applies String.eqb ex_dur "lint" (ex_entry "Foo") [ex_block "Foo" ""] [ex_block "Foo" "alerting"] = false /\
  rule_block_applies String.eqb ex_dur "lint" (ex_entry "Foo") [] [ex_block "Foo" "recording"] = false /\
  rule_block_applies String.eqb ex_dur "ci" (ex_entry "Foo") [] [] = false /\
  rule_block_applies String.eqb ex_dur "lint" (ex_entry "Foo") [] [] = true.
Proof.
  split.
  - split; intros x H; inversion H; subst; simpl; repeat constructor; simpl; tauto.
  - vm_compute. repeat split.
Qed.

(* ---------------------------------------------------------------------------------------------- *)
(** * Each condition on its own (same strength as the label theorems): a block that sets only ONE condition is
    satisfied exactly when the documented meaning of that condition holds — for every command, entry and library. *)

(** command = "ci" | "lint" | "watch": satisfied iff pint runs that command, whatever the entry *)
Theorem C09_command_condition : forall full_match parse_dur cmd c e,
  match_is_match full_match parse_dur cmd (only_command c) e = true <-> cmd = c.
Proof. intros fm pd cmd c e. rewrite command_alone. apply String.eqb_eq. Qed.
Print Assumptions C09_command_condition.

(** path / name: the WHOLE path (rule name) is in the language of the pattern; name looks at the alert name of an
    alerting rule and at the record name of a recording rule *)
Theorem C09_path_name_conditions : forall full_match parse_dur cmd p e, p <> "" ->
  match_is_match full_match parse_dur cmd (only_path p) e = full_match p (me_path e) /\
  (me_kind e <> Neither -> match_is_match full_match parse_dur cmd (only_name p) e = full_match p (me_name e)).
Proof. intros fm pd cmd p e Hp. split; [apply path_alone; exact Hp|intro Hk; apply name_alone; assumption]. Qed.
Print Assumptions C09_path_name_conditions.

(** kind = "alerting" selects exactly the alerting rules, "recording" exactly the recording rules *)
Theorem C09_kind_condition : forall full_match parse_dur cmd e,
  (match_is_match full_match parse_dur cmd (only_kind "alerting") e = true <-> me_kind e <> Recording) /\
  (match_is_match full_match parse_dur cmd (only_kind "recording") e = true <-> me_kind e <> Alerting).
Proof.
  intros fm pd cmd e. rewrite !kind_alone by discriminate.
  destruct (me_kind e); cbn; split; split; intro H; try reflexivity; try discriminate; try congruence.
Qed.
Print Assumptions C09_kind_condition.

(** state = [...]: the documented words mean the ChangeType constants, "any" means all of them *)
Theorem C09_state_condition : forall full_match parse_dur cmd st e, st <> [] ->
  match_is_match full_match parse_dur cmd (only_state st) e = true <->
  exists s, In s st /\ (s = "any" \/ doc_state_name s = Some (me_state e)).
Proof.
  intros fm pd cmd st e Hs. rewrite state_alone by exact Hs. unfold doc_state. rewrite existsb_exists.
  split; intros [s [Hin H]]; exists s; (split; [exact Hin|]).
  - apply orb_true_iff in H. destruct H as [H|H]; [left; apply String.eqb_eq; exact H|right].
    destruct (doc_state_name s) as [n|]; [|discriminate]. apply String.eqb_eq in H. subst n. reflexivity.
  - apply orb_true_iff. destruct H as [H|H]; [left; apply String.eqb_eq; exact H|right].
    rewrite H. apply String.eqb_refl.
Qed.
Print Assumptions C09_state_condition.

(** annotation "K" { value = "V" }: only ALERTING rules that have an annotations map, and some annotation whose key
    matches K and whose value matches V (the same pair); recording rules and alerts without annotations never match *)
Theorem C09_annotation_condition : forall full_match parse_dur cmd k v e,
  match_is_match full_match parse_dur cmd (only_annotation k v) e = true <->
  me_kind e = Alerting /\ exists items, me_annotations e = Some items /\
    exists ak av, In (ak, av) items /\ full_match k ak = true /\ full_match v av = true.
Proof.
  intros fm pd cmd k v e. rewrite annotation_alone.
  destruct (me_kind e); try (split; [discriminate|intros [H _]; discriminate]).
  destruct (me_annotations e) as [items|].
  - rewrite existsb_exists. split.
    + intros [[ak av] [Hin H]]. apply andb_true_iff in H. split; [reflexivity|]. exists items. split; [reflexivity|].
      exists ak, av. tauto.
    + intros [_ [items' [E [ak [av [Hin [H1 H2]]]]]]]. inversion E; subst items'. exists (ak, av). split; [exact Hin|].
      cbn. rewrite H1, H2. reflexivity.
  - split; [discriminate|]. intros [_ [items [E _]]]. discriminate.
Qed.
Print Assumptions C09_annotation_condition.

(** label "K" { value = "V" }: some EFFECTIVE label — group labels the rule does not set itself plus the rule's own
    labels — whose key matches K and whose value matches V; EVERY label whose key matches is considered, not the first *)
Theorem C09_label_condition : forall full_match parse_dur cmd k v e, wf_labels e ->
  match_is_match full_match parse_dur cmd (only_label k v) e = true <->
  exists lk lv, In (lk, lv) (doc_labels e) /\ full_match k lk = true /\ full_match v lv = true.
Proof.
  intros fm pd cmd k v e W. rewrite (label_alone fm pd cmd k v e W), existsb_exists. split.
  - intros [[lk lv] [Hin H]]. apply andb_true_iff in H. exists lk, lv. tauto.
  - intros [lk [lv [Hin [H1 H2]]]]. exists (lk, lv). split; [exact Hin|]. cbn. rewrite H1, H2. reflexivity.
Qed.
Print Assumptions C09_label_condition.

(** for = "OP DUR" / keep_firing_for = "OP DUR": only alerting rules that have the field; with a condition that parses
    (always the case for [for], which is validated when the configuration is loaded) and a rule value that is a
    duration, the rule's duration compared with DUR by OP over Z nanoseconds. *)
Theorem C09_duration_conditions : forall full_match parse_dur cmd x e op bound, x <> "" ->
  parse_duration_match parse_dur x = Some (op, bound) ->
  (match_is_match full_match parse_dur cmd (only_for x) e = true <->
     me_kind e = Alerting /\ exists v, me_for e = Some v /\
       (parse_dur v = None \/ exists d, parse_dur v = Some d /\ doc_cmp op d bound = true)) /\
  (match_is_match full_match parse_dur cmd (only_keep x) e = true <->
     me_kind e = Alerting /\ exists v, me_keep e = Some v /\
       (parse_dur v = None \/ exists d, parse_dur v = Some d /\ doc_cmp op d bound = true)).
Proof.
  intros fm pd cmd x e op bound Hx Hp.
  rewrite (for_alone fm pd cmd x e Hx), (keep_alone fm pd cmd x e Hx). unfold doc_duration.
  rewrite (validated_condition_is_used_as_parsed pd x (op, bound) Hp). cbn [fst snd].
  assert (G : forall field : option string,
     (match me_kind e, field with
      | Alerting, Some v => match pd v with None => true | Some d => doc_cmp op d bound end
      | _, _ => false end) = true <->
     me_kind e = Alerting /\ exists v, field = Some v /\ (pd v = None \/ exists d, pd v = Some d /\ doc_cmp op d bound = true)).
  { intro field. destruct (me_kind e); try (split; [discriminate|intros [H _]; discriminate]).
    destruct field as [v|]; [|split; [discriminate|intros [_ [v [E _]]]; discriminate]].
    split.
    - intro H. split; [reflexivity|]. exists v. split; [reflexivity|].
      destruct (pd v) as [d|]; [right; exists d; split; [reflexivity|exact H]|left; reflexivity].
    - intros [_ [v' [E H]]]. inversion E; subst v'. destruct H as [H|[d [H1 H2]]]; rewrite ?H, ?H1; [reflexivity|exact H2]. }
  split; apply G.
Qed.
Print Assumptions C09_duration_conditions.

(** The parse-error clauses of the duration conditions, stated on their own:
    (a) a rule whose for / keep_firing_for value is NOT a duration satisfies every such condition (Match.IsMatch only
        compares when parseDuration succeeds) — while a rule without the field, or a recording rule, never does;
    (b) a condition that passes load-time validation is used exactly as parsed (dropping the error at the use site loses
        nothing): this covers every [for] condition;
    (c) a condition that does not parse — possible for keep_firing_for only, Match.validate forgets it — is read with
        duration 0, and with operator "=" when the operator itself is unknown. *)
Theorem C09_duration_parse_error_quirk : forall parse_dur x,
  (forall v, parse_dur v = None -> duration_cond parse_dur x Alerting (Some v) = true) /\
  (forall k, duration_cond parse_dur x k None = false) /\
  (forall f, duration_cond parse_dur x Recording f = false) /\
  (forall dm, parse_duration_match parse_dur x = Some dm -> duration_match_dropping_error parse_dur x = dm) /\
  (parse_duration_match parse_dur x = None ->
     snd (duration_match_dropping_error parse_dur x) = 0%Z /\
     match split_space x with
     | Some (o, _) => match parse_op o with
                      | Some op => fst (duration_match_dropping_error parse_dur x) = op
                      | None => fst (duration_match_dropping_error parse_dur x) = OpEqual
                      end
     | None => fst (duration_match_dropping_error parse_dur x) = OpEqual
     end).
Proof.
  intros pd x. split; [intros v H; exact (unparsable_rule_value_passes pd x v H)|].
  split; [intro k; exact (missing_field_fails pd x k)|].
  split; [intro f; exact (recording_rule_fails pd x f)|].
  split; [intros dm H; exact (validated_condition_is_used_as_parsed pd x dm H)|].
  exact (unparsable_condition_reads_as_zero pd x).
Qed.
Print Assumptions C09_duration_parse_error_quirk.

(** Non-vacuity of the per-condition theorems on the example entry (alerting "Foo", for: 5m, team:x + severity:page). *)
Example C09_conditions_nonvacuous :
  match_is_match String.eqb ex_dur "ci" (only_command "ci") (ex_entry "Foo") = true /\
  match_is_match String.eqb ex_dur "lint" (only_command "ci") (ex_entry "Foo") = false /\
  match_is_match String.eqb ex_dur "lint" (only_label "team" "x") (ex_entry "Foo") = true /\
  match_is_match String.eqb ex_dur "lint" (only_label "severity" "x") (ex_entry "Foo") = false /\
  match_is_match String.eqb ex_dur "lint" (only_annotation "summary" "s") (ex_entry "Foo") = true /\
  match_is_match String.eqb ex_dur "lint" (only_for "= 5m") (ex_entry "Foo") = true /\
  match_is_match String.eqb ex_dur "lint" (only_for "> 5m") (ex_entry "Foo") = false /\
  match_is_match String.eqb ex_dur "lint" (only_keep "5m") (ex_entry "Foo") = false /\
  parse_duration_match ex_dur "> 5m" = Some (OpMore, 300000000000%Z) /\
  parse_duration_match ex_dur "~ 5m" = None /\ duration_match_dropping_error ex_dur "~ 5m" = (OpEqual, 0%Z).
Proof. vm_compute. repeat split. Qed.
