(** C03 — `pint ci` classifies every rule's change state correctly for any branch history.

    Only the property theorems; each is closed from lemmas of Proofs/C03_*.v and followed by Print Assumptions.
    Models: Model/GitChanges.v (internal/git/changes.go) and Model/GitBranch.v (internal/discovery/git_branch.go),
    both as of the current tree (after fix commits a826206, 4412e3a, 4dd7734, d9e7954, e81cbba). *)
From Coq Require Import List String Ascii ZArith NArith Bool Lia Permutation.
From PintV Require Import Common.Bytes Gen.Tables Model.GitBranch Proofs.C03_match Proofs.C03_state Proofs.C03_sort Proofs.C03_added Proofs.C03_merge Proofs.C03_final Proofs.C03_skip.
From PintV Require Model.GitChanges Proofs.C03_changes Proofs.C03_unquote Proofs.C03_faithful Proofs.C03_history Proofs.C03_tables Gen.C03.
Import ListNotations.
Open Scope string_scope.
Open Scope list_scope.

Module GC := Model.GitChanges.
Module PC := Proofs.C03_changes.
Module PF := Proofs.C03_faithful.
Module PH := Proofs.C03_history.
Module PT := Proofs.C03_tables.
Module GT := PintV.Gen.C03.

(** ** 1. Rename tracking: the fold over the log refines the specification-level lineage.

    For ALL logs (any length, any statuses, any paths) and all answers of git ([type_at]), include filters and
    directory tests -- no guard since fix d9e7954 --: the [k]-th most recent record of the change list whose After.Name
    is [p] ([k = 0]: what getChangeByPath returns) is exactly the record of the chain of log entries obtained by following
    the [k]-th most recent file at [p] backwards through the log ([PC.trace]): origin = the source of the first entry of
    the chain (or none for a file created on the branch), commits = exactly the commits of the chain, in order,
    status/destination = those of the last entry.  Every record of the list is such an observation, so the whole list is
    characterised.  Before/after bodies are then [cat-file (first commit)^:origin] and [cat-file (last commit):path] by
    definition of [GC.finalise]. *)
Theorem C03_changes_track_renames :
  forall type_at allowed is_dir (log : list GC.entry),
    (forall p k, PC.nth_by_path (GC.fold_log type_at allowed is_dir log) p k =
                 PC.change_of_chain type_at (PC.trace allowed is_dir (rev log) p k)) /\
    (forall p, GC.get_change_by_path (GC.fold_log type_at allowed is_dir log) p =
               PC.change_of_chain type_at (PC.trace allowed is_dir (rev log) p 0)) /\
    (forall ch, In ch (GC.fold_log type_at allowed is_dir log) ->
       exists k, PC.nth_by_path (GC.fold_log type_at allowed is_dir log) (GC.ch_after ch) k = Some ch).
Proof.
  intros. split; [|split].
  - apply PC.fold_refines_trace.
  - intro p. rewrite PC.get_is_nth0. apply PC.fold_refines_trace.
  - apply PC.member_is_observed.
Qed.
Print Assumptions C03_changes_track_renames.

(** The former counterexample of the guarded theorem (delete b; rename a -> b; modify b -- known finding
    C03-rename-onto-deleted-path, fixed by d9e7954): the file at b is now the renamed a with both of its commits, and the
    deletion of the old b is still reported. *)
Theorem C03_rename_onto_deleted_path_tracked :
  map (fun c => (GC.ch_status c, GC.ch_before c, GC.ch_after c, GC.ch_commits c))
      (GC.fold_log PC.witness_types (fun _ => true) (fun _ => false) PC.witness_log) =
  [(GC.st "D", "b", "b", ["c1"]); (GC.st "M", "a", "b", ["c2"; "c3"])].
Proof. exact PC.witness_now_tracked. Qed.
Print Assumptions C03_rename_onto_deleted_path_tracked.

(** Copy entries (`C<score> src dst`, printed by git only when copy detection is configured -- `diff.renames = copies` -- and
    only for sources modified in the same commit).  Until fix e81cbba the fold treated a copy like a rename and dropped the
    record of the source (known finding C03-copy-entry-consumes-source-record, now fixed).  Regression, on the witness of
    that finding -- `M a` (c1); `M a`, `C a -> b` (c2): the source keeps its record with both of its commits, the copy gets
    a record of its own that starts at the copying commit with the source as its base.  In the specification ([PC.trace]) a
    copy entry is a chain of its own and never continues, pops or shadows anything at its source; the refinement theorem
    above covers it for all logs. *)
Theorem C03_copy_entry_keeps_source_record :
  let log := [PC.mk "c1" "M" "a" "a"; PC.mk "c2" "M" "a" "a"; PC.mk "c2" "C" "a" "b"] in
  let changes := GC.fold_log (fun _ _ => GC.File) (fun _ => true) (fun _ => false) log in
  map (fun c => (GC.ch_status c, GC.ch_before c, GC.ch_after c, GC.ch_commits c)) changes =
    [(GC.st "M", "a", "a", ["c1"; "c2"]); (GC.st "C", "a", "b", ["c2"])] /\
  option_map GC.ch_commits (GC.get_change_by_path changes "a") = Some ["c1"; "c2"].
Proof. vm_compute. split; reflexivity. Qed.
Print Assumptions C03_copy_entry_keeps_source_record.

(** ... and for ALL logs a copy entry never changes what is recorded for its source path: every observation of the source
    path is the same before and after the entry (unless the copy lands on the path itself). *)
Theorem C03_copy_entry_leaves_source_alone :
  forall type_at allowed is_dir (C : list GC.change) (e : GC.entry) k,
    GC.is_copy e = true -> GC.le_dst e <> GC.le_src e ->
    PC.nth_by_path (GC.step type_at allowed is_dir C e) (GC.le_src e) k = PC.nth_by_path C (GC.le_src e) k.
Proof.
  intros type_at allowed is_dir C e k Hc Hne. unfold GC.step. rewrite Hc.
  destruct (negb (allowed (GC.le_dst e))); [reflexivity|]. destruct (is_dir (GC.le_dst e)); [reflexivity|].
  unfold PC.nth_by_path. rewrite rev_app_distr. simpl rev. simpl app. cbn [filter]. unfold GC.has_after at 1. cbn [GC.ch_after].
  assert (E : String.eqb (GC.le_dst e) (GC.le_src e) = false) by (apply String.eqb_neq; exact Hne).
  rewrite E. reflexivity.
Qed.
Print Assumptions C03_copy_entry_leaves_source_alone.


(** Under the named hypothesis [PF.log_faithful] (the log is ordered by commit, each entry relates the snapshots before and
    after its commit as `git log --name-status` documents -- A: absent -> present, D: present -> absent, M/T: present in
    both, R s d: s present -> absent, d absent -> present --, every path whose blob differs between consecutive snapshots
    is listed, each path at most once per commit) and git answering ls-tree / cat-file from those snapshots:
    for EVERY record of the change list (observation (p, k)), Body.Before is the content of the origin path AT THE FORK
    POINT (snap 0), which exists there; a record that is not a deletion is the most recent one for its path and its
    Body.After is the content of the destination path AT HEAD (snap n); a deletion has no Body.After, and its path is
    absent at HEAD unless another file was later renamed onto it. *)
Definition enc (o : option N) : N := match o with Some b => b | None => 0%N end.   (* = PH.enc *)

Theorem C03_changes_bodies_fork_and_head :
  forall (n : nat) (snap : nat -> string -> option N) (cidx : string -> nat) (log : list GC.entry)
         (type_at : string -> string -> GC.ptype) (body_at : string -> string -> N)
         (body_lines : N -> N) (blame : string -> string -> list (string * Z * Z)),
    PF.log_faithful n snap cidx log ->
    (forall e, In e log -> forall p, type_at (GC.parent (GC.le_commit e)) p = GC.Missing <-> snap (PF.idx cidx e - 1) p = None) ->
    (forall e, In e log -> forall p, body_at (GC.parent (GC.le_commit e)) p = enc (snap (PF.idx cidx e - 1) p) /\
                                     body_at (GC.le_commit e) p = enc (snap (PF.idx cidx e) p)) ->
    forall p k ch, p <> "" ->
      PC.nth_by_path (GC.fold_log type_at (fun _ => true) (fun _ => false) log) p k = Some ch ->
      let f := GC.finalise type_at body_at body_lines blame ch in
      (GC.ch_before ch <> "" -> GC.f_body_before f = enc (snap 0 (GC.ch_before ch)) /\ snap 0 (GC.ch_before ch) <> None) /\
      (GC.ch_status ch <> GC.st "D" -> k = 0%nat /\ GC.f_body_after f = enc (snap n p)) /\
      (GC.ch_status ch = GC.st "D" ->
         GC.f_body_after f = 0%N /\
         (snap n p = None \/ exists x, In x log /\ GC.le_dst x = p /\ GC.le_src x <> p)).
Proof.
  intros n snap cidx log type_at body_at body_lines blame LF TF BF p k ch Hp Hget.
  exact (PH.bodies_fork_and_head n snap cidx log type_at body_at body_lines blame LF TF BF p k ch Hp Hget).
Qed.
Print Assumptions C03_changes_bodies_fork_and_head.

(** Consequently the two rule lists GitBranchFinder.Find compares for a change ([change_in_of]: readRules on Body.Before
    under Path.Before.Name, readRules on Body.After under Path.After.Name; [parse] = the parser, an input) are, for every
    record of every faithful history: the rules of the ORIGIN file AS IT WAS AT THE FORK POINT (nothing for a file created on
    the branch) and the rules of the file AS IT IS AT HEAD (nothing for a deletion) -- whatever happened in between
    (renames, edit-then-revert, delete and re-add, the base branch moving on). *)
Theorem C03_compared_versions_are_fork_and_head :
  forall (n : nat) (snap : nat -> string -> option N) (cidx : string -> nat) (log : list GC.entry)
         (type_at : string -> string -> GC.ptype) (body_at : string -> string -> N)
         (body_lines : N -> N) (blame : string -> string -> list (string * Z * Z))
         (parse : N -> string -> list entry),
    PF.log_faithful n snap cidx log ->
    (forall e, In e log -> forall p, type_at (GC.parent (GC.le_commit e)) p = GC.Missing <-> snap (PF.idx cidx e - 1) p = None) ->
    (forall e, In e log -> forall p, body_at (GC.parent (GC.le_commit e)) p = enc (snap (PF.idx cidx e - 1) p) /\
                                     body_at (GC.le_commit e) p = enc (snap (PF.idx cidx e) p)) ->
    forall p k ch, p <> "" ->
      PC.nth_by_path (GC.fold_log type_at (fun _ => true) (fun _ => false) log) p k = Some ch ->
      let ci := change_in_of body_lines parse (GC.finalise type_at body_at body_lines blame ch) in
      (GC.ch_before ch <> "" -> ci_before ci = parse (enc (snap 0 (GC.ch_before ch))) (GC.ch_before ch)) /\
      (GC.ch_before ch = "" -> ci_before ci = parse 0%N "") /\
      (GC.ch_status ch <> GC.st "D" -> ci_after ci = parse (enc (snap n p)) p) /\
      (GC.ch_status ch = GC.st "D" -> ci_after ci = parse 0%N p).
Proof.
  intros n snap cidx log type_at body_at body_lines blame parse LF TF BF p k ch Hp Hget.
  exact (PH.compared_versions n snap cidx log type_at body_at body_lines blame LF TF BF parse p k ch Hp Hget).
Qed.
Print Assumptions C03_compared_versions_are_fork_and_head.

(** every change of every log carries at least one commit (Commits[0] and the last commit exist) *)
Theorem C03_changes_have_commits :
  forall type_at allowed is_dir log,
    Forall (fun c => GC.ch_commits c <> []) (GC.fold_log type_at allowed is_dir log).
Proof. intros. apply PC.fold_commits_nonempty. Qed.
Print Assumptions C03_changes_have_commits.

(** The finite tables of changes.go the model hinges on, regenerated from the Go AST on every run (Gen/C03.v):
    the FileStatus rune constants and the `switch change.Status` that picks Path.Before.Name for a path without an earlier
    record -- its "probe" clause lists exactly the statuses A, C and its "src" clause exactly D, R, M, T, which is the case
    split of the model's [initial_before] ([PT.initial_before_table], for every entry) --, the PathType iota order = the
    model's constructor order, and the argument vector of the `git log` call (--reverse: oldest commit first, which
    [log_faithful] relies on; --name-status: the line format [parse_log] reads; --first-parent --no-merges). *)
Theorem C03_git_tables :
  (forall type_at e,
     GC.initial_before type_at e =
     if PT.has_status (GC.le_status e) PT.probe_statuses then
       match type_at (GC.parent (GC.le_commit e)) (GC.le_src e) with GC.Missing => "" | _ => GC.le_src e end
     else if PT.has_status (GC.le_status e) PT.src_statuses then GC.le_src e else "") /\
  map (fun c => (PT.letters_of GT.file_status_consts (fst c), snd c)) GT.before_switch =
    [(Some PT.probe_statuses, "probe"); (Some PT.src_statuses, "src")] /\
  forallb (fun t => match assoc (PT.ptype_name t) GT.path_type_consts with Some v => Z.eqb v (PT.ptype_index t) | None => false end)
          [GC.Missing; GC.Dir; GC.File; GC.Symlink] = true /\
  GT.git_log_args = ["log"; "--reverse"; "--no-merges"; "--first-parent"; "--format=%H"; "--name-status"; "<base>..HEAD"].
Proof.
  split; [exact PT.initial_before_table|]. vm_compute. repeat split.
Qed.
Print Assumptions C03_git_tables.

(** path unquoting (fix 4dd7734) inverts git's C-style quoting, for every path (any bytes) *)
Theorem C03_unquote_inverts_git_quoting : forall p : string, GC.unquote_path (GC.git_quote p) = p.
Proof. exact Proofs.C03_unquote.unquote_git_quote. Qed.
Print Assumptions C03_unquote_inverts_git_quoting.

(** ** 2. match_sound, for ALL before/after entry lists *)
Theorem C03_match_sound : forall before after,
  (* every HEAD entry is matched exactly once, in order *)
  afters_of (match_entries before after) = after /\
  (* (iv)+(v) the pairing is injective on base entries and loses none: paired + unpaired base entries = the base list *)
  Permutation (befores_of (match_entries before after)) before /\
  (* (i) what a pair is: identical content (then the flag is isEntryIdentical), or same kind and name with flag false *)
  (forall b a i mv, In (Both b a i mv) (match_entries before after) ->
     In b before /\ In a after /\ mv = moved a b /\
     ((is_identical a b = true /\ i = entry_identical b a /\ e_name a <> "") \/
      (i = false /\ by_name (e_name a) (e_kind a) b = true))) /\
  (* (iii, first half) an unpaired HEAD rule has no identical rule among the unpaired base rules *)
  (forall a b, In (OnlyAfter a) (match_entries before after) -> e_name a <> "" ->
     In (OnlyBefore b) (match_entries before after) -> is_identical a b = false).
Proof.
  intros before after. split; [apply match_afters|]. split; [apply match_befores_perm|]. split.
  - intros b a i mv H. destruct (match_both_members _ _ _ _ _ _ H) as [Hb Ha].
    destruct (match_both_sound _ _ _ _ _ _ H) as [Hm Hc]. auto.
  - intros a b. apply unpaired_no_identical_left.
Qed.
Print Assumptions C03_match_sound.

(** (iii, second half) a HEAD rule left unpaired (it becomes Added) never has exactly one unpaired base rule of its kind
    and name: with exactly one candidate the second pass pairs them (Modified/Moved). *)
Theorem C03_added_only_if_ambiguous : forall before after a,
  In (OnlyAfter a) (match_entries before after) ->
  cnt (e_name a) (e_kind a) (unpaired_befores (match_entries before after)) <> 1%nat.
Proof. exact added_name_count. Qed.
Print Assumptions C03_added_only_if_ambiguous.

(** isEntryIdentical (fix a826206) is exactly "same disabled checks as multisets": the order of the
    `# pint file/disable` comments is irrelevant, a different set is always noticed. *)
Theorem C03_disables_order_irrelevant : forall b a : entry,
  entry_identical b a = true <-> Permutation (e_disabled b) (e_disabled a).
Proof. exact entry_identical_iff. Qed.
Print Assumptions C03_disables_order_irrelevant.

(** (ii) Noop => identical content, same path, same file-level disables (as multisets); plus (v) unmatched base
    rules are emitted Removed unless the HEAD file has path errors; every HEAD entry yields exactly one output entry
    with state Noop/Added/Modified/Moved, in order, and only base entries yield Removed. *)
Theorem C03_state_sound : forall c : change_in,
  (forall e, In e (change_entries c) -> e_state e = Noop ->
     exists a b, In a (ci_after c) /\ In b (ci_before c) /\ e = set_state a Noop [] /\
       is_identical a b = true /\ e_path a = e_path b /\ Permutation (e_disabled b) (e_disabled a)) /\
  (forall b, In (OnlyBefore b) (match_entries (ci_before c) (ci_after c)) -> failed (ci_after c) = false ->
     exists ml, In (set_state b Removed ml) (change_entries c)) /\
  (exists heads removed, change_entries c = heads ++ removed /\
     Forall2 from_after heads (ci_after c) /\
     (forall e, In e removed -> e_state e = Removed /\ exists b, In b (ci_before c) /\ exists ml, e = set_state b Removed ml)).
Proof.
  intro c. split; [|split].
  - intros e Hin Hs. destruct (noop_sound _ _ Hin Hs) as (a & b & Ha & Hb & He & Hi & Hp & Hd & _).
    exists a, b. repeat split; auto.
    eapply Permutation_trans; [apply sort_str_perm|]. rewrite Hd. apply Permutation_sym, sort_str_perm.
  - apply unmatched_removed.
  - apply change_entries_split.
Qed.
Print Assumptions C03_state_sound.

(** ** 3. changed_never_skipped.  The state tables are regenerated from the Go AST every run. *)
Definition state_matches (states : list string) (s : state) : bool :=
  existsb (fun st => match assoc st state_matches_cases with
                     | Some l => mem_str "*" l || mem_str (state_name s) l
                     | None => false
                     end) states.

(** CIStates (the default `match` of every check in `pint ci`) selects Added, Modified, Moved, Removed and not Noop;
    the model's constructor order is the Go iota order. *)
Theorem C03_state_tables :
  forallb (state_matches ci_states) [Added; Modified; Moved; Removed] = true /\
  state_matches ci_states Noop = false /\ state_matches ci_states Unknown = false /\
  forallb (fun s => match assoc (state_name s) change_type_consts with Some v => Z.eqb v (state_index s) | None => false end)
          [Unknown; Noop; Added; Modified; Removed; Moved] = true.
Proof. vm_compute. repeat split. Qed.
Print Assumptions C03_state_tables.

(** A HEAD rule whose content differs from every base rule of its file is never Noop: it is in a state selected by
    CIStates, so checks that only run on changed rules run on it. *)
Theorem C03_changed_never_skipped : forall (c : change_in) (e : entry),
  In e (change_entries c) ->
  (forall b, In b (ci_before c) -> is_identical e b = false) ->
  e_state e <> Noop /\ state_matches ci_states (e_state e) = true.
Proof.
  intros c e Hin Hno. split; [eapply changed_not_noop; eauto|].
  destruct (change_entries_split c) as (heads & removed & E & Hh & Hr).
  rewrite E in Hin. apply in_app_or in Hin. destruct Hin as [Hin|Hin].
  - assert (Hs : e_state e = Noop \/ e_state e = Added \/ e_state e = Modified \/ e_state e = Moved).
    { clear -Hh Hin. induction Hh as [|x y l l' Hxy _ IH]; [destruct Hin|].
      destruct Hin as [<-|Hin]; [|auto]. destruct Hxy as (s & ml & -> & Hs). exact Hs. }
    destruct Hs as [Hs|[Hs|[Hs|Hs]]]; rewrite Hs; try reflexivity.
    exfalso. assert (Hin' : In e (change_entries c)) by (rewrite E; apply in_or_app; left; exact Hin).
    exact (changed_not_noop _ _ Hin' Hno Hs).
  - destruct (Hr _ Hin) as [Hs _]. rewrite Hs. reflexivity.
Qed.
Print Assumptions C03_changed_never_skipped.

(** ** 4. untouched => Noop (provable since the two-pass fix 4412e3a).
    If the base file holds at least as many rules with the content of [a] as the HEAD file does, every occurrence of [a]
    at HEAD is paired with an identical base rule; it is Noop when the identical base rules have the same path and the
    same sorted disables, and Moved when the file was renamed. *)
Theorem C03_untouched_noop : forall (c : change_in) (a : entry) (m : matched),
  e_name a <> "" ->
  (count_id a (ci_after c) <= count_id a (ci_before c))%nat ->
  (forall b, In b (ci_before c) -> is_identical a b = true ->
     e_path b = e_path a /\ sort_str (e_disabled b) = sort_str (e_disabled a)) ->
  In m (match_entries (ci_before c) (ci_after c)) -> In a (after_of m) ->
  assign c m = [set_state a Noop []].
Proof. exact untouched_noop. Qed.
Print Assumptions C03_untouched_noop.

Theorem C03_untouched_moved : forall (c : change_in) (a : entry) (m : matched),
  e_name a <> "" ->
  (count_id a (ci_after c) <= count_id a (ci_before c))%nat ->
  (forall b, In b (ci_before c) -> e_path b <> e_path a) ->
  In m (match_entries (ci_before c) (ci_after c)) -> In a (after_of m) ->
  assign c m = [set_state a Moved (count_lines (ci_after_lines c))].
Proof. exact untouched_moved. Qed.
Print Assumptions C03_untouched_moved.

(** ** 5. The merge into the glob entry list (what `pint ci` finally lints).  Every glob entry keeps its position and its
    identity (only State/ModifiedLines may change); entries of files that no branch entry mentions are returned
    unchanged -- they keep the Noop state GlobFinder gave them, so rules of untouched files are never reported as
    changed; the rule of every Removed branch entry stays in the list. *)
Theorem C03_merge_sound : forall (glob branch : list entry),
  (forall i g, nth_error glob i = Some g ->
     exists g', nth_error (merge glob branch) i = Some g' /\ strip g' = strip g /\
                ((forall e, In e branch -> e_path e <> e_path g) -> g' = g)) /\
  (forall e, In e branch -> e_state e = Removed -> exists e', In e' (merge glob branch) /\ strip e' = strip e).
Proof. intros glob branch. split; [intros i g; apply merge_nth | intros e; apply merge_removed_kept]. Qed.
Print Assumptions C03_merge_sound.

(** ** 6. The converse at full strength, end to end over GitBranchFinder.Find (state assignment of EVERY change of the
    branch + merge into the glob list), possible since fixes 4412e3a (identical rules are paired first) and a826206
    (disabled checks compared as sorted lists): take any rule [g] of the HEAD tree as GlobFinder lists it (state Noop).
    If every HEAD entry of every change that sits at [g]'s path and position is untouched by the branch -- the base
    version of its file holds at least as many rules with its content as the HEAD version, each of them at the same
    path and under the same set of disabled checks (in any order) -- then [g] is still Noop in the list `pint ci` lints,
    at the same position, whatever else the branch did (other rules added, modified, deleted, re-ordered, same names
    re-used, other files renamed or deleted).  In particular rules of files the branch never touched stay Noop. *)
Theorem C03_untouched_final_noop : forall (glob : list entry) (cs : list change_in) (i : nat) (g : entry),
  nth_error glob i = Some g -> e_state g = Noop ->
  (forall c a, In c cs -> In a (ci_after c) -> e_path a = e_path g -> is_same a g = true ->
     e_name a <> "" /\
     (count_id a (ci_after c) <= count_id a (ci_before c))%nat /\
     (forall b, In b (ci_before c) -> is_identical a b = true ->
        e_path b = e_path a /\ Permutation (e_disabled b) (e_disabled a))) ->
  exists g', nth_error (find glob cs) i = Some g' /\ strip g' = strip g /\ e_state g' = Noop.
Proof. exact untouched_final_noop. Qed.
Print Assumptions C03_untouched_final_noop.

(** ... and no glob entry ever takes a state from anywhere else: its final State/ModifiedLines are its own, or exactly those
    the state switch computed for a HEAD entry of some change with the same path and the same rule position. *)
Theorem C03_final_state_origin : forall (glob : list entry) (cs : list change_in) (i : nat) (g : entry),
  nth_error glob i = Some g ->
  exists g', nth_error (find glob cs) i = Some g' /\ strip g' = strip g /\
    (g' = g \/ exists c a s ml, In c cs /\ In a (ci_after c) /\ In (set_state a s ml) (change_entries c) /\
                 e_path a = e_path g /\ is_same a g = true /\ e_state g' = s /\ e_mod g' = ml).
Proof. exact final_state_origin. Qed.
Print Assumptions C03_final_state_origin.

(** ** 6b. "A changed rule is never skipped", end to end over GitBranchFinder.Find.  Take a rule [g] of the HEAD tree that is
    the first glob entry at its path and rule position (GlobFinder lists every rule once; [first_at]).  If the branch has a
    change with a HEAD entry at that path and position, and every such entry differs in content from every base rule of
    its change, then in the list `pint ci` lints [g] is Added, Modified or Moved -- never Noop -- i.e. in a state CIStates
    selects (C03_state_tables), so every check restricted to changed rules runs on it.  The merge loop cannot lose the state:
    a matching branch entry always overwrites the first entry at its path and position, and later entries can only
    overwrite it with the state of another matching entry. *)
Theorem C03_changed_final_never_skipped : forall (glob : list entry) (cs : list change_in) (i : nat) (g : entry),
  nth_error glob i = Some g -> first_at glob i g ->
  (exists c a, In c cs /\ In a (ci_after c) /\ e_path a = e_path g /\ is_same a g = true) ->
  (forall c a, In c cs -> In a (ci_after c) -> e_path a = e_path g -> is_same a g = true ->
     forall b, In b (ci_before c) -> is_identical a b = false) ->
  exists g', nth_error (find glob cs) i = Some g' /\ strip g' = strip g /\
             e_state g' <> Noop /\ state_matches ci_states (e_state g') = true.
Proof.
  intros glob cs i g Hn Hf Hex Hd.
  destruct (changed_final_not_noop glob cs i g Hn Hf Hex Hd) as (g' & H1 & H2 & Hs).
  exists g'. split; auto. split; auto.
  destruct Hs as [Hs|[Hs|Hs]]; rewrite Hs; split; try discriminate; reflexivity.
Qed.
Print Assumptions C03_changed_final_never_skipped.

(** ** 7. The converse for ANY branch history (sections 1 and 6 composed; [PH.history_changes] = the change_in list
    GitBranchFinder.Find builds from git.Changes's result, i.e. [classify] without the text-level log parsing).
    Under [log_faithful], with a parser that labels entries with the path name it was given and finds no rules in an
    absent body: take any rule [g] of the HEAD tree at a path p.  Let the base version of p be the FORK-POINT content of the
    file p descends from (following renames; nothing if the lineage starts on the branch) and the HEAD version the content of
    p at HEAD.  If every rule of the HEAD version at [g]'s position is untouched relative to the base version -- at least
    as many base rules with its content, all at the same path and under the same set of disabled checks -- then [g] is
    Noop in the list `pint ci` lints.  No condition on the number of commits, on what happened to other rules or files,
    on intermediate states (edit-then-revert, delete and re-add, renames back and forth) or on the base branch. *)
Theorem C03_history_untouched_noop :
  forall (n : nat) (snap : nat -> string -> option N) (cidx : string -> nat) (log : list GC.entry)
         (type_at : string -> string -> GC.ptype) (body_at : string -> string -> N)
         (body_lines : N -> N) (blame : string -> string -> list (string * Z * Z))
         (parse : N -> string -> list entry),
    PF.log_faithful n snap cidx log ->
    (forall e, In e log -> forall p, type_at (GC.parent (GC.le_commit e)) p = GC.Missing <-> snap (PF.idx cidx e - 1) p = None) ->
    (forall e, In e log -> forall p, body_at (GC.parent (GC.le_commit e)) p = enc (snap (PF.idx cidx e - 1) p) /\
                                     body_at (GC.le_commit e) p = enc (snap (PF.idx cidx e) p)) ->
    (forall id q a, In a (parse id q) -> e_path a = q) ->
    (forall q, parse 0%N q = []) ->
    forall (glob : list entry) (i : nat) (g : entry),
      nth_error glob i = Some g -> e_state g = Noop -> e_path g <> "" ->
      let head_rules := parse (enc (snap n (e_path g))) (e_path g) in
      (forall ch, GC.get_change_by_path (GC.fold_log type_at (fun _ => true) (fun _ => false) log) (e_path g) = Some ch ->
         GC.ch_status ch <> GC.st "D" ->
         let base_rules := if String.eqb (GC.ch_before ch) "" then []
                           else parse (enc (snap 0 (GC.ch_before ch))) (GC.ch_before ch) in
         forall a, In a head_rules -> is_same a g = true ->
           e_name a <> "" /\
           (count_id a head_rules <= count_id a base_rules)%nat /\
           (forall b, In b base_rules -> is_identical a b = true ->
              e_path b = e_path a /\ Permutation (e_disabled b) (e_disabled a))) ->
      exists g', nth_error (find glob (PH.history_changes log type_at body_at body_lines blame parse)) i = Some g' /\
                 strip g' = strip g /\ e_state g' = Noop.
Proof.
  intros n snap cidx log type_at body_at body_lines blame parse LF TF BF PP PN glob i g Hn Hs Hp head_rules Hun.
  exact (PH.history_untouched_noop n snap cidx log type_at body_at body_lines blame LF TF BF parse PP PN glob i g Hn Hs Hp Hun).
Qed.
Print Assumptions C03_history_untouched_noop.

(** ... and "a changed rule is never skipped" for ANY branch history: if the HEAD version of the file at p has a rule at
    [g]'s position and every such rule differs in content from every rule of the base version (fork-point content of the file
    p descends from; none if created on the branch), then [g] -- the first glob entry at its path and position -- is Added,
    Modified or Moved in the list `pint ci` lints: a state CIStates selects. *)
Theorem C03_history_changed_never_skipped :
  forall (n : nat) (snap : nat -> string -> option N) (cidx : string -> nat) (log : list GC.entry)
         (type_at : string -> string -> GC.ptype) (body_at : string -> string -> N)
         (body_lines : N -> N) (blame : string -> string -> list (string * Z * Z))
         (parse : N -> string -> list entry),
    PF.log_faithful n snap cidx log ->
    (forall e, In e log -> forall p, type_at (GC.parent (GC.le_commit e)) p = GC.Missing <-> snap (PF.idx cidx e - 1) p = None) ->
    (forall e, In e log -> forall p, body_at (GC.parent (GC.le_commit e)) p = enc (snap (PF.idx cidx e - 1) p) /\
                                     body_at (GC.le_commit e) p = enc (snap (PF.idx cidx e) p)) ->
    (forall id q a, In a (parse id q) -> e_path a = q) ->
    (forall q, parse 0%N q = []) ->
    forall (glob : list entry) (i : nat) (g : entry) (ch : GC.change),
      nth_error glob i = Some g -> first_at glob i g -> e_path g <> "" ->
      GC.get_change_by_path (GC.fold_log type_at (fun _ => true) (fun _ => false) log) (e_path g) = Some ch ->
      GC.ch_status ch <> GC.st "D" ->
      let head_rules := parse (enc (snap n (e_path g))) (e_path g) in
      let base_rules := if String.eqb (GC.ch_before ch) "" then []
                        else parse (enc (snap 0 (GC.ch_before ch))) (GC.ch_before ch) in
      (exists a, In a head_rules /\ is_same a g = true) ->
      (forall a, In a head_rules -> is_same a g = true -> forall b, In b base_rules -> is_identical a b = false) ->
      exists g', nth_error (find glob (PH.history_changes log type_at body_at body_lines blame parse)) i = Some g' /\
                 strip g' = strip g /\ e_state g' <> Noop /\ state_matches ci_states (e_state g') = true.
Proof.
  intros n snap cidx log type_at body_at body_lines blame parse LF TF BF PP PN glob i g ch Hn Hf Hp Hget HD head_rules base_rules Hex Hd.
  destruct (PH.history_changed_not_noop n snap cidx log type_at body_at body_lines blame LF TF BF parse PP PN glob i g ch Hn Hf Hp Hget HD Hex Hd)
    as (g' & H1 & H2 & Hs).
  exists g'. split; auto. split; auto.
  destruct Hs as [Hs|[Hs|Hs]]; rewrite Hs; split; try discriminate; reflexivity.
Qed.
Print Assumptions C03_history_changed_never_skipped.

(** [PH.history_changes] is what [classify] feeds to [find] once the log text is parsed. *)
Theorem C03_classify_unfold :
  forall type_at body_at body_lines blame parse glob lines log,
    GC.parse_log lines "" = Some log ->
    classify type_at (fun _ => true) (fun _ => false) body_at body_lines blame parse glob lines =
    Some (find glob (PH.history_changes log type_at body_at body_lines blame parse)).
Proof.
  intros. unfold classify, GC.changes_of_log. rewrite H. unfold PH.history_changes. rewrite map_map. reflexivity.
Qed.
Print Assumptions C03_classify_unfold.

(** ** Non-vacuity: the design-session witness base [Foo:X], HEAD [Foo:Z; Foo:X] is now classified correctly
    (new rule Added, untouched rule Noop); a reordered file/disable list keeps Noop; a renamed file gives Moved. *)
Definition ex_entry (uid : N) (path : string) (cid : N) (first : Z) (dis : list string) : entry :=
  mkE uid path path false KAlerting "Foo" cid first (first + 1)%Z false dis [first; (first + 1)%Z] Unknown.

Example C03_nonvacuous :
  let base := [ex_entry 0 "r.yml" 1 4 ["a"; "b"]] in
  let head := [ex_entry 10 "r.yml" 2 4 ["b"; "a"]; ex_entry 11 "r.yml" 1 6 ["b"; "a"]] in
  let c := {| ci_before := base; ci_after := head; ci_mod := [4; 5]%Z; ci_after_lines := 7%N |} in
  map (fun e => (e_uid e, e_state e)) (change_entries c) = [(10%N, Added); (11%N, Noop)] /\
  let head2 := [ex_entry 10 "new.yml" 1 4 ["a"; "b"]] in
  map (fun e => (e_uid e, e_state e))
      (change_entries {| ci_before := base; ci_after := head2; ci_mod := []; ci_after_lines := 7%N |}) = [(10%N, Moved)] /\
  map (fun e => (e_uid e, e_state e))
      (change_entries {| ci_before := base; ci_after := []; ci_mod := []; ci_after_lines := 0%N |}) = [(0%N, Removed)].
Proof. vm_compute. repeat split. Qed.

(** Non-vacuity of the hypotheses of C03_changes_bodies_fork_and_head: a two-commit history (modify a; rename a -> b)
    satisfies log_faithful, and the theorem's conclusion is the expected one. *)
Definition nv_log : list GC.entry := [PC.mk "c1" "M" "a" "a"; PC.mk "c2" "R" "a" "b"].
Definition nv_cidx (c : string) : nat := if String.eqb c "c1" then 1 else 2.
Definition nv_snap (i : nat) (p : string) : option N :=
  match i with
  | 0 => if String.eqb p "a" then Some 1%N else None
  | 1 => if String.eqb p "a" then Some 2%N else None
  | _ => if String.eqb p "b" then Some 2%N else None
  end.

Lemma two_split {A} (a b : A) l1 e1 l2 e2 l3 :
  [a; b] = l1 ++ e1 :: l2 ++ e2 :: l3 -> l1 = [] /\ e1 = a /\ l2 = [] /\ e2 = b /\ l3 = [].
Proof.
  intro H. destruct l1 as [|x l1]; simpl in H.
  - inversion H; subst. destruct l2 as [|y l2]; simpl in *.
    + inversion H2; subst. auto.
    + inversion H2; subst. destruct l2; discriminate.
  - inversion H; subst. destruct l1 as [|y l1]; simpl in *.
    + inversion H2; subst. destruct l2; discriminate.
    + inversion H2; subst. destruct l1; discriminate.
Qed.

Example C03_faithful_nonvacuous :
  PF.log_faithful 2 nv_snap nv_cidx nv_log /\
  option_map (fun c => (GC.ch_before c, GC.ch_after c, GC.ch_commits c))
    (GC.get_change_by_path (GC.fold_log (fun _ _ => GC.File) (fun _ => true) (fun _ => false) nv_log) "b")
  = Some ("a", "b", ["c1"; "c2"]).
Proof.
  split; [|vm_compute; reflexivity].
  constructor.
  - intros l1 e1 l2 e2 l3 H. apply two_split in H. destruct H as (_ & -> & _ & -> & _). vm_compute. auto.
  - intros e [<-|[<-|[]]]; vm_compute; auto.
  - intros e [<-|[<-|[]]]; unfold PF.faithful_entry.
    + right. right. left. vm_compute. split; [left; reflexivity|]. repeat split; intro H; discriminate H.
    + right. right. right. vm_compute. repeat split; try (intro H; discriminate H).
  - intros i p Hi Hno. assert (i = 1 \/ i = 2) as [Hi1 | Hi2] by lia; [rewrite Hi1 in * | rewrite Hi2 in *].
    + simpl. destruct (String.eqb p "a") eqn:E; auto. apply String.eqb_eq in E. subst.
      exfalso. apply (Hno (PC.mk "c1" "M" "a" "a")); [left; auto | reflexivity | left; reflexivity].
    + simpl. destruct (String.eqb p "b") eqn:Eb.
      * apply String.eqb_eq in Eb. subst. exfalso.
        apply (Hno (PC.mk "c2" "R" "a" "b")); [right; left; auto | reflexivity | right; reflexivity].
      * destruct (String.eqb p "a") eqn:Ea; auto. apply String.eqb_eq in Ea. subst. exfalso.
        apply (Hno (PC.mk "c2" "R" "a" "b")); [right; left; auto | reflexivity | left; reflexivity].
  - intros l1 e1 l2 e2 l3 H. apply two_split in H. destruct H as (_ & -> & _ & -> & _). vm_compute. intro H. discriminate H.
Qed.
