(** C19 — relaxed mode finds the same rules as strict mode, wherever they are nested.

    Model: Model/Parser.v (parse_strict, parse_relaxed over the yaml.v3 node forest).  All theorems are
    generic in the external oracles (position line extents, name/duration validity): Section variables with
    no assumed behaviour.  Only property theorems here; proofs in Proofs/C19_relaxed.v, Proofs/C19_wrapper.v. *)
From Coq Require Import List String Ascii Arith Bool NArith.
From PintV Require Import Common.Bytes Model.Yaml Model.Parser Model.YamlShape Proofs.C19_relaxed Proofs.C19_wrapper Proofs.C19_bound Proofs.C19_shape.
Import ListNotations.
Open Scope string_scope.
Open Scope list_scope.

(** (1) FULL STATEMENT, PROVED: on every strict-valid document relaxed mode returns the rules of strict mode (rule = kind,
    name, expr, for, labels, annotations with their line extents, error, first/last line, in order).  The premises are
    NOT guards about the input's tags any more, only
      - [shape_doc]: purely structural facts true of every forest yaml.v3 builds (the document node is a document,
        its roots are not aliases, alias fields only on alias nodes, alias and scalar nodes have no content, only
        scalars carry an embedded document) — checked executably on every correspondence case ([shaped_b], Run/C19.v);
      - [null_oracle_ok]: the one fact about the oracle null_ok (yaml.Node.Decode into `any` gives nil): such a
        scalar has no embedded document (its value is a spelling of null, it has no line break).
    History: the statement was false of pint for two classes found by the proof attempts (alias used as a mapping key,
    fixed 3dfcdb6; explicit tags contradicting the node kind, fixed b22de24 + 4a0d172 + b9483ac); the former guard
    [wf_doc] on tags is now DERIVED from strict validity ([wf_doc_of_shape], Proofs/C19_relaxed.v). *)
Definition C19_full_statement : Prop :=
  forall plines metric_ok lname_ok lvalue_ok dur_ok int_ok null_ok thanos lines d nl,
    shape_doc d -> null_oracle_ok null_ok ->
    strict_valid (parse_strict plines metric_ok lname_ok lvalue_ok dur_ok int_ok null_ok thanos lines [(d, nl)] None) ->
    exists f', parse_relaxed plines metric_ok lname_ok lvalue_ok lines [(d, nl)] None = Some f' /\
               f_error f' = None /\
               all_rules (f_groups f') =
               all_rules (f_groups (parse_strict plines metric_ok lname_ok lvalue_ok dur_ok int_ok null_ok thanos lines [(d, nl)] None)).

Theorem C19_relaxed_eq_strict : C19_full_statement.
Proof. unfold C19_full_statement. intros. eapply relaxed_eq_strict_shaped; eassumption. Qed.
Print Assumptions C19_relaxed_eq_strict.


(** The structural premise is decidable: [shaped_b] (Model/YamlShape.v) is evaluated on the forest yaml.v3 actually returned
    in every correspondence case of C19, C02 and C01 (Run/C19.v [hyp_shape], together with the oracle fact), and it is
    sound. *)
Theorem C19_shape_check_sound : forall d, shaped_b d = true -> shape_doc d.
Proof. exact shaped_b_sound. Qed.
Print Assumptions C19_shape_check_sound.

(** The lemma it rests on, for any forest: what is needed of each node is that wherever strict mode's kindMismatch test
    lets it pass as a mapping / sequence, it is one or holds nothing ([wf_doc]). *)
Theorem C19_relaxed_eq_strict_partial :
  forall plines metric_ok lname_ok lvalue_ok dur_ok int_ok null_ok thanos lines d nl,
    wf_doc d ->
    strict_valid (parse_strict plines metric_ok lname_ok lvalue_ok dur_ok int_ok null_ok thanos lines [(d, nl)] None) ->
    exists f', parse_relaxed plines metric_ok lname_ok lvalue_ok lines [(d, nl)] None = Some f' /\
               f_error f' = None /\
               all_rules (f_groups f') =
               all_rules (f_groups (parse_strict plines metric_ok lname_ok lvalue_ok dur_ok int_ok null_ok thanos lines [(d, nl)] None)).
Proof. exact relaxed_eq_strict_doc. Qed.
Print Assumptions C19_relaxed_eq_strict_partial.

(** One document is the general case: strict mode rejects every stream with a yaml error or with two or more documents. *)
Theorem C19_strict_valid_single_doc :
  forall plines metric_ok lname_ok lvalue_ok dur_ok int_ok null_ok thanos lines ds yerr,
    strict_valid (parse_strict plines metric_ok lname_ok lvalue_ok dur_ok int_ok null_ok thanos lines ds yerr) ->
    yerr = None /\ (ds = [] \/ exists d nl, ds = [(d, nl)]).
Proof. exact strict_valid_single. Qed.
Print Assumptions C19_strict_valid_single_doc.

(** Former refutation witnesses of the full statement (corpus/C19/tag_kind_null.yaml, tag_kind_mismatch.yaml as
    serialised from yaml.v3). *)
Definition pl0 (_ : list string) (n : node) (_ : nat) : nat * nat := (n_line n, n_line n).
Definition yes (_ : string) : bool := true.

(** `rules: !!null {? {record: a, expr: up} : {record: b, expr: up}}` (corpus/C19/tag_kind_null.yaml): since fix b22de24
    strict mode rejects an explicit !!seq / !!map tag that contradicts the node kind, but kindMismatch exempts the
    !!null tag (an empty `rules:` must stay legal), also when the node is a mapping with content. *)
Definition witness_tag_kind : node :=
  Dc 1 1 4 [Mp "!!map" 1 1 4 [Sc "!!str" "groups" 1 1 23; Sq "!!seq" 2 1 4 [Mp "!!map" 2 3 4
    [Sc "!!str" "name" 2 3 23; Sc "!!str" "g" 2 9 23; Sc "!!str" "rules" 3 3 23;
     Mp "!!null" 3 10 4 [Mp "!!map" 4 7 4 [Sc "!!str" "record" 4 8 23; Sc "!!str" "a" 4 16 23; Sc "!!str" "expr" 4 19 23; Sc "!!str" "up" 4 25 23];
                         Mp "!!map" 5 7 4 [Sc "!!str" "record" 5 8 23; Sc "!!str" "b" 5 16 23; Sc "!!str" "expr" 5 19 23; Sc "!!str" "up" 5 25 23]]]]]].

(** the witness of the class b22de24 closed (corpus/C19/tag_kind_mismatch.yaml: `rules: !!seq` on a flow mapping) *)
Definition witness_seq_tag_on_mapping : node :=
  Dc 1 1 4 [Mp "!!map" 1 1 4 [Sc "!!str" "groups" 1 1 23; Sq "!!seq" 2 1 4 [Mp "!!map" 2 3 4
    [Sc "!!str" "name" 2 3 23; Sc "!!str" "g" 2 9 23; Sc "!!str" "rules" 3 3 23;
     Mp "!!seq" 3 10 4 [Mp "!!map" 4 7 4 [Sc "!!str" "record" 4 8 23; Sc "!!str" "a" 4 16 23; Sc "!!str" "expr" 4 19 23; Sc "!!str" "up" 4 25 23];
                        Mp "!!map" 5 7 4 [Sc "!!str" "record" 5 8 23; Sc "!!str" "b" 5 16 23; Sc "!!str" "expr" 5 19 23; Sc "!!str" "up" 5 25 23]]]]]].

Definition witness_alias_key : node :=
  Dc 1 1 4 [Mp "!!map" 1 1 4 [Sc "!!str" "groups" 1 1 23; Sq "!!seq" 2 1 4
    [Mp "!!map" 2 3 4 [Sc "!!str" "name" 2 3 23; Sc "!!str" "g1" 2 9 23; Sc "!!str" "rules" 3 3 23; Sq "!!seq" 3 10 4 []];
     Mp "!!map" 4 3 4 [Sc "!!str" "name" 4 3 23; Sc "!!str" "g2" 4 9 23;
                       Node KAlias "!!str" "rules" 5 3 23 [] (Some (Sc "!!str" "g1" 2 9 23)) None;
                       Sq "!!seq" 6 3 4 [Mp "!!map" 6 5 4 [Sc "!!str" "record" 6 5 23; Sc "!!str" "a" 6 13 23; Sc "!!str" "expr" 7 5 23; Sc "!!str" "up" 7 11 23]]]]]].

Definition errors_of (f : file) : list (option perror) :=
  f_error f :: flat_map (fun g => g_error g :: map r_error (g_rules g)) (f_groups f).

Definition refutes (d : node) : Prop :=
  let s := parse_strict pl0 yes yes yes yes (fun _ => true) (fun _ => true) false [] [(d, 0)] None in
  forallb (fun e => match e with None => true | Some _ => false end) (errors_of s) = true /\
  List.length (all_rules (f_groups s)) <> 0 /\
  exists f', parse_relaxed pl0 yes yes yes [] [(d, 0)] None = Some f' /\ all_rules (f_groups f') = [].

(** The former refutation witness of the full statement is now REJECTED by strict mode (fixes b22de24 + 4a0d172: a
    mapping or list tagged !!null is judged by its kind): the known finding C19-tag-kind is closed, and no
    counterexample to [C19_full_statement] is known any more.  The partial theorem keeps its guard (sufficient; the
    !!map / !!seq / !!null clauses are now enforced by strict mode itself at every node it visits, but the proof has
    not been reworked to derive them from strict validity). *)
Theorem C19_null_tag_on_mapping_now_rejected :
  existsb (fun e => match e with Some _ => true | None => false end)
          (errors_of (parse_strict pl0 yes yes yes yes (fun _ => true) (fun _ => true) false [] [(witness_tag_kind, 0)] None)) = true.
Proof. vm_compute. reflexivity. Qed.
Print Assumptions C19_null_tag_on_mapping_now_rejected.

(** Regression of the part of the tag-kind class repaired by b22de24: strict mode now reports an error for
    `rules: !!seq {? rule : rule}`. *)
Theorem C19_seq_tag_on_mapping_now_rejected :
  existsb (fun e => match e with Some _ => true | None => false end)
          (errors_of (parse_strict pl0 yes yes yes yes (fun _ => true) (fun _ => true) false [] [(witness_seq_tag_on_mapping, 0)] None)) = true.
Proof. vm_compute. reflexivity. Qed.
Print Assumptions C19_seq_tag_on_mapping_now_rejected.

(** Regression of the repaired alias-key defect: strict mode now reports an error for the witness. *)
Theorem C19_alias_key_now_rejected :
  existsb (fun e => match e with Some _ => true | None => false end)
          (errors_of (parse_strict pl0 yes yes yes yes (fun _ => true) (fun _ => true) false [] [(witness_alias_key, 0)] None)) = true.
Proof. vm_compute. reflexivity. Qed.
Print Assumptions C19_alias_key_now_rejected.

(** (2) Relaxed mode always terminates: [doc_fuel] suffices for every forest (the fuel is not an assumption).  Since fix
    2108dfa a document whose aliases unfold to more than a million nodes is refused before the descent (its error is
    reported, later documents are not read), so the descent only ever runs on trees of at most 10^6 nodes
    ([C19_descent_bounded] below). *)
Theorem C19_relaxed_total :
  forall plines metric_ok lname_ok lvalue_ok lines ds yerr,
    exists f, parse_relaxed plines metric_ok lname_ok lvalue_ok lines ds yerr = Some f /\
              (f_error f = yerr \/
               exists d nl, In (d, nl) ds /\ too_big d = true /\ f_error f = Some (too_big_error d)).
Proof. intros. unfold parse_relaxed. apply parse_relaxed_loop_total. Qed.
Print Assumptions C19_relaxed_total.

(** What the limit buys: a document the parser does not refuse unfolds (every alias replaced by its anchor) to a tree
    of at most 1 000 000 nodes ([tsize], Proofs/C19_bound.v) — the tree parseNode / unpackNodes walk; the alias
    doubling documents that kept relaxed mode busy for minutes (former known finding C02-alias-fanout) are refused. *)
Theorem C19_descent_bounded : forall d, too_big d = false -> (tsize d <= 1000000)%N.
Proof. exact descent_bounded. Qed.
Print Assumptions C19_descent_bounded.

(** (3) Wrapper invariance, for ALL forests: a node [S] placed under any number of mapping levels (any key),
    sequence levels (not directly under a `groups` key; items on the path and their siblings are not rules
    themselves), document/alias levels and YAML-in-YAML levels (a literal block scalar whose value pint re-parses,
    e.g. a Kubernetes ConfigMap `data: rules.yaml: |`), with siblings that contain no rules, yields exactly the
    rules found in [S] itself — nothing lost, nothing added, same order, same lines.  The coordinates of [S] are the
    ones yaml.v3 reports inside the wrapped document; below a YAML-in-YAML level the hole is parsed against the
    lines of the scalar's VALUE with the scalar's own line added to the line offset ([linesS], [offS]), which is how
    pint maps embedded rules back to file lines. *)
Theorem C19_wrapper_invariance :
  forall plines metric_ok lname_ok lvalue_ok linesS offS S pS lines off m parent,
    wrapper plines metric_ok lname_ok lvalue_ok linesS offS S pS lines off m parent ->
    forall f1 f2 gsS gs,
      parse_node plines metric_ok lname_ok lvalue_ok f1 linesS offS S pS None = Some gsS ->
      parse_node plines metric_ok lname_ok lvalue_ok f2 lines off m parent None = Some gs ->
      all_rules gs = all_rules gsS.
Proof. exact wrapper_invariance. Qed.
Print Assumptions C19_wrapper_invariance.

(** ... including extra documents before and after, at the level of Parser.Parse. *)
Theorem C19_wrapper_invariance_file :
  forall plines metric_ok lname_ok lvalue_ok all_lines yerr before m nl after linesS offS S pS f1 gsS,
    (forall x k, In (x, k) (before ++ (m, nl) :: after) -> too_big x = false) ->
    (forall x k, In (x, k) (before ++ after) -> no_rules_in plines metric_ok lname_ok lvalue_ok (firstn k all_lines) 0 x None) ->
    wrapper plines metric_ok lname_ok lvalue_ok linesS offS S pS (firstn nl all_lines) 0 m None ->
    parse_node plines metric_ok lname_ok lvalue_ok f1 linesS offS S pS None = Some gsS ->
    exists f, parse_relaxed plines metric_ok lname_ok lvalue_ok all_lines (before ++ (m, nl) :: after) yerr = Some f /\
              all_rules (f_groups f) = all_rules gsS.
Proof. exact wrapper_invariance_file. Qed.
Print Assumptions C19_wrapper_invariance_file.

(** The key directly above a rule list is irrelevant unless it is the reserved `groups`. *)
Theorem C19_seq_parent_irrelevant :
  forall plines metric_ok lname_ok lvalue_ok f lines off S p p' g1 g2,
    n_kind S = KSequence -> parent_is p "groups" = false -> parent_is p' "groups" = false ->
    parse_node plines metric_ok lname_ok lvalue_ok f lines off S p None = Some g1 ->
    parse_node plines metric_ok lname_ok lvalue_ok f lines off S p' None = Some g2 ->
    all_rules g1 = all_rules g2.
Proof. exact seq_parent_irrelevant. Qed.
Print Assumptions C19_seq_parent_irrelevant.

(** Non-vacuity: the k8s List witness of the design session (corpus/C19/k8s_list.wrapped.yaml), a sequence
    wrapper, finds its rule; and a strict-valid document satisfying the guard exists with one rule. *)
Definition ex_rule_seq : node :=
  Sq "!!seq" 8 13 4 [Mp "!!map" 8 15 4 [Sc "!!str" "record" 8 15 23; Sc "!!str" "a:b" 8 23 23; Sc "!!str" "expr" 9 15 23; Sc "!!str" "up" 9 21 23]].
Definition ex_k8s : node :=
  Dc 1 1 4 [Mp "!!map" 1 1 4 [Sc "!!str" "kind" 1 1 23; Sc "!!str" "List" 1 7 23; Sc "!!str" "items" 2 1 23;
    Sq "!!seq" 3 3 4 [Mp "!!map" 3 5 4 [Sc "!!str" "kind" 3 5 23; Sc "!!str" "PrometheusRule" 3 11 23; Sc "!!str" "spec" 4 5 23;
      Mp "!!map" 5 7 4 [Sc "!!str" "groups" 5 7 23; Sq "!!seq" 6 9 4 [Mp "!!map" 6 11 4
        [Sc "!!str" "name" 6 11 23; Sc "!!str" "g" 6 17 23; Sc "!!str" "rules" 7 11 23; ex_rule_seq]]]]]]].
Definition ex_strict : node :=
  Dc 1 1 4 [Mp "!!map" 1 1 4 [Sc "!!str" "groups" 1 1 23; Sq "!!seq" 2 1 4 [Mp "!!map" 2 3 4
    [Sc "!!str" "name" 2 3 23; Sc "!!str" "g" 2 9 23; Sc "!!str" "rules" 3 3 23; ex_rule_seq]]]].

Example C19_nonvacuous :
  (exists f, parse_relaxed pl0 yes yes yes [] [(ex_k8s, 0)] None = Some f /\
             map (fun r => match r_body r with Recording n e _ => (y_value n, y_value e, r_first r, r_last r) | _ => ("", "", 0, 0) end)
                 (all_rules (f_groups f)) = [("a:b", "up", 8, 9)]) /\
  (let s := parse_strict pl0 yes yes yes yes (fun _ => true) (fun _ => true) false [] [(ex_strict, 0)] None in
   forallb (fun e => match e with None => true | Some _ => false end) (errors_of s) = true /\
   List.length (all_rules (f_groups s)) = 1 /\
   exists f, parse_relaxed pl0 yes yes yes [] [(ex_strict, 0)] None = Some f /\ all_rules (f_groups f) = all_rules (f_groups s)).
Proof. vm_compute. split; [eexists; split; reflexivity|]. repeat split. eexists. split; reflexivity. Qed.

(** Non-vacuity of the YAML-in-YAML wrapper level: a ConfigMap-style document whose literal block scalar holds a rule
    list; the rule is found at file lines 3-4 (= line inside the value + line of the scalar), and the document is a
    [wrapper] around the embedded rule list (so [C19_wrapper_invariance] applies to it). *)
Definition cm_value : string := "- record: a:b" ++ nls ++ "  expr: up" ++ nls.
Definition cm_lines : list string := ["data:"; "  rules.yaml: |"; "    - record: a:b"; "      expr: up"].
Definition cm_inner : node :=
  Sq "!!seq" 1 1 4 [Mp "!!map" 1 3 4 [Sc "!!str" "record" 1 3 23; Sc "!!str" "a:b" 1 11 23; Sc "!!str" "expr" 2 3 23; Sc "!!str" "up" 2 9 23]].
Definition cm_embedded : node := Dc 1 1 4 [cm_inner].
Definition cm_scalar : node := ScE "!!str" cm_value 2 15 0 cm_embedded.
Definition cm_key : node := Sc "!!str" "rules.yaml" 2 3 6.
Definition cm_data : node := Mp "!!map" 2 3 4 [cm_key; cm_scalar].
Definition cm_top : node := Mp "!!map" 1 1 4 [Sc "!!str" "data" 1 1 23; cm_data].
Definition ex_configmap : node := Dc 1 1 4 [cm_top].

Example C19_nonvacuous_embedded :
  (exists f, parse_relaxed pl0 yes yes yes cm_lines [(ex_configmap, 4)] None = Some f /\
             map (fun r => match r_body r with Recording n e _ => (y_value n, y_value e, r_first r, r_last r) | _ => ("", "", 0, 0) end)
                 (all_rules (f_groups f)) = [("a:b", "up", 3, 4)]) /\
  wrapper pl0 yes yes yes (split_lines cm_value) 2 cm_inner (Some cm_embedded) cm_lines 0 ex_configmap None.
Proof.
  split; [vm_compute; eexists; split; reflexivity|].
  apply (W_other _ _ _ _ _ _ _ _ cm_lines 0 ex_configmap None cm_top [] []); [|left; reflexivity|reflexivity|intros x []].
  apply (W_map _ _ _ _ _ _ _ _ cm_lines 0 cm_top _ (Sc "!!str" "data" 1 1 23) cm_data [] []); [|reflexivity|reflexivity|intros k v []].
  apply (W_map _ _ _ _ _ _ _ _ cm_lines 0 cm_data _ cm_key cm_scalar [] []); [|reflexivity|reflexivity|intros k v []].
  apply (W_embedded _ _ _ _ _ _ _ _ cm_lines 0 cm_scalar _ cm_embedded); [|reflexivity|vm_compute; reflexivity|reflexivity].
  apply (W_other _ _ _ _ _ _ _ _ (split_lines cm_value) 2 cm_embedded (Some cm_scalar) cm_inner [] []); [|left; reflexivity|reflexivity|intros x []].
  apply W_hole.
Qed.
