(** Correspondence for C02: the shared forest-level comparison (Run.C19: every field of File/Group/Rule in both
    modes) plus discovery entries and error routing: Model.Routing.read_rules / checks_for_entry on the model's
    file vs the entries the real discovery produced and the checks the real GetChecksForEntry selected. *)
From Coq Require Import List String Ascii Arith Bool NArith ZArith.
From PintV Require Import Common.Bytes Model.Yaml Model.YamlPosLines Model.Parser Model.YamlFits Model.Routing Model.Render Run.C19.
Import ListNotations.
Open Scope string_scope.

Record obs_entry := {
  oe_perr : option nat;       (* line of Entry.PathError when it is a parser.ParseError *)
  oe_rerr : option nat;       (* line of Entry.Rule.Error *)
  oe_kind : nat;              (* 0 invalid, 1 alerting, 2 recording *)
  oe_checks : list string     (* reporters of the checks GetChecksForEntry returned *)
}.

Record case := {
  c_base : C19.case;
  c_entries_strict : option (list obs_entry);    (* None = not comparable (pint comments present) or pipeline failed *)
  c_entries_relaxed : option (list obs_entry);
  c_lone_cr : bool;                              (* the file is in the known class where yaml.v3 coordinates leave the file:
                                                    C02-lone-cr (CR without LF, NEL, LS, PS) *)
  c_expand : list (Z * Z * option (list Z));     (* (First, Last, what the real diags.LineRange.Expand returned; None = panic) *)
  c_inject : list (Z * list (list Z) * option (list Z))
                                                 (* (len(Split(content)), position lines of every diagnostic of a problem, the source
                                                    line numbers the real diags.InjectDiagnostics printed; None = it panicked) *)
}.

(** Model.Render.inject_lines vs the real InjectDiagnostics on the diagnostics of this file's problems *)
Definition inject_ok_b (x : Z * list (list Z) * option (list Z)) : bool :=
  let '(n, ds, obs) := x in
  match inject_lines n ds, obs with
  | Ok l, Some l' => list_eqb Z.eqb l l'
  | Crash _, None => true
  | _, _ => false
  end.

(** Model.Render.expand vs the real LineRange.Expand (line ranges of the problems of this file + adversarial ones) *)
Definition expand_ok_b (x : Z * Z * option (list Z)) : bool :=
  let '(a, b, obs) := x in
  match expand a b, obs with
  | Ok l, Some l' => list_eqb Z.eqb l l'
  | Crash _, None => true
  | _, _ => false
  end.

(** The hypothesis of the theorems C02_lines_* (Properties/C02.v), checked on the forest yaml.v3 actually returned:
    every node coordinate and the yaml error line (if any) are inside the file, T = number of lines the content
    reader counted.  The one class of real files where it fails is the open known finding C02-lone-cr (class
    predicate computed by the harness: [c_lone_cr]); the second class it discovered, implicit nulls after the end of
    the input, is repaired by 5430596 (clampLines, applied by VerifForest before the forest is serialised). *)
Definition hyp_fits (c : case) : bool :=
  let b := c_base c in
  let T := List.length (c_lines b) in
  (docs_fit T (c_docs b) &&
   match c_yerr b with Some l => (Nat.leb 1 l && Nat.leb l T)%bool | None => true end)%bool.

Definition kind_of (r : rule) : nat :=
  match r_body r with Alerting _ _ _ _ _ _ => 1 | Recording _ _ _ => 2 | NoBody => 0 end.

Definition entry_ok (m : entry) (o : obs_entry) : bool :=
  (opt_eqb Nat.eqb (option_map pe_line (e_perr m)) (oe_perr o) &&
   opt_eqb Nat.eqb (option_map pe_line (r_error (e_rule m))) (oe_rerr o) &&
   Nat.eqb (kind_of (e_rule m)) (oe_kind o) &&
   (if has_error m then list_eqb String.eqb (checks_for_entry (fun _ => []) m) (oe_checks o)
    else negb (mem_str yaml_parse_reporter (oe_checks o))) &&
   (if has_error m then match parse_rule_error m with Ok _ => true | Crash _ => false end else true))%bool.

Fixpoint list_eqb2 {A B} (eq : A -> B -> bool) (a : list A) (b : list B) : bool :=
  match a, b with
  | [], [] => true
  | x :: a', y :: b' => (eq x y && list_eqb2 eq a' b')%bool
  | _, _ => false
  end.

Definition entries_diff (f : file) (obs : list obs_entry) : option string :=
  let m := read_rules f in
  if negb (Nat.eqb (List.length m) (List.length obs)) then Some "entry-count"
  else if negb (list_eqb2 entry_ok m obs) then Some "entry-or-routing"
  else None.

Definition check (c : case) : list string :=
  let b := c_base c in
  (if (c_lone_cr c || hyp_fits c)%bool then [] else ["hypothesis-fits"]) ++
  (if forallb expand_ok_b (c_expand c) then [] else ["expand"]) ++
  (if forallb inject_ok_b (c_inject c) then [] else ["inject-lines"]) ++
  C19.check b ++
  (match c_entries_strict c with
   | Some obs => match entries_diff (run_strict (c_thanos b) (c_lines b) (c_docs b) (c_yerr b)) obs with
                 | Some t => ["strict:" ++ t] | None => [] end
   | None => []
   end) ++
  (match c_entries_relaxed c with
   | Some obs => match run_relaxed (c_lines b) (c_docs b) (c_yerr b) with
                 | Some f => match entries_diff f obs with Some t => ["relaxed:" ++ t] | None => [] end
                 | None => ["relaxed:out-of-fuel"]
                 end
   | None => []
   end).

Fixpoint mismatches (cs : list case) : list (N * string) :=
  match cs with
  | [] => []
  | c :: r => match check c with
              | t :: _ => (c_id (c_base c), t) :: mismatches r
              | [] => mismatches r
              end
  end.
