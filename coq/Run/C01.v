(** Correspondence for C01, both sides, on the forest yaml.v3 actually returned:
    (i)  Model.Routing.strict_blocks on the model's strict parse  vs  the Bug/Fatal problems the real in-process
         strict pipeline reported with the modelled reporters (yaml/parse, promql/syntax, alerts/for "invalid
         duration", alerts/template "template syntax error");
    (ii) Model.PromLoader.prom_accepts                              vs  rulefmt.Parse(content, false) == no error.
    Oracle bits of a scalar (n_ann): 0 metric 1 lname 2 lvalue 3 dur 4 expr 5 str-decodes 6 int-decodes
    7 pint template ok 8 prometheus template ok 9 duration is zero 11 the scalar node resolves to null (per node; bit 10 and bits 16+ belong to Run/C19 plines_run).
    (iii) glue: the masking reader is the identity on the case's bytes (c_reader_id), cf. Proofs/C01_mask.v. *)
From Coq Require Import List String Ascii Arith Bool NArith.
From PintV Require Import Common.Bytes Model.Yaml Model.YamlPosLines Model.Parser Model.Routing Model.PromLoader Run.C19.
Import ListNotations.
Open Scope string_scope.

Record case := {
  c_base : C19.case;
  c_reader_id : bool;               (* observed: yaml.v3 returns the same forest for the bytes that went through pint's masking
                                       ContentReader as for the raw bytes rulefmt.Parse decodes (glue; by C01_mask_id the reader is the
                                       identity on files without pint control comments, and files with such comments are not cases) *)
  c_pint_blocked : option bool;     (* observed: some Bug/Fatal problem of a modelled reporter (strict, in-process); None = not comparable *)
  c_prom_accepts : option bool      (* observed: rulefmt.Parse returned no error; None = outside the modelled fragment *)
}.

Definition node_bit (bit : N) (n : node) : bool := N.testbit (n_ann n) bit.

Definition model_blocks (c : C19.case) : bool :=
  let tbl := ann_table (c_docs c) in
  strict_blocks (ann_bit tbl 4) (ann_bit tbl 3) (ann_bit tbl 7)
                (run_strict (c_thanos c) (c_lines c) (c_docs c) (c_yerr c)).

Definition model_prom (c : C19.case) : bool :=
  let tbl := ann_table (c_docs c) in
  match c_yerr c, c_docs c with
  | Some _, [] => false                  (* the first document does not parse *)
  | _, ds =>
      prom_accepts (node_bit 5) (node_bit 6) (node_bit 11)
                   (ann_bit tbl 4) (ann_bit tbl 3) (ann_bit tbl 9) (ann_bit tbl 0) (ann_bit tbl 1) (ann_bit tbl 2) (ann_bit tbl 8)
                   (map fst ds)
  end.

(** The oracle hypotheses of C01_sound_partial that must hold of the real libraries, checked on the answers recorded
    in the forest: H_tmpl (pint's template check implies Prometheus' ParseTest) and H_empty. *)
Definition hyp_tmpl_ok (tbl : list (string * N)) : bool :=
  forallb (fun kv => orb (negb (N.testbit (snd kv) 7)) (N.testbit (snd kv) 8)) tbl.
Definition hyp_empty_ok (tbl : list (string * N)) : bool :=
  match assoc "" tbl with
  | Some a => (negb (N.testbit a 1) && N.testbit a 2 && N.testbit a 8)%bool
  | None => true
  end.

Definition empty_case (id : N) : C19.case :=
  {| c_id := id; c_thanos := false; c_lines := []; c_docs := []; c_yerr := None; c_strict := None; c_relaxed := None |}.

Definition check (c : case) : list string :=
  (if c_reader_id c then [] else ["reader-not-identity"]) ++
  (if hyp_tmpl_ok (ann_table (c_docs (c_base c))) then [] else ["hypothesis-H_tmpl"]) ++
  (if hyp_empty_ok (ann_table (c_docs (c_base c))) then [] else ["hypothesis-H_empty"]) ++
  (match c_pint_blocked c with
   | Some b => if Bool.eqb (model_blocks (c_base c)) b then [] else ["pint-verdict"]
   | None => []
   end) ++
  (match c_prom_accepts c with
   | Some b => if Bool.eqb (model_prom (c_base c)) b then [] else ["prom-verdict"]
   | None => []
   end).

Fixpoint mismatches (cs : list case) : list (N * string) :=
  match cs with
  | [] => []
  | c :: r => match check c with
              | t :: _ => (c_id (c_base c), t) :: mismatches r
              | [] => mismatches r
              end
  end.
