(** Correspondence for C12: the same case format and checks as C04 (one shared development); the C12 harness
    uses db_total databases only and a generator biased towards joins, set operators and static comparisons. *)
From PintV Require Export Run.C04.
