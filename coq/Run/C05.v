(** Correspondence for C05: the [pint] binary's exit status (and whether its --json report exists / is complete) vs
    [Model.ExitFlow] (the whole actionLint / actionCI control flow, flag defaults from the generated table) on the same
    command line, the same injected fault, and the severities pint itself wrote to its --json report. *)
From Coq Require Import List String ZArith NArith Bool.
From PintV Require Import Common.Bytes Gen.Tables Gen.C05 Model.Severity Model.ExitFlow.
Import ListNotations.
Open Scope string_scope.

Record case := {
  c_id : N;
  c_ci : bool;                 (* pint ci instead of pint lint *)
  c_fail_on : option string;   (* --fail-on value; None = flag omitted (default of the generated table) *)
  c_min_sev : option string;   (* --min-severity (lint only) *)
  c_sevs : list string;        (* "severity" fields of the JSON report, in order *)
  c_json_present : bool;       (* the JSON report was written and parses *)
  c_exit_nonzero : bool;       (* observed *)
  c_fault : string;            (* injected infrastructure fault ("" = none): which stage of the action must fail *)
  c_branch : string;           (* pint ci: current branch *)
  c_base : string;             (* pint ci: --base-branch *)
  c_json_exists : bool;        (* the --json file exists afterwards (possibly empty) *)
  c_exit_code : Z              (* observed exit status *)
}.

Fixpoint all_some {A} (l : list (option A)) : option (list A) :=
  match l with
  | [] => Some []
  | Some x :: r => match all_some r with Some r' => Some (x :: r') | None => None end
  | None :: _ => None
  end.

Definition is (c : case) (f : string) : bool := String.eqb (c_fault c) f.

Definition setup_of (c : case) : setup_in :=
  {| su_log_level_ok := negb (is c "log-level");
     su_workers := if is c "workers" then 0%Z else 10%Z;
     su_config_ok := negb (is c "bad-config" || is c "missing-config") |}.

Definition lint_of (c : case) : lint_in :=
  {| li_setup := setup_of c;
     li_paths := if is c "no-paths" then 0%nat else 1%nat;
     li_find_ok := negb (is c "missing-path");
     li_generate_ok := true; li_check_ok := negb (is c "discovery-fails");
     li_min_sev := c_min_sev c; li_fail_on := c_fail_on c;
     li_outputs_ok := negb (is c "json-unwritable" || is c "checkstyle-unwritable");
     li_submit_ok := negb (is c "submit-fails") |}.

Definition ci_of (c : case) : ci_in :=
  {| ci_setup := setup_of c;
     ci_current_branch := if is c "not-a-repo" then None else Some (c_branch c);
     ci_base_branch := c_base c;
     ci_find_ok := true;
     ci_git_find_ok := negb (is c "bad-base");
     ci_generate_ok := true; ci_check_ok := negb (is c "discovery-fails");
     ci_outputs_ok := negb (is c "json-unwritable");
     ci_reporters_ok := negb (is c "github-no-token");
     ci_fail_on := c_fail_on c;
     ci_submit_ok := negb (is c "submit-fails") |}.

Definition known_faults : list string :=
  [""; "no-paths"; "missing-path"; "bad-config"; "missing-config"; "workers"; "log-level"; "json-unwritable";
   "checkstyle-unwritable"; "not-a-repo"; "bad-base"; "github-no-token"; "discovery-fails"; "submit-fails"].

Definition model_outcome (c : case) : option outcome :=
  if negb (mem_str (c_fault c) known_faults) then None else
  match all_some (map severity_of_string (c_sevs c)) with
  | Some sevs => Some (if c_ci c then action_ci (ci_of c) sevs else action_lint (lint_of c) sevs)
  | None => None
  end.

Definition check (c : case) : list string :=
  match model_outcome c with
  | None => ["malformed-case"]
  | Some o =>
      (if Bool.eqb (negb (Z.eqb (o_code o) 0)) (c_exit_nonzero c) then [] else ["exit-status"]) ++
      (* a status other than 0 / the exit code of main() is a crash (the Go runtime exits with 2 on a panic): never modelled *)
      (if Z.eqb (c_exit_code c) 0 || Z.eqb (c_exit_code c) main_exit_code then [] else ["crash-exit-code"]) ++
      (* the severities the model was evaluated on come from the report: it must exist whenever the model says the
         reports were submitted.  The other observations about the report (left absent / empty on an early error) are
         facts of the model that the property does not speak about; they are not compared, so that e.g. validating the
         flags before linting stays a harmless refactor. *)
      (if o_submitted o && negb (c_json_present c) then ["report-missing"] else [])
  end.

Fixpoint mismatches (cs : list case) : list (N * string) :=
  match cs with
  | [] => []
  | c :: r => map (fun t => (c_id c, t)) (check c) ++ mismatches r
  end.
