(** Correspondence for C05: the [pint] binary's exit status vs [Model.Severity] on the same flags and on
    the severities pint itself wrote to its --json report. *)
From Coq Require Import List String ZArith NArith Bool.
From PintV Require Import Common.Bytes Gen.Tables Model.Severity.
Import ListNotations.
Open Scope string_scope.

Record case := {
  c_id : N;
  c_ci : bool;                 (* pint ci instead of pint lint *)
  c_fail_on : option string;   (* --fail-on value; None = flag omitted (default) *)
  c_min_sev : option string;   (* --min-severity (lint only) *)
  c_sevs : list string;        (* "severity" fields of the JSON report, in order *)
  c_json_present : bool;       (* the JSON report was written *)
  c_exit_nonzero : bool        (* observed *)
}.

Definition default_fail_on := "bug".
Definition default_min_sev := "warning".

Fixpoint all_some {A} (l : list (option A)) : option (list A) :=
  match l with
  | [] => Some []
  | Some x :: r => match all_some r with Some r' => Some (x :: r') | None => None end
  | None :: _ => None
  end.

Definition flag (o : option string) (d : string) := match o with Some s => s | None => d end.

(** [None] = the case itself is malformed (JSON has a severity name the tables do not know). *)
Definition model_exit (c : case) : option bool :=
  let f := flag (c_fail_on c) default_fail_on in
  let m := flag (c_min_sev c) default_min_sev in
  if c_json_present c then
    match all_some (map severity_of_string (c_sevs c)) with
    | Some sevs => Some (if c_ci c then run_ci f sevs else run_lint f m sevs)
    | None => None
    end
  else
    (* no report written: only legitimate when a flag value was rejected *)
    match parse_severity f, (if c_ci c then Some 0%Z else parse_severity m) with
    | Some _, Some _ => None
    | _, _ => Some true
    end.

Definition check (c : case) : option string :=
  match model_exit c with
  | None => Some "malformed-or-missing-json"
  | Some b => if Bool.eqb b (c_exit_nonzero c) then None else Some "exit-status"
  end.

Fixpoint mismatches (cs : list case) : list (N * string) :=
  match cs with
  | [] => []
  | c :: r => match check c with
              | Some t => (c_id c, t) :: mismatches r
              | None => mismatches r
              end
  end.
