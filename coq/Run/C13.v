(** Correspondence for C13: observations of the real sliceRange / AppendSampleToRanges / ExpandRangesEnd /
    Overlaps / MergeRanges / FindGaps / the function-level pipeline / Prometheus.RangeQuery (end to end against
    the in-process fake server) versus Model/Range.v evaluated on the same inputs, plus the model-level test
    of the hypothesis of [C13_sliced_eq_unsliced_partial] (model pipeline = reference runs). *)
From Coq Require Import List String ZArith NArith Bool.
From PintV Require Import Common.GoTime Model.Range Model.RangeRef Model.RangeStream.
Import ListNotations.
Open Scope string_scope.
Open Scope Z_scope.

Definition tr_eqb (a b : tr) : bool := (fst a =? fst b) && (snd a =? snd b).

Fixpoint list_eqb {A} (eqb : A -> A -> bool) (a b : list A) : bool :=
  match a, b with
  | [], [] => true
  | x :: r, y :: s => eqb x y && list_eqb eqb r s
  | _, _ => false
  end.

Definition ranges_eqb := list_eqb range_eqb.
Definition trs_eqb := list_eqb tr_eqb.

Definition opt_tr_eqb (a b : option tr) : bool :=
  match a, b with
  | None, None => true
  | Some x, Some y => tr_eqb x y
  | _, _ => false
  end.

(** series in a case file: fingerprint + presence intervals *)
Definition cseries := list (N * list tr).
Definition to_series (cs : cseries) : series := map (fun s => (fst s, pres_of (snd s))) cs.

Fixpoint pick_perm {A} (l : list A) (d : A) (perm : list nat) : list A :=
  match perm with
  | [] => []
  | k :: r => nth k l d :: pick_perm l d r
  end.

Inductive case :=
| CSlice (id : N) (start end_ res size : Z) (obs : list tr)
| CAppend (id : N) (dst : list range) (calls : list (N * list Z)) (step : Z) (obs obs_expanded : list range)
| COverlaps (id : N) (a b : range) (step : Z) (obs : option tr)
| CMerge (id : N) (src : list range) (step : Z) (obs : list range) (obs_had : bool)
| CGaps (id : N) (ranges baseline : list range) (gaps : list tr) (step from until : Z) (obs : list tr)
  (** function-level pipeline: sliceRange -> per slice (samples from the presence model, Append, Expand) ->
      concatenation in the order [perm] -> MergeRanges if len>1 -> sort.Stable *)
| CPipe (id : N) (start end_ step size : Z) (ss : cseries) (perm : list nat)
        (obs_slices : list tr) (obs_final : list range)
  (** end to end: Prometheus.RangeQuery against the fake server; [obs_requests] = (start,end) of the
      query_range requests the server received, sorted by start, as the server parsed them *)
| CE2E (id : N) (start end_ lookback step : Z) (ss : cseries) (obs_requests : list tr) (obs_final : list range)
  (** streamSampleStream on a response body: the elements of "result" in response order (metric object with sorted keys,
      ascending sample timestamps), the fingerprint labels.Hash gives each distinct label set, and the observed
      MetricTimeRanges (before ExpandRangesEnd), in order *)
| CStream (id : N) (step : Z) (elems : list (metric * list Z)) (fps : list (metric * N)) (obs : list range).

Definition case_id (c : case) : N :=
  match c with
  | CSlice id _ _ _ _ _ | CAppend id _ _ _ _ _ | COverlaps id _ _ _ _ | CMerge id _ _ _ _
  | CGaps id _ _ _ _ _ _ _ | CPipe id _ _ _ _ _ _ _ _ | CE2E id _ _ _ _ _ _ _ | CStream id _ _ _ _ => id
  end.

Fixpoint metric_eqb (a b : metric) : bool :=
  match a, b with
  | [], [] => true
  | (k, v) :: r, (k', v') :: r' => String.eqb k k' && String.eqb v v' && metric_eqb r r'
  | _, _ => false
  end.

(** labels.Hash as a finite table; a label set that is not in the table (e.g. one the decoder made up) hashes to 0 *)
Fixpoint table_hash (t : list (metric * N)) (m : metric) : N :=
  match t with
  | [] => 0%N
  | (m', h) :: r => if metric_eqb m m' then h else table_hash r m
  end.

Definition gaps_fuel (step from until : Z) : nat := Z.to_nat ((until - from) / step + 3).

Definition first_start (sl : list tr) (d : Z) : Z := match sl with (s, _) :: _ => s | [] => d end.

Definition check (c : case) : option string :=
  match c with
  | CSlice _ start end_ res size obs =>
      match slice_range (slice_fuel start end_ size) start end_ res size with
      | Some l => if trs_eqb l obs then None else Some "sliceRange"
      | None => Some "sliceRange-model-out-of-fuel"
      end
  | CAppend _ dst calls step obs obs_x =>
      let m := fold_left (fun d c => append_samples d (fst c) (snd c) step) calls dst in
      if negb (ranges_eqb m obs) then Some "AppendSampleToRanges"
      else if negb (ranges_eqb (expand_end m step) obs_x) then Some "ExpandRangesEnd"
      else None
  | COverlaps _ a b step obs =>
      if opt_tr_eqb (overlaps a b step) obs then None else Some "Overlaps"
  | CMerge _ src step obs had =>
      match merge_ranges (merge_fuel src) step src with
      | Some (l, h) =>
          if negb (Bool.eqb h had) then Some "MergeRanges-hadMerged"
          else if ranges_eqb (canon l) (canon obs) then None else Some "MergeRanges"
      | None => Some "MergeRanges-model-out-of-fuel"
      end
  | CGaps _ ranges baseline gaps step from until obs =>
      match find_gaps (gaps_fuel step from until) ranges baseline gaps step from until with
      | Some g => if trs_eqb g obs then None else Some "FindGaps"
      | None => Some "FindGaps-model-out-of-fuel"
      end
  | CPipe _ start end_ step size ss perm obs_slices obs_final =>
      match slice_range (slice_fuel start end_ size) start end_ step size with
      | None => Some "pipe-sliceRange-model-out-of-fuel"
      | Some sl =>
          if negb (trs_eqb sl obs_slices) then Some "pipe-slices"
          else
            let arrival := pick_perm sl (0, 0) perm in
            let l := flat_map (per_slice step (to_series ss)) arrival in
            match finalize (merge_fuel l) step l with
            | None => Some "pipe-model-out-of-fuel"
            | Some fin =>
                if negb (ranges_eqb fin (canon obs_final)) then Some "pipe-final"
                else
                  (* the hypothesis of C13_sliced_eq_unsliced_partial, tested on the model *)
                  let ref := ref_runs step (to_series ss) (first_start sl start) end_ in
                  if ranges_eqb fin (canon ref) then None else Some "pipe-model-vs-reference-runs"
            end
      end
  | CStream _ step elems fps obs =>
      if ranges_eqb (stream_elems (table_hash fps) step [] elems []) obs then None else Some "streamSampleStream"
  | CE2E _ start end_ lookback step ss obs_requests obs_final =>
      let q := slice_size step in
      let fuel := if q <=? 0 then O else slice_fuel start end_ q in
      match query_slices fuel start end_ lookback step with
      | None => Some "e2e-model-out-of-fuel"
      | Some sl =>
          let wsl := map (fun s => (wire (fst s), wire (snd s))) sl in
          if negb (trs_eqb wsl obs_requests) then Some "e2e-requests"
          else
            let ref := ref_runs step (to_series ss) (first_start wsl start) (wire end_) in
            if ranges_eqb (canon_sorted obs_final) (canon ref) then None else Some "e2e-final-vs-reference-runs"
      end
  end.

Fixpoint mismatches (cs : list case) : list (N * string) :=
  match cs with
  | [] => []
  | c :: r => match check c with
              | Some t => (case_id c, t) :: mismatches r
              | None => mismatches r
              end
  end.
