(** Correspondence for C20: (a) the real RuleDependencyCheck.Check on generated entry sets vs Model/Dependency.check;
    (c) the real git.Changes + GlobFinder + GitBranchFinder.Find + routing + Check on scratch git histories vs the composed
    model Model/Dependency.pipeline (= Model/GitBranch.find, then report on every final entry). *)
From Coq Require Import List String ZArith NArith Bool.
From PintV Require Import Common.Bytes.
From PintV Require Export Model.GitBranch Model.Dependency.
Import ListNotations.
Open Scope string_scope.

(** observed result of Check for one entry: None = no problem; Some (first, last, details, diagnostic message) *)
Definition obs := option (Z * Z * string * string).

(** [c_selected]: per entry, whether config.GetChecksForEntry (pint ci routing) selects rule/dependency for it *)
Record es_case := { c_id : N; c_entries : list dentry; c_observed : list obs; c_selected : list bool }.

Fixpoint bools_eqb (a b : list bool) : bool :=
  match a, b with
  | [], [] => true
  | x :: a', y :: b' => Bool.eqb x y && bools_eqb a' b'
  | _, _ => false
  end.

Definition proj (p : option problem) : obs :=
  match p with
  | None => None
  | Some p => Some (p_first p, p_last p, p_details p, p_diag p)
  end.

Definition obs_eqb (a b : obs) : bool :=
  match a, b with
  | None, None => true
  | Some (f1, l1, d1, g1), Some (f2, l2, d2, g2) => Z.eqb f1 f2 && Z.eqb l1 l2 && String.eqb d1 d2 && String.eqb g1 g2
  | _, _ => false
  end.

Fixpoint all_eqb (a b : list obs) : bool :=
  match a, b with
  | [], [] => true
  | x :: a', y :: b' => obs_eqb x y && all_eqb a' b'
  | _, _ => false
  end.

Fixpoint presence_eqb (a b : list obs) : bool :=
  match a, b with
  | [], [] => true
  | Some _ :: a', Some _ :: b' | None :: a', None :: b' => presence_eqb a' b'
  | _, _ => false
  end.

Definition check_es (c : es_case) : option string :=
  let got := map (fun e => proj (check e (c_entries c))) (c_entries c) in
  if negb (bools_eqb (map dispatched (c_entries c)) (c_selected c)) then Some "dispatch"
  else if all_eqb got (c_observed c) then None
  else if presence_eqb got (c_observed c) then Some "details-or-lines" else Some "problem-presence".

(** (c) observed per entry of the real final list, in order: (path, first line, last line, state, problem) *)
Definition pobs := (string * Z * Z * state * obs)%type.

Record pipe_case := {
  pc_glob : list entry;
  pc_changes : list change_in;
  pc_info : list (N * info);
  pc_observed : list pobs
}.

Definition pobs_eqb (x y : pobs) : bool :=
  let '(p1, f1, l1, s1, o1) := x in let '(p2, f2, l2, s2, o2) := y in
  String.eqb p1 p2 && Z.eqb f1 f2 && Z.eqb l1 l2 && state_eqb s1 s2 && obs_eqb o1 o2.

Definition pos_eqb (x y : pobs) : bool :=
  let '(p1, f1, l1, s1, _) := x in let '(p2, f2, l2, s2, _) := y in
  String.eqb p1 p2 && Z.eqb f1 f2 && Z.eqb l1 l2 && state_eqb s1 s2.

Fixpoint list_eqb {A} (eqb : A -> A -> bool) (a b : list A) : bool :=
  match a, b with
  | [], [] => true
  | x :: a', y :: b' => eqb x y && list_eqb eqb a' b'
  | _, _ => false
  end.

Definition check_pipe (c : pipe_case) : option string :=
  let got := map (fun dp => let '(d, p) := dp in (d_path d, d_first d, d_last d, d_state d, proj p))
                 (pipeline (pc_info c) (pc_glob c) (pc_changes c)) in
  if list_eqb pobs_eqb got (pc_observed c) then None
  else if list_eqb pos_eqb got (pc_observed c) then Some "pipeline:problems" else Some "pipeline:find-states".

Inductive case :=
| EntrySet (c : es_case)
| Pipeline (id : N) (c : pipe_case).

Definition case_id (c : case) : N := match c with EntrySet c => c_id c | Pipeline id _ => id end.
Definition check_case (c : case) : option string :=
  match c with EntrySet c => check_es c | Pipeline _ c => check_pipe c end.

Fixpoint mismatches (cs : list case) : list (N * string) :=
  match cs with
  | [] => []
  | c :: r => match check_case c with
              | Some t => (case_id c, t) :: mismatches r
              | None => mismatches r
              end
  end.
