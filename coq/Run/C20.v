(** Correspondence for C20: the real RuleDependencyCheck.Check on generated entry sets vs Model/Dependency.check. *)
From Coq Require Import List String ZArith NArith Bool.
From PintV Require Import Common.Bytes.
From PintV Require Export Model.GitBranch Model.Dependency.
Import ListNotations.
Open Scope string_scope.

(** observed result of Check for one entry: None = no problem; Some (first, last, details, diagnostic message) *)
Definition obs := option (Z * Z * string * string).

(** [c_selected]: per entry, whether config.GetChecksForEntry (pint ci routing) selects rule/dependency for it *)
Record case := { c_id : N; c_entries : list dentry; c_observed : list obs; c_selected : list bool }.

Fixpoint bools_eqb (a b : list bool) : bool :=
  match a, b with
  | [], [] => true
  | x :: a', y :: b' => Bool.eqb x y && bools_eqb a' b'
  | _, _ => false
  end.

Definition proj (p : option problem) : obs :=
  match p with
  | None => None
  | Some p => Some (p_first p, p_last p, p_details p, p_diag p)
  end.

Definition obs_eqb (a b : obs) : bool :=
  match a, b with
  | None, None => true
  | Some (f1, l1, d1, g1), Some (f2, l2, d2, g2) => Z.eqb f1 f2 && Z.eqb l1 l2 && String.eqb d1 d2 && String.eqb g1 g2
  | _, _ => false
  end.

Fixpoint all_eqb (a b : list obs) : bool :=
  match a, b with
  | [], [] => true
  | x :: a', y :: b' => obs_eqb x y && all_eqb a' b'
  | _, _ => false
  end.

Fixpoint presence_eqb (a b : list obs) : bool :=
  match a, b with
  | [], [] => true
  | Some _ :: a', Some _ :: b' | None :: a', None :: b' => presence_eqb a' b'
  | _, _ => false
  end.

Definition check_case (c : case) : option string :=
  let got := map (fun e => proj (check e (c_entries c))) (c_entries c) in
  if negb (bools_eqb (map dispatched (c_entries c)) (c_selected c)) then Some "dispatch"
  else if all_eqb got (c_observed c) then None
  else if presence_eqb got (c_observed c) then Some "details-or-lines" else Some "problem-presence".

Fixpoint mismatches (cs : list case) : list (N * string) :=
  match cs with
  | [] => []
  | c :: r => match check_case c with
              | Some t => (c_id c, t) :: mismatches r
              | None => mismatches r
              end
  end.
