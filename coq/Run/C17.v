(** Correspondence for C17:
    (A) rounds of the REAL reporter.Submit against an in-memory stateful Commenter: dedupReports/makeComments
        (groups, path, line, anchor) and updateDestination (create log, deferred, delete log, store) vs the model;
    (B) parseDiffLines / diffLineFor / GithubReporter.fixCommentLine+IsEqual / reportToGitLabDiscussion +
        GitLabReporter.IsEqual on generated unified diffs vs Model.Platforms. *)
From Coq Require Import List String ZArith NArith Bool.
From PintV Require Import Common.Bytes.
From PintV Require Export Model.CommentsReconcile Model.Platforms Model.PlatformBitbucket.
Import ListNotations.
Local Open Scope string_scope.

(* ---- (A) the in-memory platform of the harness ------------------------------------------------ *)

(** a stored comment / a pending comment with its text replaced by the id of its "\n"-trimmed text *)
Record mcomment := { mc_path : string; mc_line : Z; mc_text : N; mc_deletable : bool }.
Record mpending := { mp_path : string; mp_line : Z; mp_anchor_before : bool; mp_text : N }.

(** knobs of the harness' Commenter: budget; paths on which Create silently does nothing; whether Create
    stores AnchorBefore comments one line off (a platform violating law L1) *)
Record mem_cfg := { m_budget : nat; m_skip : list string; m_shift : bool }.

Definition mem_platform (c : mem_cfg) : platform mcomment mpending :=
  {| is_equal := fun e p => String.eqb (mc_path e) (mp_path p) && Z.eqb (mc_line e) (mp_line p) && N.eqb (mc_text e) (mp_text p);
     can_create := fun done => Nat.ltb done (m_budget c);
     can_delete := mc_deletable;
     create := fun p => if mem_str (mp_path p) (m_skip c) then None
                        else Some {| mc_path := mp_path p;
                                     mc_line := if m_shift c && mp_anchor_before p then (mp_line p + 1)%Z else mp_line p;
                                     mc_text := mp_text p; mc_deletable := true |} |}.

Record obs_pending := { op_p : mpending; op_members : list N }.

Record round := {
  rd_reports : list creport;
  rd_show_dups : bool;
  rd_pending : list obs_pending;       (* observed makeComments / dedupReports output *)
  rd_store : list mcomment;            (* what List returned *)
  rd_created : list mpending;          (* Create calls *)
  rd_deleted : list mcomment;          (* Delete calls *)
  rd_after : list mcomment             (* the store after the run *)
}.

Inductive case :=
| Rounds (id : N) (cfg : mem_cfg) (rounds : list round)
| Diff (id : N) (diff : string) (parsed : list diff_line) (queries : list (Z * option diff_line))
       (gh : list (gh_files * pcomment * bool * Z * list (ecomment * bool)))      (* files, pending, side LEFT, line, IsEqual samples *)
       (gl : list (list gl_diff * pcomment * option gl_position * list (ecomment * bool)))
(** the real GitLabReporter / GithubReporter driven through Submit against a fake API: per round the number of
    review comments posted, deleted, and EVERYTHING the server holds afterwards (other people's, system and general
    notes included: List's filter is part of the model) *)
| ServerGL (id : N) (diffs : list gl_diff) (budget : nat) (pend : list pcomment) (nreports : nat) (too_many_msg : string)
           (store0 : list gl_note) (rounds : list (nat * nat * list gl_note))
| ServerGH (id : N) (diffs : list gl_diff) (budget : nat) (pend : list pcomment)
           (store0 : list ecomment) (rounds : list (nat * nat * list ecomment))
(** BitBucket's own reconciliation: the real toBitBucketComment on (severity, text, path, line, anchor before), the real
    limitComments, and per round (comments in view, prune actions in order, comments posted) of the real
    pruneComments + addComments against a fake comments API *)
| BitBucket (id : N) (changes : option bb_changes) (raw : list (string * string * string * Z * bool))
            (pending : list bb_pending) (max_comments : nat) (msg : string) (limited : list bb_pending)
            (rounds : list (list bb_existing * list (N * bb_prune_action) * list bb_pending)).

Definition mcomment_eqb (a b : mcomment) : bool :=
  String.eqb (mc_path a) (mc_path b) && Z.eqb (mc_line a) (mc_line b) && N.eqb (mc_text a) (mc_text b) &&
  Bool.eqb (mc_deletable a) (mc_deletable b).
Definition mpending_eqb (a b : mpending) : bool :=
  String.eqb (mp_path a) (mp_path b) && Z.eqb (mp_line a) (mp_line b) && N.eqb (mp_text a) (mp_text b) &&
  Bool.eqb (mp_anchor_before a) (mp_anchor_before b).

Fixpoint list_eqb {A} (eqb : A -> A -> bool) (l1 l2 : list A) : bool :=
  match l1, l2 with
  | [], [] => true
  | a :: r1, b :: r2 => eqb a b && list_eqb eqb r1 r2
  | _, _ => false
  end.

Definition shape_matches (s : pending_shape) (o : obs_pending) : bool :=
  String.eqb (ps_path s) (mp_path (op_p o)) && Z.eqb (ps_line s) (mp_line (op_p o)) &&
  Bool.eqb (ps_anchor_before s) (mp_anchor_before (op_p o)) && list_eqb N.eqb (ps_members s) (op_members o).

Definition check_round (cfg : mem_cfg) (r : round) : list string :=
  let shapes := make_comments (rd_reports r) (rd_show_dups r) in
  let pend := map op_p (rd_pending r) in
  let '(after, lg) := step (mem_platform cfg) (rd_store r) pend in
  (if Nat.eqb (List.length shapes) (List.length (rd_pending r)) &&
      forallb (fun p => shape_matches (fst p) (snd p)) (combine shapes (rd_pending r)) then [] else ["makeComments"]) ++
  (if list_eqb mpending_eqb (map fst (l_created lg)) (rd_created r) then [] else ["created"]) ++
  (if list_eqb mcomment_eqb (l_deleted lg) (rd_deleted r) then [] else ["deleted"]) ++
  (if list_eqb mcomment_eqb after (rd_after r) then [] else ["store"]).

(* ---- (B) platform functions ------------------------------------------------------------------- *)

Definition dl_eqb (a b : diff_line) : bool :=
  Z.eqb (dl_old a) (dl_old b) && Z.eqb (dl_new a) (dl_new b) && Bool.eqb (dl_mod a) (dl_mod b).
Definition odl_eqb (a b : option diff_line) : bool :=
  match a, b with Some x, Some y => dl_eqb x y | None, None => true | _, _ => false end.
Definition oz_eqb (a b : option Z) : bool :=
  match a, b with Some x, Some y => Z.eqb x y | None, None => true | _, _ => false end.
Definition pos_eqb (a b : option gl_position) : bool :=
  match a, b with
  | Some x, Some y => String.eqb (gp_old_path x) (gp_old_path y) && String.eqb (gp_new_path x) (gp_new_path y) &&
                      oz_eqb (gp_new_line x) (gp_new_line y) && oz_eqb (gp_old_line x) (gp_old_line y)
  | None, None => true
  | _, _ => false
  end.

Definition check_diff diff parsed queries
           (gh : list (gh_files * pcomment * bool * Z * list (ecomment * bool)))
           (gl : list (list gl_diff * pcomment * option gl_position * list (ecomment * bool))) : list string :=
  let ls := parse_diff_lines diff in
  (if list_eqb dl_eqb ls parsed then [] else ["parseDiffLines"]) ++
  (if forallb (fun q : Z * option diff_line => odl_eqb (diff_line_for parsed (fst q)) (snd q)) queries then [] else ["diffLineFor"]) ++
  (if forallb (fun g : gh_files * pcomment * bool * Z * list (ecomment * bool) =>
                 let '(files, p, sleft, line, eqs) := g in
                 let '(l', n') := gh_fix_comment_line files p in
                 Bool.eqb l' sleft && Z.eqb n' line &&
                 forallb (fun eq : ecomment * bool => Bool.eqb (gh_is_equal files (fst eq) p) (snd eq)) eqs) gh
   then [] else ["github"]) ++
  (if forallb (fun g : list gl_diff * pcomment * option gl_position * list (ecomment * bool) =>
                 let '(diffs, p, pos, eqs) := g in
                 pos_eqb (gl_discussion diffs p) pos &&
                 forallb (fun eq : ecomment * bool => Bool.eqb (gl_is_equal (fst eq) p) (snd eq)) eqs) gl
   then [] else ["gitlab"]).

Definition ecomment_eqb (a b : ecomment) : bool :=
  String.eqb (ec_path a) (ec_path b) && Z.eqb (ec_line a) (ec_line b) && String.eqb (ec_text a) (ec_text b).

Definition pos_eqb' (x y : gl_position) : bool := pos_eqb (Some x) (Some y).
Definition opos_eqb (a b : option gl_position) : bool :=
  match a, b with Some x, Some y => pos_eqb' x y | None, None => true | _, _ => false end.
Definition gl_note_eqb (a b : gl_note) : bool :=
  Bool.eqb (gn_system a) (gn_system b) && Bool.eqb (gn_mine a) (gn_mine b) && opos_eqb (gn_pos a) (gn_pos b) &&
  String.eqb (gn_body a) (gn_body b).

Fixpoint check_server {E} (eqb : E -> E -> bool) (run : list E -> list pcomment -> list E * log E pcomment)
         (store : list E) (pend : list pcomment) (rounds : list (nat * nat * list E)) : list string :=
  match rounds with
  | [] => []
  | (posts, dels, after) :: rest =>
      let '(store', lg) := run store pend in
      (if Nat.eqb (List.length (stored (l_created lg))) posts then [] else ["server-posts"]) ++
      (if Nat.eqb (List.length (l_deleted lg)) dels then [] else ["server-deletes"]) ++
      (if list_eqb eqb store' after then [] else ["server-store"]) ++
      check_server eqb run store' pend rest
  end.

Definition bb_anchor_eqb (a b : bb_anchor) : bool := anchor_eqb a b.
Definition bb_pending_eqb (a b : bb_pending) : bool :=
  bb_anchor_eqb (bp_anchor a) (bp_anchor b) && String.eqb (bp_file_type a) (bp_file_type b) &&
  String.eqb (bp_text a) (bp_text b) && String.eqb (bp_severity a) (bp_severity b).
Definition bb_action_eqb (a b : N * bb_prune_action) : bool :=
  N.eqb (fst a) (fst b) &&
  match snd a, snd b with BDelete, BDelete | BResolve, BResolve | BEscalateResolve, BEscalateResolve => true | _, _ => false end.

Definition check_bitbucket changes (raw : list (string * string * string * Z * bool)) pending max_comments msg limited
           (rounds : list (list bb_existing * list (N * bb_prune_action) * list bb_pending)) : list string :=
  (if list_eqb bb_pending_eqb (map (fun x => let '(sev, text, path, line, before) := x in bb_to_comment changes sev text path line before) raw) pending
   then [] else ["bitbucket-anchor"]) ++
  (if list_eqb bb_pending_eqb (bb_limit max_comments msg pending) limited then [] else ["bitbucket-limit"]) ++
  flat_map (fun rd : list bb_existing * list (N * bb_prune_action) * list bb_pending =>
              let '(existing, acts, posts) := rd in
              ((if list_eqb bb_action_eqb (bb_prune existing limited) acts then [] else ["bitbucket-prune"]) ++
               (if list_eqb bb_pending_eqb (bb_add existing limited) posts then [] else ["bitbucket-add"]))%list) rounds.

Definition check (c : case) : N * list string :=
  match c with
  | Rounds id cfg rounds => (id, flat_map (check_round cfg) rounds)
  | Diff id diff parsed queries gh gl => (id, check_diff diff parsed queries gh gl)
  | ServerGL id diffs budget pend nrep msg store0 rounds =>
      (id, check_server gl_note_eqb (gl_run diffs budget nrep msg) store0 pend rounds)
  | BitBucket id changes raw pending m msg limited rounds => (id, check_bitbucket changes raw pending m msg limited rounds)
  | ServerGH id diffs budget pend store0 rounds =>
      (id, check_server ecomment_eqb (step (github_srv (map (fun d => (gd_new_path d, gd_diff d)) diffs) budget)) store0 pend rounds)
  end.

Fixpoint mismatches (cs : list case) : list (N * string) :=
  match cs with
  | [] => []
  | c :: r => match check c with
              | (_, []) => mismatches r
              | (id, t :: _) => (id, t) :: mismatches r
              end
  end.
