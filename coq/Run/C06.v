(** Correspondence for C06: the real [diags.NewPositionRange] / [readRange] / [Lines] / [AddOffset] and the
    parser's [YamlNode.Pos] / [Rule.Lines] / [YamlMap.Lines] against [Model.Position], on the inputs the
    harness generated and the outputs it observed. *)
From Coq Require Import List String Ascii ZArith NArith Bool.
From PintV Require Import Common.Bytes Model.Position Model.Layout.
Import ListNotations.
Local Open Scope Z_scope.

Definition triple := (Z * Z * Z)%type.

Definition tr (t : triple) : prange := let '(l, a, b) := t in mkp l a b.
Definition untr (p : prange) : triple := (pr_line p, pr_first p, pr_last p).

Definition triple_eqb (x y : triple) : bool :=
  let '(a, b, c) := x in let '(d, e, f) := y in (a =? d) && (b =? e) && (c =? f).

Fixpoint list_eqb {A} (eqb : A -> A -> bool) (x y : list A) : bool :=
  match x, y with
  | [], [] => true
  | a :: x', b :: y' => eqb a b && list_eqb eqb x' y'
  | _, _ => false
  end.

Definition prs_eqb (m : list prange) (obs : list triple) : bool := list_eqb triple_eqb (map untr m) obs.
Definition pair_eqb (x y : Z * Z) : bool := (fst x =? fst y) && (snd x =? snd y).

(** One node of a document: yaml node (value, line, column), minColumn, offsetLine, offsetColumn and the
    positions the implementation attached ([None] = the call panicked). *)
Record node_obs := {
  no_id : N;
  no_node : snode;
  no_min : Z;
  no_offl : Z;
  no_offc : Z;
  no_obs : option (list triple);
  no_guard : bool   (* the printer claims: outside every known-finding class = inside the theorem's guard *)
}.

Inductive case :=
| CDoc (lines : list string) (nodes : list node_obs)
    (* NewPositionRange + AddOffset on every listed node of one document / synthetic line table *)
| CRead (id : N) (fc lc : Z) (prs : list triple) (obs : list triple)
    (* readRange(min(fc, Len), min(lc, Len), prs) as called by InjectDiagnostics *)
| CLines (id : N) (prs : list triple) (obs : Z * Z)           (* PositionRanges.Lines *)
| CRule (id : N) (parts : list (Z * option Z)) (obs : Z * Z)  (* parseRule's line range *)
| CCaretL (id : N) (line : string) (L : Z) (prs : list triple) (obs : string)
    (* the caret marks InjectDiagnostics printed under the source line [line] (any bytes) for the ranges prs *)
| CCaret (id : N) (len : nat) (L : Z) (prs : list triple) (obs : string)
    (* the caret marks InjectDiagnostics printed under an ASCII line of len bytes for the ranges prs *)
| CMap (id : N) (key : list triple) (items : list (list triple * list triple)) (obs : Z * Z). (* YamlMap.Lines *)

Definition check_node (lines : list string) (n : node_obs) : option (N * string) :=
  if no_guard n && negb (node_ok lines (no_node n) (no_min n)) then Some (no_id n, "class-predicate-vs-theorem-guard"%string) else
  match node_positions lines (no_node n) (no_min n) (no_offl n) (no_offc n), no_obs n with
  | Ok p, Some o => if prs_eqb p o then None else Some (no_id n, "positions"%string)
  | Crash _, None => None
  | Ok _, None => Some (no_id n, "impl-panicked-model-did-not"%string)
  | Crash _, Some _ => Some (no_id n, "model-crashed-impl-did-not"%string)
  end.

Fixpoint somes {A} (l : list (option A)) : list A :=
  match l with
  | [] => []
  | Some x :: r => x :: somes r
  | None :: r => somes r
  end.

Definition check (c : case) : list (N * string) :=
  match c with
  | CDoc lines nodes => somes (map (check_node lines) nodes)
  | CRead id fc lc prs obs =>
      if prs_eqb (diag_positions fc lc (map tr prs)) obs then [] else [(id, "read_range"%string)]
  | CLines id prs obs =>
      if pair_eqb (lines_of (map tr prs)) obs then [] else [(id, "lines"%string)]
  | CRule id parts obs =>
      if pair_eqb (rule_lines parts) obs then [] else [(id, "rule_lines"%string)]
  | CCaretL id line L prs obs =>
      if String.eqb (caret_marks_line line L (map tr prs)) obs then [] else [(id, "caret_marks_line"%string)]
  | CCaret id len L prs obs =>
      if String.eqb (caret_marks len L (map tr prs)) obs then [] else [(id, "caret_marks"%string)]
  | CMap id key items obs =>
      if pair_eqb (map_lines (map tr key) (map (fun it => (map tr (fst it), map tr (snd it))) items)) obs
      then [] else [(id, "map_lines"%string)]
  end.

Definition mismatches (cs : list case) : list (N * string) := flat_map check cs.
