(** Correspondence for C10: the real [ContentReader] (overlay export [parser.VerifReadAll]) vs
    [Model.Reader.reader_impl] on the same bytes: masked output, [lines], collected comments, diagnostics,
    [lineno], final flags; plus the known-finding class predicate computed by the harness (Go) vs
    [Model.MaskSpec.known_leak_class]. *)
From Coq Require Import List String ZArith NArith Bool.
From PintV Require Import Common.Bytes Model.CommentsUnicode Model.Comments Model.Reader Model.MaskSpec.
Import ListNotations.
Open Scope string_scope.
Open Scope list_scope.

(** observed comment value *)
Inductive oval :=
| OVNone
| OVInvalid (kind : N) (arg : string) (line first last : N)   (* kind: 0 suffix 1 missing 2 snooze format 3 snooze time *)
| OVOwner (name : string) (line : N)
| OVDisable (m : string)
| OVSnooze (until : Z) (m : string)
| OVRuleSet (v : string).

Record ocomment := { oc_type : N; oc_off : N; oc_val : oval }.

Definition ctype_num (t : ctype) : N :=
  match t with
  | UnknownType => 0 | InvalidComment => 1 | IgnoreFileType => 2 | IgnoreLineType => 3 | IgnoreBeginType => 4
  | IgnoreEndType => 5 | IgnoreNextLineType => 6 | FileOwnerType => 7 | RuleOwnerType => 8 | FileDisableType => 9
  | DisableType => 10 | FileSnoozeType => 11 | SnoozeType => 12 | RuleSetType => 13
  end%N.

Fixpoint type_name (t : ctype) (l : list (string * ctype)) : string :=
  match l with
  | [] => ""
  | (s, t') :: r => if ctype_eqb t t' then s else type_name t r
  end.

Definition proj_val (v : cvalue) : oval :=
  match v with
  | VNone => OVNone
  | VInvalid e line first last =>
      let '(k, a) := match e with
                     | ErrSuffix _ => (0%N, "")
                     | ErrMissing t => (1%N, type_name t type_table)
                     | ErrSnoozeFormat _ => (2%N, "")
                     | ErrSnoozeTime _ => (3%N, "")
                     end in
      OVInvalid k a (N.of_nat line) (N.of_nat first) (N.of_nat last)
  | VOwner n l => OVOwner n (N.of_nat l)
  | VDisable m => OVDisable m
  | VSnooze u m => OVSnooze u m
  | VRuleSet v => OVRuleSet v
  end.

Definition proj_comment (c : comment) : ocomment :=
  {| oc_type := ctype_num (c_type c); oc_off := N.of_nat (c_off c); oc_val := proj_val (c_val c) |}.

Definition oval_eqb (a b : oval) : bool :=
  match a, b with
  | OVNone, OVNone => true
  | OVInvalid k a l f t, OVInvalid k' a' l' f' t' =>
      (k =? k')%N && String.eqb a a' && (l =? l')%N && (f =? f')%N && (t =? t')%N
  | OVOwner n l, OVOwner n' l' => String.eqb n n' && (l =? l')%N
  | OVDisable m, OVDisable m' => String.eqb m m'
  | OVSnooze u m, OVSnooze u' m' => (u =? u')%Z && String.eqb m m'
  | OVRuleSet v, OVRuleSet v' => String.eqb v v'
  | _, _ => false
  end.

Definition ocomment_eqb (a b : ocomment) : bool :=
  (oc_type a =? oc_type b)%N && (oc_off a =? oc_off b)%N && oval_eqb (oc_val a) (oc_val b).

Fixpoint list_eqb {A} (eq : A -> A -> bool) (a b : list A) : bool :=
  match a, b with
  | [], [] => true
  | x :: r, y :: s => eq x y && list_eqb eq r s
  | _, _ => false
  end.

Definition diag_eqb (a : diag) (b : N * N * N) : bool :=
  let '(l, f, t) := a in let '(l', f', t') := b in
  (N.of_nat l =? l')%N && (N.of_nat f =? f')%N && (N.of_nat t =? t')%N.

Fixpoint list_eqb2 {A B} (eq : A -> B -> bool) (a : list A) (b : list B) : bool :=
  match a, b with
  | [], [] => true
  | x :: r, y :: s => eq x y && list_eqb2 eq r s
  | _, _ => false
  end.

Record case := {
  k_id : N;
  k_input : string;
  k_times : list (string * Z);        (* every token of the input that time.Parse accepts (RFC3339 / 2006-01-02) -> ns *)
  k_out : string;                     (* observed *)
  k_lines : list string;
  k_comments : list ocomment;
  k_diags : list (N * N * N);
  k_lineno : N;
  k_flags : bool * bool * bool * bool;  (* skipAll skipNext autoReset inBegin *)
  k_class : bool                        (* harness: known-finding class C10-control-comment-in-excluded-text *)
}.

Definition tp_of (c : case) : string -> option Z := fun s => assoc s (k_times c).

Definition check (c : case) : list string :=
  let r := reader_impl (tp_of c) (k_input c) in
  let st := r_st r in
  (if String.eqb (r_yaml r) (k_out c) then [] else ["out"]) ++
  (if list_eqb String.eqb (r_lines r) (k_lines c) then [] else ["lines"]) ++
  (if list_eqb ocomment_eqb (map proj_comment (r_comments r)) (k_comments c) then [] else ["comments"]) ++
  (if list_eqb2 diag_eqb (r_diags r) (k_diags c) then [] else ["diags"]) ++
  (if (N.of_nat (r_lineno r) =? k_lineno c)%N then [] else ["lineno"]) ++
  (let '(a, n, t, b) := k_flags c in
   if Bool.eqb (skipAll st) a && Bool.eqb (skipNext st) n && Bool.eqb (autoReset st) t && Bool.eqb (inBegin st) b
   then [] else ["flags"]) ++
  (if Bool.eqb (known_leak_class (tp_of c) (k_input c)) (k_class c) then [] else ["class-predicate"]).

(** A pair of files (payload replacement) that the REAL pipeline distinguishes although it falls into a known-finding
    class.  Such a failure is "explained" only if the reader model itself produces different outputs for the two
    files (then the difference is the modelled, known leak).  If the model's outputs are identical — masked bytes,
    comments incl. values, diagnostics, line count — nothing downstream can differ according to the model
    ([C10_pipeline_factors]), so the implementation has left the model in a property-relevant way: the pair is a
    concrete failing input that is NOT covered by the known finding. *)
Definition cerr_eqb (a b : cerr) : bool :=
  match a, b with
  | ErrSuffix x, ErrSuffix y => String.eqb x y
  | ErrMissing x, ErrMissing y => ctype_eqb x y
  | ErrSnoozeFormat x, ErrSnoozeFormat y => String.eqb x y
  | ErrSnoozeTime x, ErrSnoozeTime y => String.eqb x y
  | _, _ => false
  end.

Definition cvalue_eqb (a b : cvalue) : bool :=
  match a, b with
  | VNone, VNone => true
  | VInvalid e l f t, VInvalid e' l' f' t' => cerr_eqb e e' && Nat.eqb l l' && Nat.eqb f f' && Nat.eqb t t'
  | VOwner n l, VOwner n' l' => String.eqb n n' && Nat.eqb l l'
  | VDisable m, VDisable m' => String.eqb m m'
  | VSnooze u m, VSnooze u' m' => (u =? u')%Z && String.eqb m m'
  | VRuleSet v, VRuleSet v' => String.eqb v v'
  | _, _ => false
  end.

Definition comment_eqb (a b : comment) : bool :=
  ctype_eqb (c_type a) (c_type b) && Nat.eqb (c_off a) (c_off b) && cvalue_eqb (c_val a) (c_val b).

Definition diag3_eqb (a b : diag) : bool :=
  let '(l, f, t) := a in let '(l', f', t') := b in Nat.eqb l l' && Nat.eqb f f' && Nat.eqb t t'.

Definition rd_same (x y : rd) : bool :=
  String.eqb (r_out x) (r_out y) && list_eqb comment_eqb (r_comments x) (r_comments y) &&
  list_eqb diag3_eqb (r_diags x) (r_diags y) && Nat.eqb (r_lineno x) (r_lineno y).

Inductive tcase :=
| TReader (c : case)
| TPair (id : N) (a b : string) (times : list (string * Z)).

Definition tcheck (t : tcase) : N * list string :=
  match t with
  | TReader c => (k_id c, check c)
  | TPair id a b times =>
      let tp := fun s => assoc s times in
      (id, if rd_same (reader_impl tp a) (reader_impl tp b) then ["unexplained-oracle-failure"] else [])
  end.

Fixpoint mismatches (cs : list tcase) : list (N * string) :=
  match cs with
  | [] => []
  | c :: r => match tcheck c with
              | (_, []) => mismatches r
              | (i, tags) => (i, String.concat "," tags) :: mismatches r
              end
  end.
