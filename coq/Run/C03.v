(** Correspondence for C03: the real matchEntries / git.Changes / GitBranchFinder.Find vs the models. *)
From Coq Require Import List String ZArith NArith Bool.
From PintV Require Import Common.Bytes.
From PintV Require Export Model.GitBranch.
Import ListNotations.
Open Scope string_scope.

(** observed matchedEntry: (uid of before, uid of after, isIdentical, wasMoved) *)
Definition obs_matched := (option N * option N * bool * bool)%type.

Definition proj_matched (m : matched) : obs_matched :=
  match m with
  | OnlyAfter a => (None, Some (e_uid a), false, false)
  | Both b a i mv => (Some (e_uid b), Some (e_uid a), i, mv)
  | OnlyBefore b => (Some (e_uid b), None, false, false)
  end.

Definition optN_eqb (a b : option N) : bool :=
  match a, b with
  | None, None => true
  | Some x, Some y => N.eqb x y
  | _, _ => false
  end.

Definition obs_matched_eqb (x y : obs_matched) : bool :=
  let '(a1, b1, c1, d1) := x in let '(a2, b2, c2, d2) := y in
  optN_eqb a1 a2 && optN_eqb b1 b2 && Bool.eqb c1 c2 && Bool.eqb d1 d2.

Fixpoint list_eqb {A} (eqb : A -> A -> bool) (a b : list A) : bool :=
  match a, b with
  | [], [] => true
  | x :: a', y :: b' => eqb x y && list_eqb eqb a' b'
  | _, _ => false
  end.

(** ------------------------------------------------------------------------------------------------
    L2: git.Changes on the captured git transcript *)
From PintV Require Model.GitChanges.
Module GC := Model.GitChanges.

Record changes_case := {
  cc_lines : list string;                                  (* the `git log` text, as bufio.Scanner lines *)
  cc_types : list (string * string * GC.ptype);            (* (rev, path, getTypeForPath) *)
  cc_bodies : list (string * string * N);                  (* (rev, path, id of the content) *)
  cc_body_lines : list (N * N);                            (* id -> CountLines *)
  cc_blames : list (string * string * list (string * Z * Z));
  (* observed []*FileChange: status byte, before, after, commits, before type, after type, body ids, ModifiedLines *)
  cc_observed : list (N * string * string * list string * GC.ptype * GC.ptype * N * N * list Z)
}.

Fixpoint assoc2 {A} (k1 k2 : string) (l : list (string * string * A)) (d : A) : A :=
  match l with
  | [] => d
  | (a, b, v) :: r => if (String.eqb a k1 && String.eqb b k2)%bool then v else assoc2 k1 k2 r d
  end.

Fixpoint assocN (k : N) (l : list (N * N)) : N :=
  match l with [] => 0%N | (a, v) :: r => if N.eqb a k then v else assocN k r end.

Definition model_changes (c : changes_case) : option (list GC.final) :=
  GC.changes_of_log
    (fun rev p => assoc2 rev p (cc_types c) GC.Missing)
    (fun _ => true) (fun _ => false)
    (fun rev p => assoc2 rev p (cc_bodies c) 0%N)
    (fun id => assocN id (cc_body_lines c))
    (fun rev p => assoc2 rev p (cc_blames c) [])
    (cc_lines c).

Definition proj_final (f : GC.final) :=
  let c := GC.f_change f in
  (Ascii.N_of_ascii (GC.ch_status c), GC.ch_before c, GC.ch_after c, GC.ch_commits c,
   GC.f_before_type f, GC.f_after_type f, GC.f_body_before f, GC.f_body_after f, GC.f_mod f).

Definition final_eqb (x y : N * string * string * list string * GC.ptype * GC.ptype * N * N * list Z) : bool :=
  let '(s1, b1, a1, c1, bt1, at1, bb1, ab1, m1) := x in
  let '(s2, b2, a2, c2, bt2, at2, bb2, ab2, m2) := y in
  N.eqb s1 s2 && String.eqb b1 b2 && String.eqb a1 a2 && list_eqb String.eqb c1 c2 &&
  GC.ptype_eqb bt1 bt2 && GC.ptype_eqb at1 at2 && N.eqb bb1 bb2 && N.eqb ab1 ab2 && list_eqb Z.eqb m1 m2.

Definition check_changes (c : changes_case) : option string :=
  match model_changes c with
  | None => Some "changes:model-crash"
  | Some fs =>
    let got := map proj_final fs in
    if list_eqb final_eqb got (cc_observed c) then None
    else if list_eqb (fun x y => let '(s1, b1, a1, c1, _, _, _, _, _) := x in let '(s2, b2, a2, c2, _, _, _, _, _) := y in
                                 N.eqb s1 s2 && String.eqb b1 b2 && String.eqb a1 a2 && list_eqb String.eqb c1 c2) got (cc_observed c)
         then Some "changes:types-bodies-or-modified-lines"
         else Some "changes:change-list"
  end.

(** ------------------------------------------------------------------------------------------------
    L3: GitBranchFinder.Find on the parsed bodies of the real change list *)
Definition obs_entry := (string * kind * string * Z * Z * state * list Z)%type.

Record find_case := {
  fc_glob : list entry;
  fc_changes : list change_in;
  fc_observed : list obs_entry
}.

Definition proj_entry (e : entry) : obs_entry :=
  (e_path e, e_kind e, e_name e, e_first e, e_last e, e_state e, e_mod e).

Definition obs_entry_eqb (x y : obs_entry) : bool :=
  let '(p1, k1, n1, f1, l1, s1, m1) := x in let '(p2, k2, n2, f2, l2, s2, m2) := y in
  String.eqb p1 p2 && kind_eqb k1 k2 && String.eqb n1 n2 && Z.eqb f1 f2 && Z.eqb l1 l2 && state_eqb s1 s2 && list_eqb Z.eqb m1 m2.

Definition check_find (c : find_case) : option string :=
  let got := map proj_entry (find (fc_glob c) (fc_changes c)) in
  if list_eqb obs_entry_eqb got (fc_observed c) then None
  else if list_eqb (fun x y => let '(p1, k1, n1, f1, l1, s1, _) := x in let '(p2, k2, n2, f2, l2, s2, _) := y in
                               String.eqb p1 p2 && kind_eqb k1 k2 && String.eqb n1 n2 && Z.eqb f1 f2 && Z.eqb l1 l2 && state_eqb s1 s2)
                    got (fc_observed c)
       then Some "find:modified-lines"
       else Some "find:states"
  .

(** ------------------------------------------------------------------------------------------------
    L4: the whole pipeline on one history: log text + git answers + parser table + glob list -> final entry list
    (Model/GitBranch.classify) vs the real GitBranchFinder.Find *)
Record history_case := {
  hc_changes : changes_case;                               (* the git transcript (cc_observed is not used here) *)
  hc_parse : list (N * string * list entry);               (* (body id, path name) -> readRules *)
  hc_glob : list entry;
  hc_observed : list obs_entry
}.

Fixpoint parse_of (t : list (N * string * list entry)) (id : N) (p : string) : list entry :=
  match t with
  | [] => []
  | (i, q, es) :: r => if (N.eqb i id && String.eqb q p)%bool then es else parse_of r id p
  end.

Definition check_history (h : history_case) : option string :=
  let c := hc_changes h in
  match classify
          (fun rev p => assoc2 rev p (cc_types c) GC.Missing)
          (fun _ => true) (fun _ => false)
          (fun rev p => assoc2 rev p (cc_bodies c) 0%N)
          (fun id => assocN id (cc_body_lines c))
          (fun rev p => assoc2 rev p (cc_blames c) [])
          (parse_of (hc_parse h))
          (hc_glob h) (cc_lines c) with
  | None => Some "history:model-crash"
  | Some final =>
    if list_eqb obs_entry_eqb (map proj_entry final) (hc_observed h) then None else Some "history:final-entries"
  end.

(** ------------------------------------------------------------------------------------------------ *)
Inductive case :=
| MatchCase (id : N) (before after : list entry) (observed : list obs_matched)
| ChangesCase (id : N) (c : changes_case)
| FindCase (id : N) (c : find_case)
| HistoryCase (id : N) (c : history_case).

Definition case_id (c : case) : N :=
  match c with MatchCase id _ _ _ => id | ChangesCase id _ => id | FindCase id _ => id | HistoryCase id _ => id end.

Definition check (c : case) : option string :=
  match c with
  | MatchCase _ before after observed =>
    if list_eqb obs_matched_eqb (map proj_matched (match_entries before after)) observed then None
    else Some "matchEntries"
  | ChangesCase _ c => check_changes c
  | FindCase _ c => check_find c
  | HistoryCase _ c => check_history c
  end.

Fixpoint mismatches (cs : list case) : list (N * string) :=
  match cs with
  | [] => []
  | c :: r => match check c with
              | Some t => (case_id c, t) :: mismatches r
              | None => mismatches r
              end
  end.
