(** Correspondence for C08: the real GetChecksForEntry / SetDisabledChecks / DisableOnlineChecks vs
    Model/CheckSwitch.v, plus consistency of every live check object with the generated tables. *)
From Coq Require Import List String Ascii ZArith NArith Bool.
From PintV Require Import Common.Bytes Gen.Tables Model.Routing08Tables.
From PintV Require Export Model.CheckSwitch.
Import ListNotations.
Open Scope string_scope.
Open Scope list_scope.

Inductive case :=
| Route (id : N) (cfg : config) (e : entry) (has_error : bool) (prs : list prule)
        (observed : list string)                 (* String() of the checks GetChecksForEntry returned, in order *)
| Flags (id : N) (flag_disabled flag_enabled : list string) (offline : bool) (c0 : config)
        (oracle : list (string * list string))   (* per --disabled value: the CheckNames Go's regexp "^"+s+"$" matches *)
        (obs_enabled obs_disabled : list string).

Definition case_id (c : case) : N :=
  match c with Route id _ _ _ _ _ => id | Flags id _ _ _ _ _ _ _ => id end.

Fixpoint list_eqb (a b : list string) : bool :=
  match a, b with
  | [], [] => true
  | x :: a', y :: b' => String.eqb x y && list_eqb a' b'
  | _, _ => false
  end.

Definition subset (a b : list string) : bool := forallb (fun x => mem_str x b) a.

(** the new part of the disabled list is compared up to order (Go iterates a map there) *)
Definition same_upto_order_after (prefix a b : list string) : bool :=
  let n := List.length prefix in
  list_eqb (firstn n a) prefix && list_eqb (firstn n b) prefix &&
  Nat.eqb (List.length a) (List.length b) && subset (skipn n a) (skipn n b) && subset (skipn n b) (skipn n a).

(** a live check object agrees with the translator's tables: some registration site has this name, and the
    check type registered there has this Reporter()/Online/AlwaysEnabled/States *)
Definition table_knows (p : prule) : bool :=
  let ck := pr_check p in
  if ck_always ck then
    existsb (fun t => ct_always t && list_eqb (ct_states t) (ck_states ck)) check_types
  else
    existsb (fun r =>
      String.eqb (rg_name r) (pr_name p) &&
      match type_of_ctor (rg_ctor r) with
      | Some t => String.eqb (ct_reporter t) (ck_reporter ck) && Bool.eqb (ct_online t) (ck_online ck)
                  && negb (ct_always t) && list_eqb (ct_states t) (ck_states ck)
      | None => false
      end) registrations.

Definition lookup_oracle (oracle : list (string * list string)) (s n : string) : bool :=
  match assoc s oracle with Some l => mem_str n l | None => false end.

Definition check (c : case) : list string :=
  match c with
  | Route _ cfg e has_error prs observed =>
      (if list_eqb (map (fun p => ck_string (pr_check p)) (get_checks cfg e prs)) observed then [] else ["enabled-checks"]) ++
      (if wf_prules prs then [] else ["string-shape-or-coherence"]) ++
      (if names_are_reporters prs then [] else ["name-is-not-reporter"]) ++
      (if forallb table_knows prs then [] else ["table-disagrees-with-live-check"]) ++
      (if has_error then (match prs with [p] => if ck_always (pr_check p) then [] else ["error-entry-routing"] | _ => ["error-entry-routing"] end) else [])
  | Flags _ fd fe offline c0 oracle obs_en obs_dis =>
      let c1 := apply_flags (lookup_oracle oracle) check_names online_checks fd fe offline c0 in
      (if list_eqb (c_enabled c1) obs_en then [] else ["flags-enabled"]) ++
      (if same_upto_order_after (c_disabled c0) (c_disabled c1) obs_dis then [] else ["flags-disabled"]) ++
      (* the oracle itself: a --disabled value that is a check name matches exactly that name *)
      (if forallb (fun s => negb (mem_str s check_names) ||
                            match assoc s oracle with Some l => list_eqb l [s] | None => false end) fd
       then [] else ["literal-name-regexp"])
  end.

Fixpoint mismatches (cs : list case) : list (N * string) :=
  match cs with
  | [] => []
  | c :: r => map (fun t => (case_id c, t)) (check c) ++ mismatches r
  end.
