(** Forest-level correspondence (shared by C19, C02, C01): the real parser's File, in strict and relaxed mode,
    vs Model.Parser evaluated on the node forest yaml.v3 actually returned for the same bytes.

    The external oracles (metric/label name validity, ParseDuration, NewPositionRange line extent) are
    instantiated per case: the name/duration oracles from the annotation bits the harness computed by calling
    the real library functions on every scalar of the forest, the position extent by Model.YamlPosLines. *)
From Coq Require Import List String Ascii Arith Bool NArith.
From PintV Require Import Common.Bytes Model.Yaml Model.YamlPosLines Model.Parser Model.YamlShape.
Import ListNotations.
Open Scope string_scope.

(** ---- oracle tables from the forest annotations ---- *)
Fixpoint collect_ann (fuel : nat) (n : node) (acc : list (string * N)) : list (string * N) :=
  match fuel with
  | 0 => acc
  | S fuel' =>
      let acc := if N.eqb (n_ann n) 0 then acc else (n_value n, n_ann n) :: acc in
      let acc := fold_left (fun a c => collect_ann fuel' c a) (n_content n) acc in
      let acc := match n_alias n with Some t => collect_ann fuel' t acc | None => acc end in
      match n_embedded n with Some t => collect_ann fuel' t acc | None => acc end
  end.

(** Documents above the alias-expansion limit are refused before any oracle is asked (and their unfolding, which the
    directed alias-chain cases serialise with sharing, is too large to walk): they contribute nothing to the table. *)
Definition ann_table (ds : list (node * nat)) : list (string * N) :=
  fold_left (fun a d => if too_big (fst d) then a else collect_ann (S (node_size (fst d))) (fst d) a) ds [].

Definition ann_bit (tbl : list (string * N)) (bit : N) (s : string) : bool :=
  match assoc s tbl with
  | Some a => N.testbit a bit
  | None => false
  end.

(** Per-NODE annotation bits computed by the harness from the real yaml.Node (harness/shared_yaml/forest.go):
    bit 10 = Style has LiteralStyle or FoldedStyle; bit 13 = Style has DoubleQuotedStyle (bit 11 belongs to harness/C01); bits 16.. = len(Anchor). *)
Definition node_block (n : node) : bool := N.testbit (n_ann n) 10.
Definition node_dq (n : node) : bool := N.testbit (n_ann n) 13.
Definition node_anchor_len (n : node) : nat := N.to_nat (N.shiftr (n_ann n) 16).

Definition plines_run (lines : list string) (n : node) (min_col : nat) : nat * nat :=
  match pos_lines lines (n_value n) (n_line n) (n_col n) min_col (node_block n) (node_anchor_len n) (node_dq n) with
  | Some r => r
  | None => (0, 0)
  end.

(** yaml.Node.Decode into a Go int succeeds (group limit, fix a6b0afc): per-NODE answer bit 6, computed by the
    harness with the real Decode on every scalar node (harness/shared_yaml/forest.go). *)
Definition int_ok_run (n : node) : bool := N.testbit (n_ann n) 6.

(** yaml.Node.Decode into `any` succeeds and yields nil (nullTagWithText, fix b9483ac): per-NODE answer bit 12. *)
Definition null_ok_run (n : node) : bool := N.testbit (n_ann n) 12.

Definition run_strict (thanos : bool) (lines : list string) (ds : list (node * nat)) (yerr : option nat) : file :=
  let tbl := ann_table ds in
  parse_strict plines_run (ann_bit tbl 0) (ann_bit tbl 1) (ann_bit tbl 2) (ann_bit tbl 3) int_ok_run null_ok_run
               thanos lines ds (option_map (fun l => Build_perror l "") yerr).

Definition run_relaxed (lines : list string) (ds : list (node * nat)) (yerr : option nat) : option file :=
  let tbl := ann_table ds in
  parse_relaxed plines_run (ann_bit tbl 0) (ann_bit tbl 1) (ann_bit tbl 2)
                lines ds (option_map (fun l => Build_perror l "") yerr).

(** ---- comparison (error message texts ignored) ---- *)
Definition ynode_eqb (a b : ynode) : bool :=
  (String.eqb (y_value a) (y_value b) && Nat.eqb (y_first a) (y_first b) && Nat.eqb (y_last a) (y_last b))%bool.

Definition opt_eqb {A} (eq : A -> A -> bool) (a b : option A) : bool :=
  match a, b with
  | Some x, Some y => eq x y
  | None, None => true
  | _, _ => false
  end.

Fixpoint list_eqb {A} (eq : A -> A -> bool) (a b : list A) : bool :=
  match a, b with
  | [], [] => true
  | x :: a', y :: b' => (eq x y && list_eqb eq a' b')%bool
  | _, _ => false
  end.

Definition ymap_eqb (a b : ymap) : bool :=
  (ynode_eqb (ym_key a) (ym_key b) &&
   list_eqb (fun x y => (ynode_eqb (fst x) (fst y) && ynode_eqb (snd x) (snd y))%bool) (ym_items a) (ym_items b))%bool.

Definition perr_eqb (a b : perror) : bool := Nat.eqb (pe_line a) (pe_line b).

Definition body_eqb (a b : rule_body) : bool :=
  match a, b with
  | Alerting a1 e1 f1 k1 l1 n1, Alerting a2 e2 f2 k2 l2 n2 =>
      (ynode_eqb a1 a2 && ynode_eqb e1 e2 && opt_eqb ynode_eqb f1 f2 && opt_eqb ynode_eqb k1 k2 &&
       opt_eqb ymap_eqb l1 l2 && opt_eqb ymap_eqb n1 n2)%bool
  | Recording r1 e1 l1, Recording r2 e2 l2 => (ynode_eqb r1 r2 && ynode_eqb e1 e2 && opt_eqb ymap_eqb l1 l2)%bool
  | NoBody, NoBody => true
  | _, _ => false
  end.

Definition rule_eqb (a b : rule) : bool :=
  (body_eqb (r_body a) (r_body b) && opt_eqb perr_eqb (r_error a) (r_error b) &&
   Nat.eqb (r_first a) (r_first b) && Nat.eqb (r_last a) (r_last b))%bool.

Definition group_eqb (a b : group) : bool :=
  (String.eqb (g_name a) (g_name b) && opt_eqb ymap_eqb (g_labels a) (g_labels b) &&
   opt_eqb perr_eqb (g_error a) (g_error b) && list_eqb rule_eqb (g_rules a) (g_rules b))%bool.

(** First differing projection, as a short tag. *)
Definition file_diff (model obs : file) : option string :=
  if negb (opt_eqb perr_eqb (f_error model) (f_error obs)) then Some "file-error"
  else if negb (Nat.eqb (List.length (f_groups model)) (List.length (f_groups obs))) then Some "group-count"
  else if negb (list_eqb (fun a b => String.eqb (g_name a) (g_name b)) (f_groups model) (f_groups obs)) then Some "group-name"
  else if negb (list_eqb (fun a b => opt_eqb perr_eqb (g_error a) (g_error b)) (f_groups model) (f_groups obs)) then Some "group-error"
  else if negb (list_eqb (fun a b => opt_eqb ymap_eqb (g_labels a) (g_labels b)) (f_groups model) (f_groups obs)) then Some "group-labels"
  else if negb (list_eqb (fun a b => Nat.eqb (List.length (g_rules a)) (List.length (g_rules b))) (f_groups model) (f_groups obs)) then Some "rule-count"
  else if negb (list_eqb (fun a b => list_eqb (fun x y => opt_eqb perr_eqb (r_error x) (r_error y)) (g_rules a) (g_rules b))
                         (f_groups model) (f_groups obs)) then Some "rule-error"
  else if negb (list_eqb (fun a b => list_eqb (fun x y => (Nat.eqb (r_first x) (r_first y) && Nat.eqb (r_last x) (r_last y))%bool)
                                              (g_rules a) (g_rules b))
                         (f_groups model) (f_groups obs)) then Some "rule-lines"
  else if negb (list_eqb group_eqb (f_groups model) (f_groups obs)) then Some "rule-body"
  else None.

Record case := {
  c_id : N;
  c_thanos : bool;
  c_lines : list string;               (* cr.lines: source lines after the masking reader *)
  c_docs : list (node * nat);          (* documents yaml.v3 returned, each with len(cr.lines) at that moment *)
  c_yerr : option nat;                 (* line of the decoded yaml error that ended the stream, if any *)
  c_strict : option file;              (* observed Parser.Parse, strict mode (None = not observed) *)
  c_relaxed : option file              (* observed Parser.Parse, relaxed mode *)
}.

(** The structural premises of C19_relaxed_eq_strict (Properties/C19.v), checked on the forest yaml.v3 actually
    returned: [shape_doc] through [shaped_b] (sound: Proofs/C19_shape.v) and the oracle fact [null_oracle_ok] on every
    node of the forest.  Refused documents (too big to walk) are skipped. *)
Definition hyp_shape (c : case) : bool :=
  forallb (fun d => if too_big (fst d) then true
                    else (shaped_b (fst d) && null_oracle_all_b null_ok_run (fst d))%bool) (c_docs c).

Definition check (c : case) : list string :=
  (if hyp_shape c then [] else ["hypothesis-shape"]) ++
  (match c_strict c with
   | Some obs => match file_diff (run_strict (c_thanos c) (c_lines c) (c_docs c) (c_yerr c)) obs with
                 | Some t => ["strict:" ++ t]
                 | None => []
                 end
   | None => []
   end) ++
  (match c_relaxed c with
   | Some obs => match run_relaxed (c_lines c) (c_docs c) (c_yerr c) with
                 | Some m => match file_diff m obs with
                             | Some t => ["relaxed:" ++ t]
                             | None => []
                             end
                 | None => ["relaxed:out-of-fuel"]
                 end
   | None => []
   end).

Fixpoint mismatches (cs : list case) : list (N * string) :=
  match cs with
  | [] => []
  | c :: r => match check c with
              | t :: _ => (c_id c, t) :: mismatches r
              | [] => mismatches r
              end
  end.
