(** Correspondence for C15: the real client (config.newFailoverGroup + promapi + net/http against
    in-process fake upstreams) vs [Model.Failover] on the same fault assignment. *)
From Coq Require Import List String ZArith NArith Bool.
From PintV Require Import Common.Bytes Gen.Tables Gen.C15.
From PintV Require Export Model.Failover.
Import ListNotations.
Open Scope string_scope.

(** A second identical call on the same group: the client state (cache, unsupported flags) left by the first. *)
Record second := mk_second {
  s_ok : bool; s_answer_idx : Z; s_marker : string; s_err_idx : Z; s_err_kind : string; s_client : list Z
}.

Record case := {
  c_id : N;
  c_ep : endpoint;
  c_required : bool;
  c_ups : list upstream;
  c_resps2 : list response;      (* what the upstreams send during the second call ([] = unchanged) *)
  c_ep2 : endpoint;              (* the API the second call asks (a different API starts from a fresh client state) *)
  c_check_run : bool;            (* run B was performed *)
  (* run A: one FailoverGroup call on a fresh group *)
  o_ok : bool;
  o_answer_idx : Z;              (* upstream whose URI the result names, -1 = none *)
  o_marker : string;             (* marker found in the returned answer *)
  o_err_idx : Z;                 (* upstream named by FailoverGroupError.URI(), -1 = none *)
  o_err_kind : string;
  o_unavailable : bool;          (* promapi.IsUnavailableError on the returned error *)
  o_strict : bool;
  o_client : list Z;             (* RoundTrip calls per upstream *)
  o_server : list Z;             (* requests seen by each fake upstream, -1 = not observable *)
  (* run B: the online check *)
  o_problems : list string;      (* "<summary>|<severity>", sorted *)
  o_client_check : list Z;
  o_second : option second
}.

Definition zs (l : list nat) : list Z := map Z.of_nat l.

Fixpoint list_eqb {A} (eqb : A -> A -> bool) (a b : list A) : bool :=
  match a, b with
  | [], [] => true
  | x :: a', y :: b' => eqb x y && list_eqb eqb a' b'
  | _, _ => false
  end.

(** server-side counts agree wherever they are observable *)
Fixpoint server_ok (model : list Z) (obs : list Z) : bool :=
  match model, obs with
  | [], [] => true
  | m :: ms, o :: os => ((o <? 0)%Z || Z.eqb m o) && server_ok ms os
  | _, _ => false
  end.

(** run B: no upstream after the one that ended the loop is contacted *)
Fixpoint later_untouched (stop : nat) (i : nat) (obs : list Z) : bool :=
  match obs with
  | [] => true
  | o :: r => (Nat.leb i stop || Z.eqb o 0) && later_untouched stop (S i) r
  end.

Definition unable_of (problems : list string) : list string :=
  let pre := problem_from_error_summary ++ "|" in
  flat_map (fun p => if String.prefix pre p then [substring (String.length pre) (String.length p - String.length pre) p] else []) problems.

Definition ep_eqb (a b : endpoint) : bool :=
  match a, b with
  | EQuery, EQuery | ERange, ERange | EConfig, EConfig | EFlags, EFlags | EMetadata, EMetadata => true
  | _, _ => false
  end.

Definition check_second (c : case) : option string :=
  match o_second c with
  | None => None
  | Some o =>
      let r1 := failover (c_ep c) (c_ups c) in
      (* cache entries and "unsupported API" flags are per API: another API sees the upstreams as a fresh client does *)
      let st := if ep_eqb (c_ep c) (c_ep2 c) then fo_state r1 else c_ups c in
      let r := failover (c_ep2 c) (set_resps st (c_resps2 c)) in
      if negb (list_eqb Z.eqb (zs (fo_contacts r)) (s_client o)) then Some "second-call-contact-counts"
      else
        match fo_outcome r with
        | ONoServers => Some "no-servers"
        | OAnswer i m =>
            if negb (s_ok o) then Some "second-call-model-answers-impl-fails"
            else if negb (Z.eqb (Z.of_nat i) (s_answer_idx o)) then Some "second-call-answering-upstream"
            else if negb (String.eqb m (s_marker o)) then Some "second-call-answer-changed"
            else None
        | OError i e =>
            if s_ok o then Some "second-call-model-fails-impl-answers"
            else if negb (Z.eqb (Z.of_nat i) (s_err_idx o)) then Some "second-call-error-upstream"
            else if negb (String.eqb (err_kind e) (s_err_kind o)) then Some "second-call-error-kind"
            else None
        end
  end.

Definition check_first (c : case) : option string :=
  let r := failover (c_ep c) (c_ups c) in
  let cnt := zs (fo_contacts r) in
  if negb (list_eqb Z.eqb cnt (o_client c)) then Some "client-contact-counts"
  else if negb (server_ok cnt (o_server c)) then Some "server-request-counts"
  else
    match fo_outcome r with
    | ONoServers => Some "no-servers"
    | OAnswer i m =>
        if negb (o_ok c) then Some "model-answers-impl-fails"
        else if negb (Z.eqb (Z.of_nat i) (o_answer_idx c)) then Some "answering-upstream"
        else if negb (String.eqb m (o_marker c)) then Some "answer-changed"
        else if negb (c_check_run c) then None
        else if negb (list_eqb String.eqb (unable_of (o_problems c)) []) then Some "problem-although-answered"
        else if negb (later_untouched i 0 (o_client_check c)) then Some "check-contacts-later-upstream"
        else None
    | OError i e =>
        if o_ok c then Some "model-fails-impl-answers"
        else if negb (Z.eqb (Z.of_nat i) (o_err_idx c)) then Some "error-upstream"
        else if negb (String.eqb (err_kind e) (o_err_kind c)) then Some "error-kind"
        else if negb (Bool.eqb (is_unavailable e) (o_unavailable c)) then Some "unavailable-flag"
        else if negb (Bool.eqb (c_required c) (o_strict c)) then Some "strict-flag"
        else if negb (c_check_run c) then None
        else if negb (list_eqb String.eqb (unable_of (o_problems c)) (check_unable (c_ep c) (c_required c) (fo_outcome r))) then Some "problem-severity"
        else if negb (later_untouched i 0 (o_client_check c)) then Some "check-contacts-later-upstream"
        else None
    end.

Definition check (c : case) : option string :=
  match check_first c with Some t => Some t | None => check_second c end.

Fixpoint mismatches (cs : list case) : list (N * string) :=
  match cs with
  | [] => []
  | c :: r => match check c with
              | Some t => (c_id c, t) :: mismatches r
              | None => mismatches r
              end
  end.
