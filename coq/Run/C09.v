(** Correspondence for C09: the real isMatch / defaultRuleMatch / Entry.Labels / parseDurationMatch /
    matchRegex vs Model/Match.v.  The regexp and duration libraries enter as finite oracle tables computed by
    the harness with Go's regexp ("^(?:" + p + ")$", independently of pint's matchRegex) and model.ParseDuration. *)
From Coq Require Import List String Ascii ZArith NArith Bool.
From PintV Require Import Common.Bytes Gen.Tables.
From PintV Require Export Model.Match.
Import ListNotations.
Open Scope string_scope.
Open Scope list_scope.

Definition re_table := list (string * list (string * bool)).     (* pattern -> subject -> whole-string match *)
Definition dur_table := list (string * option Z).

Inductive case :=
| Blk (id : N) (cmd : string) (e : mentry) (ignore mtch : list mblock) (defaulted : bool)
      (re : re_table) (dur : dur_table) (observed : bool)
| Dur (id : N) (expr : string) (value : Z) (dur : dur_table) (obs_ok obs_res : bool)
| Lab (id : N) (e : mentry) (obs_labels : ymap) (obs_group_after : option ymap)
| Anch (id : N) (pattern subject : string) (whole_match : bool) (obs_match_regex : bool)
| PRule (id : N) (cmd : string) (ignore mtch : list mblock)          (* the match/ignore blocks of a rule{} block as decoded *)
        (obs_ignore obs_match : list mblock).                         (* ... and as stored in a parsedRule built by parseRule/newParsedRule *)

Definition case_id (c : case) : N :=
  match c with Blk id _ _ _ _ _ _ _ _ => id | Dur id _ _ _ _ _ => id | Lab id _ _ _ => id | Anch id _ _ _ _ => id | PRule id _ _ _ _ _ => id end.

(** table lookups; [dflt] is the answer for a pair the harness forgot — the model is evaluated with both
    defaults and a difference is reported as an incomplete oracle *)
Definition re_lookup (t : re_table) (dflt : bool) (p s : string) : bool :=
  match assoc p t with
  | Some row => match assoc s row with Some b => b | None => dflt end
  | None => dflt
  end.

Definition dur_lookup (t : dur_table) (s : string) : option Z :=
  match assoc s t with Some r => r | None => None end.

Definition dur_known (t : dur_table) (s : string) : bool :=
  match assoc s t with Some _ => true | None => false end.

Fixpoint ymap_eqb (a b : ymap) : bool :=
  match a, b with
  | [], [] => true
  | (k, v) :: a', (k', v') :: b' => String.eqb k k' && String.eqb v v' && ymap_eqb a' b'
  | _, _ => false
  end.

Definition opt_str_eqb (a b : option string) : bool :=
  match a, b with Some x, Some y => String.eqb x y | None, None => true | _, _ => false end.
Definition opt_kv_eqb (a b : option kv_match) : bool :=
  match a, b with
  | Some x, Some y => String.eqb (km_key x) (km_key y) && String.eqb (km_value x) (km_value y)
  | None, None => true
  | _, _ => false
  end.
Fixpoint strs_eqb (a b : list string) : bool :=
  match a, b with [], [] => true | x :: a', y :: b' => String.eqb x y && strs_eqb a' b' | _, _ => false end.
Definition mblock_eqb (a b : mblock) : bool :=
  opt_kv_eqb (m_label a) (m_label b) && opt_kv_eqb (m_annotation a) (m_annotation b) && opt_str_eqb (m_command a) (m_command b) &&
  String.eqb (m_path a) (m_path b) && String.eqb (m_name a) (m_name b) && String.eqb (m_kind a) (m_kind b) &&
  String.eqb (m_for a) (m_for b) && String.eqb (m_keep a) (m_keep b) && strs_eqb (m_state a) (m_state b).
Fixpoint mblocks_eqb (a b : list mblock) : bool :=
  match a, b with [] , [] => true | x :: a', y :: b' => mblock_eqb x y && mblocks_eqb a' b' | _, _ => false end.

Definition run_blk (dflt : bool) cmd e ignore mtch (defaulted : bool) re dur : bool :=
  if defaulted then rule_block_applies (re_lookup re dflt) (dur_lookup dur) cmd e ignore mtch
  else is_match (re_lookup re dflt) (dur_lookup dur) cmd e ignore mtch.

Definition durations_of (e : mentry) (bl : list mblock) : list string :=
  (match me_for e with Some v => [v] | None => [] end) ++ (match me_keep e with Some v => [v] | None => [] end).

Definition check (c : case) : list string :=
  match c with
  | Blk _ cmd e ignore mtch defaulted re dur observed =>
      let m0 := run_blk false cmd e ignore mtch defaulted re dur in
      let m1 := run_blk true cmd e ignore mtch defaulted re dur in
      (if Bool.eqb m0 m1 then [] else ["oracle-table-incomplete"]) ++
      (if forallb (dur_known dur) (durations_of e (ignore ++ mtch)) then [] else ["duration-table-incomplete"]) ++
      (if Bool.eqb m0 observed then [] else ["is-match"]) ++
      (* the documented meaning, evaluated too (theorem C09_is_match_eq_doc says it cannot differ) *)
      (let d := if defaulted then doc_applies (re_lookup re false) (dur_lookup dur) cmd e ignore mtch
                else doc_selects (re_lookup re false) (dur_lookup dur) cmd e ignore mtch in
       if Bool.eqb d m0 then [] else ["model-vs-doc"])
  | Dur _ expr value dur obs_ok obs_res =>
      match parse_duration_match (dur_lookup dur) expr with
      | None => if obs_ok then ["duration-match-accepted"] else []
      | Some dm => if negb obs_ok then ["duration-match-rejected"]
                   else if Bool.eqb (duration_is_match dm value) obs_res then [] else ["duration-compare"]
      end ++
      (* dropping the error leaves exactly the parsed value when there is no error *)
      match parse_duration_match (dur_lookup dur) expr with
      | Some dm => if (match fst dm, fst (duration_match_dropping_error (dur_lookup dur) expr) with
                       | OpLess, OpLess | OpLessEqual, OpLessEqual | OpEqual, OpEqual | OpNotEqual, OpNotEqual
                       | OpMoreEqual, OpMoreEqual | OpMore, OpMore => true | _, _ => false end)
                      && Z.eqb (snd dm) (snd (duration_match_dropping_error (dur_lookup dur) expr))
                   then [] else ["dropping-error"]
      | None => []
      end
  | Lab _ e obs_labels obs_after =>
      (if ymap_eqb (entry_labels e) obs_labels then [] else ["entry-labels"]) ++
      match me_group_labels e, obs_after with
      | Some g, Some a =>
          let expect := match me_kind e, me_labels e with
                        | Alerting, Some l | Recording, Some l => group_after g l
                        | _, _ => g
                        end in
          if ymap_eqb expect a then [] else ["group-side-effect"]
      | None, None => []
      | _, _ => ["group-presence"]
      end
  | Anch _ p s whole obs => if Bool.eqb whole obs then [] else ["anchoring"]
  | PRule _ cmd ignore mtch oi om =>
      (* newParsedRule: ignore blocks are taken as they are, match blocks go through defaultRuleMatch *)
      (if mblocks_eqb oi ignore then [] else ["parsed-rule-ignore"]) ++
      (if mblocks_eqb om (default_rule_match mtch (default_match_states cmd)) then [] else ["parsed-rule-match"])
  end.

Fixpoint mismatches (cs : list case) : list (N * string) :=
  match cs with
  | [] => []
  | c :: r => map (fun t => (case_id c, t)) (check c) ++ mismatches r
  end.
