(** Correspondence for C07:
    - [KParse]: real [comments.Parse(lineno, text)] vs [Model.Comments.parse] (byte level: types, offsets, values,
      error kinds and positions);
    - [KDisabled]/[KIsEnabled]/[KSelect]: real [isDisabledForRule] / [isEnabled] / the [GetChecksForEntry] selection
      loop around [parsedRule.isEnabled] (overlay export in internal/config) vs [Model.Enable];
    - [KAttach]: real [parseRule] rule.Comments (overlay export, node snapshot taken before the call) vs
      [Model.Attach.rule_comments];
    - [KFile]: real [discovery.readRules] DisabledChecks of the entries of a file vs
      [file_disabled now (r_comments (reader_impl tp content))] (reader model of C10 + readRules fold). *)
From Coq Require Import List String ZArith NArith Bool.
From PintV Require Export Common.Bytes Model.CommentsUnicode Model.Comments Model.Reader Model.Enable Model.Attach Run.C10.
Import ListNotations.
Open Scope string_scope.
Open Scope list_scope.

Inductive case :=
| KParse (id : N) (lineno : N) (text : string) (times : list (string * Z)) (obs : list ocomment)
| KDisabled (id : N) (now : Z) (cs : list comment) (name cstr : string) (tags : list string) (obs : bool)
| KIsEnabled (id : N) (now : Z) (en dis : list string) (cs : list comment) (name : string) (ck : Enable.check)
             (tags : list string) (locked : bool) (obs : bool)
| KSelect (id : N) (now : Z) (en dis : list string) (e : entry) (cfg : list cfgrule) (prs : list prule)
          (obs : list N)                    (* indexes of the selected parsed rules *)
| KFile (id : N) (now : Z) (content : string) (times : list (string * Z)) (obs : list (list string))
| KAttach (id : N) (node : ynode) (times : list (string * Z)) (obs : list ocomment).

Definition case_id (c : case) : N :=
  match c with
  | KParse i _ _ _ _ | KDisabled i _ _ _ _ _ _ | KIsEnabled i _ _ _ _ _ _ _ _ _ | KSelect i _ _ _ _ _ _ _
  | KFile i _ _ _ _ | KAttach i _ _ _ => i
  end.

(** selection with indexes *)
Fixpoint select_idx (now : Z) (en dis : list string) (e : entry) (cfg : list cfgrule) (prs : list prule) (i : N)
                    (sofar : list string) : list N :=
  match prs with
  | [] => []
  | pr :: t =>
    if pr_match pr && parsed_rule_is_enabled now en dis sofar e cfg pr
    then i :: select_idx now en dis e cfg t (i + 1)%N (sofar ++ [ck_string (pr_check pr)])
    else select_idx now en dis e cfg t (i + 1)%N sofar
  end.

(** [select_idx] agrees with [Model.Enable.select] on the selected rules (checked on every case as well) *)
Fixpoint nth_all (prs : list prule) (idx : list N) : list prule :=
  match idx with
  | [] => []
  | i :: r => match nth_error prs (N.to_nat i) with Some p => p :: nth_all prs r | None => nth_all prs r end
  end.

Definition prule_eqb (a b : prule) : bool :=
  String.eqb (pr_name a) (pr_name b) && String.eqb (ck_string (pr_check a)) (ck_string (pr_check b)) &&
  Bool.eqb (pr_locked a) (pr_locked b) && list_eqb String.eqb (pr_tags a) (pr_tags b).

Definition check (c : case) : list string :=
  match c with
  | KParse _ lineno text times obs =>
      let tp := fun s => assoc s times in
      if list_eqb ocomment_eqb (map proj_comment (parse tp (N.to_nat lineno) text)) obs then [] else ["parse"]
  | KDisabled _ now cs name cstr tags obs =>
      if Bool.eqb (is_disabled_for_rule now cs name cstr tags) obs then [] else ["isDisabledForRule"]
  | KIsEnabled _ now en dis cs name ck tags locked obs =>
      if Bool.eqb (is_enabled now en dis cs name ck tags locked) obs then [] else ["isEnabled"]
  | KSelect _ now en dis e cfg prs obs =>
      let m := select_idx now en dis e cfg prs 0 [] in
      (if list_eqb N.eqb m obs then [] else ["select"]) ++
      (if list_eqb prule_eqb (get_checks now en dis e cfg prs) (nth_all prs m) then [] else ["select-model-internal"])
  | KFile _ now content times obs =>
      let tp := fun s => assoc s times in
      let d := file_disabled now (r_comments (reader_impl tp content)) in
      if forallb (fun o => list_eqb String.eqb d o) obs then [] else ["file-disabled"]
  | KAttach _ node times obs =>
      let tp := fun s => assoc s times in
      if list_eqb ocomment_eqb (map proj_comment (rule_comments tp node)) obs then [] else ["attach"]
  end.

Fixpoint mismatches (cs : list case) : list (N * string) :=
  match cs with
  | [] => []
  | c :: r => match check c with
              | [] => mismatches r
              | tags => (case_id c, String.concat "," tags) :: mismatches r
              end
  end.
