(** Correspondence for C14: sequential traces of the three components (queryCache with injected clock,
    partitionLocker under a deterministic scheduler, processJob with scripted queriers) vs the models. *)
From Coq Require Import List String ZArith NArith Bool Arith.
From PintV Require Import Common.Bytes.
From PintV Require Export Model.KeyLock Model.KeyLockCache Model.KeyLockKeys Model.KeyLockTimed.
Import ListNotations.
Open Scope string_scope.

(** ---- queryCache *)
Inductive cop := CGet (now : Z) (k : N) | CSet (now : Z) (k : N) (v ttl : Z) | CGc (now : Z).

Record cobs := mk_cobs { co_got : option Z; co_keys : list N; co_evictions : Z; co_hits : Z; co_misses : Z }.

Fixpoint insertN (x : N) (l : list N) : list N :=
  match l with [] => [x] | y :: r => if N.leb x y then x :: l else y :: insertN x r end.
Definition sortN (l : list N) : list N := fold_right insertN [] l.

Fixpoint list_eqb {A} (eqb : A -> A -> bool) (a b : list A) : bool :=
  match a, b with
  | [], [] => true
  | x :: a', y :: b' => eqb x y && list_eqb eqb a' b'
  | _, _ => false
  end.

Definition optZ_eqb (a b : option Z) : bool :=
  match a, b with Some x, Some y => Z.eqb x y | None, None => true | _, _ => false end.

Definition cobs_ok (got : option Z) (st : cstate) (o : cobs) : bool :=
  optZ_eqb got (co_got o) && list_eqb N.eqb (sortN (map fst (cs_entries st))) (co_keys o) &&
  Z.eqb (cs_evictions st) (co_evictions o) && Z.eqb (cs_hits st) (co_hits o) && Z.eqb (cs_misses st) (co_misses o).

Fixpoint cache_trace (max_stale : Z) (st : cstate) (l : list (cop * cobs)) (i : nat) : option string :=
  match l with
  | [] => None
  | (op, o) :: r =>
      let '(got, st') :=
        match op with
        | CGet now k => cache_get now k st
        | CSet now k v ttl => (None, cache_set now k v ttl st)
        | CGc now => (None, cache_gc max_stale now st)
        end in
      if cobs_ok got st' o then cache_trace max_stale st' r (S i) else Some "cache-op"
  end.

(** ---- partitionLocker under the deterministic scheduler *)
Inductive levent := LAcq (g : nat) | LRel (g : nat) | LSnap (held_keys : list nat).

Fixpoint insert_nat (x : nat) (l : list nat) : list nat :=
  match l with [] => [x] | y :: r => if Nat.leb x y then x :: l else y :: insert_nat x r end.
Definition sort_nat (l : list nat) : list nat := fold_right insert_nat [] l.

Fixpoint lock_trace (cf : config) (s : state) (l : list levent) : option string :=
  match l with
  | [] => None
  | LAcq g :: r => match step cf s (ALock g) with Some s' => lock_trace cf s' r | None => Some "acquired-while-held" end
  | LRel g :: r => match step cf s (AUnlock g) with Some s' => lock_trace cf s' r | None => Some "release-not-held" end
  | LSnap ks :: r => if list_eqb Nat.eqb (sort_nat (held s)) ks then lock_trace cf s r else Some "held-set"
  end.

(** ---- processJob *)
Inductive jop := JRun (now : Z) (k : N) (a : api) (ttl v : Z) (o : outcome) | JGc (now : Z).

Record jobs := mk_jobs { jo_got : Z; jo_err : string; jo_ran : bool; jo_keys : list N }.

Fixpoint job_trace (max_stale : Z) (st : pstate) (l : list (jop * jobs)) : option string :=
  match l with
  | [] => None
  | (JGc now, o) :: r =>
      let st' := mk_pstate (cache_gc max_stale now (ps_cache st)) (ps_disabled st) in
      if list_eqb N.eqb (sortN (map fst (cs_entries (ps_cache st')))) (jo_keys o) then job_trace max_stale st' r
      else Some "job-gc-keys"
  | (JRun now k a ttl v oc, o) :: r =>
      let '(got, err, ran, st') := process_job now k a ttl v oc st in
      if negb (String.eqb err (jo_err o)) then Some "job-error-class"
      else if negb (Bool.eqb ran (jo_ran o)) then Some "job-ran"
      else if negb (Z.eqb got (jo_got o)) then Some "job-value"
      else if negb (list_eqb N.eqb (sortN (map fst (cs_entries (ps_cache st')))) (jo_keys o)) then Some "job-cache-keys"
      else job_trace max_stale st' r
  end.

(** ---- the composed pipeline, one call at a time: lock, enqueue, take, cache check, (request), reply, unlock - on the
    TIMED system: between calls the injected clock advances and queryCache.gc() runs; TTLs are the CacheTTL() values of
    the real query types (exported by the harness), so expiry and staleness decide which later call is a hit *)
Record pcall := mk_pcall { pc_q : nat; pc_fail : bool; pc_asked : bool; pc_ok : bool; pc_value : nat }.

Inductive pop :=
| PCall (p : pcall)
| PTick (d : Z)                          (* the clock advances by d ns *)
| PGc (entries_after : nat).             (* queryCache.gc(); observed number of entries afterwards *)

(** caller [c] of the trace asks question [nth c qs]: lock key = cache key = question id, one job *)
Definition pipe_config (qs : list nat) (pool : nat) : config :=
  mk_config (fun c => nth c qs 0%nat) (fun c => [nth c qs 0%nat]) pool.

Definition pcalls (l : list pop) : list pcall := flat_map (fun o => match o with PCall p => [p] | _ => [] end) l.

Definition tdo (tc : tconfig) (s : option tstate) (a : taction) : option tstate :=
  match s with Some s => tstep tc s a | None => None end.

Fixpoint pipe_trace (tc : tconfig) (s : tstate) (c : nat) (l : list pop) : option string :=
  match l with
  | [] => None
  | PTick d :: r => match tstep tc s (TTick d) with Some s' => pipe_trace tc s' c r | None => Some "pipeline-clock" end
  | PGc n :: r =>
      match tstep tc s TGc with
      | Some s' => if Nat.eqb (List.length (cs_entries (t_c s'))) n && Nat.eqb (List.length (cache (t_s s'))) n
                   then pipe_trace tc s' c r else Some "pipeline-gc-entries"
      | None => Some "pipeline-gc"
      end
  | PCall p :: r =>
      match tdo tc (tdo tc (tdo tc (Some s) (TLock c)) (TEnq c)) (TTake 0) with
      | None => Some "pipeline-stuck-before-check"
      | Some s1 =>
          match tstep tc s1 (TCheck 0) with
          | None => Some "pipeline-check"
          | Some s2 =>
              let missed := match wst (t_s s2) 0%nat with WRunning _ => true | _ => false end in
              if negb (Bool.eqb missed (pc_asked p)) then Some "pipeline-request-sent"
              else
                let s3 := if missed then tstep tc s2 (TEnd 0 (if pc_fail p then RErr else ROk (pc_value p))) else Some s2 in
                match s3 with
                | None => Some "pipeline-end"
                | Some s3 =>
                    let res := match wst (t_s s3) 0%nat with WReply _ res => Some res | _ => None end in
                    match res, tdo tc (tdo tc (Some s3) (TReply 0)) (TUnlock c) with
                    | Some (ROk v), Some s4 =>
                        if pc_ok p && Nat.eqb v (pc_value p) then pipe_trace tc s4 (S c) r else Some "pipeline-result"
                    | Some RErr, Some s4 => if pc_ok p then Some "pipeline-error-expected" else pipe_trace tc s4 (S c) r
                    | _, _ => Some "pipeline-stuck-after-check"
                    end
                end
          end
      end
  end.

(** ---- key table: the lock key the real client holds while it serves a question.  Only the partition matters
    (two questions hold the same key in the model iff they do in the implementation), so that a harmless change of
    the key's spelling is not reported. *)
Fixpoint key_row_vs (lk : question -> string) (q : question) (observed : string) (l : list (question * string)) : bool :=
  match l with
  | [] => true
  | (q', o') :: r => Bool.eqb (String.eqb (lk q) (lk q')) (String.eqb observed o') && key_row_vs lk q observed r
  end.

Fixpoint key_rows_with (lk : question -> string) (l : list (question * string)) : bool :=
  match l with
  | [] => true
  | (q, observed) :: r => key_row_vs lk q observed r && key_rows_with lk r
  end.

(** [lock_key] interprets the key table regenerated from the source: same partition of the sample questions as the
    keys the real client was seen holding, and the very same strings. *)
Definition key_rows (l : list (question * string)) : option string :=
  if negb (key_rows_with lock_key l) then Some "lock-key-partition"
  else if negb (forallb (fun qo : question * string => String.eqb (lock_key (fst qo)) (snd qo)) l) then Some "lock-key-string"
  else None.

Inductive case :=
| KeyCase (id : N) (rows : list (question * string))
| PipeCase (id : N) (pool : nat) (max_stale : Z) (ttls : list Z) (ops : list pop)
| CacheCase (id : N) (max_stale : Z) (ops : list (cop * cobs))
| LockCase (id : N) (keys : list nat) (events : list levent)
| JobCase (id : N) (max_stale : Z) (ops : list (jop * jobs)).

Definition case_id (c : case) : N :=
  match c with KeyCase i _ | PipeCase i _ _ _ _ | CacheCase i _ _ | LockCase i _ _ | JobCase i _ _ => i end.

Definition check (c : case) : option string :=
  match c with
  | KeyCase _ rows => key_rows rows
  | PipeCase _ pool ms ttls ops =>
      pipe_trace (mk_tconfig (pipe_config (map pc_q (pcalls ops)) pool) (fun ck => nth ck ttls 0%Z) ms) tinit 0 ops
  | CacheCase _ ms ops => cache_trace ms cache_empty ops 0
  | LockCase _ keys evs => lock_trace (mk_config (fun g => nth g keys 0%nat) (fun _ => []) 0) init evs
  | JobCase _ ms ops => job_trace ms (mk_pstate cache_empty []) ops
  end.

Fixpoint mismatches (cs : list case) : list (N * string) :=
  match cs with
  | [] => []
  | c :: r => match check c with
              | Some t => (case_id c, t) :: mismatches r
              | None => mismatches r
              end
  end.
