(** Correspondence for C11: the real Summary (Report, SortReports, Dedup, CountBySeverity), JSONReporter and
    ConsoleReporter header lines vs [Model.SummarySort] on recorded streams and their permutations; plus the
    monitored hypotheses H1/H2 (evaluated here on every stream, compared with the harness' evaluation that
    uses the real isEqual) and the sort specification for lists longer than 20. *)
From Coq Require Import List String ZArith NArith Bool.
From PintV Require Import Common.Bytes Common.Sorting Gen.Tables Model.Severity.
From PintV Require Export Model.SummarySort.
Import ListNotations.
Local Open Scope string_scope.

(** one element of Summary.Reports() after SortReports+Dedup *)
Record obs_entry := {
  o_idx : nat;            (* which stream element it is (traced through ModifiedLines) *)
  o_dup : bool;           (* IsDuplicate *)
  o_dups : list nat;      (* positions (in this output list) of the reports held in Duplicates *)
  o_diags : list N        (* dg_extra of its diagnostics, in order *)
}.

Record arrangement := {
  a_perm : list nat;                                   (* arrival order: indices into the stream *)
  a_out : list obs_entry;
  a_json : option (list json_report);
  a_console : option (bool * Z * list (string * string));   (* showDuplicates, minSeverity, header lines *)
  a_counts : list (Z * Z)                              (* CountBySeverity *)
}.

Record case := {
  c_id : N;
  c_stream : list report;
  c_iseq : list bool;        (* real isEqual on all ordered pairs, row major *)
  c_h1 : bool; c_h2 : bool;  (* the harness' evaluation of H1/H2 with the real isEqual *)
  c_arr : list arrangement
}.

Definition dummy : report :=
  {| r_path := ""; r_target := ""; r_owner := ""; r_rule := 0%N; r_name := ""; r_reporter := ""; r_summary := "";
     r_details := ""; r_diags := []; r_lfirst := 0%Z; r_llast := 0%Z; r_sev := 0%Z; r_anchor_before := false;
     r_rfirst := 0%Z; r_rlast := 0%Z |}.

Definition without_diags (r : report) : report :=
  {| r_path := r_path r; r_target := r_target r; r_owner := r_owner r; r_rule := r_rule r; r_name := r_name r;
     r_reporter := r_reporter r; r_summary := r_summary r; r_details := r_details r;
     r_diags := []; r_lfirst := r_lfirst r; r_llast := r_llast r; r_sev := r_sev r;
     r_anchor_before := r_anchor_before r; r_rfirst := r_rfirst r; r_rlast := r_rlast r |}.

Definition entry_matches (stream : list report) (e : entry) (o : obs_entry) : bool :=
  let '(r, dup, dups) := e in
  report_eqb (without_diags r) (without_diags (nth (o_idx o) stream dummy)) &&
  list_eqb N.eqb (map dg_extra (r_diags r)) (o_diags o) &&
  Bool.eqb dup (o_dup o) && list_eqb Nat.eqb dups (o_dups o).

Definition json_eqb (a b : json_report) : bool :=
  String.eqb (j_path a) (j_path b) && String.eqb (j_owner a) (j_owner b) && String.eqb (j_reporter a) (j_reporter b) &&
  String.eqb (j_problem a) (j_problem b) && String.eqb (j_details a) (j_details b) &&
  String.eqb (j_severity a) (j_severity b) && list_eqb Z.eqb (j_lines a) (j_lines b).

Definition pair_eqb (a b : string * string) : bool := String.eqb (fst a) (fst b) && String.eqb (snd a) (snd b).

Definition counts_match (sevs : list Z) (obs : list (Z * Z)) : bool :=
  let m := count_by_severity sevs in
  Nat.eqb (List.length m) (List.length obs) &&
  forallb (fun p : Z * Z => existsb (fun q : Z * Z => Z.eqb (fst p) (fst q) && Z.eqb (snd p) (snd q)) m) obs.

Definition check_arr (stream : list report) (a : arrangement) : list string :=
  let s' := map (fun i => nth i stream dummy) (a_perm a) in
  let surv := collect s' in
  let es := dedup (sort_reports surv) in
  (if Nat.eqb (List.length es) (List.length (a_out a)) &&
      forallb (fun p => entry_matches stream (fst p) (snd p)) (combine es (a_out a)) then [] else ["order/fold"]) ++
  (match a_json a with
   | Some js => if list_eqb json_eqb (render_json es) js then [] else ["json"]
   | None => [] end) ++
  (match a_console a with
   | Some (sd, ms, ls) => if list_eqb pair_eqb (render_console ms sd es) ls then [] else ["console"]
   | None => [] end) ++
  (if counts_match (map r_sev surv) (a_counts a) then [] else ["counts"]).

Definition iseq_table (s : list report) : list bool :=
  flat_map (fun a => map (fun b => is_equal a b) s) s.

(** monitor of the premise the proofs leave open for more than 20 survivors: the modelled stable sort
    returns a strictly sorted list whenever H1 and H2 hold *)
Definition sort_spec_ok (s : list report) : bool :=
  if h1b s && h2b s then sortedb report_lt (sort_reports (collect s)) else true.

Definition check (c : case) : list string :=
  let s := c_stream c in
  (if list_eqb Bool.eqb (iseq_table s) (c_iseq c) then [] else ["isEqual"]) ++
  (if Bool.eqb (h1b s) (c_h1 c) then [] else ["H1"]) ++
  (if Bool.eqb (h2b s) (c_h2 c) then [] else ["H2"]) ++
  (if sort_spec_ok s then [] else ["sort-spec"]) ++
  flat_map (check_arr s) (c_arr c).

Fixpoint mismatches (cs : list case) : list (N * string) :=
  match cs with
  | [] => []
  | c :: r => match check c with
              | [] => mismatches r
              | t :: _ => (c_id c, t) :: mismatches r
              end
  end.
