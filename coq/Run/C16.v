(** Correspondence for C16: problems reported by the real promql/series check (run through a real
    FailoverGroup against the engine-backed fake Prometheus) versus Model/Series.v on the same database. *)
From Coq Require Import List String ZArith NArith Bool.
From PintV Require Import Common.Bytes Common.GoTime Model.Range Model.RangeRef Model.Series Model.SeriesSelectors.
Import ListNotations.
Open Scope string_scope.
Open Scope Z_scope.

Record case := {
  c_id : N;
  c_db : db;
  c_others : list db;
  c_expr : option sexpr;                       (* the rule expression as a term of Model/SeriesSelectors.v; None: outside the fragment *)
  c_checked_pos : list N;                      (* positions of getNonFallbackSelectors(expr), in order *)
  c_shifted_probes : list string;              (* texts of the probes (instant or range) whose selector carries an offset or an @
                                                  modifier: the model's probes are count(selector) / count(bare) / absent(...) of
                                                  selectors WITHOUT offset, evaluated at now / over the window ending now *)
  c_now : Z;                                   (* harness clock just before Check was called *)
  c_after : Z;                                 (* harness clock just after Check returned (same minute as c_now) *)
  c_instant : list (option Z * Z);             (* every /api/v1/query request the main server got: its [time] parameter and
                                                  the server's clock when it arrived *)
  c_range : list (string * list (Z * Z * Z));  (* per query text: (start, end, step) of the /api/v1/query_range requests,
                                                  as the server parsed them, ascending, repeated slices once *)
  c_settings : settings;
  c_rules : list rinfo;
  c_sels : list vsel;                          (* getNonFallbackSelectors(expr), in order *)
  c_re : list (string * string * bool);        (* regexp oracle: (pattern, value, matches) *)
  c_observed : list (string * list (string * sev))   (* per selector text: problems attributed to it, sorted *)
}.

(** table lookup; a missing entry is reported, never guessed *)
Fixpoint re_lookup (t : list (string * string * bool)) (p v : string) : option bool :=
  match t with
  | [] => None
  | (p', v', b) :: r => if String.eqb p p' && String.eqb v v' then Some b else re_lookup r p v
  end.

Definition re_of (t : list (string * string * bool)) (p v : string) : bool :=
  match re_lookup t p v with Some b => b | None => false end.

(** every (regexp pattern, label value) pair the model can ask about is in the table *)
Definition patterns_of (ms : list matcher) : list string :=
  map m_value (filter (fun m => match m_type m with MRe | MNre => true | _ => false end) ms).

Definition db_values (d : db) : list string := "" :: flat_map (fun s => map snd (ts_labels s)) d.

Definition table_complete (c : case) : bool :=
  let pats := List.app (flat_map (fun s => patterns_of (vs_matchers s)) (c_sels c))
                       (flat_map patterns_of (set_ignore_elsewhere (c_settings c))) in
  let vals := List.app (db_values (c_db c)) (flat_map db_values (c_others c)) in
  forallb (fun p => forallb (fun v => match re_lookup (c_re c) p v with Some _ => true | None => false end) vals) pats.

(** the harness lists a selector's problems sorted by (summary, severity name); all problems of one selector share
    the summary, so the model's emission order is sorted by the severity's name: Bug < Fatal < Information < Warning *)
Definition sev_rank (x : sev) : nat :=
  match x with Bug => 0 | Fatal => 1 | Information => 2 | Warning => 3 end.

Fixpoint insert_prob (x : string * sev) (l : list (string * sev)) : list (string * sev) :=
  match l with
  | [] => [x]
  | y :: r => if Nat.ltb (sev_rank (snd y)) (sev_rank (snd x)) then y :: insert_prob x r else x :: y :: r
  end.

Definition sort_probs (l : list (string * sev)) : list (string * sev) := fold_right insert_prob [] l.

Fixpoint observed_for (o : list (string * list (string * sev))) (k : string) : list (string * sev) :=
  match o with
  | [] => []
  | (k', ps) :: r => if String.eqb k k' then ps else observed_for r k
  end.

Fixpoint compare (m : list (string * outcome)) (o : list (string * list (string * sev))) : option string :=
  match m with
  | [] => None
  | (k, Decided ps) :: r => if probs_eqb (sort_probs ps) (observed_for o k) then compare r o else Some ("problems-of-selector " ++ k)
  | (k, Undetermined) :: r => compare r o
  | (k, OutOfFuel) :: r => Some "model-out-of-fuel"
  end.

(** a problem attributed to a selector the model does not check at all *)
Definition unexpected (m : list (string * outcome)) (o : list (string * list (string * sev))) : bool :=
  existsb (fun kp => match snd kp with [] => false | _ => negb (existsb (fun mo => String.eqb (fst mo) (fst kp)) m) end) o.

(** stripLabels keeps the metric: for a selector with a plain metric name the bare selector prints as that name *)
Definition bare_ok (s : vsel) : bool :=
  let n := metric_name s in
  if String.eqb n "" then true else String.eqb (vs_bare_str s) n.

(** --- request parameters: what pint asked for versus [instant_request] / [range_requests_for] ------------- *)

Definition opt_z_eqb (a b : option Z) : bool :=
  match a, b with
  | None, None => true
  | Some x, Some y => x =? y
  | _, _ => false
  end.

(** Projected observable: the instant at which the server evaluates the probe.  The model ([instant_request]: no
    [time] parameter) puts it at the server's clock on arrival, i.e. inside the case; a request that pins another
    evaluation instant disagrees with the model.  (A refactoring that sends [time] = pint's own current clock
    evaluates at the same instant up to scheduling delay and is accepted.) *)
Definition instant_ok (c : case) : bool :=
  forallb (fun r => let t := eval_time (snd r) (mkIReq (fst r)) in
                    let m := eval_time (snd r) instant_request in
                    (c_now c <=? m) && (m <=? c_after c + 1000000) &&
                    (c_now c <=? t) && (t <=? c_after c + 1000000)) (c_instant c).

Fixpoint last_end (l : list (Z * Z * Z)) (d : Z) : Z :=
  match l with
  | [] => d
  | [(_, e, _)] => e
  | _ :: r => last_end r d
  end.

(** all slices as the model computes them for the window that ends at the observed end of the last slice; the end of
    the last slice itself is pint's clock reading and must lie within the case *)
Fixpoint reqs_eqb (m : list rreq) (o : list (Z * Z * Z)) : bool :=
  match m, o with
  | [], [] => true
  | x :: r, (s, e, st) :: r' => (rq_start x =? s) && (rq_end x =? e) && (rq_step x =? st) && reqs_eqb r r'
  | _, _ => false
  end.

Definition range_ok (c : case) (qr : string * list (Z * Z * Z)) : bool :=
  let e := last_end (snd qr) 0 in
  let st := c_settings c in
  (c_now c <=? e) && (e <=? c_after c + 1000000) &&
  match range_requests_for (e - set_lookback st) e (set_lookback st) (set_step st) with
  | None => false
  | Some m => reqs_eqb m (snd qr)
  end.

(** which selectors are checked: the model of getNonFallbackSelectors over the Source tree versus the real list *)
Fixpoint nlist_eqb (a b : list N) : bool :=
  match a, b with
  | [], [] => true
  | x :: r, y :: s => N.eqb x y && nlist_eqb r s
  | _, _ => false
  end.

Definition selection_ok (c : case) : bool :=
  match c_expr c with
  | None => true
  | Some e => nlist_eqb (checked e) (c_checked_pos c)
  end.

Definition check_case (c : case) : option string :=
  if negb (table_complete c) then Some "regexp-table-incomplete"
  else if negb (selection_ok c) then Some "checked-selectors (getNonFallbackSelectors)"
  else if negb (forallb bare_ok (c_sels c)) then Some "stripLabels"
  else if negb (match c_shifted_probes c with [] => true | _ => false end) then Some "probe-with-offset-or-@-modifier"
  else if negb (instant_ok c) then Some "instant-request-time-parameter"
  else if negb (forallb (range_ok c) (c_range c)) then Some "range-request-parameters"
  else
    let m := check (re_of (c_re c)) (c_db c) (c_others c) (c_now c) (c_settings c) (c_rules c) (c_sels c) in
    match compare m (c_observed c) with
    | Some t => Some t
    | None => if unexpected m (c_observed c) then Some "problem-for-unchecked-selector" else None
    end.

Fixpoint mismatches (cs : list case) : list (N * string) :=
  match cs with
  | [] => []
  | c :: r => match check_case c with
              | Some t => (c_id c, t) :: mismatches r
              | None => mismatches r
              end
  end.
