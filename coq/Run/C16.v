(** Correspondence for C16: problems reported by the real promql/series check (run through a real
    FailoverGroup against the engine-backed fake Prometheus) versus Model/Series.v on the same database. *)
From Coq Require Import List String ZArith NArith Bool.
From PintV Require Import Common.Bytes Common.GoTime Model.Range Model.RangeRef Model.Series.
Import ListNotations.
Open Scope string_scope.
Open Scope Z_scope.

Record case := {
  c_id : N;
  c_db : db;
  c_others : list db;
  c_now : Z;                                   (* harness clock just before Check was called *)
  c_settings : settings;
  c_rules : list rinfo;
  c_sels : list vsel;                          (* getNonFallbackSelectors(expr), in order *)
  c_re : list (string * string * bool);        (* regexp oracle: (pattern, value, matches) *)
  c_observed : list (string * list (string * sev))   (* per selector text: problems attributed to it, sorted *)
}.

(** table lookup; a missing entry is reported, never guessed *)
Fixpoint re_lookup (t : list (string * string * bool)) (p v : string) : option bool :=
  match t with
  | [] => None
  | (p', v', b) :: r => if String.eqb p p' && String.eqb v v' then Some b else re_lookup r p v
  end.

Definition re_of (t : list (string * string * bool)) (p v : string) : bool :=
  match re_lookup t p v with Some b => b | None => false end.

(** every (regexp pattern, label value) pair the model can ask about is in the table *)
Definition patterns_of (ms : list matcher) : list string :=
  map m_value (filter (fun m => match m_type m with MRe | MNre => true | _ => false end) ms).

Definition db_values (d : db) : list string := "" :: flat_map (fun s => map snd (ts_labels s)) d.

Definition table_complete (c : case) : bool :=
  let pats := List.app (flat_map (fun s => patterns_of (vs_matchers s)) (c_sels c))
                       (flat_map patterns_of (set_ignore_elsewhere (c_settings c))) in
  let vals := List.app (db_values (c_db c)) (flat_map db_values (c_others c)) in
  forallb (fun p => forallb (fun v => match re_lookup (c_re c) p v with Some _ => true | None => false end) vals) pats.

Definition prob_eqb (a b : string * sev) : bool := String.eqb (fst a) (fst b) && sev_eqb (snd a) (snd b).

Fixpoint probs_eqb (a b : list (string * sev)) : bool :=
  match a, b with
  | [], [] => true
  | x :: r, y :: s => prob_eqb x y && probs_eqb r s
  | _, _ => false
  end.

Fixpoint observed_for (o : list (string * list (string * sev))) (k : string) : list (string * sev) :=
  match o with
  | [] => []
  | (k', ps) :: r => if String.eqb k k' then ps else observed_for r k
  end.

Fixpoint compare (m : list (string * outcome)) (o : list (string * list (string * sev))) : option string :=
  match m with
  | [] => None
  | (k, Decided ps) :: r => if probs_eqb ps (observed_for o k) then compare r o else Some ("problems-of-selector " ++ k)
  | (k, Steps3to8) :: r => compare r o
  | (k, OutOfFuel) :: r => Some "model-out-of-fuel"
  end.

(** a problem attributed to a selector the model does not check at all *)
Definition unexpected (m : list (string * outcome)) (o : list (string * list (string * sev))) : bool :=
  existsb (fun kp => match snd kp with [] => false | _ => negb (existsb (fun mo => String.eqb (fst mo) (fst kp)) m) end) o.

(** stripLabels keeps the metric: for a selector with a plain metric name the bare selector prints as that name *)
Definition bare_ok (s : vsel) : bool :=
  let n := metric_name s in
  if String.eqb n "" then true else String.eqb (vs_bare_str s) n.

Definition check_case (c : case) : option string :=
  if negb (table_complete c) then Some "regexp-table-incomplete"
  else if negb (forallb bare_ok (c_sels c)) then Some "stripLabels"
  else
    let m := check (re_of (c_re c)) (c_db c) (c_others c) (c_now c) (c_settings c) (c_rules c) (c_sels c) in
    match compare m (c_observed c) with
    | Some t => Some t
    | None => if unexpected m (c_observed c) then Some "problem-for-unchecked-selector" else None
    end.

Fixpoint mismatches (cs : list case) : list (N * string) :=
  match cs with
  | [] => []
  | c :: r => match check_case c with
              | Some t => (c_id c, t) :: mismatches r
              | None => mismatches r
              end
  end.
