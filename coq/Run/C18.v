(** Correspondence for C18: the real NewTemplatedRegexp / NewRawTemplatedRegexp / Expand / MustExpand vs
    Model/TemplatedRegexp.v.  text/template and regexp enter as finite oracle tables computed by the harness with
    the Go libraries directly (own template set-up: aliases, missingkey=zero; own context built like the model's). *)
From Coq Require Import List String Ascii ZArith NArith Bool.
From PintV Require Import Common.Bytes.
From PintV Require Export Model.TemplatedRegexp.
Import ListNotations.
Open Scope string_scope.
Open Scope list_scope.

Record case := {
  c_id : N;
  c_raw : bool;                                   (* NewRawTemplatedRegexp instead of NewTemplatedRegexp *)
  c_pattern : string;
  c_rule : trule;
  c_ctx : tctx;                                   (* the context the harness executed its own template with *)
  c_parse : list (string * bool);                 (* template text -> parses *)
  c_exec : list (string * (option string * option string));  (* template text -> output on (empty rule, this rule) *)
  c_compile : list (string * bool);               (* regexp text -> compiles *)
  c_obs_new_ok : bool;
  c_obs_expand : option string;                   (* Expand(rule): Some (re.String()) | None = error; only when new ok *)
  c_obs_must : string                             (* MustExpand(rule).String(); only when new ok *)
}.

Fixpoint pairs_eqb (a b : list (string * string)) : bool :=
  match a, b with
  | [], [] => true
  | (k, v) :: a', (k', v') :: b' => String.eqb k k' && String.eqb v v' && pairs_eqb a' b'
  | _, _ => false
  end.

Definition tctx_eqb (a b : tctx) : bool :=
  String.eqb (cx_alert a) (cx_alert b) && String.eqb (cx_record a) (cx_record b) && String.eqb (cx_expr a) (cx_expr b) &&
  String.eqb (cx_for a) (cx_for b) && pairs_eqb (cx_labels a) (cx_labels b) && pairs_eqb (cx_annotations a) (cx_annotations b).

Definition o_parse (c : case) (text : string) : option string :=
  match assoc text (c_parse c) with Some true => Some text | _ => None end.

Definition o_exec (c : case) (tm : string) (cx : tctx) : option string :=
  match assoc tm (c_exec c) with
  | Some (on_empty, on_rule) => if tctx_eqb cx (new_template_context empty_rule) then on_empty else on_rule
  | None => None
  end.

Definition o_compile (c : case) (s : string) : option string :=
  match assoc s (c_compile c) with Some true => Some s | _ => None end.

Definition opt_eqb (a b : option string) : bool :=
  match a, b with Some x, Some y => String.eqb x y | None, None => true | _, _ => false end.

Definition check (c : case) : list string :=
  let built := if c_raw c then new_raw_templated string string (o_parse c) (o_exec c) (o_compile c) (c_pattern c)
               else new_templated string string (o_parse c) (o_exec c) (o_compile c) (c_pattern c) in
  (if tctx_eqb (new_template_context (c_rule c)) (c_ctx c) then [] else ["template-context"]) ++
  (* the tables must know every text the model asks about *)
  (let text := (aliases ++ (if c_raw c then c_pattern c else "^" ++ c_pattern c ++ "$"))%string in
   match assoc text (c_parse c) with None => ["oracle-table-incomplete"] | Some _ => [] end) ++
  (match assoc never_matching (c_compile c) with Some true => [] | _ => ["never-matching-pattern-does-not-compile"] end) ++
  match built with
  | None => if c_obs_new_ok c then ["new-accepted"] else []
  | Some t =>
      if negb (c_obs_new_ok c) then ["new-rejected"]
      else
        (if opt_eqb (expand string string (o_parse c) (o_exec c) (o_compile c) t (c_rule c)) (c_obs_expand c) then [] else ["expand"]) ++
        (match must_expand string string (o_parse c) (o_exec c) (o_compile c) t (c_rule c) with
         | Ok re => if String.eqb re (c_obs_must c) then [] else ["must-expand"]
         | Crash _ => ["must-expand-crash"]
         end)
  end.

Fixpoint mismatches (cs : list case) : list (N * string) :=
  match cs with
  | [] => []
  | c :: r => map (fun t => (c_id c, t)) (check c) ++ mismatches r
  end.
