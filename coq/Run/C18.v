(** Correspondence for C18: the real NewTemplatedRegexp / NewRawTemplatedRegexp / Expand / MustExpand vs
    Model/TemplatedRegexp.v.  text/template and regexp enter as finite oracle tables computed by the harness with
    the Go libraries directly (own template set-up: aliases, missingkey=zero; own context built like the model's). *)
From Coq Require Import List String Ascii ZArith NArith Bool.
From PintV Require Import Common.Bytes.
From PintV Require Export Model.TemplatedRegexp Model.TemplatedRegexpBlocks.
Import ListNotations.
Open Scope string_scope.
Open Scope list_scope.

(** a block-level observation: Rule.validate verdict, number of checks parseRule built, String() of the first check
    (None = panic), and whether every String()/Check() call on this rule returned without panic *)
Record block_obs := {
  b_kind : N;                                     (* 0 annotation, 1 label, 2 reject, 3 name, 4 aggregate *)
  b_key : string; b_token : string; b_value : string;
  b_obs_valid : bool;
  b_obs_nchecks : N;
  b_obs_string : option string;
  b_obs_check_ok : bool
}.

Record case := {
  c_id : N;
  c_raw : bool;                                   (* NewRawTemplatedRegexp instead of NewTemplatedRegexp *)
  c_pattern : string;
  c_rule : trule;
  c_ctx : tctx;                                   (* the context the harness executed its own template with *)
  c_parse : list (string * bool);                 (* template text -> parses *)
  c_exec : list (string * (option string * option string));  (* template text -> output on (empty rule, this rule) *)
  c_compile : list (string * bool);               (* regexp text -> compiles *)
  c_obs_new_ok : bool;
  c_obs_expand : option string;                   (* Expand(rule): Some (re.String()) | None = error; only when new ok *)
  c_obs_must : string;                            (* MustExpand(rule).String(); only when new ok *)
  c_block : option block_obs                      (* Some = a block-level case (the three c_obs_* fields are unused) *)
}.

Fixpoint pairs_eqb (a b : list (string * string)) : bool :=
  match a, b with
  | [], [] => true
  | (k, v) :: a', (k', v') :: b' => String.eqb k k' && String.eqb v v' && pairs_eqb a' b'
  | _, _ => false
  end.

Definition tctx_eqb (a b : tctx) : bool :=
  String.eqb (cx_alert a) (cx_alert b) && String.eqb (cx_record a) (cx_record b) && String.eqb (cx_expr a) (cx_expr b) &&
  String.eqb (cx_for a) (cx_for b) && pairs_eqb (cx_labels a) (cx_labels b) && pairs_eqb (cx_annotations a) (cx_annotations b).

Definition o_parse (c : case) (text : string) : option string :=
  match assoc text (c_parse c) with Some true => Some text | _ => None end.

Definition o_exec (c : case) (tm : string) (cx : tctx) : option string :=
  match assoc tm (c_exec c) with
  | Some (on_empty, on_rule) => if tctx_eqb cx (new_template_context empty_rule) then on_empty else on_rule
  | None => None
  end.

Definition o_compile (c : case) (s : string) : option string :=
  match assoc s (c_compile c) with Some true => Some s | _ => None end.

Definition opt_eqb (a b : option string) : bool :=
  match a, b with Some x, Some y => String.eqb x y | None, None => true | _, _ => false end.

Definition outcome_str_eqb (m : outcome string) (o : option string) : bool :=
  match m, o with Ok a, Some b => String.eqb a b | Crash _, None => true | _, _ => false end.

Definition check_block (c : case) (b : block_obs) : list string :=
  let P := o_parse c in let E := o_exec c in let C := o_compile c in
  let tables_ok :=
    forallb (fun text => match assoc text (c_parse c) with Some _ => true | None => false end)
      (match b_kind b with
       | 0%N | 1%N => [(aliases ++ "^" ++ b_key b ++ "$")%string; (aliases ++ b_token b)%string; (aliases ++ "^" ++ b_value b ++ "$")%string]
       | _ => [(aliases ++ "^" ++ b_key b ++ "$")%string]
       end) in
  (if tctx_eqb (new_template_context (c_rule c)) (c_ctx c) then [] else ["template-context"]) ++
  (if tables_ok then [] else ["oracle-table-incomplete"]) ++
  (match assoc never_matching (c_compile c) with Some true => [] | _ => ["never-matching-pattern-does-not-compile"] end) ++
  match b_kind b with
  | 0%N | 1%N =>
      let s := {| ks_key := b_key b; ks_token := b_token b; ks_value := b_value b |} in
      let k := build_kv string string P E C s in
      let str := kv_string (if N.eqb (b_kind b) 0 then "alerts/annotation" else "rule/label") true k in
      (if Bool.eqb (validate_kv string string P E C s) (b_obs_valid b) then [] else ["block-validate"]) ++
      (if N.eqb (b_obs_nchecks b) 1 then [] else ["block-number-of-checks"]) ++
      (if outcome_str_eqb str (b_obs_string b) then [] else ["block-string"]) ++
      (if is_ok str && forallb is_ok (kv_uses string string P E C k (c_rule c)) && negb (b_obs_check_ok b) then ["block-model-total-impl-crashes"] else [])
  | 2%N =>
      let cs := build_reject string string P E C (b_key b) true true true true in
      (if Bool.eqb (validate_reject string string P E C (b_key b)) (b_obs_valid b) then [] else ["block-validate"]) ++
      (if N.eqb (b_obs_nchecks b) (N.of_nat (List.length cs)) then [] else ["block-number-of-checks"]) ++
      (if forallb (fun k => forallb is_ok (reject_uses string string P E C k (c_rule c))) cs && negb (b_obs_check_ok b) then ["block-model-total-impl-crashes"] else [])
  | 3%N =>
      let k := build_single string string P E C (b_key b) in
      let str := single_string "rule/name" k in
      (if Bool.eqb (validate_single string string P E C (b_key b)) (b_obs_valid b) then [] else ["block-validate"]) ++
      (if N.eqb (b_obs_nchecks b) 1 then [] else ["block-number-of-checks"]) ++
      (if outcome_str_eqb str (b_obs_string b) then [] else ["block-string"]) ++
      (if is_ok str && forallb is_ok (single_uses string string P E C k (c_rule c)) && negb (b_obs_check_ok b) then ["block-model-total-impl-crashes"] else [])
  | _ =>
      let k := build_aggregate string string P E C (b_key b) in
      (if Bool.eqb (validate_aggregate string string P E C (b_key b)) (b_obs_valid b) then [] else ["block-validate"]) ++
      (if N.eqb (b_obs_nchecks b) 1 then [] else ["block-number-of-checks"]) ++
      (if forallb is_ok (single_uses string string P E C k (c_rule c)) && negb (b_obs_check_ok b) then ["block-model-total-impl-crashes"] else [])
  end.

Definition check_template (c : case) : list string :=
  let built := if c_raw c then new_raw_templated string string (o_parse c) (o_exec c) (o_compile c) (c_pattern c)
               else new_templated string string (o_parse c) (o_exec c) (o_compile c) (c_pattern c) in
  (if tctx_eqb (new_template_context (c_rule c)) (c_ctx c) then [] else ["template-context"]) ++
  (* the tables must know every text the model asks about *)
  (let text := (aliases ++ (if c_raw c then c_pattern c else "^" ++ c_pattern c ++ "$"))%string in
   match assoc text (c_parse c) with None => ["oracle-table-incomplete"] | Some _ => [] end) ++
  (match assoc never_matching (c_compile c) with Some true => [] | _ => ["never-matching-pattern-does-not-compile"] end) ++
  match built with
  | None => if c_obs_new_ok c then ["new-accepted"] else []
  | Some t =>
      if negb (c_obs_new_ok c) then ["new-rejected"]
      else
        (if opt_eqb (expand string string (o_parse c) (o_exec c) (o_compile c) t (c_rule c)) (c_obs_expand c) then [] else ["expand"]) ++
        (match must_expand string string (o_parse c) (o_exec c) (o_compile c) t (c_rule c) with
         | Ok re => if String.eqb re (c_obs_must c) then [] else ["must-expand"]
         | Crash _ => ["must-expand-crash"]
         end)
  end.

Definition check (c : case) : list string :=
  match c_block c with Some b => check_block c b | None => check_template c end.

Fixpoint mismatches (cs : list case) : list (N * string) :=
  match cs with
  | [] => []
  | c :: r => map (fun t => (c_id c, t)) (check c) ++ mismatches r
  end.
