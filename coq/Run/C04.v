(** Correspondence for C04/C12 (shared):
    (i)   analyser: [walk_node] on the serialised AST of the REAL parser vs the projected utils.LabelsSource output;
    (ii)  consumers: the labels the REAL alerts/template reports as non-existent / the number of problems of the REAL
          promql/impossible vs [template_missing] / [impossible_problems];
    (iii) semantics: the vendored engine's result of EVERY sub-expression vs the local rule of that node given the
          engine's results of its children ([sem_check]);
    (iv)  the harness' Go mirror of [must_have] (used for the K3 class predicate) vs the model;
    (v)   the harness' Go mirrors of the known-finding class predicates (K1 K2 K6 K7 syntactic parts, K3 mechanisms per
          label) vs Model.PromClass.class_rows: the guards of [C12_impossible_sound] are the predicates the harness uses. *)
From Coq Require Import List String Bool Floats NArith.
From PintV Require Import Common.Bytes Gen.C04 Model.PromQL Model.Source Model.PromSem Model.PromClass.
Import ListNotations.
Open Scope string_scope.
Open Scope list_scope.

Record dbcase := { d_total : bool; d_series : list labelset; d_results : list result }.

Record case := {
  c_id : N;
  c_expr : expr;
  c_sources : list source;          (* observed: projection of utils.LabelsSource *)
  c_tmpl_vars : list string;        (* $labels.x references of the synthetic annotation, in order *)
  c_tmpl_missing : list string;     (* observed: labels reported by the real alerts/template (sorted) *)
  c_impossible : N;                 (* observed: number of problems of the real promql/impossible *)
  c_musthave : list string;         (* observed: labels l of the universe with mustHave(expr, l) in the harness mirror *)
  c_classes : list (list bool);     (* observed: the harness' Go mirror of Model.PromClass.class_rows (one row per binary node) *)
  c_dbs : list dbcase
}.

(** math.Mod / math.Pow are never exercised on two statically known operands by the generator. *)
Definition fmod0 (a b : float) : float := nan.
Definition fpow0 (a b : float) : float := nan.

Definition universe := ["a"; "b"; "c"; "job"; "d"].

Definition stype_eqb (a b : stype) : bool :=
  match a, b with
  | TUnknown, TUnknown | TNumber, TNumber | TString, TString | TSelector, TSelector | TFunc, TFunc
  | TAggregate, TAggregate => true
  | _, _ => false end.

Definition set_eq_str (a b : list string) : bool :=
  forallb (fun x => mem_str x b) a && forallb (fun x => mem_str x a) b.

Definition float_same (a b : float) : bool :=
  PrimFloat.eqb a b || (negb (PrimFloat.eqb a a) && negb (PrimFloat.eqb b b)).

Definition opt_str_compat (model observed : option string) : bool :=
  match observed, model with
  | Some o, Some m => String.eqb o m
  | Some _, None => false
  | None, _ => true      (* the message mentions no label: nothing to compare *)
  end.

Definition fields_eqb (m o : source) : bool :=
  stype_eqb (s_type m) (s_type o) && vtype_eqb (s_returns m) (s_returns o)
  && String.eqb (s_operation m) (s_operation o)
  && match s_call m, s_call o with
     | Some (f, n), Some (g, k) => String.eqb f g && Nat.eqb n k
     | None, None => true
     | _, _ => false end
  && set_eq_str (s_included m) (s_included o) && set_eq_str (s_excluded m) (s_excluded o)
  && set_eq_str (s_guaranteed m) (s_guaranteed o)
  && Bool.eqb (s_fixed m) (s_fixed o) && Bool.eqb (s_dead m) (s_dead o)
  && Bool.eqb (s_always m) (s_always o) && Bool.eqb (s_known m) (s_known o)
  && Bool.eqb (s_cond m) (s_cond o) && Bool.eqb (s_retbool m) (s_retbool o)
  && (if s_known o then float_same (s_number m) (s_number o) else true)
  && opt_str_compat (s_dead_label m) (s_dead_label o).

Fixpoint src_eqb (m o : source) {struct m} : bool :=
  fields_eqb m o
  && (fix go (x y : list source) {struct x} : bool :=
        match x, y with
        | [], [] => true
        | p :: x', q :: y' => src_eqb p q && go x' y'
        | _, _ => false
        end) (s_joins m) (s_joins o)
  && (fix go (x y : list source) {struct x} : bool :=
        match x, y with
        | [], [] => true
        | p :: x', q :: y' => src_eqb p q && go x' y'
        | _, _ => false
        end) (s_unless m) (s_unless o).

Fixpoint srcs_eqb (x y : list source) : bool :=
  match x, y with
  | [], [] => true
  | p :: x', q :: y' => src_eqb p q && srcs_eqb x' y'
  | _, _ => false
  end.

Definition model_sources (e : expr) : list source := walk_node fmod0 fpow0 e.

Fixpoint sort_insert (x : string) (l : list string) : list string :=
  match l with
  | [] => [x]
  | y :: r => if String.leb x y then x :: l else y :: sort_insert x r
  end.
Definition sort_str (l : list string) : list string := fold_right sort_insert [] l.

Fixpoint list_str_eqb (a b : list string) : bool :=
  match a, b with
  | [], [] => true
  | x :: a', y :: b' => String.eqb x y && list_str_eqb a' b'
  | _, _ => false
  end.

Fixpoint bools_eqb (a b : list bool) : bool :=
  match a, b with
  | [], [] => true
  | x :: a', y :: b' => Bool.eqb x y && bools_eqb a' b'
  | _, _ => false
  end.

Fixpoint rows_eqb (a b : list (list bool)) : bool :=
  match a, b with
  | [], [] => true
  | x :: a', y :: b' => bools_eqb x y && rows_eqb a' b'
  | _, _ => false
  end.

Definition check_db (e : expr) (d : dbcase) : list string :=
  let '(_, rest, tags, _) := sem_check (d_series d) e (d_results d) in
  match rest with [] => tags | _ => "results-left-over" :: tags end.

Definition check (c : case) : list string :=
  let srcs := model_sources (c_expr c) in
  (if srcs_eqb srcs (c_sources c) then [] else ["sources"])
  ++ (if list_str_eqb (sort_str (template_missing srcs [] (c_tmpl_vars c))) (c_tmpl_missing c) then [] else ["template"])
  ++ (if N.eqb (N.of_nat (List.length (impossible_problems srcs))) (c_impossible c) then [] else ["impossible"])
  ++ (if list_str_eqb (filter (must_have (metric_name :: universe) (c_expr c)) (c_tmpl_vars c)) (c_musthave c) then [] else ["musthave"])
  ++ (if rows_eqb (class_rows (c_tmpl_vars c) (c_expr c)) (c_classes c) then [] else ["classes"])
  ++ flat_map (check_db (c_expr c)) (c_dbs c).

Fixpoint mismatches (cs : list case) : list (N * string) :=
  match cs with
  | [] => []
  | c :: r => match check c with
              | [] => mismatches r
              | t :: _ => (c_id c, t) :: mismatches r
              end
  end.
