(** internal/comments/comments.go — the control-comment grammar, byte-exact.

    [parse_comment tp s line] = Go [parseComment(s, line)] (at most one comment per line: the first
    [# pint <known type>] wins and the rest of the line is its value); [parse tp lineno text] = Go [Parse].
    [tp] is the only external ingredient: [time.Parse] of a snooze stamp (RFC3339, then 2006-01-02) as a
    function [string -> option Z] (nanoseconds since the epoch), an input of the model. *)
From Coq Require Import List String Ascii NArith ZArith Bool.
From PintV Require Import Common.Bytes Model.CommentsUnicode.
Import ListNotations.
Open Scope string_scope.

Inductive ctype :=
| UnknownType | InvalidComment
| IgnoreFileType | IgnoreLineType | IgnoreBeginType | IgnoreEndType | IgnoreNextLineType
| FileOwnerType | RuleOwnerType | FileDisableType | DisableType | FileSnoozeType | SnoozeType | RuleSetType.

Definition ctype_eqb (a b : ctype) : bool :=
  match a, b with
  | UnknownType, UnknownType | InvalidComment, InvalidComment | IgnoreFileType, IgnoreFileType
  | IgnoreLineType, IgnoreLineType | IgnoreBeginType, IgnoreBeginType | IgnoreEndType, IgnoreEndType
  | IgnoreNextLineType, IgnoreNextLineType | FileOwnerType, FileOwnerType | RuleOwnerType, RuleOwnerType
  | FileDisableType, FileDisableType | DisableType, DisableType | FileSnoozeType, FileSnoozeType
  | SnoozeType, SnoozeType | RuleSetType, RuleSetType => true
  | _, _ => false
  end.

Definition prefix := "pint".

(** the table of [parseType] *)
Definition type_table : list (string * ctype) :=
  [ ("ignore/file", IgnoreFileType); ("ignore/line", IgnoreLineType); ("ignore/begin", IgnoreBeginType);
    ("ignore/end", IgnoreEndType); ("ignore/next-line", IgnoreNextLineType); ("file/owner", FileOwnerType);
    ("rule/owner", RuleOwnerType); ("file/disable", FileDisableType); ("disable", DisableType);
    ("file/snooze", FileSnoozeType); ("snooze", SnoozeType); ("rule/set", RuleSetType) ].

Definition parse_type (s : string) : ctype :=
  match assoc s type_table with Some t => t | None => UnknownType end.

Definition is_rule_comment (t : ctype) : bool :=
  match t with RuleOwnerType | DisableType | SnoozeType | RuleSetType => true | _ => false end.

Definition is_ignore_type (t : ctype) : bool :=
  match t with
  | IgnoreFileType | IgnoreLineType | IgnoreBeginType | IgnoreEndType | IgnoreNextLineType => true
  | _ => false
  end.

(** errors of [parseValue]/[parseSnooze] (the message text is not modelled, its cause is) *)
Inductive cerr :=
| ErrSuffix (s : string)          (* unexpected comment suffix: %q *)
| ErrMissing (t : ctype)          (* missing <type> value *)
| ErrSnoozeFormat (s : string)    (* invalid snooze comment, expected '$TIME $MATCH' got %q *)
| ErrSnoozeTime (stamp : string). (* invalid snooze timestamp: ... *)

Inductive cvalue :=
| VNone                                       (* ignore/... : Value = nil *)
| VInvalid (e : cerr) (line first last : nat) (* Invalid{Err}: Pos = {line, Offset+1, len(s)} *)
| VOwner (name : string) (line : nat)
| VDisable (m : string)
| VSnooze (until : Z) (m : string)
| VRuleSet (v : string).

Record comment := { c_type : ctype; c_off : nat; c_val : cvalue }.

(** [strings.SplitN(s, " ", 2)] *)
Fixpoint split_first_space (s : string) : option (string * string) :=
  match s with
  | EmptyString => None
  | String c r =>
    if Ascii.eqb c " "%char then Some (EmptyString, r)
    else match split_first_space r with
         | Some (a, b) => Some (String c a, b)
         | None => None
         end
  end.

Section WithTime.
Variable tp : string -> option Z.

Definition parse_snooze (s : string) : cvalue + cerr :=
  match split_first_space s with
  | None => inr (ErrSnoozeFormat s)
  | Some (stamp, m) =>
    match tp stamp with
    | Some t => inl (VSnooze t m)
    | None => inr (ErrSnoozeTime stamp)
    end
  end.

Definition is_empty (s : string) : bool := match s with EmptyString => true | _ => false end.

Definition parse_value (typ : ctype) (s : string) (line : nat) : cvalue + cerr :=
  match typ with
  | IgnoreFileType | IgnoreLineType | IgnoreBeginType | IgnoreEndType | IgnoreNextLineType =>
      if is_empty s then inl VNone else inr (ErrSuffix s)
  | FileOwnerType => if is_empty s then inr (ErrMissing typ) else inl (VOwner s line)
  | RuleOwnerType => if is_empty s then inr (ErrMissing typ) else inl (VOwner s 0)
  | FileDisableType | DisableType => if is_empty s then inr (ErrMissing typ) else inl (VDisable s)
  | FileSnoozeType | SnoozeType => if is_empty s then inr (ErrMissing typ) else parse_snooze s
  | RuleSetType => if is_empty s then inr (ErrMissing typ) else inl (VRuleSet s)
  | UnknownType | InvalidComment => inl VNone
  end.

(** ** the 7-state machine of [parseComment] *)
Inductive pstate := NeedsHash | NeedsPrefix | ReadsPrefix | NeedsType | ReadsType | NeedsValue | ReadsValue.

(** [p_buf]: the runes written to the [strings.Builder], most recent first *)
Record pst := { p_state : pstate; p_buf : list N; p_type : ctype; p_off : nat }.

Definition buf_string (b : list N) : string := encode_runes (rev b).

Definition hash : N := 35.
Definition newline : N := 10.
Definition slash : N := 47.
Definition dash : N := 45.

Definition on_hash (i : nat) (st : pst) : pst :=
  {| p_state := NeedsPrefix; p_buf := []; p_type := UnknownType; p_off := i |}.

Definition set_state (st : pst) (s : pstate) : pst :=
  {| p_state := s; p_buf := p_buf st; p_type := p_type st; p_off := p_off st |}.

Definition set_state_reset (st : pst) (s : pstate) : pst :=
  {| p_state := s; p_buf := []; p_type := p_type st; p_off := p_off st |}.

Definition push (st : pst) (r : N) : pst :=
  {| p_state := p_state st; p_buf := r :: p_buf st; p_type := p_type st; p_off := p_off st |}.

Definition step_reads_prefix (st : pst) (r : N) : pst :=
  if is_letter r then push st r
  else if is_space r then
    if String.eqb (buf_string (p_buf st)) prefix then set_state_reset st NeedsType
    else set_state_reset st NeedsHash
  else set_state st NeedsHash.

Definition step_reads_type (st : pst) (r : N) : pst :=
  if is_letter r || (r =? slash)%N || (r =? dash)%N then push st r
  else if is_space r || (r =? newline)%N then
    let t := parse_type (buf_string (p_buf st)) in
    {| p_state := match t with UnknownType => NeedsHash | _ => NeedsValue end;
       p_buf := []; p_type := t; p_off := p_off st |}
  else st.

Definition step_reads_value (st : pst) (r : N) : pst :=
  if (r =? newline)%N then st else push st r.

Definition pstep (st : pst) (ir : nat * N) : pst :=
  let '(i, r) := ir in
  match p_state st with
  | NeedsHash => if (r =? hash)%N then on_hash i st else st
  | NeedsPrefix => if is_space r then st else step_reads_prefix (set_state st ReadsPrefix) r
  | ReadsPrefix => step_reads_prefix st r
  | NeedsType =>
      if (r =? hash)%N then on_hash i st
      else if is_space r then st
      else step_reads_type (set_state st ReadsType) r
  | ReadsType => step_reads_type st r
  | NeedsValue => if is_space r then st else step_reads_value (set_state st ReadsValue) r
  | ReadsValue => step_reads_value st r
  end.

Definition pinit : pst := {| p_state := NeedsHash; p_buf := []; p_type := UnknownType; p_off := 0 |}.

(** [strings.TrimSpace] of a builder holding valid UTF-8 = trim the rune list *)
Fixpoint drop_space (l : list N) : list N :=
  match l with
  | r :: t => if is_space r then drop_space t else l
  | [] => []
  end.

Definition trimmed_value (b : list N) : string :=
  encode_runes (drop_space (rev (drop_space b))).

Definition finish (st : pst) (s : string) (line : nat) : option comment :=
  match p_type st with
  | UnknownType => None
  | t =>
    match parse_value t (trimmed_value (p_buf st)) line with
    | inl v => Some {| c_type := t; c_off := p_off st; c_val := v |}
    | inr e => Some {| c_type := InvalidComment; c_off := p_off st;
                       c_val := VInvalid e line (S (p_off st)) (String.length s) |}
    end
  end.

Definition run_machine (s : string) : pst :=
  fold_left pstep (decode_all (s ++ String (ascii_of_N 10) EmptyString)) pinit.

Definition parse_comment (s : string) (line : nat) : option comment :=
  finish (run_machine s) s line.

(** [strings.Split(text, "\n")] *)
Definition nl : ascii := ascii_of_N 10.

Fixpoint split_nl (s : string) : list string :=
  match s with
  | EmptyString => [EmptyString]
  | String c r =>
    if Ascii.eqb c nl then EmptyString :: split_nl r
    else match split_nl r with
         | h :: t => String c h :: t
         | [] => [String c EmptyString]
         end
  end.

Fixpoint parse_lines (lineno : nat) (ls : list string) : list comment :=
  match ls with
  | [] => []
  | l :: r =>
    match parse_comment l lineno with
    | Some c => c :: parse_lines (S lineno) r
    | None => parse_lines (S lineno) r
    end
  end.

(** Go [comments.Parse(lineno, text)] *)
Definition parse (lineno : nat) (text : string) : list comment := parse_lines lineno (split_nl text).

End WithTime.
