(** C17 platform models: the unified-diff helpers shared by both reporters (parseDiffLines, diffLineFor) and
    GitHub (fixCommentLine, IsEqual, Create's skips, budget, never deletes) / GitLab (reportToGitLabDiscussion
    after fix 38f6be7, List's line/path rule, IsEqual, deletes) as instances of [platform].
    Server behaviour assumed: the API stores and returns the position/line/body it was sent ("echo"). *)
From Coq Require Import List String Ascii ZArith NArith Bool Lia.
From PintV Require Import Common.Bytes Model.CommentsReconcile.
Import ListNotations.
Local Open Scope Z_scope.

(* ---------------------------------------------------------------------------------------------- *)
(** * text helpers *)

Definition nl : ascii := ascii_of_N 10.
Definition cr : ascii := ascii_of_N 13.

Fixpoint drop_nl (l : list ascii) : list ascii :=
  match l with
  | c :: r => if Ascii.eqb c nl then drop_nl r else l
  | [] => []
  end.

(** strings.Trim(s, "\n") *)
Definition trim_nl (s : string) : string := of_list (rev (drop_nl (rev (drop_nl (to_list s))))).

(** bufio.Scanner with ScanLines: split at \n, drop one trailing \r, no token for a trailing empty piece *)
Fixpoint split_lines (l : list ascii) (cur : list ascii) : list (list ascii) :=
  match l with
  | [] => match cur with [] => [] | _ => [rev cur] end
  | c :: r => if Ascii.eqb c nl then rev cur :: split_lines r [] else split_lines r (c :: cur)
  end.

Definition drop_cr (l : list ascii) : list ascii :=
  match rev l with
  | c :: r => if Ascii.eqb c cr then rev r else l
  | [] => l
  end.

Definition scan_lines (s : string) : list (list ascii) := map drop_cr (split_lines (to_list s) []).

Fixpoint has_prefix (p l : list ascii) : bool :=
  match p, l with
  | [], _ => true
  | a :: p', b :: l' => Ascii.eqb a b && has_prefix p' l'
  | _ :: _, [] => false
  end.

Definition is_digit (c : ascii) : bool := let n := N_of_ascii c in (48 <=? n)%N && (n <=? 57)%N.

(** \d+ : greedy; returns the value and the rest *)
Fixpoint digits_acc (l : list ascii) (acc : Z) (seen : bool) : option (Z * list ascii) :=
  match l with
  | c :: r => if is_digit c then digits_acc r (acc * 10 + Z.of_N (N_of_ascii c) - 48) true
              else if seen then Some (acc, l) else None
  | [] => if seen then Some (acc, []) else None
  end.
Definition digits (l : list ascii) := digits_acc l 0 false.

Definition lit (p : string) (l : list ascii) : option (list ascii) :=
  if has_prefix (to_list p) l then Some (skipn (List.length (to_list p)) l) else None.

(** the regexp [@@ \-(\d+),(\d+) \+(\d+),(\d+) @@] matched at the start of [l]: submatches 1 and 3 *)
Definition hunk_at (l : list ascii) : option (Z * Z) :=
  match lit "@@ -" l with None => None | Some l1 =>
  match digits l1 with None => None | Some (o, l2) =>
  match lit "," l2 with None => None | Some l3 =>
  match digits l3 with None => None | Some (_, l4) =>
  match lit " +" l4 with None => None | Some l5 =>
  match digits l5 with None => None | Some (n, l6) =>
  match lit "," l6 with None => None | Some l7 =>
  match digits l7 with None => None | Some (_, l8) =>
  match lit " @@" l8 with None => None | Some _ => Some (o, n)
  end end end end end end end end end.

(** FindStringSubmatch: leftmost match anywhere in the line *)
Fixpoint find_hunk (l : list ascii) : option (Z * Z) :=
  match hunk_at l with
  | Some r => Some r
  | None => match l with [] => None | _ :: r => find_hunk r end
  end.

(* ---------------------------------------------------------------------------------------------- *)
(** * parseDiffLines / diffLineFor *)

Record diff_line := { dl_old : Z; dl_new : Z; dl_mod : bool }.

Fixpoint parse_lines (ls : list (list ascii)) (old new : Z) : list diff_line :=
  match ls with
  | [] => []
  | line :: rest =>
      if has_prefix (to_list "@@") line then
        match find_hunk line with
        | Some (o, n) => parse_lines rest o n
        | None => parse_lines rest old new
        end
      else if has_prefix (to_list "-") line then parse_lines rest (old + 1) new
      else if has_prefix (to_list "+") line then
        {| dl_old := old; dl_new := new; dl_mod := true |} :: parse_lines rest old (new + 1)
      else {| dl_old := old; dl_new := new; dl_mod := false |} :: parse_lines rest (old + 1) (new + 1)
  end.

Definition parse_diff_lines (diff : string) : list diff_line := parse_lines (scan_lines diff) 0 0.

(** the loop of diffLineFor; [prev] = lines[i-1] (None at i = 0) *)
Fixpoint dlf_loop (ls : list diff_line) (prev : option diff_line) (line : Z) : option diff_line :=
  match ls with
  | [] =>
      match prev with
      | None => None                                   (* len(lines) == 0 *)
      | Some last => if dl_new last <? line
                     then Some {| dl_old := dl_old last + (line - dl_new last); dl_new := line; dl_mod := false |}
                     else None
      end
  | dl :: rest =>
      if dl_new dl =? line then Some dl
      else if line <? dl_new dl then
        let lastl := match prev with Some p => p | None => dl end in
        Some {| dl_old := dl_old lastl + (line - dl_new lastl); dl_new := line; dl_mod := false |}
      else dlf_loop rest (Some dl) line
  end.

Definition diff_line_for (ls : list diff_line) (line : Z) : option diff_line := dlf_loop ls None line.

(* ---------------------------------------------------------------------------------------------- *)
(** * comments *)

Record pcomment := { pc_path : string; pc_line : Z; pc_anchor_before : bool; pc_text : string }.
Record ecomment := { ec_path : string; ec_line : Z; ec_text : string }.

(* ---------------------------------------------------------------------------------------------- *)
(** * GitHub *)

(** ghPR.files as (filename, patch) *)
Definition gh_files := list (string * string).

Definition gh_patch (files : gh_files) (path : string) : option string := assoc path files.

(** fixCommentLine: (side = LEFT, line) *)
Definition gh_fix_comment_line (files : gh_files) (p : pcomment) : bool * Z :=
  let diffs := parse_diff_lines (match gh_patch files (pc_path p) with Some s => s | None => "" end) in
  let default :=
    match find (fun d => dl_mod d) diffs with
    | Some d => (false, dl_new d)
    | None => (pc_anchor_before p, pc_line p)
    end in
  match diff_line_for diffs (pc_line p) with
  | Some dl => if dl_mod dl then (pc_anchor_before p, if pc_anchor_before p then dl_old dl else dl_new dl) else default
  | None => default
  end.

Definition gh_is_equal (files : gh_files) (e : ecomment) (p : pcomment) : bool :=
  String.eqb (ec_path e) (pc_path p) && (ec_line e =? snd (gh_fix_comment_line files p)) &&
  String.eqb (trim_nl (ec_text e)) (trim_nl (pc_text p)).

(** Create: silently returns nil (nothing stored) for a path outside the PR or without diff lines *)
Definition gh_create (files : gh_files) (p : pcomment) : option ecomment :=
  match gh_patch files (pc_path p) with
  | None => None
  | Some patch =>
      match parse_diff_lines patch with
      | [] => None
      | _ => Some {| ec_path := pc_path p; ec_line := snd (gh_fix_comment_line files p); ec_text := pc_text p |}
      end
  end.

Definition github (files : gh_files) (max_comments : nat) : platform ecomment pcomment :=
  {| is_equal := gh_is_equal files; can_create := fun done => Nat.ltb done max_comments;
     can_delete := fun _ => false; create := gh_create files |}.

(* ---------------------------------------------------------------------------------------------- *)
(** * GitLab *)

Record gl_diff := { gd_old_path : string; gd_new_path : string; gd_diff : string }.

Record gl_position := { gp_old_path : string; gp_new_path : string; gp_new_line : option Z; gp_old_line : option Z }.

(** reportToGitLabDiscussion (None = no diff for the path: Create returns nil) *)
Definition gl_discussion (diffs : list gl_diff) (p : pcomment) : option gl_position :=
  match find (fun d => String.eqb (gd_new_path d) (pc_path p)) diffs with
  | None => None
  | Some d =>
      let pos nl ol := Some {| gp_old_path := gd_old_path d; gp_new_path := gd_new_path d; gp_new_line := nl; gp_old_line := ol |} in
      match diff_line_for (parse_diff_lines (gd_diff d)) (pc_line p) with
      | None => pos (Some (pc_line p)) (Some (pc_line p))
      | Some dl =>
          if pc_anchor_before p then pos None (Some (pc_line p))
          else if negb (dl_mod dl) then pos (Some (dl_new dl)) (Some (dl_old dl))
          else pos (Some (dl_new dl)) None
      end
  end.

(** GitLabReporter.List on a note whose position is what Create sent (absent line = 0) *)
Definition gl_listed (pos : gl_position) (text : string) : ecomment :=
  let nlv := match gp_new_line pos with Some n => n | None => 0 end in
  let olv := match gp_old_line pos with Some n => n | None => 0 end in
  {| ec_path := if String.eqb (gp_new_path pos) "" then gp_old_path pos else gp_new_path pos;
     ec_line := if 0 <? nlv then nlv else olv;
     ec_text := text |}.

Definition gl_create (diffs : list gl_diff) (p : pcomment) : option ecomment :=
  match gl_discussion diffs p with
  | None => None
  | Some pos => Some (gl_listed pos (pc_text p))
  end.

Definition gl_is_equal (e : ecomment) (p : pcomment) : bool :=
  String.eqb (ec_path e) (pc_path p) && (ec_line e =? pc_line p) &&
  String.eqb (trim_nl (ec_text e)) (trim_nl (pc_text p)).

Definition gitlab (diffs : list gl_diff) (max_comments : nat) : platform ecomment pcomment :=
  {| is_equal := gl_is_equal; can_create := fun done => Nat.ltb done max_comments;
     can_delete := fun _ => true; create := gl_create diffs |}.

(* ---------------------------------------------------------------------------------------------- *)
(** * The platforms over the SERVER's state (what the API holds, not what List shows)

    GitLab: a discussion is seen through its first note; GitLabReporter.List drops the discussion when that note is
    a system note, was written by somebody else, or has no position (a general note); everything else becomes an
    ExistingComment through [gl_listed].  Only listed discussions can be recognised or deleted.
    (A discussion without any note would be listed as a zero comment whose Delete panics on its nil meta; the
    GitLab API does not produce such discussions - assumption "every discussion has a note".) *)
Record gl_note := { gn_system : bool; gn_mine : bool; gn_pos : option gl_position; gn_body : string }.

Definition gl_view (n : gl_note) : option ecomment :=
  if gn_system n then None
  else if negb (gn_mine n) then None
  else match gn_pos n with
       | None => None
       | Some pos => Some (gl_listed pos (gn_body n))
       end.

Definition gl_post (diffs : list gl_diff) (p : pcomment) : option gl_note :=
  match gl_discussion diffs p with
  | None => None
  | Some pos => Some {| gn_system := false; gn_mine := true; gn_pos := Some pos; gn_body := pc_text p |}
  end.

Definition gitlab_srv (diffs : list gl_diff) (max_comments : nat) : platform gl_note pcomment :=
  {| is_equal := fun n p => match gl_view n with Some e => gl_is_equal e p | None => false end;
     can_create := fun done => Nat.ltb done max_comments;
     can_delete := fun n => match gl_view n with Some _ => true | None => false end;
     create := gl_post diffs |}.

(** GitLabReporter.Summary: when there are more reports than maxComments (> 0) a general note (no position) with the
    "too many comments" message is posted - unless a general note of pint's with that very body exists already
    (generalComment looks for it first).  [msg] is the message text (an input: its wording is not modelled). *)
Definition gl_is_general (msg : string) (n : gl_note) : bool :=
  negb (gn_system n) && gn_mine n && (match gn_pos n with None => true | Some _ => false end) && String.eqb (gn_body n) msg.

Definition gl_add_general (msg : string) (store : list gl_note) : list gl_note :=
  if existsb (gl_is_general msg) store then store
  else (store ++ [{| gn_system := false; gn_mine := true; gn_pos := None; gn_body := msg |}])%list.

(** one whole GitLab reporting run: updateDestination's two loops, then Summary *)
Definition gl_run (diffs : list gl_diff) (max_comments nreports : nat) (msg : string)
           (store : list gl_note) (pend : list pcomment) : list gl_note * log gl_note pcomment :=
  let '(s', lg) := step (gitlab_srv diffs max_comments) store pend in
  (if Nat.ltb 0 max_comments && Nat.ltb max_comments nreports then gl_add_general msg s' else s', lg).

(** GitHub: GithubReporter.List drops comments without a path (general comments); nothing is ever deleted. *)
Definition gh_view (c : ecomment) : option ecomment := if String.eqb (ec_path c) "" then None else Some c.

Definition github_srv (files : gh_files) (max_comments : nat) : platform ecomment pcomment :=
  {| is_equal := fun c p => match gh_view c with Some e => gh_is_equal files e p | None => false end;
     can_create := fun done => Nat.ltb done max_comments;
     can_delete := fun _ => false;
     create := gh_create files |}.

(* ---------------------------------------------------------------------------------------------- *)
(** * Historical variant (before fix 38f6be7), kept only for the refutation theorem in Properties/C17.v:
      AnchorBefore comments were posted at [dl.old] of the diff line found for an OLD line number among NEW ones. *)

Definition gl_discussion_prefix (diffs : list gl_diff) (p : pcomment) : option gl_position :=
  match find (fun d => String.eqb (gd_new_path d) (pc_path p)) diffs with
  | None => None
  | Some d =>
      let pos nl ol := Some {| gp_old_path := gd_old_path d; gp_new_path := gd_new_path d; gp_new_line := nl; gp_old_line := ol |} in
      match diff_line_for (parse_diff_lines (gd_diff d)) (pc_line p) with
      | None => pos (Some (pc_line p)) (Some (pc_line p))
      | Some dl =>
          if pc_anchor_before p then pos None (Some (dl_old dl))
          else if negb (dl_mod dl) then pos (Some (dl_new dl)) (Some (dl_old dl))
          else pos (Some (dl_new dl)) None
      end
  end.

Definition gitlab_prefix (diffs : list gl_diff) (max_comments : nat) : platform ecomment pcomment :=
  {| is_equal := gl_is_equal; can_create := fun done => Nat.ltb done max_comments;
     can_delete := fun _ => true;
     create := fun p => match gl_discussion_prefix diffs p with
                        | None => None
                        | Some pos => Some (gl_listed pos (pc_text p))
                        end |}.
