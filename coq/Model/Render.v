(** Index arithmetic of the renderers as far as line ranges go (C02 (4) render_total):
    internal/diags/position.go LineRange.Expand (the `lines` array of the JSON report; since 5f804fb an inverted range
    yields [First] instead of a makeslice panic) and the plain branch of the console reporter (internal/reporter/console.go:
    `for i := First; i <= Last; i++ { if i < 1 || i > len(lines) { continue }; ... lines[i-1] }`, guarded since f44c1ab).
    checkstyle and TeamCity print `Lines.First` only. *)
From Coq Require Import List ZArith Lia String.
From PintV Require Import Model.Routing.
Import ListNotations.
Local Open Scope Z_scope.

Definition zrange (first : Z) (count : nat) : list Z := map (fun i => first + Z.of_nat i) (seq 0 count).

(** LineRange.Expand (fix 5f804fb: an inverted range is rendered as its first line, never a negative capacity) *)
Definition expand (first last : Z) : outcome (list Z) :=
  if last <? first then Ok [first]
  else Ok (zrange first (Z.to_nat (last - first + 1))).

(** console reporter, problem without diagnostics: the 1-based line numbers whose text is printed
    ([nlines] = len(strings.Split(content, "\n"))) *)
Definition console_plain (nlines first last : Z) : list Z :=
  filter (fun i => (1 <=? i) && (i <=? nlines))%bool (zrange first (Z.to_nat (last - first + 1))).

(** internal/diags/problems.go InjectDiagnostics, as far as lines go: [ds] = for every diagnostic the lines of its
    positions ([diag.Pos]); [nlines] = len(strings.Split(content, "\n")).  `lastLine := slices.Max(lineCoverage(diags))`
    panics when no diagnostic has a position; the loop over the source lines prints line i iff i <= lastLine and some
    position lies on it.  Result: the 1-based numbers of the source lines that are printed, in order. *)
Definition inject_lines (nlines : Z) (ds : list (list Z)) : outcome (list Z) :=
  match List.concat ds with
  | [] => Crash "slices.Max: empty list"
  | x :: r =>
      let last := fold_left Z.max r x in
      Ok (filter (fun i => (i <=? last) && existsb (Z.eqb i) (x :: r))%bool (zrange 1 (Z.to_nat nlines)))
  end.
