(** Executable form of the structural premise [shape_doc] of C19_relaxed_eq_strict (Proofs/C19_relaxed.v): facts true of
    every forest yaml.v3 builds; evaluated on every correspondence case by Run/C19.v; soundness in Proofs/C19_shape.v. *)
From Coq Require Import List String Bool.
From PintV Require Import Common.Bytes Model.Yaml.
Import ListNotations.

Definition is_nil {A} (l : list A) : bool := match l with [] => true | _ => false end.
Definition is_none {A} (o : option A) : bool := match o with None => true | Some _ => false end.

Definition shape_node_b (m : node) : bool :=
  ((is_none (n_alias m) || kind_eqb (n_kind m) KAlias) &&
   (negb (kind_eqb (n_kind m) KAlias || kind_eqb (n_kind m) KScalar) || is_nil (n_content m)) &&
   (kind_eqb (n_kind m) KScalar || is_none (n_embedded m)))%bool.

(** every node reachable through content and alias targets *)
Fixpoint shape_all_b (n : node) {struct n} : bool :=
  (shape_node_b n &&
   (fix all (l : list node) : bool := match l with [] => true | c :: r => shape_all_b c && all r end) (n_content n) &&
   match n_alias n with Some t => shape_all_b t | None => true end)%bool.

Definition shaped_b (d : node) : bool :=
  (kind_eqb (n_kind d) KDocument && forallb (fun c => is_none (n_alias c)) (n_content d) && shape_all_b d)%bool.

(** the oracle fact: a scalar tagged !!null for which [null_ok] answers true carries no embedded document *)
Fixpoint null_oracle_all_b (null_ok : node -> bool) (n : node) {struct n} : bool :=
  ((negb (kind_eqb (n_kind n) KScalar && String.eqb (n_tag n) nullTag && null_ok n) || is_none (n_embedded n)) &&
   (fix all (l : list node) : bool := match l with [] => true | c :: r => null_oracle_all_b null_ok c && all r end) (n_content n) &&
   match n_alias n with Some t => null_oracle_all_b null_ok t | None => true end)%bool.
