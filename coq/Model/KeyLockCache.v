(** C14 — sequential model of promapi/cache.go (queryCache.get/set/gc with an injected clock) and of
    promapi/prometheus.go processJob on one job.  Times are Z nanoseconds.  Definitions only. *)
From Coq Require Import List String ZArith NArith Bool.
Import ListNotations.
Local Open Scope Z_scope.

Record centry := mk_centry { ce_val : Z; ce_expires : option Z; ce_lastget : Z }.

Record cstate := mk_cstate {
  cs_entries : list (N * centry);
  cs_evictions : Z;
  cs_hits : Z;
  cs_misses : Z
}.

Definition cache_empty : cstate := mk_cstate [] 0 0 0.

Fixpoint centry_find (k : N) (l : list (N * centry)) : option centry :=
  match l with
  | [] => None
  | (k', e) :: r => if N.eqb k k' then Some e else centry_find k r
  end.

Fixpoint centry_put (k : N) (e : centry) (l : list (N * centry)) : list (N * centry) :=
  match l with
  | [] => [(k, e)]
  | (k', e') :: r => if N.eqb k k' then (k, e) :: r else (k', e') :: centry_put k e r
  end.

(** queryCache.get: a hit refreshes lastGet; expiry is NOT looked at (only gc evicts). *)
Definition cache_get (now : Z) (k : N) (st : cstate) : option Z * cstate :=
  match centry_find k (cs_entries st) with
  | None => (None, mk_cstate (cs_entries st) (cs_evictions st) (cs_hits st) (cs_misses st + 1))
  | Some e =>
      (Some (ce_val e),
       mk_cstate (centry_put k (mk_centry (ce_val e) (ce_expires e) now) (cs_entries st))
                 (cs_evictions st) (cs_hits st + 1) (cs_misses st))
  end.

(** queryCache.set: expiresAt stays zero (never expires by TTL) unless ttl > 0. *)
Definition cache_set (now : Z) (k : N) (v ttl : Z) (st : cstate) : cstate :=
  mk_cstate (centry_put k (mk_centry v (if 0 <? ttl then Some (now + ttl) else None) now) (cs_entries st))
            (cs_evictions st) (cs_hits st) (cs_misses st).

(** queryCache.gc: evict when expired (expiresAt before now) or not read for maxStale. *)
Definition evictable (max_stale now : Z) (e : centry) : bool :=
  match ce_expires e with Some x => x <? now | None => false end || (max_stale <=? now - ce_lastget e).

Definition cache_gc (max_stale now : Z) (st : cstate) : cstate :=
  let keep := filter (fun p => negb (evictable max_stale now (snd p))) (cs_entries st) in
  mk_cstate keep (cs_evictions st + Z.of_nat (List.length (cs_entries st) - List.length keep)) (cs_hits st) (cs_misses st).

(** * processJob *)

Inductive api := ApiQuery | ApiRange | ApiConfig | ApiFlags | ApiMetadata.

Definition api_eqb (a b : api) : bool :=
  match a, b with
  | ApiQuery, ApiQuery | ApiRange, ApiRange | ApiConfig, ApiConfig | ApiFlags, ApiFlags | ApiMetadata, ApiMetadata => true
  | _, _ => false
  end.

(** only the three status/metadata APIs can be marked unsupported *)
Definition can_disable (a : api) : bool :=
  match a with ApiConfig | ApiFlags | ApiMetadata => true | _ => false end.

Inductive outcome := OkVal | ErrGeneric | ErrServer | ErrUnsupportedApi | ErrCanceled.

Record pstate := mk_pstate { ps_cache : cstate; ps_disabled : list api }.

Definition is_disabled (a : api) (l : list api) : bool := existsb (api_eqb a) l.

Local Open Scope string_scope.

(** result: value (0 on error), error class, whether the query ran, new state *)
Definition process_job (now : Z) (k : N) (a : api) (ttl v : Z) (o : outcome) (st : pstate) : Z * string * bool * pstate :=
  match cache_get now k (ps_cache st) with
  | (Some cv, c') => (cv, "", false, mk_pstate c' (ps_disabled st))
  | (None, c') =>
      if is_disabled a (ps_disabled st) then (0%Z, "sentinel", false, mk_pstate c' (ps_disabled st))
      else
        match o with
        | OkVal => (v, "", true, mk_pstate (cache_set now k v ttl c') (ps_disabled st))
        | ErrCanceled => (0%Z, "canceled", true, mk_pstate c' (ps_disabled st))
        | ErrUnsupportedApi =>
            (0%Z, "sentinel", true, mk_pstate c' (if can_disable a then a :: ps_disabled st else ps_disabled st))
        | ErrGeneric => (0%Z, "other", true, mk_pstate c' (ps_disabled st))
        | ErrServer => (0%Z, "api:server_error", true, mk_pstate c' (ps_disabled st))
        end
  end.
