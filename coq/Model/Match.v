(** C09 — model of rule{} match/ignore evaluation.

    Go sources (as they are now):
      internal/config/match.go        Match.IsMatch, MatchLabel.isMatching, MatchAnnotation.isMatching,
                                      parseDurationMatch, durationMatch.isMatch, stateMatches, matchRegex
      internal/config/parsed_rule.go  isMatch, defaultRuleMatch, defaultMatchStates
      internal/discovery/discovery.go Entry.Labels      internal/parser/models.go MergeMaps, setValue

    Oracles (inputs, no assumed behaviour): [full_match p s] = "the whole of s is in L(p)" (Go regexp),
    [parse_dur s] = model.ParseDuration (None = error).  stateMatches / CIStates / AnyStates come from
    Gen/Tables.v (regenerated from the Go AST).  Definitions only. *)
From Coq Require Import List String Ascii ZArith Bool.
From PintV Require Import Common.Bytes Gen.Tables.
Import ListNotations.
Open Scope string_scope.
Open Scope list_scope.

Definition ymap := list (string * string).        (* YamlMap items: (key value, value value) in order *)

Inductive rule_kind := Alerting | Recording | Neither.   (* AlertingRule != nil / RecordingRule != nil / both nil *)

(** the part of a discovery.Entry the conditions look at *)
Record mentry := {
  me_path : string;                     (* e.Path.Name *)
  me_state : string;                    (* name of the ChangeType constant *)
  me_kind : rule_kind;
  me_name : string;                     (* Alert.Value / Record.Value *)
  me_labels : option ymap;              (* rule-level labels, None = no labels key *)
  me_group_labels : option ymap;        (* e.Group != nil && e.Group.Labels != nil *)
  me_annotations : option ymap;         (* AlertingRule.Annotations *)
  me_for : option string;               (* AlertingRule.For *)
  me_keep : option string               (* AlertingRule.KeepFiringFor *)
}.

Record kv_match := { km_key : string; km_value : string }.     (* MatchLabel / MatchAnnotation *)

Record mblock := {                     (* config.Match *)
  m_label : option kv_match;
  m_annotation : option kv_match;
  m_command : option string;
  m_path : string;
  m_name : string;
  m_kind : string;
  m_for : string;
  m_keep : string;
  m_state : list string
}.

(* ---------------------------------------------------------------------------------------------- *)
(** * parser.MergeMaps / setValue and Entry.Labels *)

Fixpoint set_value (items : ymap) (k v : string) : ymap :=
  match items with
  | [] => [(k, v)]
  | (k', v') :: r => if String.eqb k' k then (k', v) :: r else (k', v') :: set_value r k v
  end.

Definition merge_maps (a b : ymap) : ymap := fold_left (fun acc kv => set_value acc (fst kv) (snd kv)) b a.

(** Entry.Labels(): the items a label condition iterates over *)
Definition entry_labels (e : mentry) : ymap :=
  match me_kind e, me_labels e with
  | Alerting, Some l | Recording, Some l =>
      match me_group_labels e with Some g => merge_maps g l | None => l end
  | _, _ => match me_group_labels e with Some g => g | None => [] end
  end.

(** The side effect of MergeMaps on its FIRST argument (the group's label map, shared by every rule of the group).
    Since fix dac9e2b [setValue] REPLACES the element of the cloned slice ([ym.Items[i] = &YamlKeyValue{...}]), so the
    group's own key/value objects are never written: [group_after g l] = the group's labels once Entry.Labels() has run
    for a rule with labels [l]. *)
Definition group_after (g l : ymap) : ymap := g.

(** Before the fix [dst.Items] was a clone of the slice of POINTERS and [ym.Items[i].Value = item.Value] wrote through
    into the group's objects (appended keys did not touch the group).  Kept for the regression theorem. *)
Definition group_after_prefix (g l : ymap) : ymap := firstn (List.length g) (merge_maps g l).

(* ---------------------------------------------------------------------------------------------- *)
(** * durations *)

Inductive dur_op := OpLess | OpLessEqual | OpEqual | OpNotEqual | OpMoreEqual | OpMore.

Definition parse_op (s : string) : option dur_op :=
  if String.eqb s "<" then Some OpLess else if String.eqb s "<=" then Some OpLessEqual
  else if String.eqb s "=" then Some OpEqual else if String.eqb s "!=" then Some OpNotEqual
  else if String.eqb s ">=" then Some OpMoreEqual else if String.eqb s ">" then Some OpMore else None.

(** strings.SplitN(expr, " ", 2) *)
Fixpoint split_space (s : string) : option (string * string) :=
  match s with
  | EmptyString => None
  | String c r =>
      if Ascii.eqb c " "%char then Some (EmptyString, r)
      else match split_space r with
           | Some (a, b) => Some (String c a, b)
           | None => None
           end
  end.

Section Oracles.
  Variable full_match : string -> string -> bool.
  Variable parse_dur : string -> option Z.

  (** parseDurationMatch, with its error: [None] = the config value is rejected where it is validated *)
  Definition parse_duration_match (expr : string) : option (dur_op * Z) :=
    match split_space expr with
    | Some (o, d) => match parse_op o with
                     | Some op => match parse_dur d with Some v => Some (op, v) | None => None end
                     | None => None
                     end
    | None => match parse_dur expr with Some v => Some (OpEqual, v) | None => None end
    end.

  (** what [dm, _ := parseDurationMatch(x)] leaves in [dm] (errors dropped at the use site) *)
  Definition duration_match_dropping_error (expr : string) : dur_op * Z :=
    match split_space expr with
    | Some (o, d) => match parse_op o with
                     | Some op => (op, match parse_dur d with Some v => v | None => 0%Z end)
                     | None => (OpEqual, 0%Z)
                     end
    | None => (OpEqual, match parse_dur expr with Some v => v | None => 0%Z end)
    end.

  (** durationMatch.isMatch *)
  Definition duration_is_match (dm : dur_op * Z) (dur : Z) : bool :=
    match fst dm with
    | OpLess => Z.ltb dur (snd dm)
    | OpLessEqual => Z.leb dur (snd dm)
    | OpEqual => Z.eqb dur (snd dm)
    | OpNotEqual => negb (Z.eqb dur (snd dm))
    | OpMoreEqual => Z.geb dur (snd dm)
    | OpMore => Z.gtb dur (snd dm)
    end.

  (** the [if m.For != ""] block of IsMatch, shared by for and keep_firing_for:
      [true] = the condition does not reject the entry *)
  Definition duration_cond (expr : string) (kind : rule_kind) (field : option string) : bool :=
    match kind, field with
    | Alerting, Some v =>
        let dm := duration_match_dropping_error expr in
        match parse_dur v with
        | Some d => duration_is_match dm d
        | None => true                                  (* unparsable rule value: condition passes *)
        end
    | _, _ => false
    end.

  (* -------------------------------------------------------------------------------------------- *)
  (** * stateMatches, from the generated switch table *)

  Definition state_case_matches (s state : string) : bool :=
    match assoc s state_matches_cases with
    | Some targets => mem_str "*" targets || mem_str state targets
    | None => false
    end.

  Definition state_matches (states : list string) (state : string) : bool :=
    existsb (fun s => state_case_matches s state) states.

  (* -------------------------------------------------------------------------------------------- *)
  (** * Match.IsMatch — the nine conditions in code order, early returns as nested ifs *)

  Definition kv_is_matching (m : kv_match) (items : ymap) : bool :=
    existsb (fun kv => full_match (km_key m) (fst kv) && full_match (km_value m) (snd kv)) items.

  Definition annotation_is_matching (m : kv_match) (e : mentry) : bool :=
    match me_kind e, me_annotations e with
    | Alerting, Some items => kv_is_matching m items
    | _, _ => false
    end.

  Definition match_is_match (cmd : string) (m : mblock) (e : mentry) : bool :=
    if match m_command m with Some c => negb (String.eqb cmd c) | None => false end then false
    else if match m_state m with [] => false | _ => negb (state_matches (m_state m) (me_state e)) end then false
    else if negb (String.eqb (m_kind m) "") &&
            match me_kind e with
            | Alerting => negb (String.eqb (m_kind m) "alerting")
            | Recording => negb (String.eqb (m_kind m) "recording")
            | Neither => false
            end then false
    else if negb (String.eqb (m_path m) "") && negb (full_match (m_path m) (me_path e)) then false
    else if negb (String.eqb (m_name m) "") &&
            match me_kind e with Neither => false | _ => negb (full_match (m_name m) (me_name e)) end then false
    else if match m_label m with Some l => negb (kv_is_matching l (entry_labels e)) | None => false end then false
    else if match m_annotation m with Some a => negb (annotation_is_matching a e) | None => false end then false
    else if negb (String.eqb (m_for m) "") && negb (duration_cond (m_for m) (me_kind e) (me_for e)) then false
    else if negb (String.eqb (m_keep m) "") && negb (duration_cond (m_keep m) (me_kind e) (me_keep e)) then false
    else true.

  (** parsed_rule.go: isMatch *)
  Definition is_match (cmd : string) (e : mentry) (ignore mtch : list mblock) : bool :=
    if existsb (fun i => match_is_match cmd i e) ignore then false
    else match mtch with
         | [] => true
         | _ => existsb (fun m => match_is_match cmd m e) mtch
         end.

  (** parsed_rule.go: defaultMatchStates / defaultRuleMatch *)
  Definition default_match_states (cmd : string) : list string :=
    if String.eqb cmd "ci" then ci_states else any_states.

  Definition empty_block : mblock :=
    {| m_label := None; m_annotation := None; m_command := None; m_path := ""; m_name := ""; m_kind := "";
       m_for := ""; m_keep := ""; m_state := [] |}.

  Definition with_state (m : mblock) (st : list string) : mblock :=
    {| m_label := m_label m; m_annotation := m_annotation m; m_command := m_command m; m_path := m_path m;
       m_name := m_name m; m_kind := m_kind m; m_for := m_for m; m_keep := m_keep m; m_state := st |}.

  Definition default_rule_match (mtch : list mblock) (default_states : list string) : list mblock :=
    match mtch with
    | [] => [with_state empty_block default_states]
    | _ => map (fun m => match m_state m with [] => with_state m default_states | _ => m end) mtch
    end.

  (** whether the checks of a rule{} block are applied to an entry (newParsedRule + isMatch in GetChecksForEntry) *)
  Definition rule_block_applies (cmd : string) (e : mentry) (ignore mtch : list mblock) : bool :=
    is_match cmd e ignore (default_rule_match mtch (default_match_states cmd)).

  (* -------------------------------------------------------------------------------------------- *)
  (** * The documented meaning (docs/configuration.md, "Matching rules to checks") *)

  (** effective labels of a rule: group labels overridden / extended by the rule's own labels *)
  Definition doc_labels (e : mentry) : ymap :=
    let own := match me_kind e, me_labels e with Neither, _ => [] | _, Some l => l | _, None => [] end in
    let grp := match me_group_labels e with Some g => g | None => [] end in
    filter (fun kv => negb (existsb (fun o => String.eqb (fst o) (fst kv)) own)) grp ++ own.

  Definition doc_cmp (op : dur_op) (a b : Z) : bool :=
    match op with
    | OpLess => Z.ltb a b | OpLessEqual => Z.leb a b | OpEqual => Z.eqb a b
    | OpNotEqual => negb (Z.eqb a b) | OpMoreEqual => Z.leb b a | OpMore => Z.ltb b a
    end.

  (** "only alerting rules with the field present and matching the provided value"; the operator/duration of a
      condition that does not parse is read as [= 0] / duration 0 (keep_firing_for is not validated at load), and a
      rule value that is not a duration satisfies the condition — both stated here as part of the spec. *)
  Definition doc_duration (expr : string) (e : mentry) (field : option string) : bool :=
    match me_kind e, field with
    | Alerting, Some v =>
        match parse_dur v with
        | None => true
        | Some d => let dm := duration_match_dropping_error expr in doc_cmp (fst dm) d (snd dm)
        end
    | _, _ => false
    end.

  Definition doc_state_name (s : string) : option string :=   (* documented state word -> ChangeType constant *)
    if String.eqb s "added" then Some "Added" else if String.eqb s "modified" then Some "Modified"
    else if String.eqb s "renamed" then Some "Moved" else if String.eqb s "removed" then Some "Removed"
    else if String.eqb s "unmodified" then Some "Noop" else None.

  Definition doc_state (states : list string) (state : string) : bool :=
    existsb (fun s => String.eqb s "any" ||
                      match doc_state_name s with Some n => String.eqb n state | None => false end) states.

  Inductive cond := CCommand | CState | CKind | CPath | CName | CLabel | CAnnotation | CFor | CKeep.
  Definition all_conditions := [CCommand; CState; CKind; CPath; CName; CLabel; CAnnotation; CFor; CKeep].

  (** one condition holds (an unset condition holds) *)
  Definition cond_holds (cmd : string) (m : mblock) (e : mentry) (c : cond) : bool :=
    match c with
    | CCommand => match m_command m with None => true | Some c => String.eqb cmd c end
    | CState => match m_state m with [] => true | st => doc_state st (me_state e) end
    | CKind => String.eqb (m_kind m) "" ||
               match me_kind e with
               | Alerting => String.eqb (m_kind m) "alerting"
               | Recording => String.eqb (m_kind m) "recording"
               | Neither => true
               end
    | CPath => String.eqb (m_path m) "" || full_match (m_path m) (me_path e)
    | CName => String.eqb (m_name m) "" || match me_kind e with Neither => true | _ => full_match (m_name m) (me_name e) end
    | CLabel => match m_label m with
                | None => true
                | Some l => existsb (fun kv => full_match (km_key l) (fst kv) && full_match (km_value l) (snd kv)) (doc_labels e)
                end
    | CAnnotation => match m_annotation m with
                     | None => true
                     | Some a => match me_kind e, me_annotations e with
                                 | Alerting, Some items =>
                                     existsb (fun kv => full_match (km_key a) (fst kv) && full_match (km_value a) (snd kv)) items
                                 | _, _ => false
                                 end
                     end
    | CFor => String.eqb (m_for m) "" || doc_duration (m_for m) e (me_for e)
    | CKeep => String.eqb (m_keep m) "" || doc_duration (m_keep m) e (me_keep e)
    end.

  Definition all_conds (cmd : string) (m : mblock) (e : mentry) : bool :=
    forallb (cond_holds cmd m e) all_conditions.

  (** match blocks without a state get the command's default; ignore blocks get none; no match block at all
      = one match block with only the default state *)
  Definition doc_default_states (cmd : string) : list string :=
    if String.eqb cmd "ci" then ["added"; "modified"; "renamed"; "removed"] else ["any"].

  Definition doc_with_default_state (cmd : string) (mtch : list mblock) : list mblock :=
    match mtch with
    | [] => [with_state empty_block (doc_default_states cmd)]
    | _ => map (fun m => match m_state m with [] => with_state m (doc_default_states cmd) | _ => m end) mtch
    end.

  Definition doc_applies (cmd : string) (e : mentry) (ignore mtch : list mblock) : bool :=
    negb (existsb (fun i => all_conds cmd i e) ignore) &&
    existsb (fun m => all_conds cmd m e) (doc_with_default_state cmd mtch).

  (** raw form used for rule{enable/disable}: no state defaulting, "no match block" = matches *)
  Definition doc_selects (cmd : string) (e : mentry) (ignore mtch : list mblock) : bool :=
    negb (existsb (fun i => all_conds cmd i e) ignore) &&
    match mtch with [] => true | _ => existsb (fun m => all_conds cmd m e) mtch end.
End Oracles.
