(** C13 — executable model of internal/promapi/range.go (sliceRange, the slice bookkeeping of
    Prometheus.RangeQuery) and internal/promapi/range_normalize.go (AppendSampleToRanges, ExpandRangesEnd,
    Overlaps, MergeRanges, sort.Stable(MetricTimeRanges), FindGaps) over [Z] nanoseconds.

    Definitions only.  [time.Time] = ns since the Unix epoch, [time.Duration] = ns, a series is identified by
    its [Fingerprint] (labels.Hash, a uint64 = [N]); labels themselves only matter for the relative order of
    *different* series in the output, which is not part of the property and is projected away (see
    [canon]).  Non-structural Go loops carry explicit fuel and return [None] when it runs out. *)
From Coq Require Import List ZArith NArith Bool Lia.
From PintV Require Import Common.GoTime.
Import ListNotations.
Open Scope Z_scope.

Record range := mkR { r_fp : N; r_start : Z; r_end : Z }.

Definition tr := (Z * Z)%type.          (* promapi.TimeRange{Start,End} *)

Definition range_eqb (a b : range) : bool :=
  (r_fp a =? r_fp b)%N && (r_start a =? r_start b) && (r_end a =? r_end b).

(* ------------------------------------------------------------------------------------------ *)
(** * sliceRange(start, end, resolution, sliceSize) *)

(** the [for rstart.Before(end)] loop *)
Fixpoint slice_loop (fuel : nat) (rstart end_ size : Z) : option (list tr) :=
  match fuel with
  | O => None
  | S f =>
      if rstart <? end_ then
        let e := rstart + size in
        let e' := if end_ <? e then end_ else e in
        match slice_loop f (rstart + size) end_ size with
        | None => None
        | Some l => Some ((rstart, e') :: l)
        end
      else Some []
  end.

(** the final loop: every slice but the last ends one second earlier *)
Fixpoint trim_ends (l : list tr) : list tr :=
  match l with
  | [] => []
  | [x] => [x]
  | (s, e) :: r => (s, e - sec) :: trim_ends r
  end.

Definition slice_range (fuel : nat) (start end_ resolution size : Z) : option (list tr) :=
  if end_ - start <=? resolution then Some [(start, end_)]
  else
    let rstart := time_round start size in
    let pre := if start <? rstart
               then [(rstart - size, if end_ <? rstart then end_ else rstart)]
               else [] in
    match slice_loop fuel rstart end_ size with
    | None => None
    | Some l => Some (trim_ends (pre ++ l))
    end.

(** The slice bookkeeping at the top of Prometheus.RangeQuery (after fix 43069bd):
    queryStep := (2h).Round(step); queryStep <= 0 || queryStep > lookback => one slice. *)
Definition slice_size (step : Z) : Z := duration_round (2 * hour) step.

Definition query_slices (fuel : nat) (start end_ lookback step : Z) : option (list tr) :=
  let q := slice_size step in
  if (q <=? 0) || (lookback <? q) then Some [(start, end_)]
  else slice_range fuel start end_ step q.

(** fuel that always suffices when the slice size is positive (proved in Proofs/C13_slice.v) *)
Definition slice_fuel (start end_ size : Z) : nat :=
  Z.to_nat ((end_ - start) / size + 3).

(* ------------------------------------------------------------------------------------------ *)
(** * AppendSampleToRanges / ExpandRangesEnd *)

(** one sample [ts] of series [fp] against [dst]: first matching element wins (the Go loop [break]s) *)
Fixpoint append_one (dst : list range) (fp : N) (ts step : Z) : list range * bool :=
  match dst with
  | [] => ([], false)
  | d :: r =>
      if negb (r_fp d =? fp)%N then
        let '(r', f) := append_one r fp ts step in (d :: r', f)
      else if (r_start d - step <=? ts) && (ts <=? r_start d) then
        (mkR (r_fp d) ts (r_end d) :: r, true)
      else if (r_start d <=? ts) && (ts <=? r_end d + step) then
        (mkR (r_fp d) (r_start d) ts :: r, true)
      else
        let '(r', f) := append_one r fp ts step in (d :: r', f)
  end.

Definition append_sample (dst : list range) (fp : N) (step ts : Z) : list range :=
  let '(d', f) := append_one dst fp ts step in
  if f then d' else dst ++ [mkR fp ts ts].

Definition append_samples (dst : list range) (fp : N) (vals : list Z) (step : Z) : list range :=
  fold_left (fun d ts => append_sample d fp step ts) vals dst.

Definition expand_end (src : list range) (step : Z) : list range :=
  map (fun r => mkR (r_fp r) (r_start r) (r_end r + (step - sec))) src.

(* ------------------------------------------------------------------------------------------ *)
(** * Overlaps(a, b, step): the nine cases, in source order *)

Definition overlaps (a b : range) (step : Z) : option tr :=
  let s1 := r_start a in let e1 := r_end a in
  let s2 := r_start b in let e2 := r_end b in
  if negb (r_fp a =? r_fp b)%N then None
  else if (Z.abs (s1 - s2) <=? step) && (Z.abs (e1 - e2) <=? step) then Some (Z.min s1 s2, Z.max e1 e2)   (* 1 *)
  else if (s1 <? s2) && (s2 <? e1) && (e1 <? e2) then Some (s1, e2)                                       (* 2 *)
  else if (s2 <? s1) && (s1 <? e2) && (e2 <? e1) then Some (s2, e1)                                       (* 3 *)
  else if (s1 <? s2) && (e1 <? e2) && (Z.abs (e1 - s2) <=? step) then Some (s1, e2)                       (* 4 *)
  else if (s2 <? s1) && (e2 <? e1) && (Z.abs (s1 - e2) <=? step) then Some (s2, e1)                       (* 5 *)
  else if (s1 <? s2) && (e2 <? e1) then Some (s1, e1)                                                     (* 6 *)
  else if (Z.abs (s1 - s2) <=? step) && (e2 <? e1) then Some (Z.min s1 s2, e1)                            (* 7 *)
  else if (s1 <? s2) && (Z.abs (e1 - e2) <=? step) then Some (s1, Z.max e1 e2)                            (* 8 *)
  else if (s2 <? s1) && (e1 <? e2) then Some (s2, e2)                                                     (* 9 *)
  else None.

(* ------------------------------------------------------------------------------------------ *)
(** * sort.Stable(MetricTimeRanges) restricted to one series: stable, by Start *)

Fixpoint insert_by_start (x : range) (l : list range) : list range :=
  match l with
  | [] => [x]
  | y :: r => if r_start y <? r_start x then y :: insert_by_start x r else x :: y :: r
  end.

Fixpoint sort_by_start (l : list range) : list range :=
  match l with
  | [] => []
  | x :: r => insert_by_start x (sort_by_start r)
  end.

(** fingerprints in order of first occurrence *)
Fixpoint fps_of (l : list range) (seen : list N) : list N :=
  match l with
  | [] => []
  | x :: r => if existsb (N.eqb (r_fp x)) seen then fps_of r seen else r_fp x :: fps_of r (r_fp x :: seen)
  end.

Definition group_of (fp : N) (l : list range) : list range := filter (fun x => (r_fp x =? fp)%N) l.

Fixpoint insert_N (x : N) (l : list N) : list N :=
  match l with
  | [] => [x]
  | y :: r => if (y <? x)%N then y :: insert_N x r else x :: y :: r
  end.

Definition sorted_fps (l : list range) : list N := fold_right insert_N [] (fps_of l []).

(** Canonical projection of a multi-series list: series by ascending fingerprint, each series' ranges in
    their relative order.  (Go orders different series by labelsBefore after iterating a map; that order is
    not an observable of the property.) *)
Definition canon (l : list range) : list range := flat_map (fun fp => group_of fp l) (sorted_fps l).

(** the same with every series stably sorted by Start: the per-series content of sort.Stable(l) *)
Definition canon_sorted (l : list range) : list range :=
  flat_map (fun fp => sort_by_start (group_of fp l)) (sorted_fps l).

(* ------------------------------------------------------------------------------------------ *)
(** * MergeRanges *)

(** [for i := range merged[fp] { if Overlaps(merged[fp][i], src) {...} }]: no break, [src] is merged into
    every element it overlaps. *)
Fixpoint absorb (step : Z) (src : range) (l : list range) : list range * bool :=
  match l with
  | [] => ([], false)
  | m :: r =>
      let '(r', f) := absorb step src r in
      match overlaps m src step with
      | Some (s, e) => (mkR (r_fp m) s e :: r', true)
      | None => (m :: r', f)
      end
  end.

Definition groups := list (N * list range).

Fixpoint upd_group (step : Z) (src : range) (gs : groups) : groups * bool :=
  match gs with
  | [] => ([(r_fp src, [src])], false)
  | (fp, l) :: r =>
      if (fp =? r_fp src)%N then
        let '(l', f) := absorb step src l in
        ((fp, if f then l' else l ++ [src]) :: r, f)
      else
        let '(r', f) := upd_group step src r in ((fp, l) :: r', f)
  end.

Definition merge_pass (step : Z) (source : list range) : groups * bool :=
  fold_left (fun st src => let '(gs, had) := st in
                           let '(gs', f) := upd_group step src gs in (gs', had || f))
            source ([], false).

(** map with failure *)
Fixpoint all_some {A} (l : list (option A)) : option (list A) :=
  match l with
  | [] => Some []
  | Some x :: r => match all_some r with Some r' => Some (x :: r') | None => None end
  | None :: _ => None
  end.

(** MergeRanges(source, step) = (result, hadMerged).  The result is returned in the canonical projection
    (series in first-occurrence order); within a series the order is Go's: [source] itself when nothing
    merged, otherwise the stably sorted fixpoint.  Recursion depth and the inner [for ok] loop are both
    bounded by [fuel]. *)
Fixpoint merge_ranges (fuel : nat) (step : Z) (source : list range) : option (list range * bool) :=
  match fuel with
  | O => None
  | S f =>
      let '(gs, had) := merge_pass step source in
      if negb had then Some (source, false)
      else
        let fix_group := fix loop (n : nat) (l : list range) : option (list range) :=
          match n with
          | O => None
          | S n' => match merge_ranges f step l with
                    | None => None
                    | Some (l', true) => loop n' l'
                    | Some (l', false) => Some l'
                    end
          end in
        match all_some (map (fun g => fix_group (S (length (snd g))) (snd g)) gs) with
        | None => None
        | Some ls => Some (flat_map sort_by_start ls, true)
        end
  end.

(** what RangeQuery does with the concatenated slice results:
    [if len > 1 { Ranges, _ = MergeRanges(Ranges, step) }; sort.Stable(Ranges)] *)
Definition finalize (fuel : nat) (step : Z) (l : list range) : option (list range) :=
  match l with
  | [] | [_] => Some (canon_sorted l)
  | _ => match merge_ranges fuel step l with
         | None => None
         | Some (l', _) => Some (canon_sorted l')
         end
  end.

Definition merge_fuel (l : list range) : nat := S (S (length l)).

(* ------------------------------------------------------------------------------------------ *)
(** * SeriesTimeRanges.covers / FindGaps *)

Definition covers (rs : list range) (ts : Z) : bool :=
  existsb (fun r => (r_start r <=? ts) && (ts <=? r_end r)) rs.

Fixpoint extend_gap (gaps : list tr) (from step : Z) : list tr * bool :=
  match gaps with
  | [] => ([], false)
  | (s, e) :: r =>
      if (s <=? from) && (from <=? e + step) then ((s, from + step) :: r, true)
      else let '(r', f) := extend_gap r from step in ((s, e) :: r', f)
  end.

Fixpoint find_gaps (fuel : nat) (ranges baseline : list range) (gaps : list tr) (step from until : Z)
  : option (list tr) :=
  match fuel with
  | O => None
  | S f =>
      if until <? from then Some gaps
      else if covers ranges from || negb (covers baseline from) then
        find_gaps f ranges baseline gaps step (from + step) until
      else
        let '(g', found) := extend_gap gaps from step in
        let g'' := if found then g' else gaps ++ [(from, from + step)] in
        find_gaps f ranges baseline g'' step (from + step) until
  end.
