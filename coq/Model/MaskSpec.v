(** The documented meaning of the ignore comments (docs/ignoring.md) as a 3-state machine.

    States: [SNormal next] (outside any exclusion; [next] = the previous line carried ignore/next-line),
    [SBlock] (between ignore/begin and ignore/end), [SFile] (after ignore/file).
    In an excluded position a line is blanked ENTIRELY and is INERT: whatever it contains (also text that
    looks like a pint control comment) neither changes the state, nor is collected, nor survives —
    with the one exception the documentation implies: ignore/end terminates its block (the line carrying
    it is not excluded).  On an ignore/line (and ignore/file) line the bytes in front of the directive are
    blanked, the directive itself stays. *)
From Coq Require Import List String Ascii NArith ZArith Bool Arith.
From PintV Require Import Common.Bytes Model.CommentsUnicode Model.Comments Model.Reader.
Import ListNotations.
Open Scope string_scope.
Open Scope list_scope.

Inductive sstate := SNormal (next : bool) | SBlock | SFile.

Inductive action := Keep | BlankAll | BlankPrefix (off : nat).

(** what the spec does with a line whose (only) pint comment is [oc]:
    (next state, masking action, collected file-level comments, ignore/file diagnostic column) *)
Definition spec_action (st : sstate) (oc : option comment) : sstate * action * list comment * option nat :=
  match st with
  | SFile => (SFile, BlankAll, [], None)
  | SBlock =>
      match oc with
      | Some c => match c_type c with
                  | IgnoreEndType => (SNormal false, Keep, [], None)
                  | _ => (SBlock, BlankAll, [], None)
                  end
      | None => (SBlock, BlankAll, [], None)
      end
  | SNormal true => (SNormal false, BlankAll, [], None)
  | SNormal false =>
      match oc with
      | None => (st, Keep, [], None)
      | Some c =>
        match c_type c with
        | IgnoreFileType => (SFile, BlankPrefix (c_off c), [], Some (c_off c))
        | IgnoreLineType => (st, BlankPrefix (c_off c), [], None)
        | IgnoreNextLineType => (SNormal true, Keep, [], None)
        | IgnoreBeginType => (SBlock, Keep, [], None)
        | IgnoreEndType => (st, Keep, [], None)
        | FileOwnerType | FileDisableType | FileSnoozeType | InvalidComment => (st, Keep, [c], None)
        | RuleOwnerType | DisableType | SnoozeType | RuleSetType | UnknownType => (st, Keep, [], None)
        end
      end
  end.

Definition apply_action (a : action) (buf : string) : string :=
  match a with
  | Keep => buf
  | BlankAll => blank_from 0 0 true buf
  | BlankPrefix off => blank_from 0 off false buf
  end.

Record sd := {
  s_st : sstate;
  s_out : string;
  s_lines : list string;
  s_comments : list comment;
  s_diags : list diag;
  s_lineno : nat
}.

Definition sd_init : sd :=
  {| s_st := SNormal false; s_out := EmptyString; s_lines := []; s_comments := []; s_diags := []; s_lineno := 0 |}.

Section WithTime.
Variable tp : string -> option Z.

(** the pint comment of a chunk = the comment of its line (without the newline) *)
Definition line_comment (lineno : nat) (buf : string) : option comment := parse_comment tp (strip_nl buf) lineno.

Definition spec_line (r : sd) (buf : string) : sd :=
  let lineno := S (s_lineno r) in
  let '(st', a, cs, d) := spec_action (s_st r) (line_comment lineno buf) in
  let buf' := apply_action a buf in
  {| s_st := st'; s_out := append (s_out r) buf'; s_lines := s_lines r ++ [strip_nl buf'];
     s_comments := s_comments r ++ cs;
     s_diags := s_diags r ++ match d with
                             | Some off => [(lineno, S off, Nat.pred (String.length buf))]
                             | None => []
                             end;
     s_lineno := lineno |}.

Definition spec_chunks (bs : list string) (r : sd) : sd := fold_left spec_line bs r.

Definition reader_spec (f : string) : sd := spec_chunks (chunks f) sd_init.

(** ** excluded content and the guard of the refinement theorem *)

(** the lines the spec excludes entirely, as (state in which the line is read, line number, text) *)
Fixpoint excluded_lines (st : sstate) (lineno : nat) (bs : list string) : list (sstate * nat * string) :=
  match bs with
  | [] => []
  | b :: t =>
    let n := S lineno in
    let '(st', a, _, _) := spec_action st (line_comment n b) in
    match a with
    | BlankAll => (st, n, b) :: excluded_lines st' n t
    | _ => excluded_lines st' n t
    end
  end.

(** guard of the refinement theorem: some excluded line parses to a pint control comment *)
Definition has_comment (x : sstate * nat * string) : bool :=
  match line_comment (snd (fst x)) (snd x) with Some _ => true | None => false end.

Definition control_comment_in_excluded_text (f : string) : bool :=
  existsb has_comment (excluded_lines (SNormal false) 0 (chunks f)).

(** known-finding class predicate (mirrored in harness/C10/c10.go c10Excluded): the subset of the guard where the
    unchanged code really lets the comment through to the result — any pint comment on a line excluded by
    ignore/next-line or inside begin..end; after ignore/file only rule-type comments (their surviving text can attach
    to a rule above; file-level and invalid comments are not collected there and ignore comments have no effect). *)
Definition leaks (x : sstate * nat * string) : bool :=
  match line_comment (snd (fst x)) (snd x) with
  | None => false
  | Some c => match fst (fst x) with
              | SFile => is_rule_comment (c_type c)
              | _ => true
              end
  end.

Definition known_leak_class (f : string) : bool :=
  existsb leaks (excluded_lines (SNormal false) 0 (chunks f)).

End WithTime.
