(** Model of internal/discovery/git_branch.go as of /repo HEAD (after fix commits a826206 and 4412e3a):
    [matchEntries] (two passes: identical first, then by name), [findRulesByName], [isEntryIdentical]
    (sorted lists of disabled checks), [commonLines], the state assignment of [GitBranchFinder.Find]
    and the merge of the branch entries into the glob entry list.

    Rules are abstracted to (kind, name, content id, lines, rule-error flag); the content id [e_cid] is
    the class of the rule under [parser.Rule.IsIdentical] (computed by the harness with the real function,
    which also checks that the relation is an equivalence on the rules of the case).  Executable
    definitions only; proofs are in Proofs/C03_*.v. *)
From Coq Require Import List String ZArith NArith Bool.
From PintV Require Import Common.Bytes.
Import ListNotations.
Open Scope string_scope.

(** parser.RuleType *)
Inductive kind := KAlerting | KRecording | KInvalid.

Definition kind_eqb (a b : kind) : bool :=
  match a, b with
  | KAlerting, KAlerting | KRecording, KRecording | KInvalid, KInvalid => true
  | _, _ => false
  end.

(** discovery.ChangeType; order = Go iota (checked against Gen/Tables.change_type_consts in Properties/C03.v) *)
Inductive state := Unknown | Noop | Added | Modified | Removed | Moved.

Definition state_eqb (a b : state) : bool :=
  match a, b with
  | Unknown, Unknown | Noop, Noop | Added, Added | Modified, Modified | Removed, Removed | Moved, Moved => true
  | _, _ => false
  end.

Definition state_name (s : state) : string :=
  match s with
  | Unknown => "Unknown" | Noop => "Noop" | Added => "Added"
  | Modified => "Modified" | Removed => "Removed" | Moved => "Moved"
  end.

Definition state_index (s : state) : Z :=
  match s with
  | Unknown => 0 | Noop => 1 | Added => 2 | Modified => 3 | Removed => 4 | Moved => 5
  end%Z.

(** discovery.Entry, projected.  [e_uid] is an identity given by the harness (position in the
    before/after list); no decision of the model reads it, it only lets the correspondence say *which*
    base rule was paired. *)
Record entry := {
  e_uid : N;
  e_path : string;           (* Path.Name *)
  e_target : string;         (* Path.SymlinkTarget *)
  e_perr : bool;             (* PathError != nil *)
  e_kind : kind;             (* Rule.Type() *)
  e_name : string;           (* Rule.Name() *)
  e_cid : N;                 (* class under Rule.IsIdentical *)
  e_first : Z;               (* Rule.Lines.First *)
  e_last : Z;                (* Rule.Lines.Last *)
  e_rerr : bool;             (* Rule.Error.Err != nil *)
  e_disabled : list string;  (* DisabledChecks (file/disable + active file/snooze), in file order *)
  e_mod : list Z;            (* ModifiedLines *)
  e_state : state
}.

Definition set_state (e : entry) (s : state) (ml : list Z) : entry :=
  {| e_uid := e_uid e; e_path := e_path e; e_target := e_target e; e_perr := e_perr e; e_kind := e_kind e;
     e_name := e_name e; e_cid := e_cid e; e_first := e_first e; e_last := e_last e; e_rerr := e_rerr e;
     e_disabled := e_disabled e; e_mod := ml; e_state := s |}.

(** parser.Rule.IsIdentical on the abstraction *)
Definition is_identical (a b : entry) : bool :=
  kind_eqb (e_kind a) (e_kind b) && N.eqb (e_cid a) (e_cid b).

(** Go string order is byte-wise lexicographic = String.compare *)
Definition str_leb (a b : string) : bool :=
  match String.compare a b with Gt => false | _ => true end.

Fixpoint insert_str (x : string) (l : list string) : list string :=
  match l with
  | [] => [x]
  | y :: r => if str_leb x y then x :: l else y :: insert_str x r
  end.

Fixpoint sort_str (l : list string) : list string :=
  match l with
  | [] => []
  | x :: r => insert_str x (sort_str r)
  end.

Fixpoint list_str_eqb (a b : list string) : bool :=
  match a, b with
  | [], [] => true
  | x :: a', y :: b' => String.eqb x y && list_str_eqb a' b'
  | _, _ => false
  end.

(** isEntryIdentical (after fix a826206: both lists are cloned and sorted before the comparison) *)
Definition entry_identical (b a : entry) : bool :=
  list_str_eqb (sort_str (e_disabled b)) (sort_str (e_disabled a)).

(** matchedEntry.  Go's struct has two booleans hasBefore/hasAfter; matchEntries never builds the
    combination (false,false), so the model uses three constructors. *)
Inductive matched :=
| OnlyAfter (a : entry)
| Both (b a : entry) (ident moved : bool)
| OnlyBefore (b : entry).

Definition moved (a b : entry) : bool := negb (String.eqb (e_path a) (e_path b)).

(** first [b] of [bs] with [a.Rule.IsIdentical(b.Rule)], and [bs] without it (slices.Delete of a clone) *)
Fixpoint take_identical (a : entry) (bs : list entry) : option (entry * list entry) :=
  match bs with
  | [] => None
  | b :: r =>
    if is_identical a b then Some (b, r)
    else match take_identical a r with
         | Some (x, r') => Some (x, b :: r')
         | None => None
         end
  end.

(** First pass of matchEntries. *)
Fixpoint pass1 (after before : list entry) : list matched * list entry :=
  match after with
  | [] => ([], before)
  | a :: r =>
    if String.eqb (e_name a) "" then
      let '(ml, bf) := pass1 r before in (OnlyAfter a :: ml, bf)
    else
      match take_identical a before with
      | Some (b, before') =>
        let '(ml, bf) := pass1 r before' in
        (Both b a (entry_identical b a) (moved a b) :: ml, bf)
      | None =>
        let '(ml, bf) := pass1 r before in (OnlyAfter a :: ml, bf)
      end
  end.

(** findRulesByName's predicate *)
Definition by_name (name : string) (k : kind) (e : entry) : bool :=
  negb (e_perr e) && kind_eqb (e_kind e) k && String.eqb (e_name e) name.

(** findRulesByName returns (nomatch, match), both in order *)
Definition find_rules_by_name (es : list entry) (name : string) (k : kind) : list entry * list entry :=
  (filter (fun e => negb (by_name name k e)) es, filter (by_name name k) es).

(** Second pass of matchEntries. *)
Fixpoint pass2 (ml : list matched) (before : list entry) : list matched * list entry :=
  match ml with
  | [] => ([], before)
  | OnlyAfter a :: r =>
    let '(nomatch, matches) := find_rules_by_name before (e_name a) (e_kind a) in
    match matches with
    | [] => let '(ml', bf) := pass2 r nomatch in (OnlyAfter a :: ml', bf)
    | [b] => let '(ml', bf) := pass2 r nomatch in (Both b a false (moved a b) :: ml', bf)
    | _ => let '(ml', bf) := pass2 r (nomatch ++ matches) in (OnlyAfter a :: ml', bf)
    end
  | m :: r => let '(ml', bf) := pass2 r before in (m :: ml', bf)
  end.

Definition match_entries (before after : list entry) : list matched :=
  let '(ml1, b1) := pass1 after before in
  let '(ml2, b2) := pass2 ml1 b1 in
  ml2 ++ map OnlyBefore b2.

(** commonLines *)
Definition memZ (x : Z) (l : list Z) : bool := existsb (Z.eqb x) l.

Fixpoint common_tail (a b acc : list Z) : list Z :=
  (* second loop: for bi in b: if bi in a and not in common then append *)
  match b with
  | [] => acc
  | bi :: r => if memZ bi a && negb (memZ bi acc) then common_tail a r (acc ++ [bi]) else common_tail a r acc
  end.

Definition common_lines (a b : list Z) : list Z :=
  common_tail a b (filter (fun ai => memZ ai b) a).

(** git.CountLines of a body with [n] lines *)
Definition count_lines (n : N) : list Z := map Z.of_nat (seq 1 (N.to_nat n)).

(** One file change as GitBranchFinder.Find sees it. *)
Record change_in := {
  ci_before : list entry;     (* readRules(Body.Before) *)
  ci_after : list entry;      (* readRules(Body.After) *)
  ci_mod : list Z;            (* change.Body.ModifiedLines (from git blame; an input) *)
  ci_after_lines : N          (* number of lines of Body.After (for CountLines) *)
}.

Definition failed (after : list entry) : bool := existsb e_perr after.

(** the switch in the loop over matchEntries(...) *)
Definition assign (c : change_in) (m : matched) : list entry :=
  match m with
  | OnlyAfter a => [set_state a Added (common_lines (ci_mod c) (e_mod a))]
  | Both b a ident mv =>
    if ident && negb mv then [set_state a Noop []]
    else if mv then [set_state a Moved (count_lines (ci_after_lines c))]
    else [set_state a Modified (common_lines (ci_mod c) (e_mod a))]
  | OnlyBefore b =>
    if failed (ci_after c) then []
    else let ml := common_lines (ci_mod c) (e_mod b) in
         [set_state b Removed (match ml with [] => e_mod b | _ => ml end)]
  end.

Definition change_entries (c : change_in) : list entry :=
  flat_map (assign c) (match_entries (ci_before c) (ci_after c)).

Definition branch_entries (cs : list change_in) : list entry := flat_map change_entries cs.

(** parser.Rule.IsSame.  Rule.Error values of two separate parses are distinct error instances, so a
    rule with an error is never "the same" as its re-parsed copy; such rules are kept out of the
    end-to-end cases and the model answers [false] for them. *)
Definition is_same (a b : entry) : bool :=
  kind_eqb (e_kind a) (e_kind b) && negb (e_rerr a) && negb (e_rerr b) &&
  Z.eqb (e_first a) (e_first b) && Z.eqb (e_last a) (e_last b).

(** the merge loop at the end of Find: a non-removed branch entry overwrites State/ModifiedLines of the
    first glob entry with the same path and IsSame rule, otherwise it is appended *)
Fixpoint update_first (e : entry) (all : list entry) : option (list entry) :=
  match all with
  | [] => None
  | g :: r =>
    if String.eqb (e_path e) (e_path g) && is_same (* entry.Rule.IsSame(globEntry.Rule) *) e g
    then Some (set_state g (e_state e) (e_mod e) :: r)
    else match update_first e r with Some r' => Some (g :: r') | None => None end
  end.

Definition merge_one (all : list entry) (e : entry) : list entry :=
  if state_eqb (e_state e) Removed then all ++ [e]
  else match update_first e all with Some all' => all' | None => all ++ [e] end.

Definition merge (all branch : list entry) : list entry := fold_left merge_one branch all.

(** GitBranchFinder.Find without symlinks (the generator creates none; addSymlinkedEntries adds nothing) *)
Definition find (glob : list entry) (cs : list change_in) : list entry :=
  merge glob (branch_entries cs).

Notation mkE := Build_entry (only parsing).

(** * The whole of GitBranchFinder.Find on a history: git.Changes (Model/GitChanges: log text, path unquoting, the fold,
    the finalisation), then for every change `readRules` on Body.Before under Path.Before.Name and on Body.After under
    Path.After.Name, matchEntries + the state switch, and the merge into the glob list.  git's answers, the include filter
    and the parser ([parse]: body id and path name to entry list) are inputs.  Outside the model: the maxCommits limit,
    `[skip ci]` commit messages, symlinks. *)
From PintV Require Model.GitChanges.
Module GCh := PintV.Model.GitChanges.

Section History.
  Variable type_at : string -> string -> GCh.ptype.
  Variable allowed : string -> bool.
  Variable is_dir : string -> bool.
  Variable body_at : string -> string -> N.
  Variable body_lines : N -> N.
  Variable blame : string -> string -> list (string * Z * Z).
  Variable parse : N -> string -> list entry.

  Definition change_in_of (f : GCh.final) : change_in :=
    {| ci_before := parse (GCh.f_body_before f) (GCh.ch_before (GCh.f_change f));
       ci_after := parse (GCh.f_body_after f) (GCh.ch_after (GCh.f_change f));
       ci_mod := GCh.f_mod f;
       ci_after_lines := body_lines (GCh.f_body_after f) |}.

  (** [None] = git.Changes panics on the log text *)
  Definition classify (glob : list entry) (log_lines : list string) : option (list entry) :=
    match GCh.changes_of_log type_at allowed is_dir body_at body_lines blame log_lines with
    | Some fs => Some (find glob (map change_in_of fs))
    | None => None
    end.
End History.
