(** C18 — the reviewed disposition of every site where an error is dropped after load or a Must* helper is used.

    The SITES come from the translator (Gen/Tables.v [dropped_error_sites], Gen/C18.v [extra_sites],
    [regexp_helper_calls]) and the load-time VALIDATORS from Gen/C18.v [validators]; both are regenerated from the Go
    AST on every run, as are the `X != ""` conditions around every site ([site_guards]) and the block schema of the
    configuration ([config_blocks], [validate_calls]).  This file only holds the hand-reviewed table saying, for each
    site, why it cannot crash.  There is NO "known crash" class: every crash row found while this check was built was
    repaired in /repo (457aa6b, 4986535, 4008951, 0b2762d, 72c92b8, and 6f3f221: promapi.doRequest dropped the url.Parse
    error of an upstream URI nobody parsed at load — found by an independent reader, not by this table, because round 3
    did not scan internal/promapi and had the options among the reviewed-harmless ones; both gaps are closed), so a
    site is either backed by a load-time validator (checked mechanically, including the emptiness guards on both sides)
    or belongs to a reviewed harmless class.  A site that appears in the source without a row here, a validated row whose validator call disappeared, or
    a use that is no longer under the guard its validator is under, breaks the finite theorems of Proofs/C18_sites.v. *)
From Coq Require Import List String Ascii Bool.
From PintV Require Import Common.Bytes Gen.Tables Gen.C18.
Import ListNotations.
Open Scope string_scope.
Open Scope list_scope.

Inductive disposition :=
| ValidatedSame (vfunc vcallee varg : string)
    (* load rejects the config unless [vcallee varg] succeeds inside [vfunc]; the use site calls the same function
       (or its Must wrapper) on the same field.  CHECKED against the generated tables: the validator call exists and
       is either unconditional or under `F != ""` while EVERY occurrence of the use site is under `F != ""` for the
       same field F (so "validated only when non-empty, used also when empty" — the shape of 0b2762d — is rejected) *)
| ValidatedDefaulted (vfunc vcallee varg why : string)
    (* validated under `F != ""`; the use is unguarded but an empty F was replaced by a constant default before
       (review judgement [why]); the validator call is CHECKED to exist *)
| ValidatedWrapped (vfunc vcallee varg how : string)
    (* validated on the bare pattern, compiled later inside anchors ^p$ — no failing input known for this wrapper *)
| ZeroValue (why : string)          (* not (fully) validated, but the dropped error only yields a zero value *)
| RuleData (why : string)           (* the argument is rule data, failure is handled / totalised *)
| Constant (why : string)
| Harmless (why : string)
| HelperDef (why : string)          (* body of a Must/regexp helper: judged at its call sites *)
| CliFlag (why : string).           (* value comes from the command line, not from the configuration *)

Record key := K { k_file : string; k_func : string; k_callee : string; k_args : string }.

(** [a] = row of the reviewed table, [b] = key of a site.  Rows of classes whose judgement does not depend on the
    argument text (rule data, constants, harmless, helper bodies) carry the argument "*" so that renaming a local
    variable inside such a call does not invalidate the table; validated / zero-value rows name the exact field. *)
Definition key_eqb (a b : key) : bool :=
  String.eqb (k_file a) (k_file b) && String.eqb (k_func a) (k_func b) &&
  String.eqb (k_callee a) (k_callee b) && (String.eqb (k_args a) "*" || String.eqb (k_args a) (k_args b)).

Definition key_of (s : dropped_site) : key := K (ds_file s) (ds_func s) (ds_callee s) (ds_args s).

Definition reviewed : list (key * disposition) := [
  (K "internal/config/aggregate.go" "getSeverity" "checks.ParseSeverity" "ag.Severity", ValidatedSame "AggregateSettings.validate" "checks.ParseSeverity" "ag.Severity");
  (K "internal/config/alerts.go" "getSeverity" "checks.ParseSeverity" "as.Severity", ValidatedSame "AlertsSettings.validate" "checks.ParseSeverity" "as.Severity");
  (K "internal/config/annotation.go" "getSeverity" "checks.ParseSeverity" "as.Severity", ValidatedSame "AnnotationSettings.validate" "checks.ParseSeverity" "as.Severity");
  (K "internal/config/config.go" "String" "json.MarshalIndent" "*", Harmless "debug rendering of the config; a marshal error yields an empty string");
  (K "internal/config/cost.go" "getSeverity" "checks.ParseSeverity" "cs.Severity", ValidatedSame "CostSettings.validate" "checks.ParseSeverity" "cs.Severity");
  (K "internal/config/discovery.go" "Discover" "parseDuration" "pq.Timeout", ValidatedDefaulted "PrometheusQuery.validate" "parseDuration" "pq.Timeout" "Discover sets an empty timeout to 2m first");
  (K "internal/config/discovery.go" "Discover" "pq.TLS.toHTTPConfig" "", ZeroValue "TLS.validate checks the files exist; a later read error yields a nil *tls.Config = default transport");
  (K "internal/config/for.go" "getSeverity" "checks.ParseSeverity" "fs.Severity", ValidatedSame "ForSettings.validate" "checks.ParseSeverity" "fs.Severity");
  (K "internal/config/for.go" "resolve" "parseDuration" "fs.Min", ValidatedSame "ForSettings.validate" "parseDuration" "fs.Min");
  (K "internal/config/for.go" "resolve" "parseDuration" "fs.Max", ValidatedSame "ForSettings.validate" "parseDuration" "fs.Max");
  (K "internal/config/match.go" "IsMatch" "parseDurationMatch" "m.For", ValidatedSame "Match.validate" "parseDurationMatch" "m.For");
  (K "internal/config/match.go" "IsMatch" "parseDurationMatch" "m.KeepFiringFor", ZeroValue "keep_firing_for of match/ignore is NOT validated at load; the dropped error leaves op = and duration 0 (C09 spec doc_duration), no dereference");
  (K "internal/config/match.go" "matchRegex" "regexp.MustCompile" "*", HelperDef "argument = anchored form of the parameter; judged at the matchRegex call sites");
  (K "internal/config/owners.go" "CompileAllowed" "MustCompileRegexes" "o.Allowed", ValidatedWrapped "Owners.validate" "regexp.Compile" "o.Allowed[]" "^p$");
  (K "internal/config/parsed_rule.go" "parseRule" "checks.MustTemplatedRegexp" "aggr.Name", ValidatedSame "AggregateSettings.validate" "checks.NewTemplatedRegexp" "ag.Name");
  (K "internal/config/parsed_rule.go" "parseRule" "parseDuration" "rule.Cost.MaxEvaluationDuration", ZeroValue "validated only when non-empty, used unguarded: an empty value parses to the zero duration (error dropped), no dereference");
  (K "internal/config/parsed_rule.go" "parseRule" "checks.MustRawTemplatedRegexp" "ann.Token", ValidatedSame "AnnotationSettings.validate" "checks.NewRawTemplatedRegexp" "as.Token");
  (K "internal/config/parsed_rule.go" "parseRule" "checks.MustTemplatedRegexp" "ann.Value", ValidatedSame "AnnotationSettings.validate" "checks.NewTemplatedRegexp" "as.Value");
  (K "internal/config/parsed_rule.go" "parseRule" "checks.MustTemplatedRegexp" "ann.Key", ValidatedSame "AnnotationSettings.validate" "checks.NewTemplatedRegexp" "as.Key");
  (K "internal/config/parsed_rule.go" "parseRule" "checks.MustRawTemplatedRegexp" "lab.Token", ValidatedSame "AnnotationSettings.validate" "checks.NewRawTemplatedRegexp" "as.Token");
  (K "internal/config/parsed_rule.go" "parseRule" "checks.MustTemplatedRegexp" "lab.Value", ValidatedSame "AnnotationSettings.validate" "checks.NewTemplatedRegexp" "as.Value");
  (K "internal/config/parsed_rule.go" "parseRule" "checks.MustTemplatedRegexp" "lab.Key", ValidatedSame "AnnotationSettings.validate" "checks.NewTemplatedRegexp" "as.Key");
  (K "internal/config/parsed_rule.go" "parseRule" "parseDuration" "rule.Alerts.Range", ValidatedSame "AlertsSettings.validate" "parseDuration" "as.Range");
  (K "internal/config/parsed_rule.go" "parseRule" "parseDuration" "rule.Alerts.Step", ValidatedSame "AlertsSettings.validate" "parseDuration" "as.Step");
  (K "internal/config/parsed_rule.go" "parseRule" "parseDuration" "rule.Alerts.Resolve", ValidatedSame "AlertsSettings.validate" "parseDuration" "as.Resolve");
  (K "internal/config/parsed_rule.go" "parseRule" "checks.MustTemplatedRegexp" "reject.Regex", ValidatedSame "RejectSettings.validate" "checks.NewTemplatedRegexp" "rs.Regex");
  (K "internal/config/parsed_rule.go" "parseRule" "checks.MustTemplatedRegexp" "link.Regex", ValidatedSame "RuleLinkSettings.validate" "checks.NewTemplatedRegexp" "s.Regex");
  (K "internal/config/parsed_rule.go" "parseRule" "parseDuration" "link.Timeout", ValidatedSame "RuleLinkSettings.validate" "parseDuration" "s.Timeout");
  (K "internal/config/parsed_rule.go" "parseRule" "checks.MustTemplatedRegexp" "name.Regex", ValidatedSame "RuleNameSettings.validate" "checks.NewTemplatedRegexp" "rs.Regex");
  (K "internal/config/parsed_rule.go" "parseRule" "parseDuration" "rule.RangeQuery.Max", ValidatedSame "RangeQuerySettings.validate" "parseDuration" "s.Max");
  (K "internal/config/prometheus.go" "newFailoverGroup" "parseDuration" "prom.Timeout", ValidatedDefaulted "PrometheusConfig.validate" "parseDuration" "pc.Timeout" "Load calls applyDefaults, which sets an empty timeout to 2m, before any group is built");
  (K "internal/config/prometheus.go" "newFailoverGroup" "prom.TLS.toHTTPConfig" "", ValidatedSame "Load" "prom.TLS.toHTTPConfig" "");
  (K "internal/config/range_query.go" "getSeverity" "checks.ParseSeverity" "s.Severity", ValidatedSame "RangeQuerySettings.validate" "checks.ParseSeverity" "s.Severity");
  (K "internal/config/reject.go" "getSeverity" "checks.ParseSeverity" "rs.Severity", ValidatedSame "RejectSettings.validate" "checks.ParseSeverity" "rs.Severity");
  (K "internal/config/report.go" "getSeverity" "checks.ParseSeverity" "rs.Severity", ZeroValue "validated only when non-empty but parsed unguarded: severity = """" yields Fatal (error dropped), no dereference");
  (K "internal/config/rule.go" "strictRegex" "regexp.MustCompile" "*", HelperDef "argument = parameter; see the strictRegex / MustCompileRegexes rows");
  (K "internal/config/rule_link.go" "getSeverity" "checks.ParseSeverity" "s.Severity", ValidatedSame "RuleLinkSettings.validate" "checks.ParseSeverity" "s.Severity");
  (K "internal/config/rule_name.go" "getSeverity" "checks.ParseSeverity" "rs.Severity", ValidatedSame "RuleNameSettings.validate" "checks.ParseSeverity" "rs.Severity");
  (K "internal/checks/alerts_annotation.go" "Check" "c.keyRe.MustExpand" "*", RuleData "total MustExpand (C18_must_expand_total)");
  (K "internal/checks/alerts_annotation.go" "Check" "c.tokenRe.MustExpand" "*", RuleData "total MustExpand (C18_must_expand_total)");
  (K "internal/checks/alerts_annotation.go" "checkValue" "c.valueRe.MustExpand" "*", RuleData "total MustExpand (C18_must_expand_total)");
  (K "internal/checks/alerts_count.go" "Check" "model.ParseDuration" "*", RuleData "rule for/keep_firing_for that does not parse counts as 0");
  (K "internal/checks/promql_aggregation.go" "Check" "c.nameRegex.MustExpand" "*", RuleData "total MustExpand (C18_must_expand_total)");
  (K "internal/checks/promql_regexp.go" "Check" "syntax.Parse" "*", RuleData "regexp of a PromQL matcher the PromQL parser already compiled");
  (K "internal/checks/promql_regexp.go" "findMatcherPos" "regexp.MustCompile" "*", RuleData "label name and value go through regexp.QuoteMeta (fix 4008951); a recurrence crashes the quoted-label-name stratum of the binary runs");
  (K "internal/checks/promql_series.go" "Check" "labels.MustNewMatcher" "*", Constant "constant pattern .+");
  (K "internal/checks/promql_series.go" "checkOtherServer" "promParser.ParseMetricSelector" "selector", ValidatedSame "PromqlSeriesSettings.Validate" "promParser.ParseMetricSelector" "c.IgnoreMatchingElsewhere[]");
  (K "internal/checks/promql_series.go" "getMinAge" "matchSelectorToMetric" "*", RuleData "selector from a rule/set comment; error = no match");
  (K "internal/checks/promql_series.go" "isLabelValueIgnored" "matchSelectorToMetric" "*", RuleData "selector from a rule/set comment or settings; error = no match");
  (K "internal/checks/promql_series.go" "orphanedRuleSetComments" "matchSelectorToMetric" "*", RuleData "selector from a rule/set comment; error = no match");
  (K "internal/checks/rule_for.go" "Check" "model.ParseDuration" "*", RuleData "rule for/keep_firing_for that does not parse counts as 0");
  (K "internal/checks/rule_label.go" "checkRecordingRule" "c.tokenRe.MustExpand" "*", RuleData "total MustExpand (C18_must_expand_total)");
  (K "internal/checks/rule_label.go" "checkAlertingRule" "c.keyRe.MustExpand" "*", RuleData "total MustExpand (C18_must_expand_total)");
  (K "internal/checks/rule_label.go" "checkAlertingRule" "c.tokenRe.MustExpand" "*", RuleData "total MustExpand (C18_must_expand_total)");
  (K "internal/checks/rule_label.go" "checkValue" "c.valueRe.MustExpand" "*", RuleData "total MustExpand (C18_must_expand_total)");
  (K "internal/checks/rule_link.go" "Check" "c.re.MustExpand" "*", RuleData "total MustExpand (C18_must_expand_total)");
  (K "internal/checks/rule_link.go" "Check" "io.Copy" "*", Harmless "response body drained, error irrelevant");
  (K "internal/checks/rule_name.go" "Check" "c.re.MustExpand" "*", RuleData "total MustExpand (C18_must_expand_total)");
  (K "internal/checks/rule_reject.go" "reject" "c.keyRe.MustExpand" "*", RuleData "total MustExpand (C18_must_expand_total)");
  (K "internal/checks/rule_reject.go" "reject" "c.valueRe.MustExpand" "*", RuleData "total MustExpand (C18_must_expand_total)");
  (K "internal/checks/template.go" "MustTemplatedRegexp" "NewTemplatedRegexp" "*", HelperDef "Must wrapper: nil on error; every caller row is ValidatedSame");
  (K "internal/checks/template.go" "MustRawTemplatedRegexp" "NewRawTemplatedRegexp" "*", HelperDef "Must wrapper: nil on error; every caller row is ValidatedSame");
  (K "cmd/pint/ci.go" "actionCI" "config.MustCompileRegexes" "meta.cfg.Parser.Include", ValidatedWrapped "Parser.validate" "regexp.Compile" "p.Include[]" "^p$ (the config file path is appended to Exclude unvalidated: CLI)");
  (K "cmd/pint/ci.go" "actionCI" "config.MustCompileRegexes" "meta.cfg.Parser.Exclude", ValidatedWrapped "Parser.validate" "regexp.Compile" "p.Exclude[]" "^p$ (the config file path is appended to Exclude unvalidated: CLI)");
  (K "cmd/pint/ci.go" "actionCI" "config.MustCompileRegexes" "meta.cfg.Parser.Relaxed", ValidatedWrapped "Parser.validate" "regexp.Compile" "p.Relaxed[]" "^p$ (the config file path is appended to Exclude unvalidated: CLI)");
  (K "cmd/pint/ci.go" "actionCI" "time.ParseDuration" "meta.cfg.Repository.BitBucket.Timeout", ZeroValue "validated with Prometheus parseDuration (accepts d/w/y), used with time.ParseDuration: a value like 1d yields timeout 0 = no timeout, no dereference");
  (K "cmd/pint/ci.go" "actionCI" "time.ParseDuration" "meta.cfg.Repository.GitLab.Timeout", ZeroValue "NOT validated at all (GitLab.validate does not look at timeout; only an empty value is defaulted to 1m): an unparsable value yields timeout 0 = no timeout, no dereference");
  (K "cmd/pint/ci.go" "actionCI" "time.ParseDuration" "meta.cfg.Repository.GitHub.Timeout", ZeroValue "validated with Prometheus parseDuration (accepts d/w/y), used with time.ParseDuration: a value like 1d yields timeout 0 = no timeout, no dereference");
  (K "cmd/pint/lint.go" "actionLint" "config.MustCompileRegexes" "meta.cfg.Parser.Include", ValidatedWrapped "Parser.validate" "regexp.Compile" "p.Include[]" "^p$ (the config file path is appended to Exclude unvalidated: CLI)");
  (K "cmd/pint/lint.go" "actionLint" "config.MustCompileRegexes" "meta.cfg.Parser.Exclude", ValidatedWrapped "Parser.validate" "regexp.Compile" "p.Exclude[]" "^p$ (the config file path is appended to Exclude unvalidated: CLI)");
  (K "cmd/pint/lint.go" "actionLint" "config.MustCompileRegexes" "meta.cfg.Parser.Relaxed", ValidatedWrapped "Parser.validate" "regexp.Compile" "p.Relaxed[]" "^p$ (the config file path is appended to Exclude unvalidated: CLI)");
  (K "cmd/pint/scan.go" "checkRules" "s.Decode" "", ValidatedSame "Check.validate" "c.Decode" "");
  (K "cmd/pint/watch.go" "actionWatch" "metricsRegistry.MustRegister" "*", Constant "metric descriptors are program constants");
  (K "cmd/pint/watch.go" "actionWatch" "io.WriteString" "*", Harmless "health endpoint write");
  (K "cmd/pint/watch.go" "scan" "config.MustCompileRegexes" "c.cfg.Parser.Include", ValidatedWrapped "Parser.validate" "regexp.Compile" "p.Include[]" "^p$ (the config file path is appended to Exclude unvalidated: CLI)");
  (K "cmd/pint/watch.go" "scan" "config.MustCompileRegexes" "c.cfg.Parser.Exclude", ValidatedWrapped "Parser.validate" "regexp.Compile" "p.Exclude[]" "^p$ (the config file path is appended to Exclude unvalidated: CLI)");
  (K "cmd/pint/watch.go" "scan" "config.MustCompileRegexes" "c.cfg.Parser.Relaxed", ValidatedWrapped "Parser.validate" "regexp.Compile" "p.Relaxed[]" "^p$ (the config file path is appended to Exclude unvalidated: CLI)");
  (K "cmd/pint/watch.go" "Collect" "prometheus.MustNewConstMetric" "*", Constant "metric descriptors are program constants");
  (K "cmd/pint/watch.go" "metricFromProblem" "prometheus.MustNewConstMetric" "*", Constant "metric descriptors are program constants");
  (K "internal/config/discovery.go" "isIgnored" "strictRegex" "fp.Ignore[]", ValidatedWrapped "FilePath.validate" "regexp.Compile" "fp.Ignore[]" "^p$");
  (K "internal/config/discovery.go" "Discover" "strictRegex" "fp.Match", ValidatedWrapped "FilePath.validate" "regexp.Compile" "fp.Match" "^p$");
  (K "internal/config/match.go" "IsMatch" "matchRegex" "m.Path", ValidatedSame "Match.validate" "validateMatchRegex" "m.Path");
  (K "internal/config/match.go" "IsMatch" "matchRegex" "m.Name", ValidatedSame "Match.validate" "validateMatchRegex" "m.Name");
  (K "internal/config/match.go" "isMatching" "matchRegex" "ml.Key", ValidatedSame "MatchLabel.validate" "validateMatchRegex" "ml.Key");
  (K "internal/config/match.go" "isMatching" "matchRegex" "ml.Value", ValidatedSame "MatchLabel.validate" "validateMatchRegex" "ml.Value");
  (K "internal/config/match.go" "isMatching" "matchRegex" "ma.Key", ValidatedSame "MatchAnnotation.validate" "validateMatchRegex" "ma.Key");
  (K "internal/config/match.go" "isMatching" "matchRegex" "ma.Value", ValidatedSame "MatchAnnotation.validate" "validateMatchRegex" "ma.Value");
  (K "internal/config/prometheus.go" "newFailoverGroup" "strictRegex" "prom.Include[]", ValidatedWrapped "PrometheusConfig.validate" "regexp.Compile" "pc.Include[]" "^p$");
  (K "internal/config/prometheus.go" "newFailoverGroup" "strictRegex" "prom.Exclude[]", ValidatedWrapped "PrometheusConfig.validate" "regexp.Compile" "pc.Exclude[]" "^p$");
  (K "internal/promapi/prometheus.go" "dummyReadAll" "io.Copy" "*", Harmless "response body drained, error irrelevant");
  (K "internal/promapi/prometheus.go" "hash" "h.WriteString" "*", Harmless "hash.Hash writes never fail");
  (K "internal/promapi/range.go" "RangeQuery" "MergeRanges" "*", Harmless "second result is a flag (ranges were merged), not an error");
  (K "internal/promapi/cache.go" "Collect" "prometheus.MustNewConstMetric" "*", Constant "metric descriptors are program constants; label values are API path constants");
  (K "internal/promapi/failover.go" "StartWorkers" "reg.MustRegister" "*", Harmless "one collector per group, labelled with the group name: names are unique (config.Load) and a discovered group with an existing name is merged, not registered again");
  (K "internal/promapi/metrics.go" "RegisterMetrics" "reg.MustRegister" "*", Constant "program-constant collectors registered once at start-up")
].

Definition all_sites : list dropped_site := dropped_error_sites ++ extra_sites ++ regexp_helper_calls.

Definition disposition_of (s : dropped_site) : option disposition :=
  match find (fun kd => key_eqb (fst kd) (key_of s)) reviewed with
  | Some kd => Some (snd kd)
  | None => None
  end.

(** Must wrappers and the function they drop the error of *)
Definition must_pairs : list (string * string) :=
  [("checks.MustTemplatedRegexp", "checks.NewTemplatedRegexp");
   ("checks.MustRawTemplatedRegexp", "checks.NewRawTemplatedRegexp")].

(** the same method called through differently named receivers *)
Definition method_aliases : list (string * string) := [("s.Decode", "c.Decode")].

(** a compile helper and the validator helper that compiles the SAME expression of its parameter (fix 4986535) *)
Definition helper_validators : list (string * string) := [("matchRegex", "validateMatchRegex")].

Definition callee_compatible (site_callee validator_callee : string) : bool :=
  String.eqb site_callee validator_callee ||
  existsb (fun p => String.eqb (fst p) site_callee && String.eqb (snd p) validator_callee) (must_pairs ++ method_aliases ++ helper_validators).

(** text after the last "." of a guard: [as.Range != ""] and [rule.Alerts.Range != ""] guard the same field *)
Fixpoint has_dot (s : string) : bool :=
  match s with
  | EmptyString => false
  | String c r => Ascii.eqb c "."%char || has_dot r
  end.

Fixpoint after_dot (s : string) : string :=
  match s with
  | EmptyString => EmptyString
  | String c r => if has_dot r then after_dot r else if Ascii.eqb c "."%char then r else s
  end.

(** the `X != ""` guards around every occurrence of a site in the current source ("" = unguarded) *)
Definition guards_of (s : dropped_site) : list string :=
  map sg_guard (filter (fun g => String.eqb (sg_file g) (ds_file s) && String.eqb (sg_func g) (ds_func s) &&
                                 String.eqb (sg_callee g) (ds_callee s) && String.eqb (sg_args g) (ds_args s)) site_guards).

(** every occurrence of the site is under a non-empty-string guard on field [f] *)
Definition used_only_when_nonempty (s : dropped_site) (f : string) : bool :=
  negb (match guards_of s with [] => true | _ => false end) &&
  forallb (fun g => negb (String.eqb g "") && String.eqb (after_dot g) f) (guards_of s).

(** some validator call [vcallee varg] inside [vfunc] that covers the use: unconditional, or conditional on the same
    field being non-empty as every occurrence of the use *)
Definition validator_covers (s : dropped_site) (vfunc vcallee varg : string) : bool :=
  existsb (fun v => String.eqb (v_func v) vfunc && String.eqb (v_callee v) vcallee && String.eqb (v_arg v) varg &&
                    (String.eqb (v_guard v) "" || used_only_when_nonempty s (after_dot (v_guard v)))) validators.

Definition has_validator (vfunc vcallee varg : string) (need_unguarded : bool) : bool :=
  existsb (fun v => String.eqb (v_func v) vfunc && String.eqb (v_callee v) vcallee && String.eqb (v_arg v) varg &&
                    (negb need_unguarded || String.eqb (v_guard v) "")) validators.

(** a site is accounted for *)
Definition site_ok (s : dropped_site) : bool :=
  match disposition_of s with
  | None => false
  | Some (ValidatedSame vf vc va) => callee_compatible (ds_callee s) vc && validator_covers s vf vc va
  | Some (ValidatedDefaulted vf vc va _) => callee_compatible (ds_callee s) vc && has_validator vf vc va false
  | Some (ValidatedWrapped vf vc va _) => has_validator vf vc va true
  | Some _ => true
  end.

(** no stale rows: every reviewed key still names a site of the current source *)
Definition row_is_live (kd : key * disposition) : bool :=
  existsb (fun s => key_eqb (fst kd) (key_of s)) all_sites.

(** the wrappers really are wrappers of the paired function (rows of template.go) *)
Definition must_pair_backed (p : string * string) : bool :=
  existsb (fun s => String.eqb ("checks." ++ ds_func s)%string (fst p) && String.eqb ("checks." ++ ds_callee s)%string (snd p)
                    && String.eqb (ds_kind s) "dropped") dropped_error_sites.

(** [matchRegex] compiles [A(s)] with MustCompile and [validateMatchRegex] compiles the same expression [A(s)] with
    Compile: some site row of the helper and some validator row of the validator helper carry the same argument text *)
Definition helper_validator_backed (p : string * string) : bool :=
  existsb (fun s => String.eqb (ds_func s) (fst p) && String.eqb (ds_callee s) "regexp.MustCompile" &&
                    existsb (fun v => String.eqb (v_func v) (snd p) && String.eqb (v_callee v) "regexp.Compile" &&
                                      String.eqb (v_arg v) (ds_args s)) validators) dropped_error_sites.

(** * The block schema: load-time validation reaches every block of the configuration

    [config_blocks] = every `hcl:"<name>,block"` field of a struct of internal/config; [validate_calls] = every
    `<owner>.<Field>.validate()` call (range variables resolved) inside a validate method or Load, with whether its
    error is returned; [validate_methods] = the struct types that have a validate method. *)
Definition validate_func_of (owner : string) : string :=
  if String.eqb owner "Config" then "Load" else (owner ++ ".validate")%string.

Definition block_validated (b : config_block) : bool :=
  mem_str (cb_type b) validate_methods &&
  existsb (fun c => String.eqb (vc_owner c) (cb_struct b) && String.eqb (vc_field c) (cb_field b) &&
                    String.eqb (vc_func c) (validate_func_of (cb_struct b)) && vc_error_returned c) validate_calls.

(** a block type is reachable from the root [Config] through validated block fields (fuel = number of blocks) *)
Fixpoint reachable_types (fuel : nat) (acc : list string) : list string :=
  match fuel with
  | O => acc
  | S f =>
      reachable_types f
        (fold_left (fun a b => if mem_str (cb_struct b) a && negb (mem_str (cb_type b) a) then cb_type b :: a else a) config_blocks acc)
  end.

Definition block_reachable (b : config_block) : bool :=
  mem_str (cb_struct b) (reachable_types (List.length config_blocks) ["Config"]).

(** * Attribute coverage: which options of a block its validate() looks at

    [config_attrs] = every non-block hcl field of every struct of internal/config; [validate_mentions] = every field
    of the receiver that the struct's validate method reads, directly or through a method of the same type it calls
    (one level).  An option that validate never reads is accepted with ANY value; each of them needs a reviewed reason
    here (booleans need none: every value is meaningful).  This is the class of the seeded defect "match
    keep_firing_for is never validated, a refactoring makes the later parse panic": a NEW option is either looked
    at by validate or has to be reviewed. *)
Definition unvalidated_attrs : list (string * string * string) := [
  ("AggregateSettings", "Comment", "free text copied into the report");
  ("AlertsSettings", "Comment", "free text copied into the report");
  ("AnnotationSettings", "Comment", "free text copied into the report");
  ("AnnotationSettings", "Values", "list of literal values compared with == (never compiled)");
  ("CI", "BaseBranch", "branch name handed to git; an unknown branch is a git error, reported");
  ("CostSettings", "Comment", "free text copied into the report");
  ("PrometheusTemplate", "Headers", "text templates rendered per discovered target; render errors are returned");
  ("PrometheusTemplate", "PublicURI", "rendered per target, the result is display text");
  ("PrometheusTemplate", "Uptime", "rendered per target; the rendered PrometheusConfig goes through PrometheusConfig.validate (discovery.go)");
  ("PrometheusTemplate", "Failover", "rendered per target; the rendered PrometheusConfig goes through PrometheusConfig.validate, which parses every failover entry (fix 6f3f221; round 3 had this row with the WRONG reason `a bad URI is a request error`: promapi.doRequest dereferenced the nil URL)");
  ("PrometheusTemplate", "Include", "rendered per target; the rendered PrometheusConfig goes through PrometheusConfig.validate");
  ("PrometheusTemplate", "Exclude", "rendered per target; the rendered PrometheusConfig goes through PrometheusConfig.validate");
  ("PrometheusTemplate", "Tags", "rendered per target; the rendered PrometheusConfig goes through PrometheusConfig.validate");
  ("PrometheusTemplate", "Concurrency", "integer; non-positive values are replaced by the default (applyDefaults)");
  ("PrometheusTemplate", "RateLimit", "integer; non-positive values are replaced by the default (applyDefaults)");
  ("FilePath", "Directory", "walked with filepath.WalkDir; a missing directory is a returned error");
  ("PrometheusQuery", "Headers", "map of literal header values");
  ("ForSettings", "Comment", "free text copied into the report");
  ("Match", "KeepFiringFor", "NOT validated although it is parsed like `for` (parseDurationMatch): the dropped error leaves the zero durationMatch, which matches nothing - exercised by the match stratum of the binary runs (ZeroValue row of the site table)");
  ("TLSConfig", "ServerName", "literal copied into tls.Config");
  ("TLSConfig", "CaCert", "file read by toHTTPConfig, which config.Load calls for every prometheus block and whose error rejects the configuration (ValidatedSame row)");
  ("PrometheusConfig", "Headers", "map of literal header values");
  ("PrometheusConfig", "Name", "block label; uniqueness is checked by config.Load");
  ("PrometheusConfig", "PublicURI", "display text");
  ("PrometheusConfig", "Concurrency", "integer; non-positive values are replaced by the default (applyDefaults)");
  ("PrometheusConfig", "RateLimit", "integer; non-positive values are replaced by the default (applyDefaults)");
  ("RangeQuerySettings", "Comment", "free text copied into the report");
  ("RejectSettings", "Comment", "free text copied into the report");
  ("GitLab", "URI", "base URL of the API client; a bad URL is a returned client error");
  ("GitLab", "Timeout", "NOT validated (BitBucket and GitHub timeouts are): the dropped time.ParseDuration error yields 0 = no timeout (ZeroValue row of the site table)");
  ("RuleLinkSettings", "URI", "rewrite target; an unusable result is reported as a failed request (fix 457aa6b)");
  ("RuleLinkSettings", "Headers", "map of literal header values");
  ("RuleLinkSettings", "Comment", "free text copied into the report");
  ("RuleNameSettings", "Comment", "free text copied into the report")
].

Fixpoint mem_pair (a b : string) (l : list (string * string)) : bool :=
  match l with [] => false | (x, y) :: r => (String.eqb a x && String.eqb b y) || mem_pair a b r end.

Definition attr_mentioned (a : config_attr) : bool := mem_pair (ca_struct a) (ca_field a) validate_mentions.

Definition attr_reviewed (a : config_attr) : bool :=
  existsb (fun r => String.eqb (fst (fst r)) (ca_struct a) && String.eqb (snd (fst r)) (ca_field a)) unvalidated_attrs.

(** the option is looked at by its block's validate method, or is a boolean, or has a reviewed reason — and its block
    has a validate method at all *)
(** the option is looked at by its block's validate method, or is a boolean, or has a reviewed reason — and its block
    has a validate method at all *)
Definition attr_ok (a : config_attr) : bool :=
  mem_str (ca_struct a) validate_methods &&
  (attr_mentioned a || String.eqb (ca_type a) "bool" || attr_reviewed a).

(** a reviewed reason is only kept for an option that exists (an option that validate starts to look at later keeps its
    row: adding validation is not an alarm) *)
Definition unvalidated_row_live (r : string * string * string) : bool :=
  existsb (fun a => String.eqb (fst (fst r)) (ca_struct a) && String.eqb (snd (fst r)) (ca_field a)) config_attrs.
