(** C16 — which selectors of a rule expression promql/series probes: an executable model of
    getNonFallbackSelectors / appendOperandSelectors / appendUnlessSelectors / selectorHasFallback / sourceHasFallback
    (internal/checks/promql_series.go, after the fixes 2db4381 and the nested-unless fix) over a small model of the Source tree that
    utils.LabelsSource builds, for the fragment of PromQL made of vector selectors, selector-free operands that
    always return (vector(N), hour(), ...), wrappers that keep the source (aggregations, functions of one
    vector, arithmetic with a number), comparisons with a number, [or], joins (arithmetic / comparison / [and]
    between vectors; the primary side is the left one unless group_right) and [unless].

    Only the fields the check reads are modelled: Selector, AlwaysReturns, IsConditional, Joins, Unless.
    A selector is identified by its position in the expression (PosRange.Start), as in the Go code. *)
From Coq Require Import List Bool Arith NArith.
Import ListNotations.

Inductive sexpr :=
| ESel (i : N)                      (* vector selector at position i *)
| EAlways                           (* selector-free operand that always returns *)
| EWrap (e : sexpr)                 (* sum(e), rate(e[..]), absent(e), e * 2, (e): the sources of e *)
| ECmp (e : sexpr)                  (* e > 0 (comparison with a number): the sources of e, IsConditional set *)
| EOr (a b : sexpr)                 (* a or b *)
| EJoin (cmp : bool) (a b : sexpr)  (* a <op> b, a and b; primary side a; cmp: <op> is a comparison *)
| EJoinR (cmp : bool) (a b : sexpr) (* a <op> on() group_right() b; primary side b *)
| EUnless (a b : sexpr).            (* a unless b *)

Inductive source :=
  Src (sel : option N) (always cond : bool) (joins unless : list source).

Definition src_sel (s : source) := match s with Src x _ _ _ _ => x end.
Definition src_always (s : source) := match s with Src _ x _ _ _ => x end.
Definition src_cond (s : source) := match s with Src _ _ x _ _ => x end.
Definition src_joins (s : source) := match s with Src _ _ _ x _ => x end.
Definition src_unless (s : source) := match s with Src _ _ _ _ x => x end.

Definition set_cond (s : source) : source :=
  match s with Src a b _ j u => Src a b true j u end.
Definition set_cond_if (c : bool) (s : source) : source := if c then set_cond s else s.
Definition add_joins (js : list source) (s : source) : source :=
  match s with Src a b c j u => Src a b c (j ++ js) u end.
Definition add_unless (us : list source) (s : source) : source :=
  match s with Src a b c j u => Src a b c j (u ++ us) end.

(** utils.LabelsSource on the fragment, as far as the check reads it *)
Fixpoint sources_of (e : sexpr) : list source :=
  match e with
  | ESel i => [Src (Some i) false false [] []]
  | EAlways => [Src None true false [] []]
  | EWrap x => sources_of x
  | ECmp x => map set_cond (sources_of x)
  | EOr a b => sources_of a ++ sources_of b
  | EJoin c a b => map (fun s => set_cond_if c (add_joins (sources_of b) s)) (sources_of a)
  | EJoinR c a b => map (fun s => set_cond_if c (add_joins (sources_of a) s)) (sources_of b)
  | EUnless a b => map (add_unless (sources_of b)) (sources_of a)
  end.

(** sourceHasFallback *)
Definition has_fallback (srcs : list source) : bool := existsb src_always srcs.

(** every selector of the expression, in source order *)
Fixpoint sels (e : sexpr) : list N :=
  match e with
  | ESel i => [i]
  | EAlways => []
  | EWrap x | ECmp x => sels x
  | EOr a b | EJoin _ a b | EJoinR _ a b | EUnless a b => sels a ++ sels b
  end.

Definition memN (i : N) (l : list N) : bool := existsb (N.eqb i) l.

(** selectorHasFallback(root, selector at i): some [or] node of the expression has the selector on one side
    and an always-returning other side (sourceHasFallback(LabelsSource(other side))) *)
Fixpoint or_fallback (e : sexpr) (i : N) : bool :=
  match e with
  | ESel _ | EAlways => false
  | EWrap x | ECmp x => or_fallback x i
  | EOr a b =>
      or_fallback a i || or_fallback b i ||
      (memN i (sels a) && has_fallback (sources_of b)) || (memN i (sels b) && has_fallback (sources_of a))
  | EJoin _ a b | EJoinR _ a b | EUnless a b => or_fallback a i || or_fallback b i
  end.

Definition opt_list (o : option N) : list N := match o with Some i => [i] | None => [] end.

(** appendOperandSelectors: the selector of an operand unless it has its own or-fallback, the operands joined to it,
    and - appendUnlessSelectors - its conditional [unless] operands, recursively *)
Fixpoint operand_sels (fb : N -> bool) (s : source) : list N :=
  match s with
  | Src sel _ _ joins unless =>
      (match sel with Some i => if fb i then [] else [i] | None => [] end)
      ++ flat_map (operand_sels fb) joins
      ++ flat_map (fun u => if src_cond u then operand_sels fb u else []) unless
  end.

Definition walk (fb : N -> bool) (srcs : list source) : list N := flat_map (operand_sels fb) srcs.
Definition walk_cond (fb : N -> bool) (srcs : list source) : list N :=
  flat_map (fun u => if src_cond u then operand_sels fb u else []) srcs.

(** getNonFallbackSelectors *)
Definition checked_with (fb : N -> bool) (srcs : list source) : list N :=
  let fallback := has_fallback srcs in
  flat_map (fun s =>
    (if fallback then [] else opt_list (src_sel s))
    ++ walk fb (src_joins s)
    ++ walk_cond fb (src_unless s)) srcs.

Definition checked (e : sexpr) : list N := checked_with (or_fallback e) (sources_of e).

(** the fragment of the headline theorem: no [unless] *)
Fixpoint no_unless (e : sexpr) : bool :=
  match e with
  | ESel _ | EAlways => true
  | EWrap x | ECmp x => no_unless x
  | EOr a b | EJoin _ a b | EJoinR _ a b => no_unless a && no_unless b
  | EUnless _ _ => false
  end.
