(** Model of severity parsing and of the exit-status decision of [pint lint] / [pint ci].

    Go sources: internal/checks/base.go (Severity, ParseSeverity, Severity.String),
    cmd/pint/lint.go (actionLint: bySeverity loop), cmd/pint/ci.go (actionCI: problemsFound),
    internal/reporter/reporter.go (Summary.CountBySeverity).

    The severity tables are NOT written here: they come from Gen/Tables.v, which the translator
    regenerates from the Go AST on every run. *)
From Coq Require Import List String ZArith Bool Lia.
From PintV Require Import Common.Bytes Gen.Tables.
Import ListNotations.
Open Scope Z_scope.

(** Value of a [Severity] constant (position in the iota block). *)
Definition sev_value (c : string) : option Z := assoc c severity_consts.

(** [ParseSeverity]; [None] models the error return. *)
Definition parse_severity (s : string) : option Z :=
  match assoc s parse_severity_cases with
  | Some c => sev_value c
  | None => None
  end.

Definition sev_const_of (v : Z) : option string :=
  match find (fun p => Z.eqb (snd p) v) severity_consts with
  | Some p => Some (fst p)
  | None => None
  end.

(** [Severity.String]. *)
Definition severity_string (v : Z) : string :=
  match sev_const_of v with
  | Some c => match assoc c severity_string_cases with Some s => s | None => "Unknown"%string end
  | None => "Unknown"%string
  end.

(** Inverse of [Severity.String] over the declared constants (used to read pint's JSON output). *)
Definition severity_of_string (s : string) : option Z :=
  match find (fun p => String.eqb (severity_string (snd p)) s) severity_consts with
  | Some p => Some (snd p)
  | None => None
  end.

(** [Summary.CountBySeverity]: a Go map; modelled as an association list in first-seen order.
    Every consumer only sums over it, so iteration order is immaterial. *)
Fixpoint bump (s : Z) (m : list (Z * Z)) : list (Z * Z) :=
  match m with
  | [] => [(s, 1)]
  | (k, c) :: r => if k =? s then (k, c + 1) :: r else (k, c) :: bump s r
  end.

Definition count_by_severity (sevs : list Z) : list (Z * Z) :=
  fold_left (fun m s => bump s m) sevs [].

Record lint_counters := { fail_problems : Z; hidden_problems : Z; bug_problems : Z }.

(** The body of [for s, c := range bySeverity] in actionLint. *)
Definition lint_step (failOn minSev bugv : Z) (acc : lint_counters) (e : Z * Z) : lint_counters :=
  let '(s, c) := e in
  {| fail_problems := if failOn <=? s then fail_problems acc + c else fail_problems acc;
     hidden_problems := if s <? minSev then hidden_problems acc + c else hidden_problems acc;
     bug_problems := if bugv <=? s then bug_problems acc + c else bug_problems acc |}.

Definition lint_counts (failOn minSev bugv : Z) (sevs : list Z) : lint_counters :=
  fold_left (lint_step failOn minSev bugv) (count_by_severity sevs)
            {| fail_problems := 0; hidden_problems := 0; bug_problems := 0 |}.

(** [true] = actionLint returns an error (non-zero exit) after linting completed. *)
Definition exit_lint (failOn minSev : Z) (sevs : list Z) : bool :=
  0 <? fail_problems (lint_counts failOn minSev 2 sevs).

(** actionCI: [problemsFound]. *)
Definition exit_ci (failOn : Z) (sevs : list Z) : bool :=
  existsb (fun e => failOn <=? fst e) (count_by_severity sevs).

(** Whole command line: flag strings as given by the user. [None] = flag rejected (pint exits non-zero
    before/after linting with "invalid --fail-on value"). *)
Definition run_lint (failOnFlag minSevFlag : string) (sevs : list Z) : bool :=
  match parse_severity minSevFlag, parse_severity failOnFlag with
  | Some m, Some f => exit_lint f m sevs
  | _, _ => true
  end.

Definition run_ci (failOnFlag : string) (sevs : list Z) : bool :=
  match parse_severity failOnFlag with
  | Some f => exit_ci f sevs
  | None => true
  end.
