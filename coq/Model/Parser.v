(** Gallina model of pint's rule-file parser over the yaml.v3 node forest:
    internal/parser/parser.go (Parse, parseNode, tryParseGroup, parseRule, ensureRequiredKeys,
    validateStringMap, rangeFromYamlMaps), strict.go (parseGroups, parseGroup, parseRuleStrict, describeTag, kindMismatch)
    and the parts of models.go they use (newYamlNode, newYamlMap, YamlMap.Lines) — as the code is at /repo HEAD.

    External library behaviour enters as Section variables with no assumed behaviour:
      plines      diags.NewPositionRange(lines, node, minColumn).Lines()  (first, last line)
      metric_ok   model.IsValidMetricName            lname_ok  model.LabelName.IsValid
      lvalue_ok   model.LabelValue.IsValid           dur_ok    model.ParseDuration succeeds
    Not modelled (not observable through the projections compared): comments attached to rules, column
    offsets, Interval/QueryOffset/Limit values of a group, the PromQL AST of an expression.
    Error message texts are produced for readability only; correspondence compares error LINES. *)
From Coq Require Import List String Ascii Arith Bool NArith Lia.
From PintV Require Import Common.Bytes Model.Yaml.
Import ListNotations.
Open Scope string_scope.

Record ynode := { y_value : string; y_first : nat; y_last : nat }.          (* YamlNode: Value, Pos.Lines() *)
Record ymap := { ym_key : ynode; ym_items : list (ynode * ynode) }.          (* YamlMap *)
Record perror := { pe_line : nat; pe_msg : string }.                         (* ParseError with Err != nil *)

Inductive rule_body :=
| Alerting (alert expr : ynode) (for_ keep : option ynode) (labels annotations : option ymap)
| Recording (record expr : ynode) (labels : option ymap)
| NoBody.

Record rule := { r_body : rule_body; r_error : option perror; r_first : nat; r_last : nat }.
Record group := { g_name : string; g_labels : option ymap; g_error : option perror; g_rules : list rule }.
Record file := { f_groups : list group; f_error : option perror }.

Definition empty_group : group := {| g_name := ""; g_labels := None; g_error := None; g_rules := [] |}.
Definition zero_rule : rule := {| r_body := NoBody; r_error := None; r_first := 0; r_last := 0 |}.
Definition err_rule (first last line : nat) (msg : string) : rule :=
  {| r_body := NoBody; r_error := Some {| pe_line := line; pe_msg := msg |}; r_first := first; r_last := last |}.

(** ---- string helpers ---- *)
Definition nlc : ascii := "010"%char.
Definition nls : string := String nlc EmptyString.

Fixpoint count_char (c : ascii) (s : string) : nat :=
  match s with
  | EmptyString => 0
  | String d r => (if Ascii.eqb c d then 1 else 0) + count_char c r
  end.

Fixpoint join_lines (l : list string) : string :=
  match l with
  | [] => ""
  | [x] => x
  | x :: r => x ++ nls ++ join_lines r
  end.

(** strings.Split(s, "\n") *)
Fixpoint split_lines_aux (s cur : string) : list string :=
  match s with
  | EmptyString => [cur]
  | String c r => if Ascii.eqb c nlc then cur :: split_lines_aux r "" else split_lines_aux r (cur ++ String c "")
  end.
Definition split_lines (s : string) : list string := split_lines_aux s "".

Fixpoint contains_brace (s : string) : bool :=
  match s with
  | EmptyString => false
  | String c r => if (Ascii.eqb c "{"%char || Ascii.eqb c "}"%char)%bool then true else contains_brace r
  end.

Fixpoint trim_left_bang (s : string) : string :=
  match s with
  | String c r => if Ascii.eqb c "!"%char then trim_left_bang r else s
  | EmptyString => s
  end.

(** strict.go: describeTag *)
Definition describe_tag (tag : string) : string :=
  if String.eqb tag strTag then "string"
  else if String.eqb tag intTag then "integer"
  else if String.eqb tag seqTag then "list"
  else if String.eqb tag mapTag then "mapping"
  else if String.eqb tag binaryTag then "binary data"
  else trim_left_bang tag.

Fixpoint join_comma (l : list string) : string :=
  match l with
  | [] => ""
  | [x] => x
  | x :: r => x ++ ", " ++ join_comma r
  end.

Inductive field := FRecord | FAlert | FExpr | FFor | FKeep | FLabels | FAnn | FUnknown.

Definition field_of (k : string) : field :=
  if String.eqb k "record" then FRecord
  else if String.eqb k "alert" then FAlert
  else if String.eqb k "expr" then FExpr
  else if String.eqb k "for" then FFor
  else if String.eqb k "keep_firing_for" then FKeep
  else if String.eqb k "labels" then FLabels
  else if String.eqb k "annotations" then FAnn
  else FUnknown.

Definition field_name (f : field) : string :=
  match f with
  | FRecord => "record" | FAlert => "alert" | FExpr => "expr" | FFor => "for" | FKeep => "keep_firing_for"
  | FLabels => "labels" | FAnn => "annotations" | FUnknown => ""
  end.

Section Parser.
  Variable plines : list string -> node -> nat -> nat * nat.
  Variables metric_ok lname_ok lvalue_ok dur_ok : string -> bool.
  Variable int_ok : node -> bool.          (* yaml.Node.Decode into a Go int succeeds (group limit, fix a6b0afc) *)
  Variable null_ok : node -> bool.         (* yaml.Node.Decode into `any` succeeds and yields nil (fix b9483ac; only asked of scalars tagged !!null) *)

  (** strict.go: kindMismatch (fixes b22de24, 4a0d172): an explicit tag that contradicts what the node (read through an
      alias) really is; a null SCALAR (`rules:` with no value) is fine everywhere, a mapping or list tagged !!null is still
      judged by its kind. *)
  Definition kind_mismatch (n : node) (k : kind) : bool :=
    let m := match n_alias n with Some t => t | None => n end in
    if (String.eqb (n_tag m) nullTag && kind_eqb (n_kind m) KScalar)%bool then false else negb (kind_eqb (n_kind m) k).

  (** models.go: newYamlNode (line extent only; offsetColumn only moves columns) *)
  Definition new_yaml_node (lines : list string) (off_line : nat) (n : node) (min_col : nat) : ynode :=
    let '(f, l) := plines lines n min_col in
    {| y_value := node_value n; y_first := f + off_line; y_last := l + off_line |}.

  (** models.go: newYamlMap *)
  Fixpoint yaml_map_items (lines : list string) (off_line : nat) (key_col : nat) (content : list node) : list (ynode * ynode) :=
    match content with
    | ck :: child :: r =>
        (new_yaml_node lines off_line ck 1, new_yaml_node lines off_line child 1)
          :: yaml_map_items lines off_line key_col r
    | _ => []
    end.

  Definition new_yaml_map (lines : list string) (off_line : nat) (key value : node) : ymap :=
    {| ym_key := new_yaml_node lines off_line key 1;
       ym_items := yaml_map_items lines off_line (n_col key) (n_content value) |}.

  (** models.go: YamlMap.Lines *)
  Definition ymap_lines (m : ymap) : nat * nat :=
    fold_left (fun '(f, l) '(k, v) => (Nat.min f (y_first k), Nat.max l (y_last v)))
              (ym_items m) (y_first (ym_key m), y_last (ym_key m)).

  (** parser.go: rangeFromYamlMaps *)
  Definition range_from_yaml_maps (m : list (node * node)) : nat * nat :=
    fold_left (fun '(f, l) '(k, v) =>
                 let '(f, l) := if Nat.eqb f 0 then (n_line k, n_line v) else (f, l) in
                 (Nat.min (Nat.min f (n_line k)) (n_line v), Nat.max (Nat.max l (n_line k)) (n_line v)))
              m (0, 0).

  (** parser.go: validateStringMap.  Returns None when valid, else (error, lines to use for the rule). *)
  Fixpoint validate_string_map_loop (fld : string) (all : list (node * node)) (off_line : nat) (lines : nat * nat)
           (seen : list string) (l : list (node * node)) : option (perror * (nat * nat)) :=
    match l with
    | [] => None
    | (k, v) :: r =>
        if (negb (is_tag (n_tag v) strTag) || kind_mismatch v KScalar)%bool then
          Some ({| pe_line := n_line v + off_line;
                   pe_msg := fld ++ " " ++ node_value k ++ " value must be a string, got " ++ describe_tag (n_tag v) ++ " instead" |}, lines)
        else if mem_str (node_value k) seen then   (* fix cd8be7e: keys are read through yaml aliases *)
          Some ({| pe_line := n_line k + off_line; pe_msg := "duplicated " ++ fld ++ " key " ++ node_value k |},
                (fst (range_from_yaml_maps all) + off_line, snd (range_from_yaml_maps all) + off_line))   (* fix 0202885 *)
        else validate_string_map_loop fld all off_line lines (node_value k :: seen) r
    end.

  Definition validate_string_map (fld : string) (nodes : list (node * node)) (off_line : nat) (lines : nat * nat) :=
    validate_string_map_loop fld nodes off_line lines [] nodes.

  (** ---- parseRule ---- *)
  Record slots := {
    s_first : nat; s_last : nat;
    s_record : option (node * ynode); s_alert : option (node * ynode); s_expr : option (node * ynode);
    s_for : option (node * ynode); s_keep : option (node * ynode);
    s_labels : option (node * ymap); s_ann : option (node * ymap);
    s_unknown : list node }.

  Definition slots0 : slots :=
    {| s_first := 0; s_last := 0; s_record := None; s_alert := None; s_expr := None; s_for := None; s_keep := None;
       s_labels := None; s_ann := None; s_unknown := [] |}.

  Definition get_sc (f : field) (s : slots) : option (node * ynode) :=
    match f with
    | FRecord => s_record s | FAlert => s_alert s | FExpr => s_expr s | FFor => s_for s | FKeep => s_keep s
    | _ => None
    end.

  Definition set_lines (s : slots) (f l : nat) : slots :=
    {| s_first := f; s_last := l; s_record := s_record s; s_alert := s_alert s; s_expr := s_expr s; s_for := s_for s;
       s_keep := s_keep s; s_labels := s_labels s; s_ann := s_ann s; s_unknown := s_unknown s |}.

  Definition set_sc (f : field) (v : node * ynode) (s : slots) : slots :=
    {| s_first := s_first s; s_last := s_last s;
       s_record := match f with FRecord => Some v | _ => s_record s end;
       s_alert := match f with FAlert => Some v | _ => s_alert s end;
       s_expr := match f with FExpr => Some v | _ => s_expr s end;
       s_for := match f with FFor => Some v | _ => s_for s end;
       s_keep := match f with FKeep => Some v | _ => s_keep s end;
       s_labels := s_labels s; s_ann := s_ann s; s_unknown := s_unknown s |}.

  Definition set_map (f : field) (v : node * ymap) (s : slots) : slots :=
    {| s_first := s_first s; s_last := s_last s;
       s_record := s_record s; s_alert := s_alert s; s_expr := s_expr s; s_for := s_for s; s_keep := s_keep s;
       s_labels := match f with FLabels => Some v | _ => s_labels s end;
       s_ann := match f with FAnn => Some v | _ => s_ann s end;
       s_unknown := s_unknown s |}.

  Definition add_unknown (k : node) (s : slots) : slots :=
    {| s_first := s_first s; s_last := s_last s;
       s_record := s_record s; s_alert := s_alert s; s_expr := s_expr s; s_for := s_for s; s_keep := s_keep s;
       s_labels := s_labels s; s_ann := s_ann s; s_unknown := s_unknown s ++ [k] |}.

  (** The loop over unpackNodes(node): [key] = None at even positions. Left = early return (duplicated key). *)
  Fixpoint rule_loop (lines : list string) (off_line : nat) (parts : list node) (key : option node) (s : slots) : rule + slots :=
    match parts with
    | [] => inr s
    | part :: rest =>
        let pl := n_line part + off_line in
        let first := if (Nat.eqb (s_first s) 0 || Nat.ltb pl (s_first s))%bool then pl else s_first s in
        let last := Nat.max (s_last s) pl in
        let s := set_lines s first last in
        match key with
        | None => rule_loop lines off_line rest (Some part) s
        | Some k =>
            let f := field_of (node_value k) in
            match f with
            | FUnknown => rule_loop lines off_line rest None (add_unknown k s)
            | FLabels | FAnn =>
                match (match f with FLabels => s_labels s | _ => s_ann s end) with
                | Some _ => inl (err_rule first last pl ("duplicated " ++ field_name f ++ " key"))
                | None =>
                    let m := new_yaml_map lines off_line k part in
                    let s := set_map f (part, m) s in
                    rule_loop lines off_line rest None (set_lines s first (Nat.max last (snd (ymap_lines m))))
                end
            | _ =>
                match get_sc f s with
                | Some _ => inl (err_rule first last pl ("duplicated " ++ field_name f ++ " key"))
                | None =>
                    let y := new_yaml_node lines off_line part 1 in
                    let s := set_sc f (part, y) s in
                    rule_loop lines off_line rest None (set_lines s first (Nat.max last (y_last y)))
                end
            end
        end
    end.

  Definition has_value (y : ynode) : bool := negb (String.eqb (y_value y) "").

  (** parser.go: ensureRequiredKeys; None = ok, Some = the error (the rule lines are the caller's) *)
  Definition ensure_required_keys (key : string) (kv : option (node * ynode)) (expr : option (node * ynode)) : option perror :=
    match kv with
    | None => None
    | Some (_, y) =>
        if negb (has_value y) then Some {| pe_line := y_last y; pe_msg := key ++ " value cannot be empty" |}
        else match expr with
             | None => Some {| pe_line := y_last y; pe_msg := "missing expr key" |}
             | Some (_, e) =>
                 if negb (has_value e) then Some {| pe_line := y_last e; pe_msg := "expr value cannot be empty" |} else None
             end
    end.

  Fixpoint first_bad_tag (want : string) (kd : kind) (l : list (string * option node)) : option (string * node) :=
    match l with
    | [] => None
    | (k, Some n) :: r => if (negb (is_tag (n_tag n) want) || kind_mismatch n kd)%bool then Some (k, n) else first_bad_tag want kd r
    | (_, None) :: r => first_bad_tag want kd r
    end.

  (** fix d65cbbf: record/alert/expr set to a null spelled with text (~, null) *)
  Fixpoint first_null_text (l : list (string * option node)) : option (string * node) :=
    match l with
    | [] => None
    | (k, Some n) :: r => if (String.eqb (n_tag n) nullTag && negb (String.eqb (n_value n) ""))%bool then Some (k, n) else first_null_text r
    | (_, None) :: r => first_null_text r
    end.

  Fixpoint bad_label (items : list (ynode * ynode)) : option perror :=
    match items with
    | [] => None
    | (k, v) :: r =>
        if (negb (lname_ok (y_value k)) || String.eqb (y_value k) "__name__")%bool then
          Some {| pe_line := y_first k; pe_msg := "invalid label name: " ++ y_value k |}
        else if negb (lvalue_ok (y_value v)) then
          Some {| pe_line := y_first k; pe_msg := "invalid label value: " ++ y_value v |}
        else bad_label r
    end.

  Fixpoint bad_annotation (items : list (ynode * ynode)) : option perror :=
    match items with
    | [] => None
    | (k, _) :: r =>
        if negb (lname_ok (y_value k)) then Some {| pe_line := y_first k; pe_msg := "invalid annotation name: " ++ y_value k |}
        else bad_annotation r
    end.

  Definition isSome {A} (o : option A) : bool := match o with Some _ => true | None => false end.
  Definition onode {A} (o : option (node * A)) : option node := option_map fst o.
  Definition oval {A} (o : option (node * A)) : option A := option_map snd o.

  Fixpoint first_some {A} (l : list (option A)) : option A :=
    match l with
    | [] => None
    | Some x :: _ => Some x
    | None :: r => first_some r
    end.

  Definition mk_err (first last : nat) (pe : perror) : rule :=
    {| r_body := NoBody; r_error := Some pe; r_first := first; r_last := last |}.

  (** The validation sequence of parseRule after the loop, in source order; the first [Some] is returned:
      (error, (first, last) lines of the error rule). *)
  Definition rule_checks (off_line : nat) (n : node) (s : slots) : list (option (perror * (nat * nat))) :=
    let first := s_first s in
    let last := s_last s in
    let er := fun (line : nat) (msg : string) => Some ({| pe_line := line; pe_msg := msg |}, (first, last)) in
    let here := fun (o : option perror) => option_map (fun pe => (pe, (first, last))) o in
    let rec := s_record s in
    let al := s_alert s in
    let ex := s_expr s in
    let has_name := (isSome rec || isSome al)%bool in
    [ (* recordPart != nil && alertPart != nil *)
      match rec, al with
      | Some _, Some _ => er (n_line n + off_line) "got both record and alert keys in a single rule"
      | _, _ => None end;
      match ex, al, rec with
      | Some (_, e), None, None => er (y_last e) "incomplete rule, no alert or record key"
      | _, _, _ => None end;
      match rec, s_for s with
      | Some _, Some (_, y) => er (y_first y) "invalid field 'for' in recording rule"
      | _, _ => None end;
      match rec, s_keep s with
      | Some _, Some (_, y) => er (y_first y) "invalid field 'keep_firing_for' in recording rule"
      | _, _ => None end;
      match rec, s_ann s with
      | Some _, Some (_, m) => er (fst (ymap_lines m)) "invalid field 'annotations' in recording rule"
      | _, _ => None end;
      match first_bad_tag strTag KScalar [("record", onode rec); ("alert", onode al); ("expr", onode ex);
                                  ("for", onode (s_for s)); ("keep_firing_for", onode (s_keep s))] with
      | Some (k, p) => er (n_line p + off_line) (k ++ " value must be a string, got " ++ describe_tag (n_tag p) ++ " instead")
      | None => None end;
      match first_null_text [("record", onode rec); ("alert", onode al); ("expr", onode ex)] with
      | Some (k, p) => er (n_line p + off_line) (k ++ " value must be a string, got null instead")
      | None => None end;
      match first_bad_tag mapTag KMapping [("labels", onode (s_labels s)); ("annotations", onode (s_ann s))] with
      | Some (k, p) => er (n_line p + off_line) (k ++ " value must be a mapping, got " ++ describe_tag (n_tag p) ++ " instead")
      | None => None end;
      validate_string_map "labels" (match s_labels s with Some (p, _) => mapping_nodes p | None => [] end) off_line (first, last);
      validate_string_map "annotations" (match s_ann s with Some (p, _) => mapping_nodes p | None => [] end) off_line (first, last);
      here (ensure_required_keys "record" rec ex);
      here (ensure_required_keys "alert" al ex);
      match has_name, s_unknown s with
      | true, u :: us => er (n_line u + off_line) ("invalid key(s) found: " ++ join_comma (map node_value (u :: us)))
      | _, _ => None end;
      match rec with
      | Some (_, y) => if negb (metric_ok (y_value y)) then er (y_first y) ("invalid recording rule name: " ++ y_value y) else None
      | None => None end;
      match rec with
      | Some (_, y) => if contains_brace (y_value y)
                       then er (y_first y) ("braces present in the recording rule name; should it be in expr?: " ++ y_value y) else None
      | None => None end;
      match has_name, s_labels s with
      | true, Some (_, m) => here (bad_label (ym_items m))
      | _, _ => None end;
      match al, s_ann s with
      | Some _, Some (_, m) => here (bad_annotation (ym_items m))
      | _, _ => None end ].

  Definition rule_final (s : slots) : rule * bool :=
    match s_record s, s_alert s, s_expr s with
    | Some (_, r), _, Some (_, e) =>
        ({| r_body := Recording r e (oval (s_labels s)); r_error := None; r_first := s_first s; r_last := s_last s |}, false)
    | None, Some (_, a), Some (_, e) =>
        ({| r_body := Alerting a e (oval (s_for s)) (oval (s_keep s)) (oval (s_labels s)) (oval (s_ann s));
            r_error := None; r_first := s_first s; r_last := s_last s |}, false)
    | _, _, _ => (zero_rule, true)
    end.

  (** parser.go: parseRule.  Returns (rule, isEmpty). *)
  Definition parse_rule (lines : list string) (off_line : nat) (n : node) : rule * bool :=
    match rule_loop lines off_line (unpack_nodes n) None slots0 with
    | inl r => (r, false)
    | inr s =>
        match first_some (rule_checks off_line n s) with
        | Some (pe, (f, l)) => (mk_err f l pe, false)
        | None => rule_final s
        end
    end.

  (** ---- strict.go ---- *)

  (** parseRuleStrict *)
  Fixpoint bad_rule_key (parts : list node) : option node :=
    match parts with
    | k :: r =>
        match field_of (node_value k) with
        | FUnknown => Some k
        | _ => match r with [] => None | _ :: r' => bad_rule_key r' end
        end
    | [] => None
    end.

  Definition parse_rule_strict (lines : list string) (n : node) : rule :=
    if (negb (is_tag (n_tag n) mapTag) || kind_mismatch n KMapping)%bool then
      err_rule 0 0 (n_line n) ("rule definion must be a mapping, got " ++ describe_tag (n_tag n))
    else
      match bad_rule_key (unpack_nodes n) with
      | Some k => err_rule 0 0 (n_line k) ("invalid rule key " ++ node_value k)
      | None =>
          let '(r, is_empty) := parse_rule lines 0 n in
          if is_empty then err_rule (n_line n) (n_line n) (n_line n) "incomplete rule, no alert or record key"
          else r
      end.

  Definition gerr (g : group) (line : nat) (msg : string) : group :=
    {| g_name := g_name g; g_labels := g_labels g; g_error := Some {| pe_line := line; pe_msg := msg |}; g_rules := g_rules g |}.
  Definition g_set_name (g : group) (s : string) : group :=
    {| g_name := s; g_labels := g_labels g; g_error := g_error g; g_rules := g_rules g |}.
  Definition g_set_labels (g : group) (m : ymap) : group :=
    {| g_name := g_name g; g_labels := Some m; g_error := g_error g; g_rules := g_rules g |}.
  Definition g_add_rules (g : group) (rs : list rule) : group :=
    {| g_name := g_name g; g_labels := g_labels g; g_error := g_error g; g_rules := g_rules g ++ rs |}.

  Definition scalar_with_tag (v : node) (tag : string) : bool :=
    (kind_eqb (n_kind v) KScalar && String.eqb (n_tag v) tag)%bool.

  Fixpoint bad_group_label (l : list (node * node)) : option perror :=
    match l with
    | [] => None
    | (k, v) :: r =>
        if (negb (lname_ok (node_value k)) || String.eqb (node_value k) "__name__")%bool then   (* fix cd8be7e *)
          Some {| pe_line := n_line k; pe_msg := "invalid label name: " ++ node_value k |}
        else if negb (lvalue_ok (node_value v)) then
          Some {| pe_line := n_line k; pe_msg := "invalid label value: " ++ node_value v |}
        else bad_group_label r
    end.

  (** One iteration of the loop of parseGroup: inl = return (with error), inr = continue. *)
  Definition group_entry (thanos : bool) (lines : list string) (g : group) (k v : node) : group + group :=
    let key := node_value k in
    let kl := n_line k in
    if String.eqb key "name" then
      if negb (scalar_with_tag v strTag) then inl (gerr g kl ("group name must be a string, got " ++ describe_tag (n_tag v)))
      else if String.eqb (n_value v) "" then inl (gerr g kl "group name cannot be empty")
      else inr (g_set_name g (n_value v))
    else if (String.eqb key "interval" || String.eqb key "query_offset")%bool then
      if negb (scalar_with_tag v strTag) then inl (gerr g kl ("group " ++ key ++ " must be a string, got " ++ describe_tag (n_tag v)))
      else if negb (dur_ok (n_value v)) then inl (gerr g kl ("invalid " ++ key ++ " value"))
      else inr g
    else if String.eqb key "limit" then
      if negb (scalar_with_tag v intTag) then inl (gerr g kl ("group limit must be a integer, got " ++ describe_tag (n_tag v)))
      else if negb (int_ok v) then inl (gerr g kl ("group limit must be a integer, got " ++ node_value v))
      else inr g
    else if String.eqb key "labels" then
      if (negb (String.eqb (n_tag v) mapTag) || kind_mismatch v KMapping)%bool
      then inl (gerr g kl ("group labels must be a mapping, got " ++ describe_tag (n_tag v)))
      else
        (* fix 17469da: `labels: *anchor` is read through the anchor *)
        let v := match n_alias v with Some t => t | None => v end in
        let nodes := mapping_nodes v in
        match validate_string_map "labels" nodes 0 (0, 0) with
        | Some (pe, _) => inl (gerr g (pe_line pe) (pe_msg pe))
        | None =>
            match bad_group_label nodes with
            | Some pe => inl (gerr g (pe_line pe) (pe_msg pe))
            | None => inr (g_set_labels g (new_yaml_map lines 0 k v))
            end
        end
    else if String.eqb key "rules" then
      if (negb (is_tag (n_tag v) seqTag) || kind_mismatch v KSequence)%bool
      then inl (gerr g kl ("rules must be a list, got " ++ describe_tag (n_tag v)))
      else inr (g_add_rules g (map (parse_rule_strict lines) (unpack_nodes v)))
    else if String.eqb key "partial_response_strategy" then
      if negb thanos then inl (gerr g kl "partial_response_strategy is only valid when parser is configured to use the Thanos rule schema")
      else if negb (is_tag (n_tag v) strTag) then inl (gerr g kl ("partial_response_strategy must be a string, got " ++ describe_tag (n_tag v)))
      else if (String.eqb (node_value v) "warn" || String.eqb (node_value v) "abort")%bool then inr g
      else inl (gerr g kl ("invalid partial_response_strategy value: " ++ node_value v))
    else inl (gerr g kl ("invalid group key " ++ key)).

  Fixpoint group_loop (thanos : bool) (lines : list string) (is_map : bool) (node_line : nat) (g : group) (set_keys : list string)
           (l : list (node * node)) : group :=
    match l with
    | [] =>
        if ((mem_str "rules" set_keys || is_map) && negb (mem_str "name" set_keys))%bool
        then gerr g node_line "incomplete group definition, name is required and must be set"
        else g
    | (k, v) :: r =>
        match group_entry thanos lines g k v with
        | inl g' => g'
        | inr g' =>
            if mem_str (node_value k) set_keys then gerr g' (n_line k) ("duplicated key " ++ node_value k)
            else group_loop thanos lines is_map node_line g' (node_value k :: set_keys) r
        end
    end.

  (** parseGroup *)
  Definition parse_group (thanos : bool) (lines : list string) (n : node) : group :=
    if (negb (is_tag (n_tag n) mapTag) || kind_mismatch n KMapping)%bool
    then gerr empty_group (n_line n) ("group must be a mapping, got " ++ describe_tag (n_tag n))
    else group_loop thanos lines (kind_eqb (n_kind n) KMapping) (n_line n) empty_group [] (mapping_nodes n).

  (** parseGroups: inl = error (groups dropped), inr = groups.  [names]/[acc] thread through all roots. *)
  Fixpoint groups_of_seq (thanos : bool) (lines : list string) (items : list node) (names : list string) (acc : list group)
    : perror + (list string * list group) :=
    match items with
    | [] => inr (names, acc)
    | gn :: r =>
        let g := parse_group thanos lines gn in
        if mem_str (g_name g) names then inl {| pe_line := n_line gn; pe_msg := "duplicated group name" |}
        else groups_of_seq thanos lines r (g_name g :: names) (app acc [g])
    end.

  Fixpoint groups_of_entries (thanos : bool) (lines : list string) (entries : list (node * node)) (has_groups : bool)
           (names : list string) (acc : list group) : perror + (list string * list group) :=
    match entries with
    | [] => inr (names, acc)
    | (k, v) :: r =>
        if negb (String.eqb (n_tag k) strTag) then
          inl {| pe_line := n_line k; pe_msg := "groups key must be a string, got a " ++ describe_tag (n_tag k) |}
        else if negb (String.eqb (node_value k) "groups") then
          inl {| pe_line := n_line k; pe_msg := "unexpected key " ++ node_value k |}
        else if has_groups then
          inl {| pe_line := n_line k; pe_msg := "duplicated key " ++ node_value k |}
        else if (negb (is_tag (n_tag v) seqTag) || kind_mismatch v KSequence)%bool then
          inl {| pe_line := n_line k; pe_msg := "groups value must be a list, got " ++ describe_tag (n_tag v) |}
        else
          match groups_of_seq thanos lines (unpack_nodes v) names acc with
          | inl e => inl e
          | inr (names', acc') => groups_of_entries thanos lines r true names' acc'
          end
    end.

  Fixpoint groups_of_roots (thanos : bool) (lines : list string) (roots : list node) (names : list string) (acc : list group)
    : perror + (list string * list group) :=
    match roots with
    | [] => inr (names, acc)
    | n :: r =>
        if (negb (is_tag (n_tag n) mapTag) || kind_mismatch n KMapping)%bool then
          inl {| pe_line := n_line n; pe_msg := "top level field must be a groups key, got " ++ describe_tag (n_tag n) |}
        else
          match groups_of_entries thanos lines (mapping_nodes n) false names acc with
          | inl e => inl e
          | inr (names', acc') => groups_of_roots thanos lines r names' acc'
          end
    end.

  Definition parse_groups (thanos : bool) (lines : list string) (doc : node) : perror + list group :=
    match groups_of_roots thanos lines (unpack_nodes doc) [] [] with
    | inl e => inl e
    | inr (_, gs) => inr gs
    end.

  (** ---- relaxed mode ---- *)

  (** tryParseGroup: (group, rules entry, ok) *)
  Fixpoint try_group_loop (lines : list string) (off_line : nat) (l : list (node * node)) (g : group) (rules : option (node * node))
    : group * option (node * node) :=
    match l with
    | [] => (g, rules)
    | (k, v) :: r =>
        let key := node_value k in
        if String.eqb key "name" then try_group_loop lines off_line r (g_set_name g (node_value v)) rules
        else if String.eqb key "labels" then try_group_loop lines off_line r (g_set_labels g (new_yaml_map lines off_line k v)) rules
        else if String.eqb key "rules" then
          try_group_loop lines off_line r g (if kind_eqb (n_kind v) KSequence then Some (k, v) else rules)
        else try_group_loop lines off_line r g rules
    end.

  Definition try_parse_group (lines : list string) (off_line : nat) (n : node) : option (group * (node * node)) :=
    match try_group_loop lines off_line (mapping_nodes n) empty_group None with
    | (g, Some kv) => if String.eqb (g_name g) "" then None else Some (g, kv)
    | (_, None) => None
    end.

  Definition parent_is (parent : option node) (s : string) : bool :=
    match parent with Some p => String.eqb (node_value p) s | None => false end.

  Fixpoint concat_opt {A} (l : list (option (list A))) : option (list A) :=
    match l with
    | [] => Some []
    | None :: _ => None
    | Some x :: r => match concat_opt r with Some y => Some (x ++ y)%list | None => None end
    end.

  (** parseNode.  [None] = out of fuel. *)
  Fixpoint parse_node (fuel : nat) (lines : list string) (off_line : nat) (n : node) (parent : option node) (grp : option group)
    : option (list group) :=
    match fuel with
    | 0 => None
    | S fuel' =>
        let children :=
          concat_opt (map (fun c => parse_node fuel' lines off_line c (Some n) grp) (unpack_nodes n)) in
        match n_kind n with
        | KSequence =>
            if parent_is parent "groups" then
              concat_opt (map (fun c => match try_parse_group lines off_line c with
                                        | Some (g, (rk, rv)) => parse_node fuel' lines off_line rv (Some rk) (Some g)
                                        | None => Some []
                                        end) (unpack_nodes n))
            else
              let g0 := match grp with Some g => g | None => empty_group end in
              let step := fun c =>
                            let '(r, is_empty) := parse_rule lines off_line c in
                            if is_empty then inr (parse_node fuel' lines off_line c (Some n) None) else inl r in
              let results := map step (unpack_nodes n) in
              let rules := flat_map (fun x => match x with inl r => [r] | inr _ => [] end) results in
              let nested := concat_opt (flat_map (fun x => match x with inl _ => [] | inr o => [o] end) results) in
              match nested with
              | None => None
              | Some nested =>
                  Some (app (match rules with
                             | _ :: _ => [g_add_rules g0 rules]
                             | [] => if parent_is parent "rules" then [g0] else []
                             end) nested)
              end
        | KMapping =>
            concat_opt (map (fun '(k, v) => parse_node fuel' lines off_line v (Some k) grp) (mapping_nodes n))
        | KScalar =>
            if (Nat.ltb 1 (count_char nlc (n_value n)) && negb (String.eqb (n_value n) (join_lines lines))
                && Nat.ltb (n_line n) (List.length lines))%bool then
              match n_embedded n with
              | Some e => parse_node fuel' (split_lines (n_value n)) (off_line + n_line n) e (Some n) grp
              | None => children
              end
            else children
        | _ => children
        end
    end.

  (** ---- Parser.Parse ---- *)

  (** One decoded document together with the number of source lines the content reader had seen when
      yaml.v3 returned it (cr.lines at that moment). *)
  Definition docs := list (node * nat).

  Definition multi_doc_error (line : nat) : perror :=
    {| pe_line := line; pe_msg := "multi-document YAML files are not allowed" |}.

  (** aliasExpansion (fix 2108dfa, both modes): the number of nodes of the tree the document unfolds to when every alias is
      replaced by its anchor, saturating just above the limit (the Go code memoises per node; on the inlined unfolding
      the value of a node is a function of its subtree).  A document above the limit is refused. *)
  Definition max_alias_expansion : N := 1000000.

  Fixpoint alias_expansion (n : node) {struct n} : N :=
    (fix go (l : list node) (total : N) : N :=
       match l with
       | [] => total
       | c :: r => if N.ltb max_alias_expansion total then total else go r (total + alias_expansion c)%N
       end) (n_content n) (1 + match n_alias n with Some t => alias_expansion t | None => 0 end)%N.

  Definition too_big (d : node) : bool := N.ltb max_alias_expansion (alias_expansion d).

  Definition too_big_error (d : node) : perror :=
    {| pe_line := n_line d; pe_msg := "yaml aliases of this document expand to more than 1000000 nodes" |}.

  (** The two strict-mode pre-passes of Parser.Parse (fixes b9483ac, e113542): depth-first search, the node itself, then
      its alias target, then its content (the Go code skips nodes it has already seen; on the inlined unfolding of the
      alias graph a second visit of a subtree finds nothing the first visit did not return). *)
  Fixpoint find_node (P : node -> option node) (n : node) {struct n} : option node :=
    match P n with
    | Some x => Some x
    | None =>
        match (match n_alias n with Some t => find_node P t | None => None end) with
        | Some x => Some x
        | None =>
            (fix go (l : list node) : option node :=
               match l with
               | [] => None
               | c :: r => match find_node P c with Some x => Some x | None => go r end
               end) (n_content n)
        end
    end.

  (** nullTagWithText: a scalar tagged !!null that yaml does not decode to nil (`!!null x`) *)
  Definition null_with_text (n : node) : option node :=
    if (kind_eqb (n_kind n) KScalar && String.eqb (n_tag n) nullTag && negb (null_ok n))%bool then Some n else None.

  (** duplicatedMergeKey: the second `<<` key of a mapping *)
  Fixpoint second_merge_key (l : list node) (merges : nat) : option node :=
    match l with
    | k :: _ :: r =>
        if (String.eqb (n_tag k) mergeTag && String.eqb (n_value k) "<<")%bool then
          match merges with
          | 0 => second_merge_key r 1
          | _ => Some k
          end
        else second_merge_key r merges
    | _ => None
    end.

  Definition dup_merge_key (n : node) : option node :=
    if kind_eqb (n_kind n) KMapping then second_merge_key (n_content n) 0 else None.

  Definition strict_prepass (d : node) : option perror :=
    match find_node null_with_text d with
    | Some n => Some {| pe_line := n_line n; pe_msg := "cannot decode `" ++ n_value n ++ "` as a null" |}
    | None =>
        match find_node dup_merge_key d with
        | Some n => Some {| pe_line := n_line n; pe_msg := "duplicated " ++ n_value n ++ " key" |}
        | None => None
        end
    end.

  Fixpoint parse_strict_loop (thanos : bool) (all_lines : list string) (ds : docs) (yerr : option perror) (index : nat)
           (groups : list group) (err : option perror) : file :=
    match ds with
    | [] => match yerr with
            | Some e => {| f_groups := groups; f_error := Some e |}
            | None => {| f_groups := groups; f_error := err |}
            end
    | (d, nl) :: r =>
        if too_big d then {| f_groups := groups; f_error := Some (too_big_error d) |}
        else
        match strict_prepass d with
        | Some e => {| f_groups := groups; f_error := Some e |}
        | None =>
            match parse_groups thanos (firstn nl all_lines) d with
            | inl e => {| f_groups := groups; f_error := Some e |}
            | inr gs =>
                let index := S index in
                parse_strict_loop thanos all_lines r yerr index (app groups gs)
                                  (if Nat.ltb 1 index then Some (multi_doc_error (n_line d)) else None)
            end
        end
    end.

  Definition parse_strict (thanos : bool) (all_lines : list string) (ds : docs) (yerr : option perror) : file :=
    parse_strict_loop thanos all_lines ds yerr 0 [] None.

  Definition doc_fuel (d : node) : nat := 4 + node_height d.

  Fixpoint parse_relaxed_loop (all_lines : list string) (ds : docs) (yerr : option perror) (groups : list group) : option file :=
    match ds with
    | [] => Some {| f_groups := groups; f_error := yerr |}
    | (d, nl) :: r =>
        if too_big d then Some {| f_groups := groups; f_error := Some (too_big_error d) |}
        else
        match parse_node (doc_fuel d) (firstn nl all_lines) 0 d None None with
        | None => None
        | Some gs => parse_relaxed_loop all_lines r yerr (app groups gs)
        end
    end.

  Definition parse_relaxed (all_lines : list string) (ds : docs) (yerr : option perror) : option file :=
    parse_relaxed_loop all_lines ds yerr [].
End Parser.
