(** C08 — executable predicates over the GENERATED tables (Gen/Tables.v, regenerated from the Go AST on
    every run).  Definitions only; the finite theorems are in Proofs/C08_tables.v. *)
From Coq Require Import List String Ascii Bool.
From PintV Require Import Common.Bytes Gen.Tables Model.CheckSwitch.
Import ListNotations.
Open Scope string_scope.
Open Scope list_scope.

(** join: registration site -> check type, through the constructor called at the site *)
Definition type_of_ctor (ctor : string) : option check_type :=
  find (fun t => String.eqb (ct_ctor t) ctor) check_types.

(** the name constant passed at the registration site is the constant the check's Reporter() returns *)
Definition reg_name_is_reporter (r : registration) : bool :=
  match type_of_ctor (rg_ctor r) with
  | Some t => String.eqb (rg_name r) (ct_reporter t)
  | None => false
  end.

Definition reg_name_in_check_names (r : registration) : bool := mem_str (rg_name r) check_names.

(** Meta().Online of the registered check type  <->  the registered name is listed in OnlineChecks *)
Definition reg_online_iff_listed (r : registration) : bool :=
  match type_of_ctor (rg_ctor r) with
  | Some t => Bool.eqb (ct_online t) (mem_str (rg_name r) online_checks)
  | None => false
  end.

(** one direction each (reported separately) *)
Definition reg_online_then_listed (r : registration) : bool :=
  match type_of_ctor (rg_ctor r) with
  | Some t => implb (ct_online t) (mem_str (rg_name r) online_checks)
  | None => false
  end.

Definition reg_listed_then_online (r : registration) : bool :=
  match type_of_ctor (rg_ctor r) with
  | Some t => implb (mem_str (rg_name r) online_checks) (ct_online t)
  | None => false
  end.

(** every Problem literal / problemFromError call inside a check type's methods uses c.Reporter() *)
Definition type_reports_as_reporter (t : check_type) : bool :=
  forallb (fun s => String.eqb s "c.Reporter()") (ct_sites t).

(** the only check type whose Reporter() is not a constant is the always-enabled one (ErrorCheck), and it is
    never registered through a name constant *)
Definition type_const_or_always (t : check_type) : bool :=
  mem_str (ct_reporter t) check_names || ct_always t.

Definition registered_ctor_not_always (r : registration) : bool :=
  match type_of_ctor (rg_ctor r) with
  | Some t => negb (ct_always t)
  | None => false
  end.

(** every documented check name has at least one registration site *)
Definition name_is_registered (n : string) : bool :=
  existsb (fun r => String.eqb (rg_name r) n) registrations.

Fixpoint nodup_str (l : list string) : bool :=
  match l with
  | [] => true
  | x :: r => negb (mem_str x r) && nodup_str r
  end.

(** A parsed rule as the table describes it (server name / settings dependent suffix of String() supplied). *)
Definition prule_of_registration (r : registration) (t : check_type) (suffix : string) (tags : list string)
           (locked matched : bool) : prule :=
  {| pr_name := rg_name r;
     pr_check := {| ck_string := (ct_reporter t ++ suffix)%string; ck_reporter := ct_reporter t;
                    ck_states := ct_states t; ck_always := ct_always t; ck_online := ct_online t |};
     pr_tags := tags; pr_locked := locked; pr_matched := matched |}.
