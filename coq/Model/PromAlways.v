(** [always_ne]: a conservative "every admitted result is a non-empty vector" analysis.  It is the verified
    replacement of the analyser's AlwaysReturns flag (which survives operators that can drop every series:
    known finding K7) in the guards of the C12 theorems about [unless on()] and [or on()]. *)
From Coq Require Import List String Bool Floats NArith.
From PintV Require Import Common.Bytes Gen.C04 Model.PromQL Model.PromSem.
Import ListNotations.
Open Scope string_scope.
Open Scope list_scope.

Fixpoint always_ne (e : expr) : bool :=
  match e with
  | EParen e | EUnary _ e => always_ne e
  | EAgg op _ _ _ e => match op with ATopk | ABottomk | AOther => false | _ => always_ne e end
  | ECall f ats args =>
      match sem_class f with
      | SCVector => true
      | SCTimeLike => match args with [] => true | _ => false end
      | SCMap _ true =>
          match first_vec_arg ats (List.length args) 0 with
          | Some i => (fix nth_always (l' : list expr) (i : nat) {struct l'} : bool :=
                         match l' with
                         | [] => false
                         | a :: r => match i with O => always_ne a | S k => nth_always r k end
                         end) args i
          | None => false
          end
      | _ => false
      end
  | EBin op rb None a b =>
      negb (is_setop op) && negb (is_comparison op && negb rb) && (always_ne a || always_ne b)
  | EBin OOr _ (Some _) a _ => always_ne a
  | _ => false
  end.

Definition on_empty (vm : vmatch) : bool :=
  vm_on vm && match vm_labels vm with [] => true | _ => false end.
