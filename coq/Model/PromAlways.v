(** [always_ne]: a conservative "every admitted result is a non-empty vector" analysis.  It is the verified
    replacement of the analyser's AlwaysReturns flag (which survives operators that can drop every series:
    known finding K7) in the guards of the C12 theorems about [unless on()] and [or on()]. *)
From Coq Require Import List String Bool Floats NArith.
From PintV Require Import Common.Bytes Gen.C04 Model.PromQL Model.PromSem.
Import ListNotations.
Open Scope string_scope.
Open Scope list_scope.

Fixpoint always_ne (e : expr) : bool :=
  match e with
  | EParen e | EUnary _ e => always_ne e
  | EAgg op _ _ _ e => match op with ATopk | ABottomk | AOther => false | _ => always_ne e end
  | ECall f ats args =>
      match sem_class f with
      | SCVector => true
      | SCTimeLike => match args with [] => true | [a] => always_ne a | _ => false end
      | SCMap _ true =>
          match first_vec_arg ats (List.length args) 0 with
          | Some i => (fix nth_always (l' : list expr) (i : nat) {struct l'} : bool :=
                         match l' with
                         | [] => false
                         | a :: r => match i with O => always_ne a | S k => nth_always r k end
                         end) args i
          | None => false
          end
      | _ => false
      end
  | EBin op rb None a b =>
      negb (is_setop op) && negb (is_comparison op && negb rb) && (always_ne a || always_ne b)
  | EBin OOr _ (Some _) a _ => always_ne a
  | _ => false
  end.

Definition on_empty (vm : vmatch) : bool :=
  vm_on vm && match vm_labels vm with [] => true | _ => false end.

(** ** The syntactic complement of known finding K7

    [k7_free_vec e]: [e] is a vector-typed expression built WITHOUT the operators through which the analyser's
    AlwaysReturns flag is known to be wrong (K7: vector/vector binary operations, clamp, topk/bottomk) and without the
    functions for which the semantics only has an inclusion (range functions, label_replace/label_join); per-series
    functions are taken with their single vector argument (abs, ceil, ln, sort, timestamp, hour(v), ...).  On this
    fragment the analyser's own flag is sound: Proofs/C12_always.v [analyser_always_ne]. *)
Fixpoint scalar_like (e : expr) : bool :=
  match e with
  | ENum _ => true
  | EParen e | EUnary _ e => scalar_like e
  | ECall f _ _ => match sem_class f with SCScalar => true | _ => false end
  | EBin op _ None a b => negb (is_setop op) && scalar_like a && scalar_like b
  | _ => false
  end.

Fixpoint k7_free_vec (e : expr) : bool :=
  match e with
  | ESel _ => true
  | EParen e | EUnary _ e => k7_free_vec e
  | EAgg op _ _ _ e => match op with ATopk | ABottomk | AOther => false | _ => k7_free_vec e end
  | ECall f ats args =>
      match sem_class f with
      | SCVector | SCAbsent => true
      | SCTimeLike => match args with [] => true | [a] => is_vec_or_matrix_t (arg_type_of ats 0) && k7_free_vec a | _ => false end
      | SCMap _ true => match args with [a] => is_vec_or_matrix_t (arg_type_of ats 0) && k7_free_vec a | _ => false end
      | _ => false
      end
  | EBin op rb None a b =>
      negb (is_setop op) && ((k7_free_vec a && scalar_like b) || (scalar_like a && k7_free_vec b))
  | _ => false
  end.

(** ** The syntactic complement of known finding K3

    [k3_free e]: a vector-typed expression without any of the mechanisms through which the analyser's "can have label"
    is known not to mean "must have label" (K3: includeLabel of on()/group_x() labels -> no vector/vector operation;
    functions re-guaranteeing selector labels, label_replace/label_join -> no call; count_values).  On this fragment
    the analyser's own belief is sound: Proofs/C12_k3.v [analyser_can_have_must]. *)
Fixpoint k3_free (e : expr) : bool :=
  match e with
  | ESel _ => true
  | EMatrix e | ESubq e | EParen e | EUnary _ e => k3_free e
  | EAgg op _ _ _ e => match op with ACountValues | AOther => false | _ => k3_free e end
  | EBin op _ None a b => negb (is_setop op) && ((k3_free a && scalar_like b) || (scalar_like a && k3_free b))
  | _ => false
  end.
