(** Line extent of [diags.NewPositionRange(lines, node, minColumn).Lines()] (internal/diags/position.go).

    The parser only consumes the FIRST and LAST line of the position list of a scalar (rule line ranges,
    error lines).  The column-exact model of NewPositionRange belongs to C06 (Model/Position.v, other owner);
    this file tracks, through the same loop, only which lines receive a position.  Positions are appended in
    non-decreasing line order, so Lines() = (first appended line, last appended line).

    The parser theorems are generic in this function (a Section variable); the correspondence runs use
    this executable version.  [None] = the Go code would panic (index out of range). *)
From Coq Require Import List String Ascii Arith Bool Lia.
From PintV Require Import Common.Bytes.
Import ListNotations.
Open Scope string_scope.

Definition sp : ascii := " "%char.
Definition nl : ascii := "010"%char.

(** countLeadingSpace: number of leading 0x20 bytes (the Go code ranges over runes, but stops at the first
    rune that is not ' ', and ' ' is a single byte). *)
Fixpoint count_leading_space (s : string) : nat :=
  match s with
  | String c r => if Ascii.eqb c sp then S (count_leading_space r) else 0
  | EmptyString => 0
  end.

Fixpoint drop (n : nat) (s : string) : string :=
  match n, s with
  | 0, _ => s
  | S n', String _ r => drop n' r
  | S _, EmptyString => EmptyString
  end.

(** Scan one line: consume from [need] every byte matched in order; returns (remaining need, matched any). *)
Fixpoint scan_line (line need : string) : string * bool :=
  match line, need with
  | String got lr, String c nr =>
      if Ascii.eqb c got then
        match nr with
        | EmptyString => (EmptyString, true)
        | _ => let '(n', _) := scan_line lr nr in (n', true)
        end
      else scan_line lr need
  | _, _ => (need, false)
  end.

Definition upd (acc : option (nat * nat)) (l : nat) : option (nat * nat) :=
  match acc with
  | None => Some (l, l)
  | Some (f, la) => Some (Nat.min f l, Nat.max la l)
  end.

(** One iteration per source line.  [need] is the not yet matched suffix of the value (non-empty). *)
Fixpoint pl_loop (fuel : nat) (lines : list string) (min_col : nat) (line_idx col_idx : nat) (need : string)
         (acc : option (nat * nat)) : option (option (nat * nat)) :=
  match fuel with
  | 0 => Some acc
  | S fuel' =>
      if Nat.ltb (List.length lines) line_idx then Some acc
      else if Nat.eqb line_idx 0 then None                 (* lines[-1]: panic *)
      else
        let acc1 := match acc with Some _ => upd acc (line_idx - 1) | None => None end in
        let line := nth (line_idx - 1) lines "" in
        let next (need : string) (acc : option (nat * nat)) :=
          match need with
          | String c nr =>
              if (Ascii.eqb c sp || Ascii.eqb c nl)%bool then
                match nr with
                | EmptyString => Some acc
                | _ => pl_loop fuel' lines min_col (S line_idx) min_col nr acc
                end
              else pl_loop fuel' lines min_col (S line_idx) min_col need acc
          | EmptyString => Some acc
          end in
        if Nat.eqb (String.length line) 0 then next need acc1
        else
          let col := Nat.min (String.length line) col_idx in
          if Nat.eqb col 0 then None                         (* line[-1:]: panic *)
          else
            let rest := drop (col - 1) line in
            let ls := count_leading_space rest in
            let vs := count_leading_space need in
            let rest := if Nat.ltb vs ls then drop (ls - vs) rest else rest in
            let '(need', matched) := scan_line rest need in
            let acc2 := if matched then upd acc1 line_idx else acc1 in
            match need' with
            | EmptyString => Some acc2
            | _ => next need' acc2
            end
  end.

(** (first, last) of NewPositionRange(lines, val, minColumn).Lines(); None = panic. *)
Definition pos_lines (lines : list string) (value : string) (line col min_col : nat) : option (nat * nat) :=
  match value with
  | EmptyString => Some (line, line)
  | _ =>
      match pl_loop (S (List.length lines)) lines min_col line col value None with
      | None => None
      | Some None => Some (line, line)
      | Some (Some r) => Some r
      end
  end.
