(** Line extent of [diags.NewPositionRange(lines, node, minColumn).Lines()] (internal/diags/position.go).

    The parser only consumes the FIRST and LAST line of the position list of a scalar (rule line ranges,
    error lines).  The column-exact model of NewPositionRange belongs to C06 (Model/Position.v, other owner);
    this file tracks, through the same loop, only which lines receive a position.  Positions are appended in
    non-decreasing line order, so Lines() = (first appended line, last appended line).

    The parser theorems are generic in this function (a Section variable); the correspondence runs use
    this executable version.  [None] = the Go code would panic (index out of range).

    Code modelled: /repo HEAD after the position fixes 660d1e1 (block scalars start on the line after the header),
    6c7f5de (a line break gets a position only when it was consumed as a character of the value), 9af0d98
    (character column -> byte column on the node's own line) and 69b377d (anchored scalars start after the anchor).
    Inputs beyond value/line/column: [block] = Style has LiteralStyle or FoldedStyle, [anchor_len] = len(Anchor)
    (0 = no anchor), [dq] = Style has DoubleQuotedStyle (a2fc6da: an escape sequence of a double-quoted scalar is one
    token standing for the bytes it decodes to). *)
From Coq Require Import List String Ascii Arith Bool NArith Lia.
From PintV Require Import Common.Bytes.
From PintV Require Model.Position.   (* only [Position.unescape] and [Position.strip_prefix] (C06's byte-exact model of the Go helper) *)
Import ListNotations.
Open Scope string_scope.

Definition sp : ascii := " "%char.
Definition nl : ascii := "010"%char.

(** countLeadingSpace: number of leading 0x20 bytes (the Go code ranges over runes, but stops at the first
    rune that is not ' ', and ' ' is a single byte). *)
Fixpoint count_leading_space (s : string) : nat :=
  match s with
  | String c r => if Ascii.eqb c sp then S (count_leading_space r) else 0
  | EmptyString => 0
  end.

Fixpoint drop (n : nat) (s : string) : string :=
  match n, s with
  | 0, _ => s
  | S n', String _ r => drop n' r
  | S _, EmptyString => EmptyString
  end.

(** Scan one line: consume from [need] every byte matched in order; returns (remaining need, matched any). *)
Fixpoint scan_line (line need : string) : string * bool :=
  match line, need with
  | String got lr, String c nr =>
      if Ascii.eqb c got then
        match nr with
        | EmptyString => (EmptyString, true)
        | _ => let '(n', _) := scan_line lr nr in (n', true)
        end
      else scan_line lr need
  | _, _ => (need, false)
  end.

(** The byte loop for a double-quoted scalar (a2fc6da); [skip] = Go's skip counter; [Position.unescape] decodes the
    escape sequence the rest of the line starts with: (decoded text, source bytes of the sequence). *)
Definition backslash : ascii := "\"%char.

Fixpoint scan_line_dq (line : string) (skip : nat) (need : string) (matched : bool) : string * bool :=
  match line with
  | EmptyString => (need, matched)
  | String got lr =>
      match skip with
      | S k => scan_line_dq lr k need matched
      | O =>
          match need with
          | EmptyString => (need, matched)
          | String c nr =>
              if Ascii.eqb got backslash then
                let '(decoded, size) := Position.unescape line in
                match decoded, Position.strip_prefix decoded need with
                | String _ _, Some left_ =>
                    match left_ with
                    | EmptyString => (EmptyString, true)
                    | _ => scan_line_dq lr (Nat.pred size) left_ true
                    end
                | _, _ => scan_line_dq lr (Nat.pred size) need matched
                end
              else if Ascii.eqb c got then
                match nr with
                | EmptyString => (EmptyString, true)
                | _ => scan_line_dq lr 0 nr true
                end
              else scan_line_dq lr 0 need matched
          end
      end
  end.

Definition scan (dq : bool) (line need : string) : string * bool :=
  if dq then scan_line_dq line 0 need false else scan_line line need.

Definition upd (acc : option (nat * nat)) (l : nat) : option (nat * nat) :=
  match acc with
  | None => Some (l, l)
  | Some (f, la) => Some (Nat.min f l, Nat.max la l)
  end.

(** Width in bytes of the first rune of a non-empty string, Go semantics ([for i := range line]): an invalid or
    truncated UTF-8 sequence is one byte wide. *)
Definition is_cont (b : N) : bool := (N.leb 128 b && N.leb b 191)%bool.

Definition rune_width (s : string) : nat :=
  match s with
  | EmptyString => 1
  | String c0 r =>
      let b0 := N_of_ascii c0 in
      if N.ltb b0 128 then 1
      else if (N.ltb b0 194 || N.ltb 244 b0)%bool then 1
      else if N.ltb b0 224 then
        match r with
        | String c1 _ => if is_cont (N_of_ascii c1) then 2 else 1
        | _ => 1
        end
      else if N.ltb b0 240 then
        let lo := if N.eqb b0 224 then 160%N else 128%N in
        let hi := if N.eqb b0 237 then 159%N else 191%N in
        match r with
        | String c1 (String c2 _) =>
            let b1 := N_of_ascii c1 in
            if (N.leb lo b1 && N.leb b1 hi && is_cont (N_of_ascii c2))%bool then 3 else 1
        | _ => 1
        end
      else
        let lo := if N.eqb b0 240 then 144%N else 128%N in
        let hi := if N.eqb b0 244 then 143%N else 191%N in
        match r with
        | String c1 (String c2 (String c3 _)) =>
            let b1 := N_of_ascii c1 in
            if (N.leb lo b1 && N.leb b1 hi && is_cont (N_of_ascii c2) && is_cont (N_of_ascii c3))%bool then 4 else 1
        | _ => 1
        end
  end.

(** position.go: byteColumn(line, column).  [s] = the suffix of the line starting at byte offset [i]. *)
Fixpoint byte_column (fuel : nat) (s : string) (i column : nat) : nat :=
  match fuel with
  | 0 => i + column
  | S fuel' =>
      match s with
      | EmptyString => i + column                       (* len(line) + column *)
      | _ => if Nat.leb column 1 then i + 1
             else let w := rune_width s in byte_column fuel' (drop w s) (i + w) (column - 1)
      end
  end.

Definition tab : ascii := "009"%char.

(** position.go: skipBlanks(line, column) *)
Fixpoint skip_blanks (fuel : nat) (line : string) (column : nat) : nat :=
  match fuel with
  | 0 => column
  | S fuel' =>
      if (Nat.leb 1 column && Nat.leb column (String.length line))%bool then
        match String.get (column - 1) line with
        | Some c => if (Ascii.eqb c sp || Ascii.eqb c tab)%bool then skip_blanks fuel' line (S column) else column
        | None => column
        end
      else column
  end.

(** One iteration per source line.  [need] is the not yet matched suffix of the value (non-empty); [lb] = the
    previous iteration consumed a line break of the value ([lineBreak]); [first_line]/[anchor_len]: the node's own
    line (where the column is a character column and an anchor may precede the scalar). *)
Fixpoint pl_loop (fuel : nat) (dq : bool) (lines : list string) (min_col first_line anchor_len : nat) (line_idx col_idx : nat) (need : string)
         (acc : option (nat * nat)) (lb : bool) : option (option (nat * nat)) :=
  match fuel with
  | 0 => Some acc
  | S fuel' =>
      if Nat.ltb (List.length lines) line_idx then Some acc
      else if Nat.eqb line_idx 0 then None                 (* lines[-1]: panic *)
      else
        let acc1 := if lb then upd acc (line_idx - 1) else acc in
        let line := nth (line_idx - 1) lines "" in
        let next (need : string) (acc : option (nat * nat)) :=
          match need with
          | String c nr =>
              if (Ascii.eqb c sp || Ascii.eqb c nl)%bool then
                match nr with
                | EmptyString => Some acc
                | _ => pl_loop fuel' dq lines min_col first_line anchor_len (S line_idx) min_col nr acc true
                end
              else pl_loop fuel' dq lines min_col first_line anchor_len (S line_idx) min_col need acc false
          | EmptyString => Some acc
          end in
        if Nat.eqb (String.length line) 0 then next need acc1
        else
          let col0 :=
            if Nat.eqb line_idx first_line then
              let c := byte_column (String.length line) line 0 col_idx in
              if Nat.eqb anchor_len 0 then c else skip_blanks (S (String.length line)) line (c + 1 + anchor_len)
            else col_idx in
          let col := Nat.min (String.length line) col0 in
          if Nat.eqb col 0 then None                         (* line[-1:]: panic *)
          else
            let rest := drop (col - 1) line in
            let ls := count_leading_space rest in
            let vs := count_leading_space need in
            let rest := if Nat.ltb vs ls then drop (ls - vs) rest else rest in
            let '(need', matched) := scan dq rest need in
            let acc2 := if matched then upd acc1 line_idx else acc1 in
            match need' with
            | EmptyString => Some acc2
            | _ => next need' acc2
            end
  end.

(** (first, last) of NewPositionRange(lines, val, minColumn).Lines(); None = panic. *)
Definition pos_lines (lines : list string) (value : string) (line col min_col : nat) (block : bool) (anchor_len : nat) (dq : bool)
  : option (nat * nat) :=
  match value with
  | EmptyString => Some (line, line)
  | _ =>
      let start := if block then S line else line in
      let col0 := if block then min_col else col in
      match pl_loop (S (List.length lines)) dq lines min_col line anchor_len start col0 value None false with
      | None => None
      | Some None => Some (line, line)
      | Some (Some r) => Some r
      end
  end.
