(** C13 — the specification side: what a Prometheus-compatible server answers for a range query, the
    reference "maximal runs of present grid points" of ONE unsliced evaluation, and the sliced pipeline
    (per-slice fold, expansion, concatenation in arrival order, merge, sort) assembled from Model/Range.v. *)
From Coq Require Import List ZArith NArith Bool Lia.
From PintV Require Import Common.GoTime Model.Range.
Import ListNotations.
Open Scope Z_scope.

(** the evaluation grid of query_range(start=a, end=b, step): a, a+step, ... <= b *)
Fixpoint grid (n : nat) (a step : Z) : list Z :=
  match n with
  | O => []
  | S n' => a :: grid n' (a + step) step
  end.

Definition npoints (a b step : Z) : nat :=
  if b <? a then O else Z.to_nat ((b - a) / step + 1).

Definition grid_between (a b step : Z) : list Z := grid (npoints a b step) a step.

(** a presence model: at which instants does the series have a value *)
Definition presence := Z -> bool.

(** the samples (timestamps, ascending) the server returns for one series and one slice *)
Definition server_samples (pres : presence) (a b step : Z) : list Z :=
  filter pres (grid_between a b step).

(** presence given by closed intervals (case files, generators) *)
Definition pres_of (ivs : list tr) : presence :=
  fun t => existsb (fun iv => (fst iv <=? t) && (t <=? snd iv)) ivs.

(** Reference: maximal runs of consecutive present points of a grid, rendered as
    [t_first, t_last + step - 1s] (what pint reports for an uninterrupted run). *)
Fixpoint runs (step : Z) (pres : presence) (g : list Z) (cur : option (Z * Z)) : list tr :=
  match g with
  | [] => match cur with Some (s, l) => [(s, l + (step - sec))] | None => [] end
  | t :: r =>
      if pres t then
        runs step pres r (match cur with Some (s, _) => Some (s, t) | None => Some (t, t) end)
      else
        match cur with
        | Some (s, l) => (s, l + (step - sec)) :: runs step pres r None
        | None => runs step pres r None
        end
  end.

Definition runs_of (fp : N) (step : Z) (pres : presence) (a b : Z) : list range :=
  map (fun r => mkR fp (fst r) (snd r)) (runs step pres (grid_between a b step) None).

Definition series := list (N * presence).

Definition ref_runs (step : Z) (ss : series) (a b : Z) : list range :=
  flat_map (fun s => runs_of (fst s) step (snd s) a b) ss.

(** what one slice request contributes: streamSampleStream folds every returned series into one [dst]
    with AppendSampleToRanges, then rangeQuery.Run applies ExpandRangesEnd *)
Definition per_slice (step : Z) (ss : series) (sl : tr) : list range :=
  expand_end
    (fold_left (fun dst s => append_samples dst (fst s) (server_samples (snd s) (fst sl) (snd sl) step) step)
               ss [])
    step.

(** the merged result for the slice responses arriving in the order [arrival] *)
Definition sliced (fuel : nat) (step : Z) (ss : series) (arrival : list tr) : option (list range) :=
  finalize fuel step (flat_map (per_slice step ss) arrival).

(** the same when every response lists its series in an order of its own ([ord sl] = the series of the response to
    slice [sl], in response order): the API promises no order across requests *)
Definition sliced_ord (fuel : nat) (step : Z) (ord : tr -> series) (arrival : list tr) : option (list range) :=
  finalize fuel step (flat_map (fun sl => per_slice step (ord sl) sl) arrival).

(** one series, as in the statement of the property *)
Definition per_slice1 (step : Z) (fp : N) (pres : presence) (sl : tr) : list range :=
  per_slice step [(fp, pres)] sl.

Definition sliced1 (fuel : nat) (step : Z) (fp : N) (pres : presence) (arrival : list tr) : option (list range) :=
  sliced fuel step [(fp, pres)] arrival.

(** wire format: formatTime prints float seconds and the server keeps milliseconds (round half up) *)
Definition wire (t : Z) : Z := ((t + 500000) / 1000000) * 1000000.
