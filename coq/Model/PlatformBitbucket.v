(** C17, BitBucket: internal/reporter/bitbucket_api.go does not implement the Commenter interface; it has its own
    reconciliation (limitComments, pruneComments, addComments) and its own anchor computation
    (pendingComment.toBitBucketComment).  This file models those four functions over the comments pint sees
    (getPullRequestComments' result).  Server behaviour assumed: a created comment is listed back with the anchor
    (path, line, lineType, diffType) and the text it was sent with, severity as sent, no replies.  Definitions only. *)
From Coq Require Import List String ZArith NArith Bool.
From PintV Require Import Common.Bytes.
Import ListNotations.
Local Open Scope string_scope.

Record bb_anchor := { ba_path : string; ba_line : Z; ba_line_type : string; ba_diff_type : string }.

(** BitBucketPendingComment (fileType is sent but never compared) *)
Record bb_pending := { bp_anchor : bb_anchor; bp_file_type : string; bp_text : string; bp_severity : string }.

(** bitBucketComment *)
Record bb_existing := { be_id : N; be_anchor : bb_anchor; be_text : string; be_severity : string; be_replies : nat }.

(** pendingComment + the PR changes of its file: toBitBucketComment *)
Record bb_changes := { bc_modified : list (string * list Z); bc_line_map : list (string * list (Z * Z)) }.

Fixpoint assoc_z (k : Z) (l : list (Z * Z)) : option Z :=
  match l with [] => None | (a, b) :: r => if Z.eqb k a then Some b else assoc_z k r end.

Definition bb_to_comment (changes : option bb_changes) (severity text path : string) (line : Z) (anchor_before : bool) : bb_pending :=
  let mk lt ft ln := {| bp_anchor := {| ba_path := path; ba_line := ln; ba_line_type := lt; ba_diff_type := "EFFECTIVE" |};
                        bp_file_type := ft; bp_text := text; bp_severity := severity |} in
  if anchor_before then mk "REMOVED" "FROM" line
  else match changes with
       | None => mk "CONTEXT" "FROM" line
       | Some ch =>
           if match assoc path (bc_modified ch) with Some ls => existsb (Z.eqb line) ls | None => false end
           then mk "ADDED" "TO" line
           else match assoc path (bc_line_map ch) with
                | Some m => match assoc_z line m with Some v => mk "CONTEXT" "FROM" v | None => mk "CONTEXT" "FROM" line end
                | None => mk "CONTEXT" "FROM" line
                end
       end.

(** BitBucketCommentAnchor.isEqual && text equality *)
Definition anchor_eqb (a b : bb_anchor) : bool :=
  String.eqb (ba_path a) (ba_path b) && Z.eqb (ba_line a) (ba_line b) &&
  String.eqb (ba_line_type a) (ba_line_type b) && String.eqb (ba_diff_type a) (ba_diff_type b).

Definition bb_equal (e : bb_existing) (p : bb_pending) : bool :=
  anchor_eqb (be_anchor e) (bp_anchor p) && String.eqb (be_text e) (bp_text p).

(** limitComments: a hard cap, the rest is replaced by one general comment ([msg]: its text, an input) *)
Definition bb_limit (max_comments : nat) (msg : string) (src : list bb_pending) : list bb_pending :=
  if Nat.leb (List.length src) max_comments then src
  else (firstn max_comments src ++
        [{| bp_anchor := {| ba_path := ""; ba_line := 0; ba_line_type := ""; ba_diff_type := "EFFECTIVE" |};
            bp_file_type := ""; bp_text := msg; bp_severity := "NORMAL" |}])%list.

(** pruneComments: an existing comment is kept iff some pending comment equals it (the
    [cur.anchor.DiffType == "COMMIT"] clause of the loop can only reset a flag that is still false) *)
Inductive bb_prune_action := BDelete | BResolve | BEscalateResolve.

Definition bb_keep (pend : list bb_pending) (e : bb_existing) : bool := existsb (bb_equal e) pend.

Definition bb_prune (existing : list bb_existing) (pend : list bb_pending) : list (N * bb_prune_action) :=
  flat_map (fun e => if bb_keep pend e then []
                     else [(be_id e, if Nat.eqb (be_replies e) 0 then BDelete
                                     else if String.eqb (be_severity e) "BLOCKER" then BResolve else BEscalateResolve)])
           existing.

(** addComments: [add := true; for cur: if equal {add = false}; if cur.DiffType == "COMMIT" {add = true}] - no break *)
Definition bb_add_flag (existing : list bb_existing) (p : bb_pending) : bool :=
  fold_left (fun add e => let add := if bb_equal e p then false else add in
                          if String.eqb (ba_diff_type (be_anchor e)) "COMMIT" then true else add) existing true.

Definition bb_add (existing : list bb_existing) (pend : list bb_pending) : list bb_pending :=
  filter (bb_add_flag existing) pend.

(** the comment pint will see for a posted one (echo) *)
Definition bb_posted (id : N) (p : bb_pending) : bb_existing :=
  {| be_id := id; be_anchor := bp_anchor p; be_text := bp_text p; be_severity := bp_severity p; be_replies := 0 |}.

Fixpoint number_from (n : N) (l : list bb_pending) : list bb_existing :=
  match l with [] => [] | p :: r => bb_posted n p :: number_from (N.succ n) r end.

(** one reporting run over pint's view: pruned comments disappear from the view (deleted, or resolved: not OPEN any
    more / resolved BLOCKER), added ones appear *)
Definition bb_run (next_id : N) (existing : list bb_existing) (pend : list bb_pending) : list bb_existing :=
  (filter (bb_keep pend) existing ++ number_from next_id (bb_add existing pend))%list.
