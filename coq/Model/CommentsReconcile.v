(** C17 model of internal/reporter/comments.go: dedupReports, makeComments (grouping and line choice; the
    markdown text is carried as an opaque value), updateDestination as a step function over the comment store
    of an abstract platform {is_equal, can_create, can_delete, create}.  Executable definitions only. *)
From Coq Require Import List String ZArith NArith Bool Lia.
From PintV Require Import Common.Bytes.
Import ListNotations.
Local Open Scope Z_scope.

(* ---------------------------------------------------------------------------------------------- *)
(** * The part of reporter.Report that comments.go reads *)

Record creport := {
  cr_id : N;                      (* identity only (the harness tags reports through Owner) *)
  cr_target : string;             (* Path.SymlinkTarget *)
  cr_reporter : string; cr_summary : string; cr_details : string;
  cr_lfirst : Z; cr_llast : Z; cr_sev : Z; cr_anchor_before : bool;
  cr_modified : list Z;           (* ModifiedLines *)
  cr_is_dup : bool }.             (* IsDuplicate *)

(** the condition chain of dedupReports' inner loop: same severity, reporter, target, lines, anchor *)
Definition same_group (d r : creport) : bool :=
  (cr_sev d =? cr_sev r) && String.eqb (cr_reporter d) (cr_reporter r) && String.eqb (cr_target d) (cr_target r) &&
  (cr_lfirst d =? cr_lfirst r) && (cr_llast d =? cr_llast r) && Bool.eqb (cr_anchor_before d) (cr_anchor_before r).

(** insert a report into the first group whose head matches; skip it when its message equals the head's *)
Fixpoint add_to_groups (dst : list (list creport)) (r : creport) : list (list creport) :=
  match dst with
  | [] => [[r]]
  | g :: rest =>
      match g with
      | [] => g :: add_to_groups rest r          (* unreachable: groups are never empty *)
      | d :: _ =>
          if same_group d r then
            (if String.eqb (cr_summary d) (cr_summary r) && String.eqb (cr_details d) (cr_details r)
             then g else (g ++ [r])%list) :: rest
          else g :: add_to_groups rest r
      end
  end.

(** dedupReports(src, showDuplicates) *)
Definition dedup_reports (src : list creport) (show_dups : bool) : list (list creport) :=
  fold_left (fun dst r => if negb show_dups && cr_is_dup r then dst else add_to_groups dst r) src [].

(** the comment line: the last modified line inside Lines, else Lines.Last
    [for i := Last; i >= First; i-- { if slices.Contains(ModifiedLines, i) { line = i; break } }] *)
Fixpoint last_modified_from (fuel : nat) (i first : Z) (modified : list Z) : option Z :=
  match fuel with
  | O => None
  | S f => if i <? first then None
           else if existsb (Z.eqb i) modified then Some i
           else last_modified_from f (i - 1) first modified
  end.

Definition comment_line (r : creport) : Z :=
  match last_modified_from (S (Z.to_nat (cr_llast r - cr_lfirst r + 1))) (cr_llast r) (cr_lfirst r) (cr_modified r) with
  | Some l => l
  | None => cr_llast r
  end.

(** a PendingComment as far as it is modelled: path, line, anchor and the reports whose texts it carries *)
Record pending_shape := { ps_path : string; ps_line : Z; ps_anchor_before : bool; ps_members : list N }.

Definition make_comments (src : list creport) (show_dups : bool) : list pending_shape :=
  flat_map (fun g => match g with
                     | [] => []
                     | h :: _ => [{| ps_path := cr_target h; ps_line := comment_line h;
                                     ps_anchor_before := cr_anchor_before h; ps_members := map cr_id g |}]
                     end) (dedup_reports src show_dups).

(* ---------------------------------------------------------------------------------------------- *)
(** * updateDestination over an abstract platform *)

Record platform (E P : Type) := {
  is_equal : E -> P -> bool;       (* Commenter.IsEqual(dst, existing, pending) *)
  can_create : nat -> bool;        (* Commenter.CanCreate(created so far) *)
  can_delete : E -> bool;          (* Commenter.CanDelete(existing) *)
  create : P -> option E           (* Commenter.Create: what the store receives; None = errCommentSkipped (cannot be placed) *)
}.
Arguments is_equal {E P}. Arguments can_create {E P}. Arguments can_delete {E P}. Arguments create {E P}.

Record log (E P : Type) := {
  l_created : list (P * option E);   (* Create calls, in order, with what was stored *)
  l_deferred : list P;               (* refused by CanCreate *)
  l_deleted : list E }.              (* Delete calls *)
Arguments l_created {E P}. Arguments l_deferred {E P}. Arguments l_deleted {E P}.

Section Step.
  Context {E P : Type}.
  Variable pf : platform E P.

  Definition covered_by (store : list E) (p : P) : bool := existsb (fun e => is_equal pf e p) store.

  (** first loop: [existing] is the snapshot returned by List; it is NOT extended by the comments just created.
      [created] counts the comments actually placed: since fix 15e1a20 a Create that returns errCommentSkipped
      (the platform cannot place the comment: path outside the pull request) jumps to NEXTCreate WITHOUT created++ *)
  Fixpoint create_phase (existing : list E) (pend : list P) (created : nat) : list (P * option E) * list P :=
    match pend with
    | [] => ([], [])
    | p :: r =>
        if covered_by existing p then create_phase existing r created
        else if negb (can_create pf created) then
          let '(c, d) := create_phase existing r created in (c, p :: d)
        else
          match create pf p with
          | None => let '(c, d) := create_phase existing r created in ((p, None) :: c, d)
          | Some e => let '(c, d) := create_phase existing r (S created) in ((p, Some e) :: c, d)
          end
    end.

  (** historical variant (before fix 15e1a20): a skipped comment was counted like a placed one.  Kept only for
      the refutation theorem C17_counting_skips_starves_refuted in Properties/C17.v. *)
  Fixpoint create_phase_prefix (existing : list E) (pend : list P) (created : nat) : list (P * option E) * list P :=
    match pend with
    | [] => ([], [])
    | p :: r =>
        if covered_by existing p then create_phase_prefix existing r created
        else if negb (can_create pf created) then
          let '(c, d) := create_phase_prefix existing r created in (c, p :: d)
        else
          let '(c, d) := create_phase_prefix existing r (S created) in ((p, create pf p) :: c, d)
    end.

  (** second loop: an existing comment is deleted iff it equals no pending one and the platform allows it *)
  Definition stale (pend : list P) (e : E) : bool :=
    negb (existsb (fun p => is_equal pf e p) pend) && can_delete pf e.

  Definition stored (c : list (P * option E)) : list E :=
    flat_map (fun pe : P * option E => match snd pe with Some e => [e] | None => [] end) c.

  (** one reporting run: the store the next List will return, and what was done *)
  Definition step (store : list E) (pend : list P) : list E * log E P :=
    let '(c, d) := create_phase store pend 0 in
    ((filter (fun e => negb (stale pend e)) store ++ stored c)%list,
     {| l_created := c; l_deferred := d; l_deleted := filter (stale pend) store |}).

  Fixpoint run_n (n : nat) (store : list E) (pend : list P) : list E :=
    match n with
    | O => store
    | S k => run_n k (fst (step store pend)) pend
    end.

  Definition uncovered (store : list E) (pend : list P) : list P :=
    filter (fun p => negb (covered_by store p)) pend.

  (** a pending comment the platform can place at all *)
  Definition placeable (p : P) : bool := match create pf p with Some _ => true | None => false end.

  (** pending comments that are not covered yet and that the platform can place: what is left to do *)
  Definition todo (store : list E) (pend : list P) : list P :=
    filter (fun p => negb (covered_by store p) && placeable p) pend.

  Definition step_prefix (store : list E) (pend : list P) : list E * log E P :=
    let '(c, d) := create_phase_prefix store pend 0 in
    ((filter (fun e => negb (stale pend e)) store ++ stored c)%list,
     {| l_created := c; l_deferred := d; l_deleted := filter (stale pend) store |}).

  Fixpoint run_n_prefix (n : nat) (store : list E) (pend : list P) : list E :=
    match n with
    | O => store
    | S k => run_n_prefix k (fst (step_prefix store pend)) pend
    end.
End Step.
