(** Model of internal/git/changes.go as of /repo HEAD (after fixes 4dd7734, d9e7954 and e81cbba): parsing of the
    `git log --reverse --no-merges --first-parent --format=%H --name-status base..HEAD` text, path unquoting, the fold
    building the per-file change list ([getChangeByPath], [changesWithout]), and the finalisation
    (before/after type and body selection, the switch assigning ModifiedLines).

    git itself is an input: the log text, `ls-tree` answers ([type_at]), `cat-file` answers ([body_at], as ids of
    distinct contents) and parsed `blame` lines.  Symlinks are outside the modelled fragment (EffectivePath = Name).
    Executable definitions only. *)
From Coq Require Import List String Ascii ZArith NArith Bool.
From PintV Require Import Common.Bytes.
Import ListNotations.
Open Scope string_scope.

(** * strings.Split(line, "\t") *)
Definition tab : ascii := ascii_of_N 9.

Fixpoint split_tab_aux (s : string) (cur : string) : list string :=
  match s with
  | EmptyString => [cur]
  | String c r => if Ascii.eqb c tab then cur :: split_tab_aux r "" else split_tab_aux r (cur ++ String c "")
  end.
Definition split_tab (s : string) : list string := split_tab_aux s "".

(** * unquotePath: strconv.Unquote on the C-style quoting git uses for core.quotePath
    (backslash a b t n v f r, escaped double quote and backslash, three-digit octal escapes); anything else = not unquotable, string kept. *)
Definition octal_digit (c : ascii) : option N :=
  let n := N_of_ascii c in
  if (N.leb 48 n && N.leb n 55)%bool then Some (n - 48)%N else None.

Definition simple_escape (c : ascii) : option ascii :=
  let n := N_of_ascii c in
  if N.eqb n 97 then Some (ascii_of_N 7)         (* \a *)
  else if N.eqb n 98 then Some (ascii_of_N 8)    (* \b *)
  else if N.eqb n 102 then Some (ascii_of_N 12)  (* \f *)
  else if N.eqb n 110 then Some (ascii_of_N 10)  (* \n *)
  else if N.eqb n 114 then Some (ascii_of_N 13)  (* \r *)
  else if N.eqb n 116 then Some (ascii_of_N 9)   (* \t *)
  else if N.eqb n 118 then Some (ascii_of_N 11)  (* \v *)
  else if N.eqb n 92 then Some c                 (* \\ *)
  else if N.eqb n 34 then Some c                 (* escaped double quote *)
  else None.

(** body of a double-quoted Go string literal up to the closing quote, which must be the last byte *)
Fixpoint unquote_body (s : string) : option string :=
  match s with
  | EmptyString => None                                   (* no closing quote *)
  | String c r =>
    let n := N_of_ascii c in
    if N.eqb n 34 then match r with EmptyString => Some EmptyString | _ => None end
    else if N.eqb n 10 then None                           (* raw newline is not allowed *)
    else if N.eqb n 92 then
      match r with
      | String e r1 =>
        match simple_escape e with
        | Some x => match unquote_body r1 with Some t => Some (String x t) | None => None end
        | None =>
          match octal_digit e, r1 with
          | Some d1, String e2 (String e3 r3) =>
            match octal_digit e2, octal_digit e3 with
            | Some d2, Some d3 =>
              let v := (d1 * 64 + d2 * 8 + d3)%N in
              if N.ltb 255 v then None
              else match unquote_body r3 with Some t => Some (String (ascii_of_N v) t) | None => None end
            | _, _ => None
            end
          | _, _ => None
          end
        end
      | EmptyString => None
      end
    else match unquote_body r with Some t => Some (String c t) | None => None end
  end.

Definition unquote_path (s : string) : string :=
  match s with
  | String c r => if N.eqb (N_of_ascii c) 34 then match unquote_body r with Some t => t | None => s end else s
  | EmptyString => s
  end.

(** git's quoting of a path (quote.c: quote_c_style with core.quotePath=true), the specification [unquote_path] is
    proved to invert (Proofs/C03_changes.v). *)
Definition oct (n : N) : ascii := ascii_of_N (48 + n).
Definition quote_byte (c : ascii) : string :=
  let n := N_of_ascii c in
  let bsl := ascii_of_N 92 in
  if N.eqb n 7 then String bsl "a" else if N.eqb n 8 then String bsl "b" else if N.eqb n 12 then String bsl "f"
  else if N.eqb n 10 then String bsl "n" else if N.eqb n 13 then String bsl "r" else if N.eqb n 9 then String bsl "t"
  else if N.eqb n 11 then String bsl "v" else if N.eqb n 34 then String bsl (String c "") else if N.eqb n 92 then String bsl (String c "")
  else if (N.ltb n 32 || N.leb 127 n)%bool then
    String bsl (String (oct (n / 64)) (String (oct ((n / 8) mod 8)) (String (oct (n mod 8)) "")))
  else String c "".
Definition needs_quote (c : ascii) : bool :=
  let n := N_of_ascii c in (N.ltb n 32 || N.leb 127 n || N.eqb n 34 || N.eqb n 92)%bool.
Fixpoint quote_bytes (s : string) : string :=
  match s with EmptyString => EmptyString | String c r => quote_byte c ++ quote_bytes r end.
Fixpoint any_needs_quote (s : string) : bool :=
  match s with EmptyString => false | String c r => needs_quote c || any_needs_quote r end.
Definition git_quote (p : string) : string :=
  if any_needs_quote p then String (ascii_of_N 34) (quote_bytes p ++ String (ascii_of_N 34) "") else p.

(** * the scanner loop *)
Record entry := { le_commit : string; le_status : ascii; le_src : string; le_dst : string }.

(** [None] = Go panics (parts[0][0] on an empty first field) *)
Fixpoint parse_log (lines : list string) (commit : string) : option (list entry) :=
  match lines with
  | [] => Some []
  | l :: r =>
    match split_tab l with
    | [] => parse_log r commit
    | [p] => parse_log r (if String.eqb p "" then commit else p)
    | p0 :: p1 :: rest =>
      match p0 with
      | EmptyString => None
      | String s0 _ =>
        match parse_log r commit with
        | Some es => Some ({| le_commit := commit; le_status := s0; le_src := unquote_path p1;
                              le_dst := unquote_path (last rest p1) |} :: es)
        | None => None
        end
      end
    end
  end.

Inductive ptype := Missing | Dir | File | Symlink.
Definition ptype_eqb (a b : ptype) : bool :=
  match a, b with Missing, Missing | Dir, Dir | File, File | Symlink, Symlink => true | _, _ => false end.

Record change := {
  ch_status : ascii;
  ch_before : string;        (* Path.Before.Name; "" = no base version *)
  ch_after : string;         (* Path.After.Name *)
  ch_commits : list string
}.

(** getChangeByPath (fix d9e7954): the MOST RECENT record whose After.Name is the path (the loop runs from the end of
    the slice). *)
Definition has_after (p : string) (c : change) : bool := String.eqb (ch_after c) p.

Definition get_change_by_path (changes : list change) (p : string) : option change :=
  find (has_after p) (rev changes).

(** changesWithout(changes, prev) deletes by pointer identity; every record is a fresh allocation, so exactly one slice
    element goes: the one getChangeByPath returned, i.e. the last record whose After.Name is the path.  Older records with
    the same After.Name (a deletion a later rename landed on) stay. *)
Fixpoint remove_first {A} (f : A -> bool) (l : list A) : list A :=
  match l with
  | [] => []
  | x :: r => if f x then r else x :: remove_first f r
  end.

Definition changes_without (changes : list change) (p : string) : list change :=
  rev (remove_first (has_after p) (rev changes)).

Definition st (c : string) : ascii := match c with String a _ => a | _ => zero end.

Section Git.
  (** answers of git (inputs): type of a path at a revision, keyed by the revision expression pint uses *)
  Variable type_at : string -> string -> ptype.
  (** include/exclude filter and os.Stat of the working tree *)
  Variable allowed : string -> bool.
  Variable is_dir : string -> bool.

  Definition parent (commit : string) : string := commit ++ "^".

  Definition initial_before (e : entry) : string :=
    let s := le_status e in
    if (Ascii.eqb s (st "A") || Ascii.eqb s (st "C"))%bool then
      match type_at (parent (le_commit e)) (le_src e) with Missing => "" | _ => le_src e end
    else if (Ascii.eqb s (st "D") || Ascii.eqb s (st "R") || Ascii.eqb s (st "M") || Ascii.eqb s (st "T"))%bool then le_src e
    else "".

  (** fix e81cbba: `if status == FileCopied { prev = nil }` -- a copy leaves its source in place, the source keeps its own
      record and the new file starts a record of its own *)
  Definition is_copy (e : entry) : bool := Ascii.eqb (le_status e) (st "C").

  Definition step (changes : list change) (e : entry) : list change :=
    if negb (allowed (le_dst e)) then changes
    else if is_dir (le_dst e) then changes
    else
      match (if is_copy e then None else get_change_by_path changes (le_src e)) with
      | Some prev =>
        changes_without changes (le_src e) ++
          [{| ch_status := le_status e; ch_before := ch_before prev; ch_after := le_dst e;
              ch_commits := ch_commits prev ++ [le_commit e] |}]
      | None =>
        changes ++ [{| ch_status := le_status e; ch_before := initial_before e; ch_after := le_dst e;
                       ch_commits := [le_commit e] |}]
      end.

  Definition fold_log (es : list entry) : list change := fold_left step es [].

  (** * finalisation *)
  Variable body_at : string -> string -> N.      (* id of `cat-file blob rev:path` (0 = error/none) *)
  Variable body_lines : N -> N.                  (* CountLines of a body *)
  Variable blame : string -> string -> list (string * Z * Z).  (* (commit, PrevLine, Line) per line of rev -- path *)

  Record final := {
    f_change : change;
    f_before_type : ptype;
    f_after_type : ptype;
    f_body_before : N;
    f_body_after : N;
    f_mod : list Z
  }.

  Definition count_lines (n : N) : list Z := map Z.of_nat (seq 1 (N.to_nat n)).

  Definition modified_by (commits : list string) (bl : list (string * Z * Z)) : list Z :=
    flat_map (fun l => let '(c, prev, line) := l in
                       if (negb (mem_str c commits) && Z.eqb line prev)%bool then [] else [line]) bl.

  Definition finalise (c : change) : final :=
    let first := hd "" (ch_commits c) in
    let lastc := last (ch_commits c) "" in
    let has_before := negb (String.eqb (ch_before c) "") in
    let bt := if has_before then type_at (parent first) (ch_before c) else Missing in
    let bb := if has_before then body_at (parent first) (ch_before c) else 0%N in
    let has_after := (negb (String.eqb (ch_after c) "") && negb (Ascii.eqb (ch_status c) (st "D")))%bool in
    let at_ := if has_after then type_at lastc (ch_after c) else Missing in
    let ab := if has_after then body_at lastc (ch_after c) else 0%N in
    let ml :=
      match bt, at_ with
      | Missing, Missing => []
      | Missing, _ => count_lines (body_lines ab)
      | _, Symlink => count_lines (body_lines ab)
      | _, Missing => count_lines (body_lines bb)
      | _, _ =>
        let bl := modified_by (ch_commits c) (blame lastc (ch_after c)) in
        match bl with
        | [] => if String.eqb (ch_before c) (ch_after c) then [] else count_lines (body_lines ab)
        | _ => bl
        end
      end in
    {| f_change := c; f_before_type := bt; f_after_type := at_; f_body_before := bb; f_body_after := ab; f_mod := ml |}.

  Definition changes_of_log (lines : list string) : option (list final) :=
    match parse_log lines "" with
    | Some es => Some (map finalise (fold_log es))
    | None => None
    end.
End Git.
