(** internal/parser/read.go — the masking reader (ContentReader), byte-exact.

    [chunks f]            = the successive results of [bufio.Reader.ReadBytes('\n')] over the file bytes [f]
    [parse_comments]      = [ContentReader.parseComments] (flags, comment collection, diagnostics, masking)
    [empty_line]          = [ContentReader.emptyCurrentLine]
    [reader_impl tp f]    = the reader's state after the whole file was consumed through [Read]:
                            masked bytes ([r_out]), [lines], [comments], [diagnostics], [lineno] and the four flags.
    [r_yaml r]            = the bytes handed to the yaml decoder: since fix 670b316 [readNextLine] turns a trailing
                            CR LF of the (masked) chunk into LF after it appended the chunk to [lines]; a chunk
                            contains no LF but its last byte, so this is [crlf_to_lf] of the concatenation [r_out].
    An I/O error of the underlying reader is not modelled (the input is a byte string). *)
From Coq Require Import List String Ascii NArith ZArith Bool Arith.
From PintV Require Import Common.Bytes Model.CommentsUnicode Model.Comments.
Import ListNotations.
Open Scope string_scope.
Open Scope list_scope.

(** successive [ReadBytes('\n')] results: every chunk ends with the newline except possibly the last *)
Fixpoint chunks (s : string) : list string :=
  match s with
  | EmptyString => []
  | String c r =>
    if Ascii.eqb c nl then String c EmptyString :: chunks r
    else match chunks r with
         | [] => [String c EmptyString]
         | h :: t => String c h :: t
         end
  end.

(** [strings.TrimSuffix(s, "\n")] *)
Fixpoint strip_nl (s : string) : string :=
  match s with
  | EmptyString => EmptyString
  | String c EmptyString => if Ascii.eqb c nl then EmptyString else s
  | String c r => String c (strip_nl r)
  end.

Record rstate := { skipAll : bool; skipNext : bool; autoReset : bool; inBegin : bool }.

Definition rstate_init : rstate := {| skipAll := false; skipNext := false; autoReset := false; inBegin := false |}.

(** Diagnostic of ignore/file: (Line, FirstColumn, LastColumn) *)
Definition diag := (nat * nat * nat)%type.

Inductive skip_mode := SkipNone | SkipNextLine | SkipBegin | SkipEnd | SkipCurrentLine | SkipFile.

(** [emptyCurrentLine]: byte [i] becomes a space when it is not the newline and ([i < offset] or [inBegin]) *)
Fixpoint blank_from (i offset : nat) (all : bool) (s : string) : string :=
  match s with
  | EmptyString => EmptyString
  | String c r =>
    String (if Ascii.eqb c nl then c else if Nat.ltb i offset || all then " "%char else c)
           (blank_from (S i) offset all r)
  end.

Definition empty_line (st : rstate) (lc : list comment) (buf : string) : string :=
  let offset := match lc with c :: _ => c_off c | [] => String.length buf end in
  blank_from 0 offset (inBegin st) buf.

(** the [for _, comment := range lineComments] loop: (found, skip, collected comments, diagnostics) *)
Definition scan_acc := (bool * skip_mode * list comment * list diag)%type.

Definition scan1 (lineno buflen : nat) (acc : scan_acc) (c : comment) : scan_acc :=
  let '(found, skip, cs, ds) := acc in
  match c_type c with
  | IgnoreFileType => (true, SkipFile, cs, ds ++ [(lineno, S (c_off c), Nat.pred buflen)])
  | IgnoreLineType => (true, SkipCurrentLine, cs, ds)
  | IgnoreBeginType => (true, SkipBegin, cs, ds)
  | IgnoreEndType => (true, SkipEnd, cs, ds)
  | IgnoreNextLineType => (true, SkipNextLine, cs, ds)
  | FileOwnerType | FileDisableType | FileSnoozeType | InvalidComment => (found, skip, cs ++ [c], ds)
  | RuleOwnerType | DisableType | SnoozeType | RuleSetType | UnknownType => acc
  end.

Definition set_flags (a n r b : bool) : rstate := {| skipAll := a; skipNext := n; autoReset := r; inBegin := b |}.

(** [parseComments] given [lineComments]; returns (flags, masked buffer, collected comments, diagnostics) *)
Definition parse_comments (st : rstate) (lineno : nat) (buf : string) (lc : list comment)
  : rstate * string * list comment * list diag :=
  if skipAll st then (st, empty_line st lc buf, [], [])
  else
    let '(found, skip, cs, ds) := fold_left (scan1 lineno (String.length buf)) lc (false, SkipNone, [], []) in
    if found then
      match skip with
      | SkipFile => (set_flags true true false (inBegin st), empty_line st lc buf, cs, ds)
      | SkipCurrentLine =>
          (if inBegin st then st else set_flags (skipAll st) false true (inBegin st), empty_line st lc buf, cs, ds)
      | SkipNextLine => (set_flags (skipAll st) true true (inBegin st), buf, cs, ds)
      | SkipBegin => (set_flags (skipAll st) true false true, buf, cs, ds)
      | SkipEnd => (set_flags (skipAll st) false true false, buf, cs, ds)
      | SkipNone => (st, buf, cs, ds)
      end
    else if skipNext st then
      (if autoReset st then set_flags (skipAll st) false (autoReset st) (inBegin st) else st,
       empty_line st lc buf, cs, ds)
    else (st, buf, cs, ds).

Record rd := {
  r_st : rstate;
  r_out : string;              (* bytes handed to the yaml decoder *)
  r_lines : list string;
  r_comments : list comment;
  r_diags : list diag;
  r_lineno : nat
}.

Definition rd_init : rd :=
  {| r_st := rstate_init; r_out := EmptyString; r_lines := []; r_comments := []; r_diags := []; r_lineno := 0 |}.

Section WithTime.
Variable tp : string -> option Z.

(** [readNextLine] for a non-empty [ReadBytes] result *)
Definition read_line (r : rd) (buf : string) : rd :=
  let lineno := S (r_lineno r) in
  let '(st', buf', cs, ds) := parse_comments (r_st r) lineno buf (parse tp lineno buf) in
  {| r_st := st'; r_out := append (r_out r) buf'; r_lines := r_lines r ++ [strip_nl buf'];
     r_comments := r_comments r ++ cs; r_diags := r_diags r ++ ds; r_lineno := lineno |}.

Definition reader_chunks (bs : list string) (r : rd) : rd := fold_left read_line bs r.

Definition reader_impl (f : string) : rd := reader_chunks (chunks f) rd_init.

End WithTime.

(** fix 670b316: [if n := len(r.buf); n >= 2 && r.buf[n-2] == '\r' && r.buf[n-1] == '\n' { r.buf = append(r.buf[:n-2], '\n') }]
    applied to every chunk after [r.lines] was extended.  Every LF of the concatenation is the last byte of a chunk,
    so dropping the CR of each chunk-final CR LF is dropping every CR that is directly followed by LF. *)
Definition cr : ascii := ascii_of_N 13.

Fixpoint crlf_to_lf (s : string) : string :=
  match s with
  | EmptyString => EmptyString
  | String c r =>
      if Ascii.eqb c cr then
        match r with
        | String d _ => if Ascii.eqb d nl then crlf_to_lf r else String c (crlf_to_lf r)
        | EmptyString => String c EmptyString
        end
      else String c (crlf_to_lf r)
  end.

(** the bytes handed to the yaml decoder *)
Definition r_yaml (r : rd) : string := crlf_to_lf (r_out r).
