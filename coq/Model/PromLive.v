(** [novc]: expressions without constant vectors -- the fragment of the "live branch" refinement of C04. *)
From Coq Require Import List String Bool Floats NArith.
From PintV Require Import Common.Bytes Gen.C04 Model.PromQL Model.PromSem.
Import ListNotations.
Open Scope string_scope.
Open Scope list_scope.

(** ** Expressions without constant vectors

    [novc e]: no [vector(...)], no time function without argument (the only vector-typed operands the analyser
    considers "always returning"), and every call has at most one vector/matrix-typed argument position (true of
    every function of the table).  Every way source.go marks a result branch dead (static comparison folding,
    [unless on()], the right hand side of [or]) needs an always-returning vector operand, so on this fragment every
    vector-typed result branch is live: Proofs/C04_live.v. *)
Definition single_vec_arg (ats : list vtype) (args : list expr) : bool :=
  match first_vec_arg ats (List.length args) 0 with
  | Some i => forallb (fun j => Nat.eqb j i || negb (is_vec_or_matrix_t (arg_type_of ats j))) (seq 0 (List.length args))
  | None => true
  end.

Fixpoint novc (e : expr) : bool :=
  match e with
  | ENum _ | EStr _ | ESel _ => true
  | EMatrix e | ESubq e | EParen e | EUnary _ e => novc e
  | EAgg _ _ _ _ e => novc e
  | ECall f ats args =>
      match sem_class f with
      | SCVector => false
      | SCTimeLike => match args with [] => false | _ => true end
      | _ => true
      end && single_vec_arg ats args && forallb novc args
  | EBin _ _ _ a b => novc a && novc b
  end.
