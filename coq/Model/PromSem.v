(** Label/presence semantics of the PromQL fragment.

    A result is [RScalar | RStr | RVec series | RMat series]; a series is its label set (values of samples
    are abstracted away).  There is ONE executable LOCAL rule per operator, [local db e children R]:
    exact where labels and presence determine the result, an inclusion where sample values decide.
    [Sem] is the least relation closed under the local rules.  The very same function [local] is evaluated
    by the correspondence check on the vendored engine's result of EVERY sub-expression, given the engine's
    results of the children (Run/C04.v [sem_check]); so [Sem] ⊇ engine is validated node by node. *)
From Coq Require Import List String Bool Floats NArith.
From PintV Require Import Common.Bytes Gen.C04 Model.PromQL.
Import ListNotations.
Open Scope string_scope.
Open Scope list_scope.

Definition labelset := list (string * string).

Definition get (ls : labelset) (n : string) : string :=
  match assoc n ls with Some v => v | None => "" end.

Definition has (ls : labelset) (n : string) : bool := negb (String.eqb (get ls n) "").

Definition dom (ls : labelset) : list string := map fst ls.

(** extensional equality of label sets *)
Definition ls_agree_on (names : list string) (a b : labelset) : bool :=
  forallb (fun n => String.eqb (get a n) (get b n)) names.

Definition ls_eqb (a b : labelset) : bool := ls_agree_on (dom a ++ dom b) a b.

Definition ls_without (ls : labelset) (names : list string) : labelset :=
  filter (fun kv => negb (mem_str (fst kv) names)) ls.

Definition ls_keep (ls : labelset) (names : list string) : labelset :=
  filter (fun kv => mem_str (fst kv) names) ls.

Definition ls_set (ls : labelset) (n v : string) : labelset :=
  if String.eqb v "" then ls_without ls [n] else (n, v) :: ls_without ls [n].

Definition drop_name (ls : labelset) : labelset := ls_without ls [metric_name].

Inductive result := RScalar | RStr | RVec (l : list labelset) | RMat (l : list labelset) | RErr.

Definition series_of (r : result) : list labelset :=
  match r with RVec l | RMat l => l | _ => [] end.

Definition mem_ls (x : labelset) (l : list labelset) : bool := existsb (ls_eqb x) l.

Definition subset_ls (a b : list labelset) : bool := forallb (fun x => mem_ls x b) a.

Definition seteq_ls (a b : list labelset) : bool := subset_ls a b && subset_ls b a.

(** ** selectors *)

Definition is_regex (m : matcher) : bool := match m_type m with MRe | MNre => true | _ => false end.

(** non-regex matchers are decided exactly; regex matchers are left to the engine (inclusion only). *)
Definition matches1 (m : matcher) (ls : labelset) : bool :=
  match m_type m with
  | MEq => String.eqb (get ls (m_name m)) (m_value m)
  | MNe => negb (String.eqb (get ls (m_name m)) (m_value m))
  | _ => true
  end.

Definition matches (ms : list matcher) (ls : labelset) : bool := forallb (fun m => matches1 m ls) ms.

(** ** aggregation *)

Definition group_key (without : bool) (grouping : list string) (ls : labelset) : labelset :=
  if without then ls_without ls (metric_name :: grouping) else ls_keep ls grouping.

(** ** binary operators *)

Definition sig_match (vm : vmatch) (a b : labelset) : bool :=
  if vm_on vm then ls_agree_on (vm_labels vm) a b
  else ls_agree_on (filter (fun n => negb (mem_str n (metric_name :: vm_labels vm))) (dom a ++ dom b)) a b.

Definition should_drop_name (op : binop) : bool :=
  match op with OAdd | OSub | OMul | ODiv | OMod | OPow | OAtan2 => true | _ => false end.

(** engine's resultMetric: [l] is the "many" side (LHS for one-to-one). *)
Definition result_metric (op : binop) (rb : bool) (vm : vmatch) (l r : labelset) : labelset :=
  let m := if should_drop_name op || rb then drop_name l else l in
  let m := match vm_card vm with
           | OneToOne => if vm_on vm then ls_keep m (vm_labels vm) else ls_without m (vm_labels vm)
           | _ => m end in
  fold_left (fun m ln => ls_set m ln (get r ln)) (vm_include vm) m.

(** ** functions: the semantic classes (Prometheus behaviour, hand-written; validated against the engine) *)

Inductive semclass :=
| SCMap (keep_name exact : bool)   (* per-series function of the first vector/matrix argument *)
| SCAbsent | SCVector | SCScalar | SCTimeLike | SCDst (* label_replace / label_join *) | SCNone.

Definition sem_class (f : string) : semclass :=
  if mem_str f ["abs"; "sgn"; "acos"; "acosh"; "asin"; "asinh"; "atan"; "atanh"; "cos"; "cosh"; "sin"; "sinh"; "tan"; "tanh";
                "ceil"; "floor"; "round"; "deg"; "rad"; "ln"; "log10"; "log2"; "sqrt"; "exp"; "timestamp";
                "clamp_max"; "clamp_min"] then SCMap false true
  else if mem_str f ["clamp"; "changes"; "resets"; "avg_over_time"; "count_over_time"; "max_over_time"; "min_over_time";
                     "present_over_time"; "quantile_over_time"; "stddev_over_time"; "stdvar_over_time"; "sum_over_time";
                     "delta"; "idelta"; "increase"; "deriv"; "irate"; "rate"; "holt_winters"; "predict_linear"] then SCMap false false
  else if mem_str f ["sort"; "sort_desc"] then SCMap true true
  else if mem_str f ["last_over_time"] then SCMap true false
  else if mem_str f ["absent"; "absent_over_time"] then SCAbsent
  else if mem_str f ["vector"] then SCVector
  else if mem_str f ["scalar"; "time"; "pi"] then SCScalar
  else if mem_str f ["days_in_month"; "day_of_month"; "day_of_week"; "day_of_year"; "hour"; "minute"; "month"; "year"] then SCTimeLike
  else if mem_str f ["label_replace"; "label_join"] then SCDst
  else SCNone.

(** the engine unwraps the parentheses around call arguments before evaluating the call (unwrapParenExpr) *)
Fixpoint strip_parens (e : expr) : expr :=
  match e with EParen e' => strip_parens e' | _ => e end.

(** engine's createLabelsForAbsentFunction *)
Definition absent_labels (arg : expr) : labelset :=
  let ms := match strip_parens arg with ESel ms => Some ms | EMatrix (ESel ms) => Some ms | _ => None end in
  match ms with
  | None => []
  | Some ms =>
      fst (fold_left (fun (acc : labelset * list string) m =>
                        let '(b, seen) := acc in
                        if String.eqb (m_name m) metric_name then acc
                        else if matchtype_eqb (m_type m) MEq && negb (mem_str (m_name m) seen)
                             then (ls_set b (m_name m) (m_value m), m_name m :: seen)
                             else (ls_without b [m_name m], seen)) ms ([], []))
  end.

Definition is_vec_or_matrix_t (t : vtype) : bool := match t with VVector | VMatrix => true | _ => false end.

Definition arg_type_of (ats : list vtype) (i : nat) : vtype :=
  match nth_error ats i with Some t => t | None => last ats VUnset end.

(** index of the first vector/matrix-typed argument *)
Fixpoint first_vec_arg (ats : list vtype) (nargs : nat) (i : nat) : option nat :=
  match nargs with
  | O => None
  | S k => if is_vec_or_matrix_t (arg_type_of ats i) then Some i else first_vec_arg ats k (S i)
  end.

(** children in the pre-order of the harness (pqNodes) *)
Definition children (e : expr) : list expr :=
  match e with
  | ENum _ | EStr _ | ESel _ => []
  | EMatrix e | ESubq e | EParen e | EUnary _ e => [e]
  | EAgg _ _ _ (Some p) e => [p; e]
  | EAgg _ _ _ None e => [e]
  | ECall _ _ args => args
  | EBin _ _ _ l r => [l; r]
  end.

Definition is_series_result (r : result) : bool := match r with RVec _ | RMat _ => true | _ => false end.

Definition map_rule (keep_name exact : bool) (C R : list labelset) : bool :=
  let img := if keep_name then C else map drop_name C in
  subset_ls R img && (if exact then subset_ls img R else true).

(** aggregation over the series C of the operand *)
Definition agg_rule (op : aggop) (without : bool) (grouping : list string) (param : option expr)
           (C R : list labelset) : option bool :=
  match op with
  | ATopk | ABottomk => Some (subset_ls R C)
  | AOther => None
  | ACountValues =>
      (* the value label is set on the input series first, then the grouping is applied:
         by(G) keeps it (it is appended to G); without(G) deletes it when it is listed in G or is __name__ *)
      let dst := match lit_of param with Some s => s | None => "" end in   (* the engine unwraps parentheses *)
      let keeps := if without then negb (mem_str dst (metric_name :: grouping)) else true in
      let strip ls := ls_without ls [dst] in
      Some (forallb (fun out => Bool.eqb (has out dst) keeps
                                && mem_ls (strip out) (map (fun i => strip (group_key without grouping i)) C)) R
            && forallb (fun i => mem_ls (strip (group_key without grouping i)) (map strip R)) C)
  | _ => Some (seteq_ls R (map (group_key without grouping) C))
  end.

Definition call_rule (f : string) (ats : list vtype) (args : list expr) (cs : list result) (R : result) : option bool :=
  match sem_class f with
  | SCNone => None
  | SCScalar => Some (match R with RScalar => true | _ => false end)
  | SCVector => Some (match R with RVec R => seteq_ls R [[]] | _ => false end)
  | SCAbsent =>
      match cs, R, args with
      | [C], RVec R, [a] =>
          if is_series_result C then
            Some (match series_of C with [] => seteq_ls R [absent_labels a] | _ => seteq_ls R [] end)
          else Some false
      | _, _, _ => Some false
      end
  | SCTimeLike =>
      match cs, R with
      | [], RVec R => Some (seteq_ls R [[]])
      | [RVec C], RVec R => Some (map_rule false true C R)
      | _, _ => Some false
      end
  | SCMap keep exact =>
      match first_vec_arg ats (List.length args) 0, R with
      | Some i, RVec R =>
          match nth_error cs i with
          | Some C => if is_series_result C then Some (map_rule keep exact (series_of C) R) else Some false
          | None => Some false
          end
      | _, _ => Some false
      end
  | SCDst =>
      match cs, args, R with
      | RVec C :: _, _ :: a1 :: _, RVec R =>
          match lit_val a1 with   (* the engine unwraps parentheses around call arguments *)
          | Some dst =>
              let strip ls := ls_without ls [dst] in
              Some (subset_ls (map strip R) (map strip C) && subset_ls (map strip C) (map strip R))
          | None => Some false
          end
      | _, _, _ => Some false
      end
  end.

(** vector/scalar operation on the series V of the vector operand *)
Definition binscalar_rule (op : binop) (rb : bool) (V R : list labelset) : option bool :=
  if is_setop op then Some false
  else if is_comparison op && negb rb then Some (subset_ls R V)
  else Some (seteq_ls R (map drop_name V)).

(** vector/vector operation *)
Definition bin_rule (op : binop) (rb : bool) (vm : vmatch) (Cl Cr R : list labelset) : option bool :=
  match op with
  | OAnd => Some (seteq_ls R (filter (fun l => existsb (sig_match vm l) Cr) Cl))
  | OUnless => Some (seteq_ls R (filter (fun l => negb (existsb (sig_match vm l) Cr)) Cl))
  | OOr => Some (seteq_ls R (Cl ++ filter (fun r => negb (existsb (fun l => sig_match vm l r) Cl)) Cr))
  | _ =>
      let '(many, one) := match vm_card vm with OneToMany => (Cr, Cl) | _ => (Cl, Cr) end in
      let pairs := flat_map (fun m => map (fun o => (m, o)) (filter (sig_match vm m) one)) many in
      let outs := map (fun p => result_metric op rb vm (fst p) (snd p)) pairs in
      Some (subset_ls R outs && (if is_comparison op && negb rb then true else subset_ls outs R))
  end.

(** ** statically known operands of comparisons

    [const_val e]: the value of a syntactically constant operand (number, parentheses, vector(c), + - * / of
    constants); [None] for everything else, in particular for the constructs through which pint's
    ReturnedNumber is NOT the value (known finding K6: unary minus, other functions, aggregations, on()/group
    arithmetic) and for math.Mod/math.Pow. *)
Definition arith_val (op : binop) (x y : float) : option float :=
  match op with
  | OAdd => Some (PrimFloat.add x y) | OSub => Some (PrimFloat.sub x y)
  | OMul => Some (PrimFloat.mul x y) | ODiv => Some (PrimFloat.div x y)
  | _ => None
  end.

Fixpoint const_val (e : expr) : option float :=
  match e with
  | ENum v => Some v
  | EParen e => const_val e
  | ECall f ats [a] =>
      if String.eqb f "vector" && negb (is_vec_or_matrix_t (arg_type_of ats 0)) then const_val a else None
  | EBin op _ vm a b =>
      let plain := match vm with
                   | None => true
                   | Some vm => match vm_card vm with OneToOne => negb (vm_on vm) | _ => false end
                   end in
      if plain then
        match const_val a, const_val b with
        | Some x, Some y => arith_val op x y
        | _, _ => None
        end
      else None
  | _ => None
  end.

(** "x op y is certainly false": exactly the conditions under which calculateStaticReturn marks dead *)
Definition static_false (op : binop) (x y : float) : bool :=
  match op with
  | OEql => negb (PrimFloat.eqb x y)
  | ONeq => PrimFloat.eqb x y
  | OLte => PrimFloat.ltb y x
  | OLss => PrimFloat.leb y x
  | OGte => PrimFloat.ltb x y
  | OGtr => PrimFloat.leb x y
  | _ => false
  end.

(** a filtering comparison (no [bool]) of two statically known operands that is certainly false returns nothing *)
Definition static_rule (op : binop) (rb : bool) (l r : expr) (R : list labelset) : bool :=
  if is_comparison op && negb rb then
    match const_val l, const_val r with
    | Some x, Some y => if static_false op x y then match R with [] => true | _ => false end else true
    | _, _ => true
    end
  else true.

Definition and_opt (o : option bool) (c : bool) : option bool :=
  match o with Some b => Some (b && c) | None => None end.

(** [local db e children_results R]: [Some true] = R is admitted; [Some false] = not admitted;
    [None] = the node is outside the semantic fragment (no rule). *)
Definition local (db : list labelset) (e : expr) (cs : list result) (R : result) : option bool :=
  match e, cs, R with
  | ENum _, [], RScalar => Some true
  | EStr _, [], RStr => Some true
  | ESel ms, [], RVec R =>
      Some (forallb (fun ls => mem_ls ls db && matches ms ls) R
            && (if existsb is_regex ms then true else forallb (fun ls => negb (matches ms ls) || mem_ls ls R) db))
  | EMatrix _, [RVec C], RMat R => Some (seteq_ls R C)
  | ESubq _, [RVec C], RMat R => Some (seteq_ls R C)
  | ESubq _, [RScalar], _ => None      (* subquery over a scalar expression: outside the fragment *)
  | EParen _, [RVec C], RVec R => Some (seteq_ls R C)
  | EParen _, [RMat C], RMat R => Some (seteq_ls R C)
  | EParen _, [RScalar], RScalar => Some true
  | EParen _, [RStr], RStr => Some true
  | EUnary neg _, [RVec C], RVec R => Some (seteq_ls R (if neg then map drop_name C else C))
  | EUnary _ _, [RScalar], RScalar => Some true
  | EAgg op without grouping param _, [_; RVec C], RVec R => agg_rule op without grouping param C R
  | EAgg op without grouping param _, [RVec C], RVec R => agg_rule op without grouping param C R
  | ECall f ats args, cs, R => call_rule f ats args cs R
  | EBin op rb None _ _, [RScalar; RScalar], RScalar => Some true
  | EBin op rb None l r, [RVec V; RScalar], RVec R => and_opt (binscalar_rule op rb V R) (static_rule op rb l r R)
  | EBin op rb None l r, [RScalar; RVec V], RVec R => and_opt (binscalar_rule op rb V R) (static_rule op rb l r R)
  | EBin op rb (Some vm) l r, [RVec Cl; RVec Cr], RVec R => and_opt (bin_rule op rb vm Cl Cr R) (static_rule op rb l r R)
  | _, _, _ => Some false
  end.

(** [Sem db e R]: R is a result the semantics admits for e on database db. *)
Inductive Sem (db : list labelset) : expr -> result -> Prop :=
| SemNode : forall e cs R,
    Forall2 (Sem db) (children e) cs ->
    local db e cs R = Some true ->
    Sem db e R.

(** ** Validation walk: pre-order list of engine results -> failing nodes (tags). *)

Definition node_tag (e : expr) : string :=
  match e with
  | ENum _ => "num" | EStr _ => "str" | ESel _ => "selector" | EMatrix _ => "matrix" | ESubq _ => "subquery"
  | EParen _ => "paren" | EUnary _ _ => "unary" | EAgg _ _ _ _ _ => "aggregation"
  | ECall f _ _ => String.append "call:" f
  | EBin op _ None _ _ => "binary-scalar"
  | EBin op _ (Some _) _ _ => if is_setop op then "binary-set" else "binary-vector"
  end.

Definition is_err (r : result) : bool := match r with RErr => true | _ => false end.

(** returns (result of e, remaining results, tags of nodes whose engine result violates the local rule,
    number of nodes checked against a rule) *)
Fixpoint sem_check (db : list labelset) (e : expr) (rs : list result) : result * list result * list string * nat :=
  match rs with
  | [] => (RErr, [], ["results-exhausted"], O)
  | R :: rest =>
      let '(cs, rest, tags, n) :=
        match e with
        | ENum _ | EStr _ | ESel _ => ([], rest, [], O)
        | EMatrix e1 | ESubq e1 | EParen e1 | EUnary _ e1 =>
            let '(c, rest, t, n) := sem_check db e1 rest in ([c], rest, t, n)
        | EAgg _ _ _ (Some p) e1 =>
            let '(cp, rest, tp, np) := sem_check db p rest in
            let '(c, rest, t, n) := sem_check db e1 rest in ([cp; c], rest, tp ++ t, (np + n)%nat)
        | EAgg _ _ _ None e1 =>
            let '(c, rest, t, n) := sem_check db e1 rest in ([c], rest, t, n)
        | ECall _ _ args =>
            (fix go (l : list expr) (rest : list result) : list result * list result * list string * nat :=
               match l with
               | [] => ([], rest, [], O)
               | a :: r =>
                   let '(c, rest, t, n) := sem_check db a rest in
                   let '(cs, rest, t2, n2) := go r rest in
                   (c :: cs, rest, t ++ t2, (n + n2)%nat)
               end) args rest
        | EBin _ _ _ l r =>
            let '(cl, rest, tl, nl) := sem_check db l rest in
            let '(cr, rest, tr, nr) := sem_check db r rest in ([cl; cr], rest, tl ++ tr, (nl + nr)%nat)
        end in
      if is_err R || existsb is_err cs then (R, rest, tags, n)
      else match local db e cs R with
           | Some false => (R, rest, (String.append "sem:" (node_tag e)) :: tags, S n)
           | Some true => (R, rest, tags, S n)
           | None => (R, rest, tags, n)
           end
  end.

(** ** must_have: a conservative "every series of every result carries label l" analysis,
    sound on databases in which every series carries every label of the universe [U] (db_total). *)

Definition keep_name_fn (f : string) : bool :=
  match sem_class f with SCMap true _ => true | _ => false end.

Fixpoint must_have (U : list string) (e : expr) (l : string) {struct e} : bool :=
  match e with
  | ESel _ => mem_str l U
  | EMatrix e | ESubq e | EParen e => must_have U e l
  | EUnary neg e => (negb neg || negb (String.eqb l metric_name)) && must_have U e l
  | EAgg op without grouping _ e =>
      match op with
      | ATopk | ABottomk => must_have U e l
      | ACountValues | AOther => false
      | _ => if without then negb (String.eqb l metric_name) && negb (mem_str l grouping) && must_have U e l
             else mem_str l grouping && must_have U e l
      end
  | ECall f ats args =>
      match sem_class f with
      | SCMap keep _ =>
          match first_vec_arg ats (List.length args) 0 with
          | Some i => (keep || negb (String.eqb l metric_name)) &&
                      (fix nth_must (l' : list expr) (i : nat) {struct l'} : bool :=
                         match l' with
                         | [] => false
                         | a :: r => match i with O => must_have U a l | S k => nth_must r k end
                         end) args i
          | None => false
          end
      | _ => false
      end
  | EBin op rb None a b =>
      (* one side is a scalar (must_have of a scalar-typed expression is false) *)
      negb (is_setop op) && negb (String.eqb l metric_name) && (must_have U a l || must_have U b l)
  | EBin op rb (Some vm) a b =>
      match op with
      | OAnd | OUnless => must_have U a l
      | OOr => must_have U a l && must_have U b l
      | _ =>
          negb (String.eqb l metric_name) && negb (mem_str l (vm_include vm)) &&
          match vm_card vm with
          | OneToOne => (if vm_on vm then mem_str l (vm_labels vm) else negb (mem_str l (vm_labels vm))) && must_have U a l
          | ManyToOne => must_have U a l
          | OneToMany => must_have U b l
          | ManyToMany => false
          end
      end
  | _ => false
  end.

(** every stored series carries every label of [U] (the harness uses U = __name__ :: label universe) *)
Definition db_total (U : list string) (db : list labelset) : Prop :=
  forall ls, In ls db -> forall l, In l U -> has ls l = true.
